(* C15 -- schedule and send loop composed: what _repeated_enqueue_msg puts into the queue is what goes out. *)
From Coq Require Import List ZArith Lia Permutation.
From SDC Require Import Wsd.Udp Wsd.Udp_Proofs Wsd.SendLoop Wsd.SendLoop_Proofs.
Import ListNotations.
Open Scope Z_scope.

(* any history whose enqueues are the schedule of one message plus arbitrary other traffic, in any interleaving
   with the polls of the send thread; [now] is a clock value after every due time *)
Theorem wire_transmissions p d0 g es others now n :
  Permutation (puts es) (others ++ schedule_ms p d0 g) ->
  Forall (fun x => fst x <= now) (puts es) -> (length (puts es) <= n)%nat ->
  let s := srun (es ++ List.repeat (Tick now) n) in
  fst s = [] /\
  Permutation (sent_items s) (others ++ schedule_ms p d0 g) /\
  length (schedule_ms p d0 g) = S (repeat p) /\
  on_time s.
Proof.
  intros Hp Hall Hlen s. destruct (sendloop_drains es now n Hall Hlen) as (Hq & Hs & Ht). fold s in Hq, Hs, Ht.
  repeat split; [exact Hq | now rewrite Hs | apply schedule_length | exact Ht].
Qed.

(* the history the code produces when nothing else happens: all entries of the message are put, then polls *)
Lemma puts_map_Put l : puts (map Put l) = l.
Proof. induction l as [|x l IH]; [reflexivity|]. cbn [map puts flat_map app]. fold (puts (map Put l)). now rewrite IH. Qed.

Theorem wire_single_message p d0 g now n :
  Forall (fun x => fst x <= now) (schedule_ms p d0 g) -> (S (repeat p) <= n)%nat ->
  let s := srun (map Put (schedule_ms p d0 g) ++ List.repeat (Tick now) n) in
  fst s = [] /\ Permutation (sent_items s) (schedule_ms p d0 g) /\ length (sent_items s) = S (repeat p) /\ on_time s.
Proof.
  intros Hall Hlen s.
  destruct (wire_transmissions p d0 g (map Put (schedule_ms p d0 g)) [] now n) as (Hq & Hs & Hl & Ht).
  - now rewrite puts_map_Put.
  - now rewrite puts_map_Put.
  - rewrite puts_map_Put, schedule_length. exact Hlen.
  - fold s in Hq, Hs, Ht. cbn [app] in Hs. repeat split; [exact Hq | exact Hs | | exact Ht].
    rewrite (Permutation_length Hs). exact Hl.
Qed.
