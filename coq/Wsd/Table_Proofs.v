(* Proofs about the remote-service table and the message handlers (Wsd/Table.v). *)
From Coq Require Import List NArith ZArith PeanoNat Bool Lia.
From SDC Require Import Location.Quote Location.Loc Location.Proofs Wsd.Match Wsd.Match_Proofs Wsd.Udp Wsd.Table.
Import ListNotations.
Open Scope Z_scope.

(* ================================================================ dict lemmas *)
Lemma t_get_set_same : forall k v t, t_get k (t_set k v t) = Some v.
Proof.
  intros k v t. induction t as [|[k' v'] r IH]; simpl.
  - now rewrite bytes_eqb_refl.
  - destruct (bytes_eqb k k') eqn:E; simpl; rewrite E; auto.
Qed.

Lemma t_get_set_other : forall k k' v t, bytes_eqb k k' = false -> t_get k (t_set k' v t) = t_get k t.
Proof.
  intros k k' v t H. induction t as [|[k2 v2] r IH]; simpl.
  - now rewrite H.
  - destruct (bytes_eqb k' k2) eqn:E; simpl.
    + apply bytes_eqb_eq in E. subst k2. now rewrite H.
    + destruct (bytes_eqb k k2); auto.
Qed.

Lemma t_get_del_same : forall k t, t_get k (t_del k t) = None.
Proof.
  intros k t. unfold t_del. induction t as [|[k' v'] r IH]; simpl; auto.
  destruct (bytes_eqb k k') eqn:E; simpl; auto. now rewrite E.
Qed.

Lemma bytes_eqb_sym : forall a b, bytes_eqb a b = bytes_eqb b a.
Proof.
  intros a b. destruct (bytes_eqb a b) eqn:E.
  - apply bytes_eqb_eq in E. subst. symmetry. apply bytes_eqb_refl.
  - symmetry. apply bytes_eqb_neq. apply bytes_eqb_neq in E. congruence.
Qed.

Lemma t_get_del_other : forall k k' t, bytes_eqb k k' = false -> t_get k (t_del k' t) = t_get k t.
Proof.
  intros k k' t H. unfold t_del. induction t as [|[k2 v2] r IH]; simpl; auto.
  destruct (bytes_eqb k' k2) eqn:E; simpl.
  - apply bytes_eqb_eq in E. subst k2. now rewrite H.
  - destruct (bytes_eqb k k2); auto.
Qed.

(* ================================================================ highest metadata version since the last Bye *)
Lemma zmax_cons : forall x r, r <> [] -> zmax (x :: r) = Z.max x (zmax r).
Proof. intros x [|y r] H; [congruence|reflexivity]. Qed.

Lemma add_remote_other : forall t s k, bytes_eqb k (s_epr s) = false -> t_get k (add_remote t s) = t_get k t.
Proof.
  intros t s k H. unfold add_remote. destruct (negb (nonempty (s_epr s))); auto.
  destruct (t_get (s_epr s) t) as [kn|]; [|now apply t_get_set_other].
  destruct (s_mdv s =? s_mdv kn); [now apply t_get_set_other|].
  destruct (s_mdv kn <? s_mdv s); [now apply t_get_set_other|reflexivity].
Qed.

Definition table_entry_ok (epr : bytes) (rh : list tev) (e : option service) : Prop :=
  match e with
  | None => recent epr rh = []
  | Some s => recent epr rh <> [] /\ s_mdv s = zmax (recent epr rh) /\ s_epr s = epr
  end.

Lemma recent_ann : forall epr s r,
  recent epr (TAnn s :: r) = if bytes_eqb epr (s_epr s) then s_mdv s :: recent epr r else recent epr r.
Proof. reflexivity. Qed.
Lemma recent_bye : forall epr e r, recent epr (TBye e :: r) = if bytes_eqb epr e then [] else recent epr r.
Proof. reflexivity. Qed.

Theorem table_max_version : forall rh epr, epr <> [] ->
  table_entry_ok epr rh (t_get epr (table_of rh)).
Proof.
  intros rh epr Hne. unfold table_entry_ok. induction rh as [|[s|e] r IH].
  - reflexivity.
  - cbn [table_of]. rewrite recent_ann. destruct (bytes_eqb epr (s_epr s)) eqn:E.
    + apply bytes_eqb_eq in E. subst epr. unfold add_remote.
      assert (nonempty (s_epr s) = true) as -> by (destruct (s_epr s); [congruence|reflexivity]). cbn [negb].
      destruct (t_get (s_epr s) (table_of r)) as [kn|] eqn:G.
      * destruct IH as (Hr & Hm & He).
        destruct (Z.eqb_spec (s_mdv s) (s_mdv kn)) as [Eq|Neq].
        { rewrite t_get_set_same. unfold merge. cbn [s_mdv s_epr].
          split; [discriminate|]. split; [|exact He]. rewrite zmax_cons by auto. lia. }
        destruct (Z.ltb_spec (s_mdv kn) (s_mdv s)).
        { rewrite t_get_set_same.
          split; [discriminate|]. split; [|reflexivity]. rewrite zmax_cons by auto. lia. }
        { rewrite G.
          split; [discriminate|]. split; [|exact He]. rewrite zmax_cons by auto. lia. }
      * rewrite t_get_set_same. rewrite IH.
        split; [discriminate|]. split; reflexivity.
    + rewrite add_remote_other by auto. exact IH.
  - cbn [table_of]. rewrite recent_bye. destruct (bytes_eqb epr e) eqn:E.
    + apply bytes_eqb_eq in E. subst e. rewrite t_get_del_same. reflexivity.
    + rewrite t_get_del_other by auto. exact IH.
Qed.

(* the empty endpoint reference is never stored *)
Lemma table_no_empty_epr : forall rh, t_get [] (table_of rh) = None.
Proof.
  induction rh as [|[s|e] r IH]; simpl; auto.
  - unfold add_remote. destruct (s_epr s) as [|c x] eqn:E; simpl; auto.
    destruct (t_get (c :: x) (table_of r)).
    + destruct (_ =? _); [now rewrite t_get_set_other|]. destruct (_ <? _); [now rewrite t_get_set_other|auto].
    + now rewrite t_get_set_other.
  - destruct e as [|c x]; [apply t_get_del_same|now rewrite t_get_del_other].
Qed.

(* ================================================================ the handlers change the table exactly by announcements / byes *)
Definition apply_tev (t : table) (e : tev) : table :=
  match e with TAnn s => add_remote t s | TBye epr => t_del epr t end.

Definition tevs_of (allow : bool) (m : msg) : list tev :=
  match m with
  | MHello a s => match eff_iid allow a with Some iid => [TAnn (with_iid iid s)] | None => [] end
  | MBye epr _ => [TBye epr]
  | MProbeMatches a ms => match eff_iid allow a with Some iid => map (fun s => TAnn (with_iid iid s)) ms | None => [] end
  | MResolveMatches a (Some s) => match eff_iid allow a with Some iid => [TAnn (with_iid iid s)] | None => [] end
  | _ => []
  end.

Lemma table_of_app : forall l rh, fold_left apply_tev l (table_of rh) = table_of (rev l ++ rh).
Proof.
  induction l as [|e l IH]; intros rh; simpl; auto.
  rewrite <- app_assoc. simpl. rewrite <- IH. destruct e; reflexivity.
Qed.

Section Handlers.
  Variable M : mconsts.
  Variable fixed : bool.
  Variable split : bytes -> sres.
  Variable allow : bool.

  Lemma probe_matches_table : forall ms t iid,
    fst (probe_matches t iid ms) = fold_left apply_tev (map (fun s => TAnn (with_iid iid s)) ms) t.
  Proof.
    induction ms as [|m r IH]; intros t iid; simpl; auto.
    destruct (probe_matches (add_remote t (with_iid iid m)) iid r) as [t2 os] eqn:E. simpl.
    rewrite <- IH, E. reflexivity.
  Qed.

  Lemma probe_matches_outs : forall ms t iid o, In o (snd (probe_matches t iid ms)) -> exists e, o = OResolve e.
  Proof.
    induction ms as [|m r IH]; intros t iid o; simpl; [tauto|].
    destruct (probe_matches (add_remote t (with_iid iid m)) iid r) as [t2 os] eqn:E. simpl.
    rewrite in_app_iff. intros [H|H].
    - destruct (s_xaddrs m); simpl in H.
      + destruct H as [<-|[]]; eauto.
      + destruct (s_types m); simpl in H; [destruct H as [<-|[]]; eauto|].
        destruct (s_scopes m); simpl in H; [tauto|destruct H as [<-|[]]; eauto].
    - apply (IH (add_remote t (with_iid iid m)) iid). now rewrite E.
  Qed.

  Theorem handle_remote : forall d m,
    remote (fst (handle M fixed split allow d m)) = fold_left apply_tev (tevs_of allow m) (remote d) /\
    local (fst (handle M fixed split allow d m)) = local d.
  Proof.
    intros d m. destruct m as [a s|epr bx|types scopes|a ms|epr|a [s|]|]; simpl; auto;
      try (destruct (eff_iid allow a) as [iid|]; simpl; auto).
    - destruct (filter_services M fixed split (t_values (local d)) types scopes); simpl; auto.
    - destruct (probe_matches (remote d) iid ms) as [t os] eqn:E. simpl. split; auto.
      rewrite <- probe_matches_table, E. reflexivity.
    - destruct (t_get epr (local d)); simpl; auto.
  Qed.

  (* ------------------------------------------------------------ Resolve is answered only for a published endpoint reference *)
  Theorem resolve_only_published : forall d m s,
    In (OResolveMatch s) (snd (handle M fixed split allow d m)) ->
    exists epr, m = MResolve epr /\ t_get epr (local d) = Some s.
  Proof.
    intros d m s. destruct m as [a sv|epr bx|types scopes|a ms|epr|a [sv|]|]; simpl; try tauto;
      try (destruct (eff_iid allow a) as [iid|]; simpl; try tauto).
    - destruct (s_xaddrs sv); simpl; [intros [H|[]]; discriminate|tauto].
    - destruct (filter_services M fixed split (t_values (local d)) types scopes); simpl; [|tauto].
      rewrite in_map_iff. intros (x & H & _). discriminate.
    - destruct (probe_matches (remote d) iid ms) as [t os] eqn:E. simpl. intros H.
      destruct (probe_matches_outs ms (remote d) iid (OResolveMatch s)) as [e He]; [now rewrite E|discriminate].
    - destruct (t_get epr (local d)) as [k|] eqn:G; simpl; [|tauto].
      intros [H|[]]. injection H as ->. eauto.
  Qed.

  Theorem resolve_published_answered : forall d epr s,
    t_get epr (local d) = Some s -> handle M fixed split allow d (MResolve epr) = (d, [OResolveMatch s]).
  Proof. intros d epr s H. simpl. now rewrite H. Qed.

  (* ProbeMatch messages are only ever sent in answer to a Probe *)
  Theorem probe_match_only_for_probe : forall d m s,
    In (OProbeMatch s) (snd (handle M fixed split allow d m)) -> exists types scopes, m = MProbe types scopes.
  Proof.
    intros d m s. destruct m as [a sv|epr bx|types scopes|a ms|epr|a [sv|]|]; simpl; try tauto; eauto;
      try (destruct (eff_iid allow a) as [iid|]; simpl; try tauto).
    - destruct (s_xaddrs sv); simpl; [intros [H|[]]; discriminate|tauto].
    - destruct (probe_matches (remote d) iid ms) as [t os] eqn:E. simpl. intros H.
      destruct (probe_matches_outs ms (remote d) iid (OProbeMatch s)) as [e He]; [now rewrite E|discriminate].
    - destruct (t_get epr (local d)); simpl; [intros [H|[]]; discriminate|tauto].
  Qed.
  (* ------------------------------------------------------------ a Bye ends the history of its endpoint reference, whatever else it carries *)
  Theorem bye_clears : forall d epr bx,
    handle M fixed split allow d (MBye epr bx) = (mkD (t_del epr (remote d)) (local d), []) /\
    t_get epr (remote (fst (handle M fixed split allow d (MBye epr bx)))) = None /\
    (forall k, bytes_eqb k epr = false ->
               t_get k (remote (fst (handle M fixed split allow d (MBye epr bx)))) = t_get k (remote d)).
  Proof.
    intros d epr bx. cbn [handle fst remote]. split; [reflexivity|]. split; [apply t_get_del_same|].
    intros k H. now apply t_get_del_other.
  Qed.

  (* a Probe naming a matching rule the node does not implement, with at least one scope, is not answered *)
  Theorem probe_unknown_rule : forall d types mb u us,
    is_rfc M mb = false -> is_strcmp M mb = false ->
    handle M fixed split allow d (MProbe types (Some (mb, u :: us))) = (d, []).
  Proof. intros d types mb u us H1 H2. cbn [handle]. now rewrite filter_services_other by auto. Qed.
End Handlers.

(* ---------------------------------------------------------------- Probe: exactly the matching published services (repaired code) *)
Theorem probe_exact : forall M split allow d types scopes,
  handle M true split allow d (MProbe types scopes) =
  (d, map OProbeMatch (filter (matchesb M true split types scopes) (t_values (local d)))).
Proof. intros. simpl. now rewrite filter_services_ret. Qed.

(* ---------------------------------------------------------------- a remembered id is not acted on *)
Theorem known_id_not_acted : forall M fixed split allow cap n mid m,
  is_known (kn_ids n) mid = true -> deliver M fixed split allow cap n mid m = (n, []).
Proof. intros. unfold deliver. now rewrite H. Qed.

(* ---------------------------------------------------------------- any sequence of received messages *)
Section History.
  Variable M : mconsts.
  Variable fixed : bool.
  Variable split : bytes -> sres.
  Variable allow : bool.

  Fixpoint handle_all (d : dstate) (ms : list msg) : dstate :=
    match ms with
    | [] => d
    | m :: r => handle_all (fst (handle M fixed split allow d m)) r
    end.

  Lemma handle_all_remote : forall ms d,
    remote (handle_all d ms) = fold_left apply_tev (flat_map (tevs_of allow) ms) (remote d).
  Proof.
    induction ms as [|m r IH]; intros d; simpl; auto.
    rewrite IH. destruct (handle_remote M fixed split allow d m) as [-> _]. now rewrite fold_left_app.
  Qed.

  Theorem table_after_messages : forall ms epr, epr <> [] ->
    table_entry_ok epr (rev (flat_map (tevs_of allow) ms)) (t_get epr (remote (handle_all (mkD [] []) ms))).
  Proof.
    intros ms epr H. rewrite handle_all_remote. simpl remote.
    change (@nil (bytes * service)) with (table_of []). rewrite table_of_app, app_nil_r.
    now apply table_max_version.
  Qed.
  (* the first announcement after a Bye is recorded as it is, whatever version was recorded before the Bye
     and whatever the Bye carried ("since its last Bye" read literally) *)
  Lemma add_after_del : forall t s, s_epr s <> [] -> t_get (s_epr s) (add_remote (t_del (s_epr s) t) s) = Some s.
  Proof.
    intros t s H. unfold add_remote.
    assert (nonempty (s_epr s) = true) as -> by (destruct (s_epr s); [congruence|reflexivity]). cbn [negb].
    rewrite t_get_del_same. apply t_get_set_same.
  Qed.

  Theorem announcement_after_bye : forall d bx a iid s, s_epr s <> [] -> eff_iid allow a = Some iid ->
    t_get (s_epr s) (remote (handle_all d [MBye (s_epr s) bx; MHello a s])) = Some (with_iid iid s) /\
    t_get (s_epr s) (remote (handle_all d [MBye (s_epr s) bx; MResolveMatches a (Some s)])) = Some (with_iid iid s) /\
    t_get (s_epr s) (remote (handle_all d [MBye (s_epr s) bx; MProbeMatches a [s]])) = Some (with_iid iid s).
  Proof.
    intros d bx a iid s H E.
    pose proof (add_after_del (remote d) (with_iid iid s) H) as A. cbn [with_iid s_epr] in A.
    repeat split; cbn [handle_all handle]; rewrite E; cbn [fst remote probe_matches]; try exact A.
  Qed.

  (* ------------------------------------------------------------ what makes an announcement acted on *)
  (* an AppSequence with ANY InstanceId (0 included) is acted on, with or without the option *)
  Theorem announcement_with_appseq : forall d iid s ms,
    handle M fixed split allow d (MHello (Some iid) s) =
      (mkD (add_remote (remote d) (with_iid iid s)) (local d), match s_xaddrs s with [] => [OResolve (s_epr s)] | _ => [] end) /\
    handle M fixed split allow d (MResolveMatches (Some iid) (Some s)) =
      (mkD (add_remote (remote d) (with_iid iid s)) (local d), []) /\
    remote (fst (handle M fixed split allow d (MProbeMatches (Some iid) ms))) =
      fold_left apply_tev (map (fun s => TAnn (with_iid iid s)) ms) (remote d).
  Proof.
    intros d iid s ms. repeat split. cbn [handle eff_iid].
    destruct (probe_matches (remote d) iid ms) as [t os] eqn:E. cbn [fst remote].
    rewrite <- probe_matches_table, E. reflexivity.
  Qed.
End History.

(* without AppSequence: ignored when the option is off, handled exactly like InstanceId 0 when it is on *)
Theorem announcement_without_appseq : forall M fixed split d,
  (forall s, handle M fixed split false d (MHello None s) = (d, [])) /\
  (forall ms, handle M fixed split false d (MProbeMatches None ms) = (d, [])) /\
  (forall m, handle M fixed split false d (MResolveMatches None m) = (d, [])) /\
  (forall s, handle M fixed split true d (MHello None s) = handle M fixed split true d (MHello (Some 0) s)) /\
  (forall ms, handle M fixed split true d (MProbeMatches None ms) = handle M fixed split true d (MProbeMatches (Some 0) ms)) /\
  (forall m, handle M fixed split true d (MResolveMatches None m) = handle M fixed split true d (MResolveMatches (Some 0) m)).
Proof. intros. repeat split; reflexivity. Qed.
