From Coq Require Import List ZArith Bool Lia.
From SDC Require Import Wsd.Udp.
Import ListNotations.
Open Scope Z_scope.

Lemma sends_length n idx t d u : length (sends n idx t d u) = n.
Proof. revert idx t d; induction n as [|n IH]; intros; simpl; [reflexivity|]. now rewrite IH. Qed.

Lemma schedule_length p d0 g : length (schedule_ms p d0 g) = S (repeat p).
Proof. unfold schedule_ms; simpl. now rewrite sends_length. Qed.

Lemma gaps_sends n idx t d u :
  gaps (t :: map fst (sends n idx t d u)) = gap_seq n d u.
Proof.
  revert idx t d; induction n as [|n IH]; intros idx t d; [reflexivity|].
  cbn [sends map fst gap_seq].
  change (gaps (t :: t + d :: map fst (sends n (idx + 1) (t + d) (Z.min (2 * d) u) u)))
    with ((t + d - t) :: gaps (t + d :: map fst (sends n (idx + 1) (t + d) (Z.min (2 * d) u) u))).
  rewrite IH. f_equal. lia.
Qed.

Lemma schedule_gaps p d0 g :
  gaps (times (schedule_ms p d0 g)) = gap_seq (repeat p) g (upper_ms p).
Proof. unfold schedule_ms, times. cbn [map fst]. apply gaps_sends. Qed.

Lemma gap_seq_length n g u : length (gap_seq n g u) = n.
Proof. revert g; induction n as [|n IH]; intros; simpl; [reflexivity|]. now rewrite IH. Qed.

Lemma gap_seq_le n g u : g <= u -> Forall (fun x => x <= u) (gap_seq n g u).
Proof.
  revert g; induction n as [|n IH]; intros g H; simpl; constructor; [exact H|].
  apply IH. lia.
Qed.

Lemma gap_seq_nth_succ n g u k :
  (S k < n)%nat -> nth (S k) (gap_seq n g u) 0 = Z.min (2 * nth k (gap_seq n g u) 0) u.
Proof.
  revert g k; induction n as [|n IH]; intros g k H; [lia|].
  destruct k as [|k].
  - destruct n as [|n]; [lia|]. reflexivity.
  - cbn [gap_seq nth]. apply IH. lia.
Qed.

Lemma gap_seq_head n g u : (0 < n)%nat -> nth 0 (gap_seq n g u) 0 = g.
Proof. destruct n; [lia|reflexivity]. Qed.

Lemma schedule_first p d0 g : nth 0 (times (schedule_ms p d0 g)) 0 = d0.
Proof. reflexivity. Qed.

Lemma sends_idx n idx t d u k :
  (k < n)%nat -> snd (nth k (sends n idx t d u) (0, 0)) = idx + Z.of_nat k.
Proof.
  revert idx t d k; induction n as [|n IH]; intros idx t d k H; [lia|].
  destruct k as [|k]; cbn [sends nth snd]; [lia|]. rewrite IH by lia. lia.
Qed.

(* The envelope: the statement of C15, first half. *)
Definition envelope (p : params) (d0 g : Z) : Prop :=
  let ts := times (schedule_ms p d0 g) in
  let gs := gaps ts in
  length ts = S (repeat p) /\
  nth 0 ts 0 = d0 /\ 0 <= nth 0 ts 0 <= init_ms p /\
  length gs = repeat p /\
  ((0 < repeat p)%nat -> nth 0 gs 0 = g /\ min_ms p <= nth 0 gs 0 < max_ms p) /\
  (forall k, (S k < repeat p)%nat -> nth (S k) gs 0 = Z.min (2 * nth k gs 0) (upper_ms p)) /\
  Forall (fun x => x <= upper_ms p) gs.

Lemma envelope_holds p d0 g :
  wf p -> 0 <= d0 <= init_ms p -> min_ms p <= g < max_ms p -> envelope p d0 g.
Proof.
  intros (Hi & Hm & Hmm & Hu) Hd Hg. unfold envelope. cbv zeta.
  rewrite schedule_gaps. unfold times at 1. rewrite map_length, schedule_length.
  rewrite gap_seq_length. repeat split; try (cbn; lia).
  - now rewrite gap_seq_head.
  - rewrite gap_seq_head by assumption. lia.
  - rewrite gap_seq_head by assumption. lia.
  - intros k Hk. now apply gap_seq_nth_succ.
  - apply gap_seq_le. lia.
Qed.

Lemma wfb_wf p : wfb p = true -> wf p.
Proof. unfold wfb, wf. intros H. repeat (apply andb_prop in H as [H ?]). lia. Qed.

(* the boolean twin agrees with the statement on the part it checks *)
Lemma check_envelope_true p d0 g :
  wf p -> 0 <= d0 <= init_ms p -> min_ms p <= g < max_ms p -> check_envelope p d0 g = true.
Proof.
  intros Hwf Hd Hg. unfold check_envelope. cbv zeta.
  rewrite schedule_gaps. unfold times. rewrite map_length, schedule_length, Nat.eqb_refl.
  cbn [schedule_ms map fst andb].
  replace (0 <=? d0) with true by lia. replace (d0 <=? init_ms p) with true by lia. cbn [andb].
  destruct Hwf as (_ & _ & _ & Hu).
  assert (G : forall n g0 first, g0 <= upper_ms p -> (first = true -> min_ms p <= g0 < max_ms p) ->
          envelope_gaps_ok first (gap_seq n g0 (upper_ms p)) p = true).
  { induction n as [|n IH]; intros g0 first H0 Hf; [reflexivity|].
    cbn [gap_seq envelope_gaps_ok].
    rewrite (IH (Z.min (2 * g0) (upper_ms p)) false) by (try lia; discriminate).
    replace (g0 <=? upper_ms p) with true by lia.
    destruct first; [specialize (Hf eq_refl); replace (min_ms p <=? g0) with true by lia;
                     replace (g0 <? max_ms p) with true by lia|];
    destruct n; cbn [gap_seq andb]; try reflexivity; now rewrite Z.eqb_refl. }
  apply G; [lia|intros _; lia].
Qed.

(* ---------------------------------------------------------------- dedup *)
Section DedupProofs.
  Variable cap : nat.
  Hypothesis cap_pos : (0 < cap)%nat.

  Lemma is_known_In k id : is_known k id = true <-> In id k.
  Proof.
    unfold is_known. rewrite existsb_exists. split.
    - intros (x & Hx & E). apply Z.eqb_eq in E. now subst.
    - intros H. exists id. split; [assumption|apply Z.eqb_refl].
  Qed.

  Lemma remember_head k id : is_known (remember cap k id) id = true.
  Proof.
    unfold remember. destruct cap as [|c]; [lia|]. cbn [firstn]. apply is_known_In. now left.
  Qed.

  (* position of an id in the memory (newest first) *)
  Fixpoint pos (k : known) (id : Z) : option nat :=
    match k with
    | [] => None
    | x :: r => if Z.eqb id x then Some O else option_map S (pos r id)
    end.

  Lemma pos_some_in k id n : pos k id = Some n -> In id k.
  Proof.
    revert n; induction k as [|x r IH]; intros n; cbn [pos]; [discriminate|].
    destruct (Z.eqb_spec id x) as [->|_]; [now left|].
    destruct (pos r id) eqn:E; [|discriminate]. intros _. right. now apply (IH n0).
  Qed.

  Lemma pos_firstn k id n m : pos k id = Some n -> (n < m)%nat -> pos (firstn m k) id = Some n.
  Proof.
    revert n m; induction k as [|x r IH]; intros n m; cbn [pos]; [discriminate|].
    destruct m as [|m]; [lia|]. cbn [firstn pos].
    destruct (Z.eqb_spec id x) as [->|_]; [auto|].
    destruct (pos r id) eqn:E; cbn [option_map]; [|discriminate].
    intros [= <-] H. rewrite (IH n0 m eq_refl) by lia. reflexivity.
  Qed.

  (* one event moves an id back by at most one position, and only if it inserts a new entry *)
  Definition inserts (k : known) (e : ev) : bool :=
    match e with EvOut _ => true | EvIn id => negb (is_known k id) | EvOp _ => false | EvRestart => false end.

  Lemma dstep_pos k e id n :
    is_restart e = false ->
    pos k id = Some n -> (S n < cap)%nat ->
    exists n', pos (fst (dstep cap k e)) id = Some n' /\ (n' <= S n)%nat /\
               (inserts k e = false -> n' = n).
  Proof.
    intros Hr Hp Hn.
    assert (Hrem : forall j, exists n', pos (remember cap k j) id = Some n' /\ (n' <= S n)%nat).
    { intros j. unfold remember.
      destruct (Z.eqb_spec id j) as [->|Hne].
      - exists O. split; [|lia]. apply pos_firstn; [|lia]. cbn [pos]. now rewrite Z.eqb_refl.
      - exists (S n). split; [|lia]. apply pos_firstn; [|lia]. cbn [pos].
        destruct (Z.eqb_spec id j); [contradiction|]. now rewrite Hp. }
    destruct e as [j|j|o|]; cbn [dstep inserts]; [| | |discriminate Hr].
    - destruct (Hrem j) as (n' & H1 & H2). exists n'. cbn [fst]. repeat split; auto. discriminate.
    - destruct (is_known k j) eqn:K; cbn [fst negb].
      + exists n. repeat split; auto.
      + destruct (Hrem j) as (n' & H1 & H2). exists n'. repeat split; auto. discriminate.
    - exists n. cbn [fst]. repeat split; auto.
  Qed.

  Fixpoint count_inserts (k : known) (es : list ev) : nat :=
    match es with
    | [] => O
    | e :: r => (if inserts k e then 1 else 0) + count_inserts (fst (dstep cap k e)) r
    end.

  Lemma drun_fst k e r : fst (drun cap k (e :: r)) = fst (drun cap (fst (dstep cap k e)) r).
  Proof. cbn [drun]. destruct (dstep cap k e) as [k1 b]. cbn [fst]. destruct (drun cap k1 r) as [k2 bs]. reflexivity. Qed.

  Lemma drun_pos es : forall k id n,
    no_restart es = true ->
    pos k id = Some n -> (n + count_inserts k es < cap)%nat ->
    exists n', pos (fst (drun cap k es)) id = Some n' /\ (n' <= n + count_inserts k es)%nat.
  Proof.
    induction es as [|e r IH]; intros k id n Hnr Hp Hc.
    - exists n. cbn. split; [assumption|lia].
    - cbn [count_inserts] in Hc. rewrite drun_fst.
      cbn [no_restart forallb] in Hnr. apply andb_prop in Hnr as [He Hnr].
      apply negb_true_iff in He. fold (no_restart r) in Hnr.
      destruct (inserts k e) eqn:I.
      + destruct (dstep_pos k e id n He Hp ltac:(lia)) as (n1 & H1 & H2 & _).
        destruct (IH _ id n1 Hnr H1 ltac:(lia)) as (n' & H3 & H4).
        exists n'. split; [assumption|]. cbn [count_inserts]. rewrite I. lia.
      + assert (Hsame : fst (dstep cap k e) = k).
        { destruct e as [j|j|o|]; cbn [inserts] in I; [discriminate| | |discriminate He].
          - cbn [dstep]. destruct (is_known k j); [reflexivity|discriminate].
          - reflexivity. }
        rewrite Hsame in *.
        destruct (IH k id n Hnr Hp ltac:(lia)) as (n' & H3 & H4).
        exists n'. split; [assumption|]. cbn [count_inserts]. rewrite I, Hsame. lia.
  Qed.

  (* An own message id (registered by add_outbound_message before the first transmission) is not
     acted on when it comes back, as long as fewer than cap other entries were inserted since. *)
  Theorem own_id_ignored k id es :
    no_restart es = true ->
    (count_inserts (remember cap k id) es < cap)%nat ->
    snd (dstep cap (fst (drun cap (remember cap k id) es)) (EvIn id)) = false.
  Proof.
    intros Hnr H.
    assert (Hp : pos (remember cap k id) id = Some O).
    { unfold remember. destruct cap; [lia|]. cbn [firstn pos]. now rewrite Z.eqb_refl. }
    destruct (drun_pos es _ id O Hnr Hp ltac:(lia)) as (n' & H1 & _).
    cbn [dstep]. apply pos_some_in in H1. apply is_known_In in H1. now rewrite H1.
  Qed.

  (* An id that has been acted on (or sent) is not acted on again while it is remembered. *)

  Theorem acted_at_most_once k id es :
    is_known k id = false ->
    no_restart es = true ->
    (count_inserts (remember cap k id) es < cap)%nat ->
    dstep cap k (EvIn id) = (remember cap k id, true) /\
    snd (dstep cap (fst (drun cap (remember cap k id) es)) (EvIn id)) = false.
  Proof.
    intros K Hnr H. split.
    - cbn [dstep]. now rewrite K.
    - now apply own_id_ignored.
  Qed.

  Lemma memory_bounded k e : (length (fst (dstep cap k e)) <= Nat.max cap (length k))%nat.
  Proof.
    destruct e as [j|j|o|]; cbn [dstep]; [|destruct (is_known k j)| |]; cbn [fst]; unfold remember;
      rewrite ?firstn_length; cbn [length]; lia.
  Qed.

  (* no public operation of WSDiscovery touches the memory, none hands a message to the handler *)
  Lemma api_op_keeps_memory k o : dstep cap k (EvOp o) = (k, false).
  Proof. reflexivity. Qed.

  (* public operations are transparent: a run with the operation events removed ends in the same memory *)
  Definition is_op (e : ev) : bool := match e with EvOp _ => true | _ => false end.
  Lemma drun_without_ops es : forall k,
    fst (drun cap k es) = fst (drun cap k (filter (fun e => negb (is_op e)) es)).
  Proof.
    induction es as [|e r IH]; intros k; [reflexivity|].
    destruct e as [j|j|o|]; cbn [filter is_op negb]; rewrite ?drun_fst; cbn [dstep fst]; try apply IH.
  Qed.
End DedupProofs.
