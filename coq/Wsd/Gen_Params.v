(* GENERATED on every run by harness/impl/gen_wsd_params.py from
   src/sdc11073/wsdiscovery/networkingthread.py -- do not edit. *)
From Coq Require Import ZArith.
From SDC Require Import Wsd.Udp.
Open Scope Z_scope.
Definition unicast_params : params := (mkParams (500) 2%nat (50) (250) (500)).
Definition multicast_params : params := (mkParams (500) 4%nat (50) (250) (500)).
Definition known_ids_cap : nat := 200%nat.
