(* URIs as records and their rendering to text; the text side (urlsplit, unquote, split at '/') is the
   byte-level urllib.parse model shared with C16 (Location/Quote.v).  Definitions only. *)
From Coq Require Import List NArith Bool.
From SDC Require Import Location.Quote.
Import ListNotations.
Open Scope N_scope.

(* u_parts is the path split at '/', i.e. "/a/b" = ["", "a", "b"], "" = [""], "a/" = ["a", ""];
   parts, query and fragment are kept as written (still percent-encoded) *)
Record uri := mkUri {
  u_scheme : bytes;
  u_auth : option bytes;
  u_parts : list bytes;
  u_query : option bytes;
  u_frag : option bytes
}.

Definition opt_pre (c : N) (o : option bytes) : bytes := match o with Some x => c :: x | None => [] end.
Definition u_path (u : uri) : bytes := join [47] (u_parts u).
Definition render (u : uri) : bytes :=
  u_scheme u ++ 58 ::
  (match u_auth u with Some a => 47 :: 47 :: a | None => [] end) ++
  u_path u ++ opt_pre 63 (u_query u) ++ opt_pre 35 (u_frag u).

(* characters that never disturb the split: no control characters / space, no '#', '?', '/' *)
Definition plain_char (c : N) : bool :=
  (32 <? c) && negb ((c =? 35) || (c =? 63) || (c =? 47)).
Definition auth_char (c : N) : bool := plain_char c && (c <? 128) && negb ((c =? 91) || (c =? 93)).
Definition query_char (c : N) : bool := (32 <? c) && negb (c =? 35).
Definition frag_char (c : N) : bool := 32 <? c.

Definition opt_forall (p : N -> bool) (o : option bytes) : bool :=
  match o with Some x => forallb p x | None => true end.
Definition opt_val (o : option bytes) : bytes := match o with Some x => x | None => [] end.

(* well-formed: the components can be read back from the text *)
Definition wf_uri (u : uri) : bool :=
  (match u_scheme u with c0 :: _ => is_alpha c0 | [] => false end) &&
  forallb scheme_char (u_scheme u) &&
  opt_forall auth_char (u_auth u) &&
  (match u_parts u with [] => false | _ => true end) &&
  forallb (forallb plain_char) (u_parts u) &&
  opt_forall query_char (u_query u) &&
  opt_forall frag_char (u_frag u) &&
  (* with an authority the path is empty or absolute; without one it must not begin with "//" *)
  (match u_auth u with
   | Some _ => match u_parts u with [] :: _ => true | _ => false end
   | None => negb (starts_with2 47 47 (u_path u))
   end).

(* the decoded segments the RFC 3986 rule compares *)
Definition decoded_parts (u : uri) : list bytes := map unquote (u_parts u).
