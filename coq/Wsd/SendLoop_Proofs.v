(* C15 -- send loop: every enqueued datagram is transmitted exactly once, never before its send time,
   and a stop does not lose what is already queued. *)
From Coq Require Import List ZArith Bool Lia Permutation Sorted.
From SDC Require Import Wsd.SendLoop.
Import ListNotations.
Open Scope Z_scope.

Lemma insert_perm x q : Permutation (insert x q) (x :: q).
Proof.
  induction q as [|y r IH]; cbn [insert]; [reflexivity|].
  destruct (fst x <? fst y); [reflexivity|].
  rewrite IH. apply perm_swap.
Qed.

Definition time_sorted (q : list item) : Prop := Sorted (fun a b => fst a <= fst b) q.

Lemma insert_hdrel x a q : fst a <= fst x -> HdRel (fun a b => fst a <= fst b) a q ->
  HdRel (fun a b => fst a <= fst b) a (insert x q).
Proof.
  intros Hax Hq. destruct q as [|y r]; cbn [insert]; [now constructor|].
  destruct (fst x <? fst y); constructor; [exact Hax|]. now inversion Hq.
Qed.

Lemma insert_sorted x q : time_sorted q -> time_sorted (insert x q).
Proof.
  unfold time_sorted. induction q as [|y r IH]; cbn [insert]; intros Hs.
  - repeat constructor.
  - destruct (fst x <? fst y) eqn:E.
    + constructor; [exact Hs|]. constructor. apply Z.ltb_lt in E. lia.
    + apply Z.ltb_ge in E. inversion Hs as [|? ? Hr Hh]; subst. constructor; [now apply IH|].
      now apply insert_hdrel.
Qed.

(* one-step invariant: queue + transmitted = everything put so far *)
Definition conserved (s : sstate) (l : list item) : Prop := Permutation (sent_items s ++ fst s) l.

Lemma sstep_conserved s l e : conserved s l ->
  conserved (sstep s e) (match e with Put x => x :: l | Tick _ => l end).
Proof.
  unfold conserved, sent_items. destruct s as [q lg]. destruct e as [x|now]; cbn [sstep fst snd]; intros H.
  - rewrite <- H. rewrite insert_perm. symmetry. apply Permutation_middle.
  - destruct q as [|y r]; [exact H|]. destruct (fst y <=? now); [|exact H].
    cbn [map fst snd]. rewrite <- H. cbn [app]. apply Permutation_middle.
Qed.

Lemma puts_app a b : puts (a ++ b) = puts a ++ puts b.
Proof. unfold puts. apply flat_map_app. Qed.

Lemma srun_from_conserved es : forall s l, conserved s l -> conserved (srun_from s es) (rev (puts es) ++ l).
Proof.
  induction es as [|e es IH]; intros s l H; [exact H|].
  cbn [srun_from fold_left]. specialize (IH (sstep s e) _ (sstep_conserved s l e H)).
  unfold srun_from in IH. unfold conserved in *. rewrite IH.
  destruct e as [x|now]; cbn [puts flat_map app rev]; [|reflexivity].
  fold (puts es). rewrite <- app_assoc. reflexivity.
Qed.

Theorem sendloop_conservation es : Permutation (sent_items (srun es) ++ fst (srun es)) (puts es).
Proof.
  pose proof (srun_from_conserved es ([], []) [] (Permutation_refl _)) as H. unfold conserved in H.
  unfold srun. rewrite H, app_nil_r. symmetry. apply Permutation_rev.
Qed.

(* nothing is transmitted before its send time *)
Definition on_time (s : sstate) : Prop := Forall (fun p => fst (snd p) <= fst p) (snd s).

Lemma sstep_on_time s e : on_time s -> on_time (sstep s e).
Proof.
  unfold on_time. destruct s as [q lg]. destruct e as [x|now]; cbn [sstep fst snd]; intros H; [exact H|].
  destruct q as [|y r]; [exact H|]. destruct (fst y <=? now) eqn:E; [|exact H].
  cbn [snd]. constructor; [|exact H]. cbn [fst snd]. now apply Z.leb_le.
Qed.

Lemma srun_from_on_time es : forall s, on_time s -> on_time (srun_from s es).
Proof. induction es as [|e es IH]; intros s H; [exact H|]. apply IH. now apply sstep_on_time. Qed.

Theorem sendloop_never_early es : on_time (srun es).
Proof. apply srun_from_on_time. constructor. Qed.

(* the queue is always ordered by send time: the head is the earliest pending transmission *)
Lemma sstep_sorted s e : time_sorted (fst s) -> time_sorted (fst (sstep s e)).
Proof.
  destruct s as [q lg]. destruct e as [x|now]; cbn [sstep fst]; intros H; [now apply insert_sorted|].
  destruct q as [|y r]; [exact H|]. destruct (fst y <=? now); [|exact H]. cbn [fst]. now inversion H.
Qed.

Theorem sendloop_queue_sorted es : time_sorted (fst (srun es)).
Proof.
  unfold srun. assert (G : forall s, time_sorted (fst s) -> time_sorted (fst (srun_from s es))).
  { induction es as [|e es IH]; intros s H; [exact H|]. apply IH. now apply sstep_sorted. }
  apply G. constructor.
Qed.

(* draining: once the clock has passed every pending send time, as many iterations as there are pending
   items empty the queue (this is what the loop does after schedule_stop: it ends only on an empty queue) *)
Lemma drain now n : forall s, Forall (fun x => fst x <= now) (fst s) -> (length (fst s) <= n)%nat ->
  fst (srun_from s (repeat (Tick now) n)) = [].
Proof.
  induction n as [|n IH]; intros [q lg] Hall Hlen; cbn [fst] in *.
  - destruct q; [reflexivity|cbn in Hlen; lia].
  - cbn [repeat srun_from fold_left]. destruct q as [|y r].
    + cbn [sstep fst]. apply (IH ([], lg)); cbn [fst]; [constructor | cbn; lia].
    + cbn [sstep fst]. inversion Hall as [|? ? Hy Hr]; subst.
      destruct (fst y <=? now) eqn:E; [|apply Z.leb_gt in E; lia].
      apply (IH (r, (now, y) :: lg)); cbn [fst]; [exact Hr | cbn in Hlen; lia].
Qed.

Lemma srun_app a b : srun (a ++ b) = srun_from (srun a) b.
Proof. unfold srun, srun_from. apply fold_left_app. Qed.

Lemma puts_ticks now n : puts (repeat (Tick now) n) = [].
Proof. induction n as [|n IH]; [reflexivity|exact IH]. Qed.

Theorem sendloop_drains es now n :
  Forall (fun x => fst x <= now) (puts es) -> (length (puts es) <= n)%nat ->
  let s := srun (es ++ repeat (Tick now) n) in
  fst s = [] /\ Permutation (sent_items s) (puts es) /\ on_time s.
Proof.
  intros Hall Hlen s. pose proof (sendloop_conservation es) as Hc.
  assert (Hq : fst s = []).
  { unfold s. rewrite srun_app. apply drain.
    - rewrite Forall_forall in *. intros x Hx. apply Hall. rewrite <- Hc. apply in_or_app. now right.
    - apply Permutation_length in Hc. rewrite app_length in Hc. unfold sstate, item in *. lia. }
  split; [exact Hq|]. split; [|apply sendloop_never_early].
  pose proof (sendloop_conservation (es ++ repeat (Tick now) n)) as Hc2. fold s in Hc2.
  rewrite Hq, app_nil_r, puts_app, puts_ticks, app_nil_r in Hc2. exact Hc2.
Qed.
