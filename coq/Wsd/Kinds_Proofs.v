From Coq Require Import List ZArith Bool Lia.
From SDC Require Import Wsd.Udp Wsd.Udp_Proofs Wsd.Gen_Params Wsd.Gen_Kinds Wsd.Kinds.
Import ListNotations.
Open Scope Z_scope.

(* The table traced from the code is the demanded one.  A changed choice in wsdimpl.py changes Gen_Kinds.v and
   breaks these two proofs. *)
Lemma kind_pset_ok : forall k, impl_kind_pset k = spec_pset k.
Proof. intros []; reflexivity. Qed.

Lemma kind_dest_ok : forall k, impl_kind_dest k = spec_dest k.
Proof. intros []; reflexivity. Qed.

Lemma kind_params_ok k : kind_params k = spec_params k.
Proof. unfold kind_params, spec_params. now rewrite kind_pset_ok. Qed.

Lemma spec_params_cases k :
  spec_params k = if is_multicast_kind k then multicast_params else unicast_params.
Proof. unfold spec_params, spec_pset. now destruct (is_multicast_kind k). Qed.

Lemma spec_params_wf k : wf (spec_params k).
Proof.
  rewrite spec_params_cases. destruct (is_multicast_kind k); apply wfb_wf; reflexivity.
Qed.

(* every message kind: 1 + repeat transmissions of the set that belongs to the kind, inside the envelope of that set *)
Lemma kind_envelope k d0 g :
  0 <= d0 <= init_ms (spec_params k) -> min_ms (spec_params k) <= g < max_ms (spec_params k) ->
  envelope (kind_params k) d0 g /\
  length (kind_schedule_us k d0 g) = S (repeat (spec_params k)).
Proof.
  intros Hd Hg. unfold kind_schedule_us, schedule_us. rewrite map_length, schedule_length.
  rewrite kind_params_ok. split; [|reflexivity].
  apply envelope_holds; [apply spec_params_wf|assumption|assumption].
Qed.

Lemma kind_count_ok_true k : kind_count_ok k = true.
Proof. unfold kind_count_ok. rewrite schedule_length, kind_params_ok. apply Nat.eqb_refl. Qed.
