(* C15: the schedule of a message of a given KIND, with the parameter set that the code passes for that kind
   (Gen_Kinds.v, traced from the real WSDiscovery) and the constants of that set (Gen_Params.v).
   Definitions only; proofs are in Kinds_Proofs.v. *)
From Coq Require Import List ZArith Bool.
From SDC Require Import Wsd.Udp Wsd.Gen_Params Wsd.Gen_Kinds.
Import ListNotations.
Open Scope Z_scope.

(* what the code uses *)
Definition kind_params (k : kind) : params := pset_params unicast_params multicast_params (impl_kind_pset k).
(* what the property demands *)
Definition spec_params (k : kind) : params := pset_params unicast_params multicast_params (spec_pset k).

(* queue entries (us relative to the call, repeat counter) of a message of kind k for the draws d0, g *)
Definition kind_schedule_us (k : kind) (d0 g : Z) : list (Z * Z) := schedule_us (kind_params k) d0 g.

(* boolean twin: the number of transmissions of kind k is the one of the demanded set *)
Definition kind_count_ok (k : kind) : bool :=
  Nat.eqb (length (schedule_ms (kind_params k) 0 (min_ms (kind_params k)))) (S (repeat (spec_params k))).
