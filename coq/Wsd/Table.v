(* Model of the WS-Discovery bookkeeping in sdc11073.wsdiscovery.wsdimpl.WSDiscovery:
   _add_remote_service / _remove_remote_service, the _handle_received_* methods, handle_received_message,
   publish_service / clear_service, composed with the known-message-id filter of
   NetworkingThread._run_q_read / add_outbound_message (Wsd/Udp.v: remember / is_known).
   Definitions only. *)
From Coq Require Import List NArith ZArith Bool.
From SDC Require Import Location.Quote Location.Loc Wsd.Match Wsd.Udp.
Import ListNotations.
Open Scope Z_scope.

(* Python dict keyed by endpoint reference: insertion ordered, assignment to an existing key keeps its place *)
Definition table := list (bytes * service).
Fixpoint t_get (k : bytes) (t : table) : option service :=
  match t with
  | [] => None
  | (k', v) :: r => if bytes_eqb k k' then Some v else t_get k r
  end.
Fixpoint t_set (k : bytes) (v : service) (t : table) : table :=
  match t with
  | [] => [(k, v)]
  | (k', v') :: r => if bytes_eqb k k' then (k', v) :: r else (k', v') :: t_set k v r
  end.
(* del d[k]: keys are unique in a dict, so removing every entry with that key is the same thing *)
Definition t_del (k : bytes) (t : table) : table := filter (fun kv => negb (bytes_eqb k (fst kv))) t.
Definition t_values (t : table) : list service := map snd t.

(* same MetadataVersion: longer XAddrs win, scopes / types are taken over when present
   (types of a received message are never None: an absent Types element reads as []) *)
Definition merge (known new : service) : service :=
  mkService (s_epr known) (s_types new)
            (match s_scopes new with Some x => Some x | None => s_scopes known end)
            (if (length (s_xaddrs known) <? length (s_xaddrs new))%nat then s_xaddrs new else s_xaddrs known)
            (s_mdv known) (s_iid known).

Definition add_remote (t : table) (s : service) : table :=
  if negb (nonempty (s_epr s)) then t
  else match t_get (s_epr s) t with
       | None => t_set (s_epr s) s t
       | Some k =>
           if s_mdv s =? s_mdv k then t_set (s_epr s) (merge k s) t
           else if s_mdv k <? s_mdv s then t_set (s_epr s) s t
           else t
       end.

(* what a received datagram says, after the real parser; appseq = AppSequence/@InstanceId if present *)
(* everything a Bye may carry besides the endpoint reference: the AppSequence header and the optional Types /
   Scopes / XAddrs / MetadataVersion elements of ByeType.  _handle_received_bye reads none of them. *)
Record bye_extra := mkBx {
  bx_appseq : option Z; bx_mdv : option Z; bx_types : list qname; bx_scopes : option (list bytes); bx_xaddrs : list bytes }.
(* what _send_bye writes: AppSequence, no optional element *)
Definition bx_plain (iid : Z) : bye_extra := mkBx (Some iid) None [] None [].

Inductive msg :=
| MHello (appseq : option Z) (s : service)
| MBye (epr : bytes) (x : bye_extra)
| MProbe (types : option (list qname)) (scopes : option scopes_filter)
| MProbeMatches (appseq : option Z) (ms : list service)
| MResolve (epr : bytes)
| MResolveMatches (appseq : option Z) (m : option service)
| MOther.                                                   (* unknown action *)

(* what the node hands to the networking thread *)
Inductive out :=
| OHello (s : service) | OBye (s : service)
| OProbeMatch (s : service) | OResolveMatch (s : service) | OResolve (epr : bytes).

Record dstate := mkD { remote : table; local : table }.

(* _send_hello never sets payload.MetadataVersion: every Hello announces the default version 1, whatever
   metadata_version the published service has (ProbeMatch / ResolveMatch carry the real one) *)
Definition hello_of (s : service) : service :=
  mkService (s_epr s) (s_types s) (s_scopes s) (s_xaddrs s) 1 (s_iid s).

Definition with_iid (iid : Z) (s : service) : service :=
  mkService (s_epr s) (s_types s) (s_scopes s) (s_xaddrs s) (s_mdv s) iid.

(* what makes an announcement (Hello / ProbeMatches / ResolveMatches) "acted on": the instance id the handler works
   with.  AppSequence present: its InstanceId, whatever its value (0 is a legal xs:unsignedInt; MessageNumber and
   SequenceId are not read).  AppSequence absent: 0 when the module option allow_missing_app_sequence is on, otherwise
   the message is ignored. *)
Definition eff_iid (allow : bool) (a : option Z) : option Z :=
  match a with Some i => Some i | None => if allow then Some 0 else None end.

Section Handle.
  Variable M : mconsts.
  Variable fixed : bool.
  Variable split : bytes -> sres.
  Variable allow : bool.                 (* wsdimpl.allow_missing_app_sequence *)

  (* per ProbeMatch: add, then ask for the missing parts *)
  Fixpoint probe_matches (t : table) (iid : Z) (ms : list service) : table * list out :=
    match ms with
    | [] => (t, [])
    | m :: r =>
        let s := with_iid iid m in
        let t1 := add_remote t s in
        let o := if negb (match s_xaddrs m with [] => false | _ => true end) then [OResolve (s_epr m)]
                 else if negb (match s_types m with [] => false | _ => true end) then [OResolve (s_epr m)]
                 else match s_scopes m with None => [OResolve (s_epr m)] | Some _ => [] end in
        let '(t2, os) := probe_matches t1 iid r in (t2, o ++ os)
    end.

  (* handle_received_message: dispatch by action; an exception inside a handler is caught (and logged) by
     _run_q_read, whatever the handler changed before stays *)
  Definition handle (d : dstate) (m : msg) : dstate * list out :=
    match m with
    | MHello a s =>
        match eff_iid allow a with
        | None => (d, [])                                        (* no AppSequence, option off: ignored *)
        | Some iid =>
            (mkD (add_remote (remote d) (with_iid iid s)) (local d),
             match s_xaddrs s with [] => [OResolve (s_epr s)] | _ => [] end)
        end
    | MBye epr _ => (mkD (t_del epr (remote d)) (local d), [])          (* whatever else the Bye carries *)
    | MProbe types scopes =>
        match filter_services M fixed split (t_values (local d)) types scopes with
        | Raise => (d, [])
        | Ret l => (d, map OProbeMatch l)
        end
    | MProbeMatches a ms =>
        match eff_iid allow a with
        | None => (d, [])
        | Some iid => let '(t, os) := probe_matches (remote d) iid ms in (mkD t (local d), os)
        end
    | MResolve epr =>
        match t_get epr (local d) with
        | Some s => (d, [OResolveMatch s])
        | None => (d, [])
        end
    | MResolveMatches a m =>
        match eff_iid allow a, m with
        | None, _ => (d, [])
        | Some iid, None => (d, [])                              (* AttributeError, caught *)
        | Some iid, Some s => (mkD (add_remote (remote d) (with_iid iid s)) (local d), [])
        end
    | MOther => (d, [])
    end.

  (* ------------------------------------------------------------ the node: discovery + known-id memory *)
  (* own messages get the ids -1, -2, ... in the order they are created; incoming ids are >= 0 *)
  Record node := mkNode { disc : dstate; kn_ids : list Z; sent : list out }.
  Variable cap : nat.

  (* the datagram a sent message turns into when it comes back (multicast loop-back) *)
  Definition msg_of_out (o : out) : msg :=
    match o with
    | OHello s => MHello (Some (s_iid s)) s
    | OBye s => MBye (s_epr s) (bx_plain (s_iid s))
    | OProbeMatch s => MProbeMatches (Some (s_iid s)) [s]
    | OResolveMatch s => MResolveMatches (Some (s_iid s)) (Some s)
    | OResolve epr => MResolve epr
    end.

  (* add_outbound_message: register the own id, newest first *)
  Fixpoint send_all (k : list Z) (nsent : nat) (os : list out) : list Z :=
    match os with
    | [] => k
    | _ :: r => send_all (remember cap k (- Z.of_nat (S nsent))) (S nsent) r
    end.

  Inductive event :=
  | EPublish (epr : bytes) (types : list qname) (scopes : option (list bytes)) (xaddrs : list bytes) (iid : Z)
  | EClear (epr : bytes)
  | EIn (mid : Z) (m : msg)
  | ELoop (k : nat).                       (* the k-th message sent so far (0-based) is received again *)

  Definition deliver (n : node) (mid : Z) (m : msg) : node * list out :=
    if is_known (kn_ids n) mid then (n, [])
    else
      let k1 := remember cap (kn_ids n) mid in
      let '(d, os) := handle (disc n) m in
      (mkNode d (send_all k1 (length (sent n)) os) (sent n ++ os), os).

  Definition step (n : node) (e : event) : node * list out :=
    match e with
    | EPublish epr types scopes xaddrs iid =>
        let mdv := match t_get epr (local (disc n)) with Some k => s_mdv k + 1 | None => 1 end in
        let s := mkService epr types scopes xaddrs mdv iid in
        let os := [OHello (hello_of s)] in
        (mkNode (mkD (remote (disc n)) (t_set epr s (local (disc n))))
                (send_all (kn_ids n) (length (sent n)) os) (sent n ++ os), os)
    | EClear epr =>
        match t_get epr (local (disc n)) with
        | None => (n, [])                                       (* KeyError for the caller *)
        | Some s =>
            let os := [OBye s] in
            (mkNode (mkD (remote (disc n)) (t_del epr (local (disc n))))
                    (send_all (kn_ids n) (length (sent n)) os) (sent n ++ os), os)
        end
    | EIn mid m => deliver n mid m
    | ELoop k =>
        match nth_error (sent n) k with
        | Some o => deliver n (- Z.of_nat (S k)) (msg_of_out o)
        | None => (n, [])
        end
    end.

  Fixpoint run (n : node) (es : list event) : node * list (list out) :=
    match es with
    | [] => (n, [])
    | e :: r => let '(n1, os) := step n e in let '(n2, oss) := run n1 r in (n2, os :: oss)
    end.

  Definition node0 : node := mkNode (mkD [] []) [] [].
End Handle.

(* ---------------------------------------------------------------- the history view used by the theorems *)
(* what matters for the table: announcements and byes, newest first *)
Inductive tev := TAnn (s : service) | TBye (epr : bytes).
Fixpoint table_of (rh : list tev) : table :=
  match rh with
  | [] => []
  | TAnn s :: r => add_remote (table_of r) s
  | TBye e :: r => t_del e (table_of r)
  end.
(* metadata versions announced for epr since its last Bye, newest first *)
Fixpoint recent (epr : bytes) (rh : list tev) : list Z :=
  match rh with
  | [] => []
  | TBye e :: r => if bytes_eqb epr e then [] else recent epr r
  | TAnn s :: r => if bytes_eqb epr (s_epr s) then s_mdv s :: recent epr r else recent epr r
  end.
Fixpoint zmax (l : list Z) : Z :=
  match l with
  | [] => 0
  | [x] => x
  | x :: r => Z.max x (zmax r)
  end.
