(* Model of sdc11073.wsdiscovery.wsdimpl: match_scope, match_type, _is_type_in_list, _is_scope_in_list,
   matches_filter, filter_services.  Strings are UTF-8 byte lists; urlsplit / unquote are the
   byte-level urllib.parse model of Location/Quote.v.  Definitions only.

   fixed = false: the code as it is: a ValueError of urlsplit (unbalanced '[', bad bracketed host, netloc not
                  NFKC-stable) leaves match_scope.
   fixed = true : the proposed repair: such a scope matches nothing.
   Percent-decoding is exact (bytes); the code's unquote(errors='replace') maps every invalid UTF-8
   sequence to U+FFFD -- the repair decodes with errors='surrogateescape', which is injective. *)
From Coq Require Import List NArith ZArith Bool.
From SDC Require Import Location.Quote Location.Loc.
Import ListNotations.
Open Scope N_scope.

(* MatchBy URIs, regenerated from the source (Wsd/Gen_Match.v) *)
Record mconsts := mkMConsts { m_ldap : bytes; m_uri : bytes; m_uuid : bytes; m_strcmp : bytes }.

(* len(src) > len(target) -> False; all(target[i] == elem for i, elem in enumerate(src)) *)
Fixpoint prefixb (a b : list bytes) : bool :=
  match a, b with
  | [], _ => true
  | x :: a', y :: b' => bytes_eqb x y && prefixb a' b'
  | _ :: _, [] => false
  end.

Definition lower_s (s : bytes) : bytes := map lower s.
Definition upper_s (s : bytes) : bytes := map (fun c => if (97 <=? c) && (c <=? 122) then c - 32 else c) s.

Section Match.
  Variable M : mconsts.
  Variable fixed : bool.
  Variable split : bytes -> sres.

  Definition match_rfc (my other : bytes) : outcome bool :=
    match split my with
    | SplitErr => if fixed then Ret false else Raise
    | SplitOk sa na pa _ _ =>
        match split other with
        | SplitErr => if fixed then Ret false else Raise
        | SplitOk sb nb pb _ _ =>
            if negb (bytes_eqb (lower_s sa) (lower_s sb)) || negb (bytes_eqb (lower_s na) (lower_s nb)) then Ret false
            else if bytes_eqb pa pb then Ret true
            else Ret (prefixb (map unquote (split_on 47 pa)) (map unquote (split_on 47 pb)))
        end
    end.

  (* match_by in (MatchBy.ldap, MatchBy.uri, MatchBy.uuid, '', None) *)
  Definition is_rfc (mb : option bytes) : bool :=
    match mb with
    | None => true
    | Some s => bytes_eqb s (m_ldap M) || bytes_eqb s (m_uri M) || bytes_eqb s (m_uuid M) || bytes_eqb s []
    end.
  Definition is_strcmp (mb : option bytes) : bool :=
    match mb with Some s => bytes_eqb s (m_strcmp M) | None => false end.

  Definition match_scope (mb : option bytes) (my other : bytes) : outcome bool :=
    if is_rfc mb then match_rfc my other
    else if is_strcmp mb then Ret (bytes_eqb my other)
    else Ret false.

  (* ------------------------------------------------------------ types *)
  Definition qname := (bytes * bytes)%type.                 (* namespace, localname *)
  Definition match_type (a b : qname) : bool := bytes_eqb (fst a) (fst b) && bytes_eqb (snd a) (snd b).
  Definition type_in_list (t : qname) (ts : list qname) : bool := existsb (match_type t) ts.

  Record service := mkService {
    s_epr : bytes;
    s_types : list qname;
    s_scopes : option (list bytes);      (* Service.scopes: None or ScopesType.text *)
    s_xaddrs : list bytes;
    s_mdv : Z;                           (* metadata_version *)
    s_iid : Z                            (* instance_id *)
  }.
  Definition scopes_filter := (option bytes * list bytes)%type.   (* ScopesType.MatchBy, .text *)

  (* any(match_scope(uri, entry, match_by) for entry in srv_sc.text) *)
  Fixpoint any_entry (mb : option bytes) (uri : bytes) (entries : list bytes) : outcome bool :=
    match entries with
    | [] => Ret false
    | e :: r =>
        match match_scope mb uri e with
        | Raise => Raise
        | Ret true => Ret true
        | Ret false => any_entry mb uri r
        end
    end.
  Definition scope_in_list (mb : option bytes) (uri : bytes) (srv : option (list bytes)) : outcome bool :=
    match srv with None => Ret false | Some es => any_entry mb uri es end.

  Fixpoint all_uris (mb : option bytes) (uris : list bytes) (srv : option (list bytes)) : outcome bool :=
    match uris with
    | [] => Ret true
    | u :: r =>
        match scope_in_list mb u srv with
        | Raise => Raise
        | Ret false => Ret false
        | Ret true => all_uris mb r srv
        end
    end.

  Definition types_ok (types : option (list qname)) (sv : service) : bool :=
    match types with None => true | Some ts => forallb (fun t => type_in_list t (s_types sv)) ts end.

  Definition matches_filter (sv : service) (types : option (list qname)) (scopes : option scopes_filter)
    : outcome bool :=
    if types_ok types sv then
      match scopes with
      | None => Ret true
      | Some (mb, uris) => all_uris mb uris (s_scopes sv)
      end
    else Ret false.

  Fixpoint filter_services (svs : list service) (types : option (list qname)) (scopes : option scopes_filter)
    : outcome (list service) :=
    match svs with
    | [] => Ret []
    | sv :: r =>
        match matches_filter sv types scopes with
        | Raise => Raise
        | Ret b =>
            match filter_services r types scopes with
            | Raise => Raise
            | Ret l => Ret (if b then sv :: l else l)
            end
        end
    end.

  Definition is_err (r : sres) : bool := match r with SplitErr => true | SplitOk _ _ _ _ _ => false end.

  (* ------------------------------------------------------------ declarative reading (what the statement says) *)
  Definition scope_matchesb (mb : option bytes) (my other : bytes) : bool :=
    match match_scope mb my other with Ret b => b | Raise => false end.
  Definition matchesb (types : option (list qname)) (scopes : option scopes_filter) (sv : service) : bool :=
    types_ok types sv &&
    match scopes with
    | None => true
    | Some (mb, uris) =>
        forallb (fun u => match s_scopes sv with
                          | None => false
                          | Some es => existsb (scope_matchesb mb u) es
                          end) uris
    end.
End Match.

(* ---------------------------------------------------------------- helpers for the correspondence *)
Definition outb_to_N (o : outcome bool) : N := match o with Ret false => 0 | Ret true => 1 | Raise => 2 end.
Definition run_match (M : mconsts) (fixed : bool) (badl : list bytes) (mb : option bytes) (a b : bytes) : N :=
  outb_to_N (match_scope M fixed (split_tbl badl) mb a b).

(* the filter functions on one case: per service the verdict of _is_scope_in_list for every requested scope and of
   matches_filter, then the endpoint references filter_services keeps (None = ValueError) *)
Definition run_filter (M : mconsts) (fixed : bool) (badl : list bytes) (svs : list service)
  (types : option (list qname)) (scopes : option scopes_filter) : list (list N * N) * option (list bytes) :=
  let split := split_tbl badl in
  (map (fun sv => (match scopes with
                   | None => []
                   | Some (mb, uris) => map (fun u => outb_to_N (scope_in_list M fixed split mb u (s_scopes sv))) uris
                   end,
                   outb_to_N (matches_filter M fixed split sv types scopes))) svs,
   match filter_services M fixed split svs types scopes with Raise => None | Ret l => Some (map s_epr l) end).

Definition qname_eqb (a b : qname) : bool := bytes_eqb (fst a) (fst b) && bytes_eqb (snd a) (snd b).
