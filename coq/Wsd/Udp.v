(* Model of sdc11073.wsdiscovery.networkingthread.NetworkingThread._repeated_enqueue_msg
   (SOAP-over-UDP retransmission schedule) and of the known-message-id filter used by
   add_outbound_message / _run_q_read.  Definitions only; proofs are in Udp_Proofs.v.

   Times are integers.  Inputs are in milliseconds (the unit of the configuration and of the two
   random draws); outputs are in microseconds relative to the value of time.time() at the call. *)
From Coq Require Import List ZArith Bool.
Import ListNotations.
Open Scope Z_scope.

Record params := mkParams {
  init_ms : Z;     (* max_initial_delay_ms *)
  repeat : nat;    (* repeat *)
  min_ms : Z;      (* min_delay_ms *)
  max_ms : Z;      (* max_delay_ms *)
  upper_ms : Z     (* upper_delay_ms *)
}.

(* for i in range(repeat): next_send += delta_t; put(next_send, i+2); delta_t = min(delta_t*2, upper) *)
Fixpoint sends (n : nat) (idx : Z) (t delta upper : Z) : list (Z * Z) :=
  match n with
  | O => []
  | S n' => (t + delta, idx) :: sends n' (idx + 1) (t + delta) (Z.min (2 * delta) upper) upper
  end.

(* d0 = random.randint(0, init_ms), g = random.randrange(min_ms, max_ms); result: (send time, repeat counter) *)
Definition schedule_ms (p : params) (d0 g : Z) : list (Z * Z) :=
  (d0, 1) :: sends (repeat p) 2 d0 g (upper_ms p).

Definition schedule_us (p : params) (d0 g : Z) : list (Z * Z) :=
  map (fun e => (1000 * fst e, snd e)) (schedule_ms p d0 g).

Definition times (l : list (Z * Z)) : list Z := map fst l.

Fixpoint gaps (l : list Z) : list Z :=
  match l with
  | a :: ((b :: _) as r) => (b - a) :: gaps r
  | _ => []
  end.

(* the specification's gap sequence *)
Fixpoint gap_seq (n : nat) (g upper : Z) : list Z :=
  match n with
  | O => []
  | S n' => g :: gap_seq n' (Z.min (2 * g) upper) upper
  end.

Definition wf (p : params) : Prop :=
  0 <= init_ms p /\ 0 <= min_ms p /\ min_ms p < max_ms p /\ max_ms p <= upper_ms p.
Definition wfb (p : params) : bool :=
  (0 <=? init_ms p) && (0 <=? min_ms p) && (min_ms p <? max_ms p) && (max_ms p <=? upper_ms p).

(* boolean twin of the envelope statement, used to search the model for a failing draw *)
Fixpoint envelope_gaps_ok (first : bool) (gs : list Z) (p : params) : bool :=
  match gs with
  | [] => true
  | g :: r =>
      (if first then (min_ms p <=? g) && (g <? max_ms p) else true) &&
      (g <=? upper_ms p) &&
      match r with
      | g' :: _ => (g' =? Z.min (2 * g) (upper_ms p))
      | [] => true
      end && envelope_gaps_ok false r p
  end.
Definition check_envelope (p : params) (d0 g : Z) : bool :=
  let s := times (schedule_ms p d0 g) in
  (Nat.eqb (length s) (S (repeat p))) &&
  match s with t0 :: _ => (0 <=? t0) && (t0 <=? init_ms p) | [] => false end &&
  envelope_gaps_ok true (gaps s) p.

(* ---------------------------------------------------------------- which parameter set a message kind uses
   The six message kinds of WS-Discovery.  Hello, Bye, Probe and Resolve go to the multicast group and are repeated
   with the multicast parameter set; ProbeMatches and ResolveMatches are unicast answers to the requester and are
   repeated with the unicast parameter set (SOAP-over-UDP, appendix I).  What the CODE chooses per kind is traced on
   every run from the real WSDiscovery object (harness/impl/gen_wsd_kinds.py -> Wsd/Gen_Kinds.v). *)
Inductive kind := KHello | KBye | KProbe | KResolve | KProbeMatches | KResolveMatches.
Inductive pset := PUnicast | PMulticast | POther (p : params).
Inductive dest := DGroup | DRequester | DOther.
Definition all_kinds : list kind := [KHello; KBye; KProbe; KResolve; KProbeMatches; KResolveMatches].
Definition is_multicast_kind (k : kind) : bool :=
  match k with KProbeMatches | KResolveMatches => false | _ => true end.
Definition spec_pset (k : kind) : pset := if is_multicast_kind k then PMulticast else PUnicast.
Definition spec_dest (k : kind) : dest := if is_multicast_kind k then DGroup else DRequester.
Definition pset_params (u m : params) (s : pset) : params :=
  match s with PUnicast => u | PMulticast => m | POther p => p end.

(* ---------------------------------------------------------------- known message ids (deque(maxlen=cap), appendleft) *)
(* public operations of WSDiscovery that run while own messages are in flight; none of them touches the memory *)
Inductive api_op := OpPublish | OpClearService | OpClearLocal | OpClearRemote | OpSearch | OpFound | OpStop.
Section Dedup.
  Variable cap : nat.
  Definition known := list Z.               (* newest first *)
  Definition remember (k : known) (id : Z) : known := firstn cap (id :: k).
  Definition is_known (k : known) (id : Z) : bool := existsb (Z.eqb id) k.

  (* EvOut: add_outbound_message registers an own id; EvIn: _run_q_read sees a datagram with this id;
     EvOp: a public operation of WSDiscovery (the messages it sends are separate EvOut events);
     EvRestart: stop() has joined the threads (every own transmission has gone out, the sockets are closed) and
     start() created a new NetworkingThread with an empty memory *)
  Inductive ev := EvOut (id : Z) | EvIn (id : Z) | EvOp (o : api_op) | EvRestart.
  (* result: new memory, and whether the message was handed to handle_received_message *)
  Definition dstep (k : known) (e : ev) : known * bool :=
    match e with
    | EvOut id => (remember k id, false)
    | EvIn id => if is_known k id then (k, false) else (remember k id, true)
    | EvOp _ => (k, false)
    | EvRestart => ([], false)
    end.
  Fixpoint drun (k : known) (es : list ev) : known * list bool :=
    match es with
    | [] => (k, [])
    | e :: r => let '(k1, b) := dstep k e in let '(k2, bs) := drun k1 r in (k2, b :: bs)
    end.
  Definition is_restart (e : ev) : bool := match e with EvRestart => true | _ => false end.
  Definition no_restart (es : list ev) : bool := forallb (fun e => negb (is_restart e)) es.
End Dedup.
