(* GENERATED on every run by harness/impl/gen_wsd_kinds.py: the real WSDiscovery object of
   src/sdc11073/wsdiscovery/wsdimpl.py is driven through every API call and every incoming message kind
   that makes it send; for each kind the parameter set and the destination passed to
   NetworkingThread.add_outbound_message are recorded -- do not edit. *)
From Coq Require Import ZArith.
From SDC Require Import Wsd.Udp.
Open Scope Z_scope.
Definition impl_kind_pset (k : kind) : pset :=
  match k with
  | KHello => PMulticast
  | KBye => PMulticast
  | KProbe => PMulticast
  | KResolve => PMulticast
  | KProbeMatches => PUnicast
  | KResolveMatches => PUnicast
  end.
Definition impl_kind_dest (k : kind) : dest :=
  match k with
  | KHello => DGroup
  | KBye => DGroup
  | KProbe => DGroup
  | KResolve => DGroup
  | KProbeMatches => DRequester
  | KResolveMatches => DRequester
  end.
