(* Proofs about scope / type matching (Wsd/Match.v) and URI rendering (Wsd/Uri.v). *)
From Coq Require Import List NArith ZArith PeanoNat Bool Lia ZifyBool.
From SDC Require Import Location.Quote Location.Loc Location.Proofs Wsd.Uri Wsd.Match.
Import ListNotations.
Open Scope N_scope.
Arguments N.eqb : simpl never.

(* ================================================================ segment-wise prefix *)
Definition is_prefix (a b : list bytes) : Prop := exists t, b = a ++ t.

Lemma prefixb_spec : forall a b, prefixb a b = true <-> is_prefix a b.
Proof.
  induction a as [|x a IH]; intros b; simpl.
  - split; auto. intros _. exists b. reflexivity.
  - destruct b as [|y b].
    + split; [discriminate|]. intros [t H]. discriminate.
    + rewrite andb_true_iff, bytes_eqb_eq, IH. split.
      * intros [-> [t ->]]. exists t. reflexivity.
      * intros [t H]. injection H as -> ->. split; auto. exists t. reflexivity.
Qed.

Lemma is_prefix_refl : forall a, is_prefix a a.
Proof. intros a. exists []. now rewrite app_nil_r. Qed.

Lemma is_prefix_trans : forall a b c, is_prefix a b -> is_prefix b c -> is_prefix a c.
Proof. intros a b c [t ->] [u ->]. exists (t ++ u). now rewrite app_assoc. Qed.

Lemma lower_idem : forall c, lower (lower c) = lower c.
Proof. intros c. unfold lower, is_upper, in_range. destruct ((65 <=? c) && (c <=? 90)) eqn:E; rewrite ?E; auto.
  assert ((65 <=? c + 32) && (c + 32 <=? 90) = false) as -> by lia. reflexivity. Qed.

Lemma lower_s_idem : forall s, lower_s (lower_s s) = lower_s s.
Proof. intros s. unfold lower_s. rewrite map_map. apply map_ext. apply lower_idem. Qed.

(* ================================================================ the RFC 3986 rule on texts *)
Section Rfc.
  Variable M : mconsts.
  Variable split : bytes -> sres.

  (* what the statement says, on the components urlsplit finds *)
  Definition rfc_spec (my other : bytes) : Prop :=
    exists sa na pa qa fa sb nb pb qb fb,
      split my = SplitOk sa na pa qa fa /\ split other = SplitOk sb nb pb qb fb /\
      lower_s sa = lower_s sb /\ lower_s na = lower_s nb /\
      is_prefix (map unquote (split_on 47 pa)) (map unquote (split_on 47 pb)).

  Lemma match_rfc_spec : forall fixed my other,
    match_rfc fixed split my other = Ret true <-> rfc_spec my other.
  Proof.
    intros fixed my other. unfold match_rfc, rfc_spec.
    destruct (split my) as [|sa na pa qa fa] eqn:E1.
    { split; [destruct fixed; discriminate|]. intros (? & ? & ? & ? & ? & ? & ? & ? & ? & ? & H & _). discriminate. }
    destruct (split other) as [|sb nb pb qb fb] eqn:E2.
    { split; [destruct fixed; discriminate|]. intros (? & ? & ? & ? & ? & ? & ? & ? & ? & ? & _ & H & _). discriminate. }
    destruct (bytes_eqb (lower_s sa) (lower_s sb)) eqn:Es; cbn [negb orb].
    2:{ split; [discriminate|]. intros (? & ? & ? & ? & ? & ? & ? & ? & ? & ? & H1 & H2 & H3 & _).
        injection H1 as <- <- <- <- <-. injection H2 as <- <- <- <- <-. apply bytes_eqb_eq in H3. congruence. }
    destruct (bytes_eqb (lower_s na) (lower_s nb)) eqn:En; cbn [negb].
    2:{ split; [discriminate|]. intros (? & ? & ? & ? & ? & ? & ? & ? & ? & ? & H1 & H2 & _ & H3 & _).
        injection H1 as <- <- <- <- <-. injection H2 as <- <- <- <- <-. apply bytes_eqb_eq in H3. congruence. }
    apply bytes_eqb_eq in Es, En.
    destruct (bytes_eqb pa pb) eqn:Ep.
    - apply bytes_eqb_eq in Ep. subst pb. split; auto. intros _.
      exists sa, na, pa, qa, fa, sb, nb, pa, qb, fb. repeat split; auto. apply is_prefix_refl.
    - split.
      + intros H. injection H as H. apply prefixb_spec in H.
        exists sa, na, pa, qa, fa, sb, nb, pb, qb, fb. repeat split; auto.
      + intros (? & ? & ? & ? & ? & ? & ? & ? & ? & ? & H1 & H2 & _ & _ & H3).
        injection H1 as <- <- <- <- <-. injection H2 as <- <- <- <- <-. f_equal. now apply prefixb_spec.
  Qed.

  Lemma match_rfc_total : forall my other, exists b, match_rfc true split my other = Ret b.
  Proof.
    intros my other. unfold match_rfc. destruct (split my); eauto. destruct (split other); eauto.
    destruct (_ || _); eauto. destruct (bytes_eqb _ _); eauto.
  Qed.

  Lemma match_rfc_refl : forall fixed a, split a <> SplitErr -> match_rfc fixed split a a = Ret true.
  Proof.
    intros fixed a H. apply match_rfc_spec. destruct (split a) as [|s n p q f] eqn:E; [congruence|].
    exists s, n, p, q, f, s, n, p, q, f. repeat split; auto. apply is_prefix_refl.
  Qed.

  Lemma match_rfc_trans : forall fixed a b c,
    match_rfc fixed split a b = Ret true -> match_rfc fixed split b c = Ret true -> match_rfc fixed split a c = Ret true.
  Proof.
    intros fixed a b c H1 H2. apply match_rfc_spec in H1, H2. apply match_rfc_spec.
    destruct H1 as (sa & na & pa & qa & fa & sb & nb & pb & qb & fb & A1 & A2 & A3 & A4 & A5).
    destruct H2 as (sb' & nb' & pb' & qb' & fb' & sc & nc & pc & qc & fc & B1 & B2 & B3 & B4 & B5).
    rewrite A2 in B1. injection B1 as <- <- <- <- <-.
    exists sa, na, pa, qa, fa, sc, nc, pc, qc, fc. repeat split; auto; try congruence.
    eapply is_prefix_trans; eauto.
  Qed.

  (* ------------------------------------------------------------ match_scope by rule *)
  Lemma match_scope_rfc : forall fixed mb a b, is_rfc M mb = true ->
    match_scope M fixed split mb a b = match_rfc fixed split a b.
  Proof. intros. unfold match_scope. now rewrite H. Qed.

  Lemma match_scope_strcmp : forall fixed mb a b, is_rfc M mb = false -> is_strcmp M mb = true ->
    match_scope M fixed split mb a b = Ret (bytes_eqb a b).
  Proof. intros. unfold match_scope. now rewrite H, H0. Qed.

  Lemma match_scope_other : forall fixed mb a b, is_rfc M mb = false -> is_strcmp M mb = false ->
    match_scope M fixed split mb a b = Ret false.
  Proof. intros. unfold match_scope. now rewrite H, H0. Qed.

  Lemma match_scope_total : forall mb a b, exists r, match_scope M true split mb a b = Ret r.
  Proof.
    intros mb a b. unfold match_scope. destruct (is_rfc M mb); [apply match_rfc_total|].
    destruct (is_strcmp M mb); eauto.
  Qed.

  (* ------------------------------------------------------------ the filter, repaired code: never raises, equals the declarative reading *)
  Lemma scope_matchesb_ret : forall mb a b, match_scope M true split mb a b = Ret (scope_matchesb M true split mb a b).
  Proof. intros mb a b. unfold scope_matchesb. destruct (match_scope_total mb a b) as [r ->]. reflexivity. Qed.

  Lemma any_entry_ret : forall mb u es,
    any_entry M true split mb u es = Ret (existsb (scope_matchesb M true split mb u) es).
  Proof.
    intros mb u es. induction es as [|e r IH]; simpl; auto.
    rewrite scope_matchesb_ret. destruct (scope_matchesb M true split mb u e); simpl; auto.
  Qed.

  Lemma matches_filter_ret : forall sv types scopes,
    matches_filter M true split sv types scopes = Ret (matchesb M true split types scopes sv).
  Proof.
    intros sv types scopes. unfold matches_filter, matchesb.
    destruct (types_ok types sv); simpl; auto.
    destruct scopes as [[mb uris]|]; auto.
    induction uris as [|u r IH]; simpl; auto.
    unfold scope_in_list. destruct (s_scopes sv) as [es|]; simpl; auto.
    rewrite any_entry_ret. destruct (existsb _ es); simpl; auto.
  Qed.

  Lemma filter_services_ret : forall svs types scopes,
    filter_services M true split svs types scopes = Ret (filter (matchesb M true split types scopes) svs).
  Proof.
    intros svs types scopes. induction svs as [|sv r IH]; simpl; auto.
    rewrite matches_filter_ret, IH. destruct (matchesb _ _ _ _ _ sv); reflexivity.
  Qed.
  (* ------------------------------------------------------------ an unsupported rule matches nothing, at every level *)
  Lemma any_entry_other : forall fixed mb u es, is_rfc M mb = false -> is_strcmp M mb = false ->
    any_entry M fixed split mb u es = Ret false.
  Proof. intros fixed mb u es H1 H2. induction es as [|e r IH]; simpl; auto. now rewrite match_scope_other by auto. Qed.

  Lemma scope_in_list_other : forall fixed mb u srv, is_rfc M mb = false -> is_strcmp M mb = false ->
    scope_in_list M fixed split mb u srv = Ret false.
  Proof. intros fixed mb u [es|] H1 H2; simpl; auto using any_entry_other. Qed.

  Lemma matches_filter_other : forall fixed sv types mb u us, is_rfc M mb = false -> is_strcmp M mb = false ->
    matches_filter M fixed split sv types (Some (mb, u :: us)) = Ret false.
  Proof.
    intros fixed sv types mb u us H1 H2. unfold matches_filter. destruct (types_ok types sv); auto.
    simpl. now rewrite scope_in_list_other by auto.
  Qed.

  Lemma filter_services_other : forall fixed svs types mb u us, is_rfc M mb = false -> is_strcmp M mb = false ->
    filter_services M fixed split svs types (Some (mb, u :: us)) = Ret [].
  Proof.
    intros fixed svs types mb u us H1 H2. induction svs as [|sv r IH]; auto.
    cbn [filter_services]. now rewrite matches_filter_other, IH by auto.
  Qed.

  (* ------------------------------------------------------------ a text that is not a well-formed URI matches nothing under the RFC rule *)
  Lemma match_rfc_err : forall my other, split my = SplitErr \/ split other = SplitErr ->
    match_rfc true split my other = Ret false.
  Proof.
    intros my other [H|H]; unfold match_rfc.
    - now rewrite H.
    - destruct (split my); auto. now rewrite H.
  Qed.

  Lemma match_scope_malformed : forall mb a b, is_rfc M mb = true -> split a = SplitErr \/ split b = SplitErr ->
    match_scope M true split mb a b = Ret false.
  Proof. intros. rewrite match_scope_rfc by auto. now apply match_rfc_err. Qed.

  Lemma existsb_all_false : forall (A : Type) (f : A -> bool) l, (forall x, f x = false) -> existsb f l = false.
  Proof. intros A f l H. induction l as [|x r IH]; simpl; auto. now rewrite H. Qed.

  (* ------------------------------------------------------------ identical text: the verdict is decided by the rule alone *)
  Theorem identical_text_by_rule : forall mb u es, In u es ->
    scope_in_list M true split mb u (Some es) =
    Ret (if is_rfc M mb then negb (is_err (split u)) else is_strcmp M mb).
  Proof.
    intros mb u es Hin. cbn [scope_in_list]. rewrite any_entry_ret. f_equal.
    destruct (is_rfc M mb) eqn:R.
    - destruct (split u) eqn:S; cbn [is_err negb].
      + apply existsb_all_false. intros e. unfold scope_matchesb.
        now rewrite match_scope_malformed by auto.
      + apply existsb_exists. exists u. split; auto. unfold scope_matchesb.
        rewrite match_scope_rfc, match_rfc_refl by (auto; congruence). reflexivity.
    - destruct (is_strcmp M mb) eqn:C.
      + apply existsb_exists. exists u. split; auto. unfold scope_matchesb.
        rewrite match_scope_strcmp by auto. apply bytes_eqb_refl.
      + apply existsb_all_false. intros e. unfold scope_matchesb. now rewrite match_scope_other by auto.
  Qed.
End Rfc.

(* ================================================================ urlsplit reads a well-formed URI record back *)
Lemma okc_gt32 : forall c, 32 <? c = true -> okc c = true.
Proof. intros c. unfold okc. lia. Qed.

Lemma plain_gt : forall c, plain_char c = true -> 32 <? c = true.
Proof. intros c. unfold plain_char. lia. Qed.
Lemma auth_plain : forall c, auth_char c = true -> plain_char c = true.
Proof. intros c. unfold auth_char. lia. Qed.
Lemma auth_ascii : forall c, auth_char c = true -> c <? 128 = true.
Proof. intros c. unfold auth_char. lia. Qed.
Lemma query_gt : forall c, query_char c = true -> 32 <? c = true.
Proof. intros c. unfold query_char. lia. Qed.

Lemma split_scheme_any : forall sch c0 s rest,
  sch = c0 :: s -> is_alpha c0 = true -> forallb scheme_char sch = true ->
  split_scheme (sch ++ 58 :: rest) = (map lower sch, rest).
Proof.
  intros sch c0 s rest Es Ha Hsc. unfold split_scheme.
  rewrite split1_app by (eapply mem_false_forall; eauto).
  rewrite Hsc. subst sch. cbv beta iota. rewrite Ha. reflexivity.
Qed.

Lemma split_netloc_app : forall a tail,
  forallb plain_char a = true ->
  (tail = [] \/ exists c r, tail = c :: r /\ ((c =? 47) || (c =? 63) || (c =? 35)) = true) ->
  split_netloc (a ++ tail) = (a, tail).
Proof.
  induction a as [|x a IH]; intros tail Ha Ht.
  - simpl. destruct Ht as [->|(c & r & -> & Hc)]; [reflexivity|]. simpl. now rewrite Hc.
  - simpl in Ha. apply andb_prop in Ha as [Hx Ha]. simpl.
    assert (((x =? 47) || (x =? 63) || (x =? 35)) = false) as -> by (unfold plain_char in Hx; lia).
    now rewrite IH.
Qed.

Lemma starts_with2_app_false : forall p t,
  starts_with2 47 47 p = false -> (t = [] \/ exists c r, t = c :: r /\ c <> 47) ->
  starts_with2 47 47 (p ++ t) = false.
Proof.
  intros [|x [|y p]] t Hp Ht.
  - destruct Ht as [->|(c & r & -> & Hc)]; [reflexivity|]. destruct r; [reflexivity|].
    cbn [app starts_with2]. destruct (N.eqb_spec c 47); [contradiction|reflexivity].
  - destruct Ht as [->|(c & r & -> & Hc)]; [reflexivity|].
    cbn [app starts_with2]. destruct (N.eqb_spec c 47); [contradiction|]. apply andb_false_r.
  - exact Hp.
Qed.

Definition path_char (c : N) : bool := plain_char c || (c =? 47).

Lemma join_path_chars : forall parts, forallb (forallb plain_char) parts = true ->
  forallb path_char (join [47] parts) = true.
Proof.
  intros parts H. apply forallb_join; [reflexivity|].
  apply Forall_forall. intros p Hp. rewrite forallb_forall in H. specialize (H p Hp).
  eapply forallb_impl; [|exact H]. intros c Hc. unfold path_char. now rewrite Hc.
Qed.

Lemma path_char_okc : forall c, path_char c = true -> okc c = true.
Proof. intros c. unfold path_char, plain_char, okc. lia. Qed.

Lemma opt_pre_okc : forall c p o, okc c = true -> (forall x, p x = true -> okc x = true) ->
  opt_forall p o = true -> forallb okc (opt_pre c o) = true.
Proof.
  intros c p [x|] Hc Hp Ho; simpl; auto. rewrite Hc. simpl. eapply forallb_impl; eauto.
Qed.

Theorem urlsplit_render : forall bad u, wf_uri u = true ->
  urlsplit bad (render u) =
  SplitOk (lower_s (u_scheme u)) (opt_val (u_auth u)) (u_path u) (opt_val (u_query u)) (opt_val (u_frag u)).
Proof.
  intros bad [sch auth parts q f] H. unfold wf_uri in H. cbn [u_scheme u_auth u_parts u_query u_frag u_path] in H.
  repeat (apply andb_prop in H as [H ?]).
  rename H into Halpha, H6 into Hsc, H5 into Hauth, H4 into Hne, H3 into Hparts, H2 into Hq, H1 into Hf, H0 into Hshape.
  destruct sch as [|c0 s]; [discriminate|].
  remember (c0 :: s) as sch eqn:Esch.
  unfold render, u_path. cbn [u_scheme u_auth u_parts u_query u_frag].
  set (path := join [47] parts).
  set (A := match auth with Some a => 47 :: 47 :: a | None => [] end).
  assert (Ppath : forallb path_char path = true) by now apply join_path_chars.
  unfold urlsplit.
  (* lstrip / unsafe characters *)
  assert (L : lstrip_c0 (sch ++ 58 :: A ++ path ++ opt_pre 63 q ++ opt_pre 35 f) =
              sch ++ 58 :: A ++ path ++ opt_pre 63 q ++ opt_pre 35 f).
  { rewrite Esch. simpl. assert (c0 <=? 32 = false) as ->; auto. unfold is_alpha, is_upper, is_lower, in_range in Halpha. lia. }
  rewrite L.
  assert (R : remove_unsafe (sch ++ 58 :: A ++ path ++ opt_pre 63 q ++ opt_pre 35 f) =
              sch ++ 58 :: A ++ path ++ opt_pre 63 q ++ opt_pre 35 f).
  { unfold remove_unsafe. change (fun c : N => negb ((c =? 9) || (c =? 10) || (c =? 13))) with okc.
    apply filter_id. rewrite forallb_app. cbn [forallb]. rewrite !forallb_app.
    rewrite (forallb_impl scheme_char okc sch) by auto using scheme_char_okc.
    rewrite (forallb_impl path_char okc path) by auto using path_char_okc.
    rewrite (opt_pre_okc 63 query_char q) by (auto; intros x Hx; apply okc_gt32, query_gt, Hx).
    rewrite (opt_pre_okc 35 frag_char f) by (auto; intros x Hx; apply okc_gt32, Hx).
    assert (forallb okc A = true) as ->; [|reflexivity].
    unfold A. destruct auth as [a|]; [|reflexivity]. cbn [forallb]. simpl in Hauth.
    rewrite (forallb_impl auth_char okc a); auto. intros x Hx. apply okc_gt32, plain_gt, auth_plain, Hx. }
  rewrite R.
  rewrite (split_scheme_any sch c0 s) by auto.
  (* fragment and query of the remainder *)
  assert (M35p : mem 35 path = false) by (eapply mem_false_forall; eauto).
  assert (M63p : mem 63 path = false) by (eapply mem_false_forall; eauto).
  assert (M35q : mem 35 (opt_pre 63 q) = false).
  { destruct q as [x|]; [|reflexivity]. simpl in Hq. unfold opt_pre.
    change (mem 35 (63 :: x)) with ((35 =? 63) || mem 35 x). rewrite (mem_false_forall query_char 35 x) by auto. reflexivity. }
  assert (TAIL : forall pre, mem 35 pre = false -> mem 63 pre = false ->
            (let '(url4, frag) := match split1 35 (pre ++ path ++ opt_pre 63 q ++ opt_pre 35 f) with
                                  | Some p => p | None => (pre ++ path ++ opt_pre 63 q ++ opt_pre 35 f, []) end in
             let '(pth, qq) := match split1 63 url4 with Some p => p | None => (url4, []) end in
             (pth, qq, frag)) = (pre ++ path, opt_val q, opt_val f)).
  { intros pre P35 P63.
    assert (E35 : mem 35 (pre ++ path ++ opt_pre 63 q) = false) by (rewrite !mem_app, P35, M35p, M35q; reflexivity).
    assert (E63 : mem 63 (pre ++ path) = false) by (rewrite mem_app, P63, M63p; reflexivity).
    destruct f as [y|]; simpl opt_pre; simpl opt_val.
    - replace (pre ++ path ++ opt_pre 63 q ++ 35 :: y) with ((pre ++ path ++ opt_pre 63 q) ++ 35 :: y)
        by (now rewrite <- !app_assoc).
      rewrite split1_app by auto. cbv beta iota.
      destruct q as [x|]; simpl opt_pre; simpl opt_val.
      + rewrite app_assoc. rewrite split1_app by auto. reflexivity.
      + rewrite app_nil_r. rewrite split1_none by auto. reflexivity.
    - rewrite app_nil_r. rewrite split1_none by auto. cbv beta iota.
      destruct q as [x|]; simpl opt_pre; simpl opt_val.
      + rewrite app_assoc. rewrite split1_app by auto. reflexivity.
      + rewrite app_nil_r. rewrite split1_none by auto. reflexivity. }
  destruct auth as [a|]; unfold A.
  - (* with authority *)
    simpl in Hauth.
    assert (Pa : forallb plain_char a = true) by (eapply forallb_impl; [|exact Hauth]; apply auth_plain).
    change (starts_with2 47 47 ((47 :: 47 :: a) ++ path ++ opt_pre 63 q ++ opt_pre 35 f)) with ((47 =? 47) && (47 =? 47)).
    cbn [andb N.eqb]. rewrite N.eqb_refl. cbn [andb].
    change (drop2 ((47 :: 47 :: a) ++ path ++ opt_pre 63 q ++ opt_pre 35 f)) with (a ++ path ++ opt_pre 63 q ++ opt_pre 35 f).
    rewrite split_netloc_app; auto.
    + assert (mem 91 a = false) as -> by (eapply (mem_false_forall auth_char); eauto).
      assert (mem 93 a = false) as -> by (eapply (mem_false_forall auth_char); eauto).
      cbn [xorb andb].
      assert (is_ascii a = true) as ->.
      { unfold is_ascii. eapply forallb_impl; [|exact Hauth]. apply auth_ascii. }
      cbn [negb andb].
      specialize (TAIL [] eq_refl eq_refl). cbn [app] in TAIL.
      destruct (match split1 35 (path ++ opt_pre 63 q ++ opt_pre 35 f) with Some p => p | None => _ end) as [url4 frag].
      destruct (match split1 63 url4 with Some p => p | None => _ end) as [pth qq].
      injection TAIL as -> -> ->. reflexivity.
    + (* what follows the authority is empty or begins with a delimiter *)
      destruct parts as [|p0 rest]; [discriminate|]. destruct p0; [|discriminate].
      unfold path. destruct rest as [|p1 rest].
      * simpl. destruct q as [x|]; simpl.
        -- right. eexists _, _. split; [reflexivity|reflexivity].
        -- destruct f as [y|]; simpl; [right; eexists _, _; split; reflexivity|left; reflexivity].
      * right. rewrite join_cons2. simpl. eexists _, _. split; reflexivity.
  - (* without authority *)
    cbn [app].
    assert (S2 : starts_with2 47 47 (path ++ opt_pre 63 q ++ opt_pre 35 f) = false).
    { apply starts_with2_app_false; [now apply negb_true_iff in Hshape|].
      destruct q as [x|]; cbn [opt_pre app]; [right; eexists _, _; split; [reflexivity|discriminate]|].
      destruct f as [y|]; cbn [opt_pre app]; [right; eexists _, _; split; [reflexivity|discriminate]|left; reflexivity]. }
    rewrite S2. cbn [mem existsb xorb andb is_ascii forallb negb].
    specialize (TAIL [] eq_refl eq_refl). cbn [app] in TAIL.
    destruct (match split1 35 (path ++ opt_pre 63 q ++ opt_pre 35 f) with Some p => p | None => _ end) as [url4 frag].
    destruct (match split1 63 url4 with Some p => p | None => _ end) as [pth qq].
    injection TAIL as -> -> ->. reflexivity.
Qed.

(* ================================================================ the RFC 3986 rule on URI records *)
Lemma wf_uri_parts : forall u, wf_uri u = true ->
  u_parts u <> [] /\ Forall (fun p => mem 47 p = false) (u_parts u).
Proof.
  intros u H. unfold wf_uri in H. repeat (apply andb_prop in H as [H ?]).
  split.
  - destruct (u_parts u); [discriminate|congruence].
  - apply Forall_forall. intros p Hp. rewrite forallb_forall in H3. specialize (H3 p Hp).
    eapply mem_false_forall; eauto.
Qed.

Lemma split_path_parts : forall u, wf_uri u = true -> split_on 47 (u_path u) = u_parts u.
Proof. intros u H. destruct (wf_uri_parts u H). unfold u_path. now apply split_on_join. Qed.

Theorem rfc_on_records : forall M fixed (badf : bytes -> bool) mb u1 u2,
  wf_uri u1 = true -> wf_uri u2 = true -> is_rfc M mb = true ->
  (match_scope M fixed (fun s => urlsplit (badf s) s) mb (render u1) (render u2) = Ret true <->
   lower_s (u_scheme u1) = lower_s (u_scheme u2) /\
   lower_s (opt_val (u_auth u1)) = lower_s (opt_val (u_auth u2)) /\
   is_prefix (decoded_parts u1) (decoded_parts u2)).
Proof.
  intros M fixed badf mb u1 u2 H1 H2 Hmb. rewrite match_scope_rfc by auto. rewrite match_rfc_spec.
  unfold rfc_spec. rewrite !urlsplit_render by auto. unfold decoded_parts.
  rewrite <- (split_path_parts u1 H1), <- (split_path_parts u2 H2). split.
  - intros (sa & na & pa & qa & fa & sb & nb & pb & qb & fb & E1 & E2 & A & B & C).
    injection E1 as <- <- <- <- <-. injection E2 as <- <- <- <- <-.
    rewrite !lower_s_idem in A. auto.
  - intros (A & B & C). do 10 eexists. split; [reflexivity|]. split; [reflexivity|].
    rewrite !lower_s_idem. auto.
Qed.
