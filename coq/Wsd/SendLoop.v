(* C15 -- the send loop of wsdiscovery/networkingthread.py (_run_send) over the priority queue filled by
   add_outbound_message: executable model.

   An item is (send_time, id); the queue is kept ordered by send_time (PriorityQueue of _EnqueuedMessage,
   order=True, msg excluded from the comparison).  One loop iteration at clock [now]:
     queue empty                  -> idle sleep
     head.send_time <= now        -> get() and send
     otherwise                    -> busy sleep (10 ms raster)
   The loop keeps running after schedule_stop as long as the queue is not empty. *)
From Coq Require Import List ZArith Bool.
Import ListNotations.
Open Scope Z_scope.

Definition item := (Z * Z)%type.

Fixpoint insert (x : item) (q : list item) : list item :=
  match q with
  | [] => [x]
  | y :: r => if fst x <? fst y then x :: q else y :: insert x r
  end.

Inductive sev := Put (x : item) | Tick (now : Z).

(* queue, log of (clock at transmission, item), newest first *)
Definition sstate := (list item * list (Z * item))%type.

Definition sstep (s : sstate) (e : sev) : sstate :=
  match e with
  | Put x => (insert x (fst s), snd s)
  | Tick now =>
      match fst s with
      | y :: r => if fst y <=? now then (r, (now, y) :: snd s) else s
      | [] => s
      end
  end.

Definition srun_from (s : sstate) (es : list sev) : sstate := fold_left sstep es s.
Definition srun (es : list sev) : sstate := srun_from ([], []) es.

Definition puts (es : list sev) : list item :=
  flat_map (fun e => match e with Put x => [x] | Tick _ => [] end) es.

Definition sent_items (s : sstate) : list item := map snd (snd s).

(* observable summary used by the correspondence check: (clock, send_time) per transmission in order,
   send times still queued *)
Definition observe (s : sstate) : list (Z * Z) * list Z :=
  (rev (map (fun p => (fst p, fst (snd p))) (snd s)), map fst (fst s)).
