
(** val xorb : bool -> bool -> bool **)

let xorb b1 b2 =
  if b1 then if b2 then false else true else b2

(** val negb : bool -> bool **)

let negb = function
| true -> false
| false -> true

type nat =
| O
| S of nat

(** val fst : ('a1 * 'a2) -> 'a1 **)

let fst = function
| (x, _) -> x

(** val snd : ('a1 * 'a2) -> 'a2 **)

let snd = function
| (_, y) -> y

(** val length : 'a1 list -> nat **)

let rec length = function
| [] -> O
| _ :: l' -> S (length l')

(** val app : 'a1 list -> 'a1 list -> 'a1 list **)

let rec app l m =
  match l with
  | [] -> m
  | a :: l1 -> a :: (app l1 m)

type comparison =
| Eq
| Lt
| Gt

(** val compOpp : comparison -> comparison **)

let compOpp = function
| Eq -> Eq
| Lt -> Gt
| Gt -> Lt

module Coq__1 = struct
 (** val add : nat -> nat -> nat **)
 let rec add n0 m =
   match n0 with
   | O -> m
   | S p -> S (add p m)
end
include Coq__1

type positive =
| XI of positive
| XO of positive
| XH

type n =
| N0
| Npos of positive

type z =
| Z0
| Zpos of positive
| Zneg of positive

module Nat =
 struct
  (** val leb : nat -> nat -> bool **)

  let rec leb n0 m =
    match n0 with
    | O -> true
    | S n' -> (match m with
               | O -> false
               | S m' -> leb n' m')

  (** val ltb : nat -> nat -> bool **)

  let ltb n0 m =
    leb (S n0) m
 end

module Pos =
 struct
  type mask =
  | IsNul
  | IsPos of positive
  | IsNeg
 end

module Coq_Pos =
 struct
  (** val succ : positive -> positive **)

  let rec succ = function
  | XI p -> XO (succ p)
  | XO p -> XI p
  | XH -> XO XH

  (** val add : positive -> positive -> positive **)

  let rec add x y =
    match x with
    | XI p ->
      (match y with
       | XI q -> XO (add_carry p q)
       | XO q -> XI (add p q)
       | XH -> XO (succ p))
    | XO p ->
      (match y with
       | XI q -> XI (add p q)
       | XO q -> XO (add p q)
       | XH -> XI p)
    | XH -> (match y with
             | XI q -> XO (succ q)
             | XO q -> XI q
             | XH -> XO XH)

  (** val add_carry : positive -> positive -> positive **)

  and add_carry x y =
    match x with
    | XI p ->
      (match y with
       | XI q -> XI (add_carry p q)
       | XO q -> XO (add_carry p q)
       | XH -> XI (succ p))
    | XO p ->
      (match y with
       | XI q -> XO (add_carry p q)
       | XO q -> XI (add p q)
       | XH -> XO (succ p))
    | XH ->
      (match y with
       | XI q -> XI (succ q)
       | XO q -> XO (succ q)
       | XH -> XI XH)

  (** val pred_double : positive -> positive **)

  let rec pred_double = function
  | XI p -> XI (XO p)
  | XO p -> XI (pred_double p)
  | XH -> XH

  type mask = Pos.mask =
  | IsNul
  | IsPos of positive
  | IsNeg

  (** val succ_double_mask : mask -> mask **)

  let succ_double_mask = function
  | IsNul -> IsPos XH
  | IsPos p -> IsPos (XI p)
  | IsNeg -> IsNeg

  (** val double_mask : mask -> mask **)

  let double_mask = function
  | IsPos p -> IsPos (XO p)
  | x0 -> x0

  (** val double_pred_mask : positive -> mask **)

  let double_pred_mask = function
  | XI p -> IsPos (XO (XO p))
  | XO p -> IsPos (XO (pred_double p))
  | XH -> IsNul

  (** val sub_mask : positive -> positive -> mask **)

  let rec sub_mask x y =
    match x with
    | XI p ->
      (match y with
       | XI q -> double_mask (sub_mask p q)
       | XO q -> succ_double_mask (sub_mask p q)
       | XH -> IsPos (XO p))
    | XO p ->
      (match y with
       | XI q -> succ_double_mask (sub_mask_carry p q)
       | XO q -> double_mask (sub_mask p q)
       | XH -> IsPos (pred_double p))
    | XH -> (match y with
             | XH -> IsNul
             | _ -> IsNeg)

  (** val sub_mask_carry : positive -> positive -> mask **)

  and sub_mask_carry x y =
    match x with
    | XI p ->
      (match y with
       | XI q -> succ_double_mask (sub_mask_carry p q)
       | XO q -> double_mask (sub_mask p q)
       | XH -> IsPos (pred_double p))
    | XO p ->
      (match y with
       | XI q -> double_mask (sub_mask_carry p q)
       | XO q -> succ_double_mask (sub_mask_carry p q)
       | XH -> double_pred_mask p)
    | XH -> IsNeg

  (** val mul : positive -> positive -> positive **)

  let rec mul x y =
    match x with
    | XI p -> add y (XO (mul p y))
    | XO p -> XO (mul p y)
    | XH -> y

  (** val compare_cont : comparison -> positive -> positive -> comparison **)

  let rec compare_cont r x y =
    match x with
    | XI p ->
      (match y with
       | XI q -> compare_cont r p q
       | XO q -> compare_cont Gt p q
       | XH -> Gt)
    | XO p ->
      (match y with
       | XI q -> compare_cont Lt p q
       | XO q -> compare_cont r p q
       | XH -> Gt)
    | XH -> (match y with
             | XH -> r
             | _ -> Lt)

  (** val compare : positive -> positive -> comparison **)

  let compare =
    compare_cont Eq

  (** val eqb : positive -> positive -> bool **)

  let rec eqb p q =
    match p with
    | XI p0 -> (match q with
                | XI q0 -> eqb p0 q0
                | _ -> false)
    | XO p0 -> (match q with
                | XO q0 -> eqb p0 q0
                | _ -> false)
    | XH -> (match q with
             | XH -> true
             | _ -> false)

  (** val iter_op : ('a1 -> 'a1 -> 'a1) -> positive -> 'a1 -> 'a1 **)

  let rec iter_op op p a =
    match p with
    | XI p0 -> op a (iter_op op p0 (op a a))
    | XO p0 -> iter_op op p0 (op a a)
    | XH -> a

  (** val to_nat : positive -> nat **)

  let to_nat x =
    iter_op Coq__1.add x (S O)

  (** val of_succ_nat : nat -> positive **)

  let rec of_succ_nat = function
  | O -> XH
  | S x -> succ (of_succ_nat x)
 end

module N =
 struct
  (** val add : n -> n -> n **)

  let add n0 m =
    match n0 with
    | N0 -> m
    | Npos p -> (match m with
                 | N0 -> n0
                 | Npos q -> Npos (Coq_Pos.add p q))

  (** val sub : n -> n -> n **)

  let sub n0 m =
    match n0 with
    | N0 -> N0
    | Npos n' ->
      (match m with
       | N0 -> n0
       | Npos m' ->
         (match Coq_Pos.sub_mask n' m' with
          | Coq_Pos.IsPos p -> Npos p
          | _ -> N0))

  (** val mul : n -> n -> n **)

  let mul n0 m =
    match n0 with
    | N0 -> N0
    | Npos p -> (match m with
                 | N0 -> N0
                 | Npos q -> Npos (Coq_Pos.mul p q))

  (** val compare : n -> n -> comparison **)

  let compare n0 m =
    match n0 with
    | N0 -> (match m with
             | N0 -> Eq
             | Npos _ -> Lt)
    | Npos n' -> (match m with
                  | N0 -> Gt
                  | Npos m' -> Coq_Pos.compare n' m')

  (** val eqb : n -> n -> bool **)

  let eqb n0 m =
    match n0 with
    | N0 -> (match m with
             | N0 -> true
             | Npos _ -> false)
    | Npos p -> (match m with
                 | N0 -> false
                 | Npos q -> Coq_Pos.eqb p q)

  (** val leb : n -> n -> bool **)

  let leb x y =
    match compare x y with
    | Gt -> false
    | _ -> true

  (** val ltb : n -> n -> bool **)

  let ltb x y =
    match compare x y with
    | Lt -> true
    | _ -> false

  (** val to_nat : n -> nat **)

  let to_nat = function
  | N0 -> O
  | Npos p -> Coq_Pos.to_nat p
 end

module Z =
 struct
  (** val double : z -> z **)

  let double = function
  | Z0 -> Z0
  | Zpos p -> Zpos (XO p)
  | Zneg p -> Zneg (XO p)

  (** val succ_double : z -> z **)

  let succ_double = function
  | Z0 -> Zpos XH
  | Zpos p -> Zpos (XI p)
  | Zneg p -> Zneg (Coq_Pos.pred_double p)

  (** val pred_double : z -> z **)

  let pred_double = function
  | Z0 -> Zneg XH
  | Zpos p -> Zpos (Coq_Pos.pred_double p)
  | Zneg p -> Zneg (XI p)

  (** val pos_sub : positive -> positive -> z **)

  let rec pos_sub x y =
    match x with
    | XI p ->
      (match y with
       | XI q -> double (pos_sub p q)
       | XO q -> succ_double (pos_sub p q)
       | XH -> Zpos (XO p))
    | XO p ->
      (match y with
       | XI q -> pred_double (pos_sub p q)
       | XO q -> double (pos_sub p q)
       | XH -> Zpos (Coq_Pos.pred_double p))
    | XH ->
      (match y with
       | XI q -> Zneg (XO q)
       | XO q -> Zneg (Coq_Pos.pred_double q)
       | XH -> Z0)

  (** val add : z -> z -> z **)

  let add x y =
    match x with
    | Z0 -> y
    | Zpos x' ->
      (match y with
       | Z0 -> x
       | Zpos y' -> Zpos (Coq_Pos.add x' y')
       | Zneg y' -> pos_sub x' y')
    | Zneg x' ->
      (match y with
       | Z0 -> x
       | Zpos y' -> pos_sub y' x'
       | Zneg y' -> Zneg (Coq_Pos.add x' y'))

  (** val opp : z -> z **)

  let opp = function
  | Z0 -> Z0
  | Zpos x0 -> Zneg x0
  | Zneg x0 -> Zpos x0

  (** val compare : z -> z -> comparison **)

  let compare x y =
    match x with
    | Z0 -> (match y with
             | Z0 -> Eq
             | Zpos _ -> Lt
             | Zneg _ -> Gt)
    | Zpos x' -> (match y with
                  | Zpos y' -> Coq_Pos.compare x' y'
                  | _ -> Gt)
    | Zneg x' ->
      (match y with
       | Zneg y' -> compOpp (Coq_Pos.compare x' y')
       | _ -> Lt)

  (** val ltb : z -> z -> bool **)

  let ltb x y =
    match compare x y with
    | Lt -> true
    | _ -> false

  (** val eqb : z -> z -> bool **)

  let eqb x y =
    match x with
    | Z0 -> (match y with
             | Z0 -> true
             | _ -> false)
    | Zpos p -> (match y with
                 | Zpos q -> Coq_Pos.eqb p q
                 | _ -> false)
    | Zneg p -> (match y with
                 | Zneg q -> Coq_Pos.eqb p q
                 | _ -> false)

  (** val of_nat : nat -> z **)

  let of_nat = function
  | O -> Z0
  | S n1 -> Zpos (Coq_Pos.of_succ_nat n1)

  (** val of_N : n -> z **)

  let of_N = function
  | N0 -> Z0
  | Npos p -> Zpos p
 end

(** val nth_error : 'a1 list -> nat -> 'a1 option **)

let rec nth_error l = function
| O -> (match l with
        | [] -> None
        | x :: _ -> Some x)
| S n1 -> (match l with
           | [] -> None
           | _ :: l0 -> nth_error l0 n1)

(** val map : ('a1 -> 'a2) -> 'a1 list -> 'a2 list **)

let rec map f = function
| [] -> []
| a :: t -> (f a) :: (map f t)

(** val existsb : ('a1 -> bool) -> 'a1 list -> bool **)

let rec existsb f = function
| [] -> false
| a :: l0 -> (||) (f a) (existsb f l0)

(** val forallb : ('a1 -> bool) -> 'a1 list -> bool **)

let rec forallb f = function
| [] -> true
| a :: l0 -> (&&) (f a) (forallb f l0)

(** val filter : ('a1 -> bool) -> 'a1 list -> 'a1 list **)

let rec filter f = function
| [] -> []
| x :: l0 -> if f x then x :: (filter f l0) else filter f l0

(** val firstn : nat -> 'a1 list -> 'a1 list **)

let rec firstn n0 l =
  match n0 with
  | O -> []
  | S n1 -> (match l with
             | [] -> []
             | a :: l0 -> a :: (firstn n1 l0))

type bytes = n list

(** val bytes_eqb : bytes -> bytes -> bool **)

let rec bytes_eqb a b =
  match a with
  | [] -> (match b with
           | [] -> true
           | _ :: _ -> false)
  | x :: a' ->
    (match b with
     | [] -> false
     | y :: b' -> (&&) (N.eqb x y) (bytes_eqb a' b'))

(** val mem : n -> bytes -> bool **)

let mem c s =
  existsb (N.eqb c) s

(** val nonempty : bytes -> bool **)

let nonempty = function
| [] -> false
| _ :: _ -> true

(** val in_range : n -> n -> n -> bool **)

let in_range lo hi c =
  (&&) (N.leb lo c) (N.leb c hi)

(** val is_upper : n -> bool **)

let is_upper c =
  in_range (Npos (XI (XO (XO (XO (XO (XO XH))))))) (Npos (XO (XI (XO (XI (XI
    (XO XH))))))) c

(** val is_lower : n -> bool **)

let is_lower c =
  in_range (Npos (XI (XO (XO (XO (XO (XI XH))))))) (Npos (XO (XI (XO (XI (XI
    (XI XH))))))) c

(** val is_alpha : n -> bool **)

let is_alpha c =
  (||) (is_upper c) (is_lower c)

(** val is_digit : n -> bool **)

let is_digit c =
  in_range (Npos (XO (XO (XO (XO (XI XH)))))) (Npos (XI (XO (XO (XI (XI
    XH)))))) c

(** val scheme_char : n -> bool **)

let scheme_char c =
  (||)
    ((||)
      ((||) ((||) (is_alpha c) (is_digit c))
        (N.eqb c (Npos (XI (XI (XO (XI (XO XH))))))))
      (N.eqb c (Npos (XI (XO (XI (XI (XO XH))))))))
    (N.eqb c (Npos (XO (XI (XI (XI (XO XH)))))))

(** val lower : n -> n **)

let lower c =
  if is_upper c then N.add c (Npos (XO (XO (XO (XO (XO XH)))))) else c

(** val hexval : n -> n option **)

let hexval c =
  if in_range (Npos (XO (XO (XO (XO (XI XH)))))) (Npos (XI (XO (XO (XI (XI
       XH)))))) c
  then Some (N.sub c (Npos (XO (XO (XO (XO (XI XH)))))))
  else if in_range (Npos (XI (XO (XO (XO (XO (XO XH))))))) (Npos (XO (XI (XI
            (XO (XO (XO XH))))))) c
       then Some (N.sub c (Npos (XI (XI (XI (XO (XI XH)))))))
       else if in_range (Npos (XI (XO (XO (XO (XO (XI XH))))))) (Npos (XO (XI
                 (XI (XO (XO (XI XH))))))) c
            then Some (N.sub c (Npos (XI (XI (XI (XO (XI (XO XH))))))))
            else None

(** val unquote : bytes -> bytes **)

let rec unquote = function
| [] -> []
| c :: r ->
  if N.eqb c (Npos (XI (XO (XI (XO (XO XH))))))
  then (match r with
        | [] -> (Npos (XI (XO (XI (XO (XO XH)))))) :: []
        | h :: r1 ->
          (match r1 with
           | [] -> (Npos (XI (XO (XI (XO (XO XH)))))) :: (unquote r)
           | l :: r2 ->
             (match hexval h with
              | Some a ->
                (match hexval l with
                 | Some b ->
                   (N.add (N.mul (Npos (XO (XO (XO (XO XH))))) a) b) :: 
                     (unquote r2)
                 | None -> (Npos (XI (XO (XI (XO (XO XH)))))) :: (unquote r))
              | None -> (Npos (XI (XO (XI (XO (XO XH)))))) :: (unquote r))))
  else c :: (unquote r)

(** val split_on : n -> bytes -> bytes list **)

let rec split_on sep = function
| [] -> [] :: []
| c :: r ->
  if N.eqb c sep
  then [] :: (split_on sep r)
  else (match split_on sep r with
        | [] -> (c :: []) :: []
        | h :: t -> (c :: h) :: t)

(** val split1 : n -> bytes -> (bytes * bytes) option **)

let rec split1 sep = function
| [] -> None
| c :: r ->
  if N.eqb c sep
  then Some ([], r)
  else (match split1 sep r with
        | Some p -> let (a, b) = p in Some ((c :: a), b)
        | None -> None)

type sres =
| SplitErr
| SplitOk of bytes * bytes * bytes * bytes * bytes

(** val lstrip_c0 : bytes -> bytes **)

let rec lstrip_c0 s = match s with
| [] -> []
| c :: r ->
  if N.leb c (Npos (XO (XO (XO (XO (XO XH)))))) then lstrip_c0 r else s

(** val remove_unsafe : bytes -> bytes **)

let remove_unsafe s =
  filter (fun c ->
    negb
      ((||)
        ((||) (N.eqb c (Npos (XI (XO (XO XH)))))
          (N.eqb c (Npos (XO (XI (XO XH))))))
        (N.eqb c (Npos (XI (XO (XI XH))))))) s

(** val split_scheme : bytes -> bytes * bytes **)

let split_scheme url =
  match split1 (Npos (XO (XI (XO (XI (XI XH)))))) url with
  | Some p ->
    let (pre, post) = p in
    (match pre with
     | [] -> ([], url)
     | c0 :: _ ->
       if (&&) (is_alpha c0) (forallb scheme_char pre)
       then ((map lower pre), post)
       else ([], url))
  | None -> ([], url)

(** val split_netloc : bytes -> bytes * bytes **)

let rec split_netloc s = match s with
| [] -> ([], [])
| c :: r ->
  if (||)
       ((||) (N.eqb c (Npos (XI (XI (XI (XI (XO XH)))))))
         (N.eqb c (Npos (XI (XI (XI (XI (XI XH))))))))
       (N.eqb c (Npos (XI (XI (XO (XO (XO XH)))))))
  then ([], s)
  else let (a, b) = split_netloc r in ((c :: a), b)

(** val starts_with2 : n -> n -> bytes -> bool **)

let starts_with2 a b = function
| [] -> false
| x :: l ->
  (match l with
   | [] -> false
   | y :: _ -> (&&) (N.eqb x a) (N.eqb y b))

(** val drop2 : bytes -> bytes **)

let drop2 = function
| [] -> []
| _ :: l -> (match l with
             | [] -> []
             | _ :: r -> r)

(** val is_ascii : bytes -> bool **)

let is_ascii s =
  forallb (fun c -> N.ltb c (Npos (XO (XO (XO (XO (XO (XO (XO XH))))))))) s

(** val urlsplit : bool -> bytes -> sres **)

let urlsplit bad url0 =
  let url1 = remove_unsafe (lstrip_c0 url0) in
  let (sch, url2) = split_scheme url1 in
  let (nl, url3) =
    if starts_with2 (Npos (XI (XI (XI (XI (XO XH)))))) (Npos (XI (XI (XI (XI
         (XO XH)))))) url2
    then split_netloc (drop2 url2)
    else ([], url2)
  in
  let lb = mem (Npos (XI (XI (XO (XI (XI (XO XH))))))) nl in
  let rb = mem (Npos (XI (XO (XI (XI (XI (XO XH))))))) nl in
  if xorb lb rb
  then SplitErr
  else if (&&) ((&&) lb rb) bad
       then SplitErr
       else let (url4, frag) =
              match split1 (Npos (XI (XI (XO (XO (XO XH)))))) url3 with
              | Some p -> p
              | None -> (url3, [])
            in
            let (path, q) =
              match split1 (Npos (XI (XI (XI (XI (XI XH)))))) url4 with
              | Some p -> p
              | None -> (url4, [])
            in
            if (&&) (negb (is_ascii nl)) bad
            then SplitErr
            else SplitOk (sch, nl, path, q, frag)

type 'a outcome =
| Ret of 'a
| Raise

(** val split_tbl : bytes list -> bytes -> sres **)

let split_tbl badl s =
  urlsplit (existsb (bytes_eqb s) badl) s

type mconsts = { m_ldap : bytes; m_uri : bytes; m_uuid : bytes;
                 m_strcmp : bytes }

(** val prefixb : bytes list -> bytes list -> bool **)

let rec prefixb a b =
  match a with
  | [] -> true
  | x :: a' ->
    (match b with
     | [] -> false
     | y :: b' -> (&&) (bytes_eqb x y) (prefixb a' b'))

(** val lower_s : bytes -> bytes **)

let lower_s s =
  map lower s

(** val match_rfc :
    bool -> (bytes -> sres) -> bytes -> bytes -> bool outcome **)

let match_rfc fixed split my other =
  match split my with
  | SplitErr -> if fixed then Ret false else Raise
  | SplitOk (sa, na, pa, _, _) ->
    (match split other with
     | SplitErr -> if fixed then Ret false else Raise
     | SplitOk (sb, nb, pb, _, _) ->
       if (||) (negb (bytes_eqb (lower_s sa) (lower_s sb)))
            (negb (bytes_eqb (lower_s na) (lower_s nb)))
       then Ret false
       else if bytes_eqb pa pb
            then Ret true
            else Ret
                   (prefixb
                     (map unquote
                       (split_on (Npos (XI (XI (XI (XI (XO XH)))))) pa))
                     (map unquote
                       (split_on (Npos (XI (XI (XI (XI (XO XH)))))) pb))))

(** val is_rfc : mconsts -> bytes option -> bool **)

let is_rfc m = function
| Some s ->
  (||)
    ((||) ((||) (bytes_eqb s m.m_ldap) (bytes_eqb s m.m_uri))
      (bytes_eqb s m.m_uuid)) (bytes_eqb s [])
| None -> true

(** val is_strcmp : mconsts -> bytes option -> bool **)

let is_strcmp m = function
| Some s -> bytes_eqb s m.m_strcmp
| None -> false

(** val match_scope :
    mconsts -> bool -> (bytes -> sres) -> bytes option -> bytes -> bytes ->
    bool outcome **)

let match_scope m fixed split mb my other =
  if is_rfc m mb
  then match_rfc fixed split my other
  else if is_strcmp m mb then Ret (bytes_eqb my other) else Ret false

type qname = bytes * bytes

(** val match_type : qname -> qname -> bool **)

let match_type a b =
  (&&) (bytes_eqb (fst a) (fst b)) (bytes_eqb (snd a) (snd b))

(** val type_in_list : qname -> qname list -> bool **)

let type_in_list t ts =
  existsb (match_type t) ts

type service = { s_epr : bytes; s_types : qname list;
                 s_scopes : bytes list option; s_xaddrs : bytes list;
                 s_mdv : z; s_iid : z }

type scopes_filter = bytes option * bytes list

(** val any_entry :
    mconsts -> bool -> (bytes -> sres) -> bytes option -> bytes -> bytes list
    -> bool outcome **)

let rec any_entry m fixed split mb uri = function
| [] -> Ret false
| e :: r ->
  (match match_scope m fixed split mb uri e with
   | Ret a -> if a then Ret true else any_entry m fixed split mb uri r
   | Raise -> Raise)

(** val scope_in_list :
    mconsts -> bool -> (bytes -> sres) -> bytes option -> bytes -> bytes list
    option -> bool outcome **)

let scope_in_list m fixed split mb uri = function
| Some es -> any_entry m fixed split mb uri es
| None -> Ret false

(** val all_uris :
    mconsts -> bool -> (bytes -> sres) -> bytes option -> bytes list -> bytes
    list option -> bool outcome **)

let rec all_uris m fixed split mb uris srv =
  match uris with
  | [] -> Ret true
  | u :: r ->
    (match scope_in_list m fixed split mb u srv with
     | Ret a -> if a then all_uris m fixed split mb r srv else Ret false
     | Raise -> Raise)

(** val types_ok : qname list option -> service -> bool **)

let types_ok types sv =
  match types with
  | Some ts -> forallb (fun t -> type_in_list t sv.s_types) ts
  | None -> true

(** val matches_filter :
    mconsts -> bool -> (bytes -> sres) -> service -> qname list option ->
    scopes_filter option -> bool outcome **)

let matches_filter m fixed split sv types scopes =
  if types_ok types sv
  then (match scopes with
        | Some s ->
          let (mb, uris) = s in all_uris m fixed split mb uris sv.s_scopes
        | None -> Ret true)
  else Ret false

(** val filter_services :
    mconsts -> bool -> (bytes -> sres) -> service list -> qname list option
    -> scopes_filter option -> service list outcome **)

let rec filter_services m fixed split svs types scopes =
  match svs with
  | [] -> Ret []
  | sv :: r ->
    (match matches_filter m fixed split sv types scopes with
     | Ret b ->
       (match filter_services m fixed split r types scopes with
        | Ret l -> Ret (if b then sv :: l else l)
        | Raise -> Raise)
     | Raise -> Raise)

(** val outb_to_N : bool outcome -> n **)

let outb_to_N = function
| Ret a -> if a then Npos XH else N0
| Raise -> Npos (XO XH)

(** val run_match :
    mconsts -> bool -> bytes list -> bytes option -> bytes -> bytes -> n **)

let run_match m fixed badl mb a b =
  outb_to_N (match_scope m fixed (split_tbl badl) mb a b)

(** val run_filter :
    mconsts -> bool -> bytes list -> service list -> qname list option ->
    scopes_filter option -> (n list * n) list * bytes list option **)

let run_filter m fixed badl svs types scopes =
  let split = split_tbl badl in
  ((map (fun sv ->
     ((match scopes with
       | Some s ->
         let (mb, uris) = s in
         map (fun u ->
           outb_to_N (scope_in_list m fixed split mb u sv.s_scopes)) uris
       | None -> []),
     (outb_to_N (matches_filter m fixed split sv types scopes)))) svs),
  (match filter_services m fixed split svs types scopes with
   | Ret l -> Some (map (fun s -> s.s_epr) l)
   | Raise -> None))

type known = z list

(** val remember : nat -> known -> z -> known **)

let remember cap k id =
  firstn cap (id :: k)

(** val is_known : known -> z -> bool **)

let is_known k id =
  existsb (Z.eqb id) k

type table = (bytes * service) list

(** val t_get : bytes -> table -> service option **)

let rec t_get k = function
| [] -> None
| p :: r -> let (k', v) = p in if bytes_eqb k k' then Some v else t_get k r

(** val t_set : bytes -> service -> table -> table **)

let rec t_set k v = function
| [] -> (k, v) :: []
| p :: r ->
  let (k', v') = p in
  if bytes_eqb k k' then (k', v) :: r else (k', v') :: (t_set k v r)

(** val t_del : bytes -> table -> table **)

let t_del k t =
  filter (fun kv -> negb (bytes_eqb k (fst kv))) t

(** val t_values : table -> service list **)

let t_values t =
  map snd t

(** val merge : service -> service -> service **)

let merge known0 new0 =
  { s_epr = known0.s_epr; s_types = new0.s_types; s_scopes =
    (match new0.s_scopes with
     | Some x -> Some x
     | None -> known0.s_scopes); s_xaddrs =
    (if Nat.ltb (length known0.s_xaddrs) (length new0.s_xaddrs)
     then new0.s_xaddrs
     else known0.s_xaddrs); s_mdv = known0.s_mdv; s_iid = known0.s_iid }

(** val add_remote : table -> service -> table **)

let add_remote t s =
  if negb (nonempty s.s_epr)
  then t
  else (match t_get s.s_epr t with
        | Some k ->
          if Z.eqb s.s_mdv k.s_mdv
          then t_set s.s_epr (merge k s) t
          else if Z.ltb k.s_mdv s.s_mdv then t_set s.s_epr s t else t
        | None -> t_set s.s_epr s t)

type bye_extra = { bx_appseq : z option; bx_mdv : z option;
                   bx_types : qname list; bx_scopes : bytes list option;
                   bx_xaddrs : bytes list }

(** val bx_plain : z -> bye_extra **)

let bx_plain iid =
  { bx_appseq = (Some iid); bx_mdv = None; bx_types = []; bx_scopes = None;
    bx_xaddrs = [] }

type msg =
| MHello of z option * service
| MBye of bytes * bye_extra
| MProbe of qname list option * scopes_filter option
| MProbeMatches of z option * service list
| MResolve of bytes
| MResolveMatches of z option * service option
| MOther

type out =
| OHello of service
| OBye of service
| OProbeMatch of service
| OResolveMatch of service
| OResolve of bytes

type dstate = { remote : table; local : table }

(** val hello_of : service -> service **)

let hello_of s =
  { s_epr = s.s_epr; s_types = s.s_types; s_scopes = s.s_scopes; s_xaddrs =
    s.s_xaddrs; s_mdv = (Zpos XH); s_iid = s.s_iid }

(** val with_iid : z -> service -> service **)

let with_iid iid s =
  { s_epr = s.s_epr; s_types = s.s_types; s_scopes = s.s_scopes; s_xaddrs =
    s.s_xaddrs; s_mdv = s.s_mdv; s_iid = iid }

(** val eff_iid : bool -> z option -> z option **)

let eff_iid allow = function
| Some i -> Some i
| None -> if allow then Some Z0 else None

(** val probe_matches : table -> z -> service list -> table * out list **)

let rec probe_matches t iid = function
| [] -> (t, [])
| m :: r ->
  let s = with_iid iid m in
  let t1 = add_remote t s in
  let o =
    if negb (match m.s_xaddrs with
             | [] -> false
             | _ :: _ -> true)
    then (OResolve m.s_epr) :: []
    else if negb (match m.s_types with
                  | [] -> false
                  | _ :: _ -> true)
         then (OResolve m.s_epr) :: []
         else (match m.s_scopes with
               | Some _ -> []
               | None -> (OResolve m.s_epr) :: [])
  in
  let (t2, os) = probe_matches t1 iid r in (t2, (app o os))

(** val handle :
    mconsts -> bool -> (bytes -> sres) -> bool -> dstate -> msg ->
    dstate * out list **)

let handle m fixed split allow d = function
| MHello (a, s) ->
  (match eff_iid allow a with
   | Some iid ->
     ({ remote = (add_remote d.remote (with_iid iid s)); local = d.local },
       (match s.s_xaddrs with
        | [] -> (OResolve s.s_epr) :: []
        | _ :: _ -> []))
   | None -> (d, []))
| MBye (epr, _) -> ({ remote = (t_del epr d.remote); local = d.local }, [])
| MProbe (types, scopes) ->
  (match filter_services m fixed split (t_values d.local) types scopes with
   | Ret l -> (d, (map (fun x -> OProbeMatch x) l))
   | Raise -> (d, []))
| MProbeMatches (a, ms) ->
  (match eff_iid allow a with
   | Some iid ->
     let (t, os) = probe_matches d.remote iid ms in
     ({ remote = t; local = d.local }, os)
   | None -> (d, []))
| MResolve epr ->
  (match t_get epr d.local with
   | Some s -> (d, ((OResolveMatch s) :: []))
   | None -> (d, []))
| MResolveMatches (a, m1) ->
  (match eff_iid allow a with
   | Some iid ->
     (match m1 with
      | Some s ->
        ({ remote = (add_remote d.remote (with_iid iid s)); local =
          d.local }, [])
      | None -> (d, []))
   | None -> (d, []))
| MOther -> (d, [])

type node = { disc : dstate; kn_ids : z list; sent : out list }

(** val msg_of_out : out -> msg **)

let msg_of_out = function
| OHello s -> MHello ((Some s.s_iid), s)
| OBye s -> MBye (s.s_epr, (bx_plain s.s_iid))
| OProbeMatch s -> MProbeMatches ((Some s.s_iid), (s :: []))
| OResolveMatch s -> MResolveMatches ((Some s.s_iid), (Some s))
| OResolve epr -> MResolve epr

(** val send_all : nat -> z list -> nat -> out list -> z list **)

let rec send_all cap k nsent = function
| [] -> k
| _ :: r ->
  send_all cap (remember cap k (Z.opp (Z.of_nat (S nsent)))) (S nsent) r

type event =
| EPublish of bytes * qname list * bytes list option * bytes list * z
| EClear of bytes
| EIn of z * msg
| ELoop of nat

(** val deliver :
    mconsts -> bool -> (bytes -> sres) -> bool -> nat -> node -> z -> msg ->
    node * out list **)

let deliver m fixed split allow cap n0 mid m0 =
  if is_known n0.kn_ids mid
  then (n0, [])
  else let k1 = remember cap n0.kn_ids mid in
       let (d, os) = handle m fixed split allow n0.disc m0 in
       ({ disc = d; kn_ids = (send_all cap k1 (length n0.sent) os); sent =
       (app n0.sent os) }, os)

(** val step :
    mconsts -> bool -> (bytes -> sres) -> bool -> nat -> node -> event ->
    node * out list **)

let step m fixed split allow cap n0 = function
| EPublish (epr, types, scopes, xaddrs, iid) ->
  let mdv =
    match t_get epr n0.disc.local with
    | Some k -> Z.add k.s_mdv (Zpos XH)
    | None -> Zpos XH
  in
  let s = { s_epr = epr; s_types = types; s_scopes = scopes; s_xaddrs =
    xaddrs; s_mdv = mdv; s_iid = iid }
  in
  let os = (OHello (hello_of s)) :: [] in
  ({ disc = { remote = n0.disc.remote; local = (t_set epr s n0.disc.local) };
  kn_ids = (send_all cap n0.kn_ids (length n0.sent) os); sent =
  (app n0.sent os) }, os)
| EClear epr ->
  (match t_get epr n0.disc.local with
   | Some s ->
     let os = (OBye s) :: [] in
     ({ disc = { remote = n0.disc.remote; local =
     (t_del epr n0.disc.local) }; kn_ids =
     (send_all cap n0.kn_ids (length n0.sent) os); sent = (app n0.sent os) },
     os)
   | None -> (n0, []))
| EIn (mid, m0) -> deliver m fixed split allow cap n0 mid m0
| ELoop k ->
  (match nth_error n0.sent k with
   | Some o ->
     deliver m fixed split allow cap n0 (Z.opp (Z.of_nat (S k)))
       (msg_of_out o)
   | None -> (n0, []))

(** val node0 : node **)

let node0 =
  { disc = { remote = []; local = [] }; kn_ids = []; sent = [] }

(** val match_consts : mconsts **)

let match_consts =
  { m_ldap = ((Npos (XO (XO (XO (XI (XO (XI XH))))))) :: ((Npos (XO (XO (XI
    (XO (XI (XI XH))))))) :: ((Npos (XO (XO (XI (XO (XI (XI
    XH))))))) :: ((Npos (XO (XO (XO (XO (XI (XI XH))))))) :: ((Npos (XO (XI
    (XO (XI (XI XH)))))) :: ((Npos (XI (XI (XI (XI (XO XH)))))) :: ((Npos (XI
    (XI (XI (XI (XO XH)))))) :: ((Npos (XO (XO (XI (XO (XO (XI
    XH))))))) :: ((Npos (XI (XI (XI (XI (XO (XI XH))))))) :: ((Npos (XI (XI
    (XO (XO (XO (XI XH))))))) :: ((Npos (XI (XI (XO (XO (XI (XI
    XH))))))) :: ((Npos (XO (XI (XI (XI (XO XH)))))) :: ((Npos (XI (XI (XI
    (XI (XO (XI XH))))))) :: ((Npos (XI (XO (XO (XO (XO (XI
    XH))))))) :: ((Npos (XI (XI (XO (XO (XI (XI XH))))))) :: ((Npos (XI (XO
    (XO (XI (XO (XI XH))))))) :: ((Npos (XI (XI (XO (XO (XI (XI
    XH))))))) :: ((Npos (XI (XO (XI (XI (XO XH)))))) :: ((Npos (XI (XI (XI
    (XI (XO (XI XH))))))) :: ((Npos (XO (XO (XO (XO (XI (XI
    XH))))))) :: ((Npos (XI (XO (XI (XO (XO (XI XH))))))) :: ((Npos (XO (XI
    (XI (XI (XO (XI XH))))))) :: ((Npos (XO (XI (XI (XI (XO
    XH)))))) :: ((Npos (XI (XI (XI (XI (XO (XI XH))))))) :: ((Npos (XO (XI
    (XO (XO (XI (XI XH))))))) :: ((Npos (XI (XI (XI (XO (XO (XI
    XH))))))) :: ((Npos (XI (XI (XI (XI (XO XH)))))) :: ((Npos (XI (XI (XI
    (XO (XI (XI XH))))))) :: ((Npos (XI (XI (XO (XO (XI (XI
    XH))))))) :: ((Npos (XI (XO (XI (XI (XO XH)))))) :: ((Npos (XO (XO (XI
    (XO (XO (XI XH))))))) :: ((Npos (XO (XO (XI (XO (XO (XI
    XH))))))) :: ((Npos (XI (XI (XI (XI (XO XH)))))) :: ((Npos (XO (XI (XI
    (XI (XO (XI XH))))))) :: ((Npos (XI (XI (XO (XO (XI (XI
    XH))))))) :: ((Npos (XI (XI (XI (XI (XO XH)))))) :: ((Npos (XO (XO (XI
    (XO (XO (XI XH))))))) :: ((Npos (XI (XO (XO (XI (XO (XI
    XH))))))) :: ((Npos (XI (XI (XO (XO (XI (XI XH))))))) :: ((Npos (XI (XI
    (XO (XO (XO (XI XH))))))) :: ((Npos (XI (XI (XI (XI (XO (XI
    XH))))))) :: ((Npos (XO (XI (XI (XO (XI (XI XH))))))) :: ((Npos (XI (XO
    (XI (XO (XO (XI XH))))))) :: ((Npos (XO (XI (XO (XO (XI (XI
    XH))))))) :: ((Npos (XI (XO (XO (XI (XI (XI XH))))))) :: ((Npos (XI (XI
    (XI (XI (XO XH)))))) :: ((Npos (XO (XI (XO (XO (XI XH)))))) :: ((Npos (XO
    (XO (XO (XO (XI XH)))))) :: ((Npos (XO (XO (XO (XO (XI XH)))))) :: ((Npos
    (XI (XO (XO (XI (XI XH)))))) :: ((Npos (XI (XI (XI (XI (XO
    XH)))))) :: ((Npos (XO (XO (XO (XO (XI XH)))))) :: ((Npos (XI (XO (XO (XO
    (XI XH)))))) :: ((Npos (XI (XI (XI (XI (XO XH)))))) :: ((Npos (XO (XO (XI
    (XI (XO (XI XH))))))) :: ((Npos (XO (XO (XI (XO (XO (XI
    XH))))))) :: ((Npos (XI (XO (XO (XO (XO (XI XH))))))) :: ((Npos (XO (XO
    (XO (XO (XI (XI
    XH))))))) :: []))))))))))))))))))))))))))))))))))))))))))))))))))))))))));
    m_uri = ((Npos (XO (XO (XO (XI (XO (XI XH))))))) :: ((Npos (XO (XO (XI
    (XO (XI (XI XH))))))) :: ((Npos (XO (XO (XI (XO (XI (XI
    XH))))))) :: ((Npos (XO (XO (XO (XO (XI (XI XH))))))) :: ((Npos (XO (XI
    (XO (XI (XI XH)))))) :: ((Npos (XI (XI (XI (XI (XO XH)))))) :: ((Npos (XI
    (XI (XI (XI (XO XH)))))) :: ((Npos (XO (XO (XI (XO (XO (XI
    XH))))))) :: ((Npos (XI (XI (XI (XI (XO (XI XH))))))) :: ((Npos (XI (XI
    (XO (XO (XO (XI XH))))))) :: ((Npos (XI (XI (XO (XO (XI (XI
    XH))))))) :: ((Npos (XO (XI (XI (XI (XO XH)))))) :: ((Npos (XI (XI (XI
    (XI (XO (XI XH))))))) :: ((Npos (XI (XO (XO (XO (XO (XI
    XH))))))) :: ((Npos (XI (XI (XO (XO (XI (XI XH))))))) :: ((Npos (XI (XO
    (XO (XI (XO (XI XH))))))) :: ((Npos (XI (XI (XO (XO (XI (XI
    XH))))))) :: ((Npos (XI (XO (XI (XI (XO XH)))))) :: ((Npos (XI (XI (XI
    (XI (XO (XI XH))))))) :: ((Npos (XO (XO (XO (XO (XI (XI
    XH))))))) :: ((Npos (XI (XO (XI (XO (XO (XI XH))))))) :: ((Npos (XO (XI
    (XI (XI (XO (XI XH))))))) :: ((Npos (XO (XI (XI (XI (XO
    XH)))))) :: ((Npos (XI (XI (XI (XI (XO (XI XH))))))) :: ((Npos (XO (XI
    (XO (XO (XI (XI XH))))))) :: ((Npos (XI (XI (XI (XO (XO (XI
    XH))))))) :: ((Npos (XI (XI (XI (XI (XO XH)))))) :: ((Npos (XI (XI (XI
    (XO (XI (XI XH))))))) :: ((Npos (XI (XI (XO (XO (XI (XI
    XH))))))) :: ((Npos (XI (XO (XI (XI (XO XH)))))) :: ((Npos (XO (XO (XI
    (XO (XO (XI XH))))))) :: ((Npos (XO (XO (XI (XO (XO (XI
    XH))))))) :: ((Npos (XI (XI (XI (XI (XO XH)))))) :: ((Npos (XO (XI (XI
    (XI (XO (XI XH))))))) :: ((Npos (XI (XI (XO (XO (XI (XI
    XH))))))) :: ((Npos (XI (XI (XI (XI (XO XH)))))) :: ((Npos (XO (XO (XI
    (XO (XO (XI XH))))))) :: ((Npos (XI (XO (XO (XI (XO (XI
    XH))))))) :: ((Npos (XI (XI (XO (XO (XI (XI XH))))))) :: ((Npos (XI (XI
    (XO (XO (XO (XI XH))))))) :: ((Npos (XI (XI (XI (XI (XO (XI
    XH))))))) :: ((Npos (XO (XI (XI (XO (XI (XI XH))))))) :: ((Npos (XI (XO
    (XI (XO (XO (XI XH))))))) :: ((Npos (XO (XI (XO (XO (XI (XI
    XH))))))) :: ((Npos (XI (XO (XO (XI (XI (XI XH))))))) :: ((Npos (XI (XI
    (XI (XI (XO XH)))))) :: ((Npos (XO (XI (XO (XO (XI XH)))))) :: ((Npos (XO
    (XO (XO (XO (XI XH)))))) :: ((Npos (XO (XO (XO (XO (XI XH)))))) :: ((Npos
    (XI (XO (XO (XI (XI XH)))))) :: ((Npos (XI (XI (XI (XI (XO
    XH)))))) :: ((Npos (XO (XO (XO (XO (XI XH)))))) :: ((Npos (XI (XO (XO (XO
    (XI XH)))))) :: ((Npos (XI (XI (XI (XI (XO XH)))))) :: ((Npos (XO (XI (XO
    (XO (XI (XI XH))))))) :: ((Npos (XO (XI (XI (XO (XO (XI
    XH))))))) :: ((Npos (XI (XI (XO (XO (XO (XI XH))))))) :: ((Npos (XI (XI
    (XO (XO (XI XH)))))) :: ((Npos (XI (XO (XO (XI (XI XH)))))) :: ((Npos (XO
    (XO (XO (XI (XI XH)))))) :: ((Npos (XO (XI (XI (XO (XI
    XH)))))) :: [])))))))))))))))))))))))))))))))))))))))))))))))))))))))))))));
    m_uuid = ((Npos (XO (XO (XO (XI (XO (XI XH))))))) :: ((Npos (XO (XO (XI
    (XO (XI (XI XH))))))) :: ((Npos (XO (XO (XI (XO (XI (XI
    XH))))))) :: ((Npos (XO (XO (XO (XO (XI (XI XH))))))) :: ((Npos (XO (XI
    (XO (XI (XI XH)))))) :: ((Npos (XI (XI (XI (XI (XO XH)))))) :: ((Npos (XI
    (XI (XI (XI (XO XH)))))) :: ((Npos (XO (XO (XI (XO (XO (XI
    XH))))))) :: ((Npos (XI (XI (XI (XI (XO (XI XH))))))) :: ((Npos (XI (XI
    (XO (XO (XO (XI XH))))))) :: ((Npos (XI (XI (XO (XO (XI (XI
    XH))))))) :: ((Npos (XO (XI (XI (XI (XO XH)))))) :: ((Npos (XI (XI (XI
    (XI (XO (XI XH))))))) :: ((Npos (XI (XO (XO (XO (XO (XI
    XH))))))) :: ((Npos (XI (XI (XO (XO (XI (XI XH))))))) :: ((Npos (XI (XO
    (XO (XI (XO (XI XH))))))) :: ((Npos (XI (XI (XO (XO (XI (XI
    XH))))))) :: ((Npos (XI (XO (XI (XI (XO XH)))))) :: ((Npos (XI (XI (XI
    (XI (XO (XI XH))))))) :: ((Npos (XO (XO (XO (XO (XI (XI
    XH))))))) :: ((Npos (XI (XO (XI (XO (XO (XI XH))))))) :: ((Npos (XO (XI
    (XI (XI (XO (XI XH))))))) :: ((Npos (XO (XI (XI (XI (XO
    XH)))))) :: ((Npos (XI (XI (XI (XI (XO (XI XH))))))) :: ((Npos (XO (XI
    (XO (XO (XI (XI XH))))))) :: ((Npos (XI (XI (XI (XO (XO (XI
    XH))))))) :: ((Npos (XI (XI (XI (XI (XO XH)))))) :: ((Npos (XI (XI (XI
    (XO (XI (XI XH))))))) :: ((Npos (XI (XI (XO (XO (XI (XI
    XH))))))) :: ((Npos (XI (XO (XI (XI (XO XH)))))) :: ((Npos (XO (XO (XI
    (XO (XO (XI XH))))))) :: ((Npos (XO (XO (XI (XO (XO (XI
    XH))))))) :: ((Npos (XI (XI (XI (XI (XO XH)))))) :: ((Npos (XO (XI (XI
    (XI (XO (XI XH))))))) :: ((Npos (XI (XI (XO (XO (XI (XI
    XH))))))) :: ((Npos (XI (XI (XI (XI (XO XH)))))) :: ((Npos (XO (XO (XI
    (XO (XO (XI XH))))))) :: ((Npos (XI (XO (XO (XI (XO (XI
    XH))))))) :: ((Npos (XI (XI (XO (XO (XI (XI XH))))))) :: ((Npos (XI (XI
    (XO (XO (XO (XI XH))))))) :: ((Npos (XI (XI (XI (XI (XO (XI
    XH))))))) :: ((Npos (XO (XI (XI (XO (XI (XI XH))))))) :: ((Npos (XI (XO
    (XI (XO (XO (XI XH))))))) :: ((Npos (XO (XI (XO (XO (XI (XI
    XH))))))) :: ((Npos (XI (XO (XO (XI (XI (XI XH))))))) :: ((Npos (XI (XI
    (XI (XI (XO XH)))))) :: ((Npos (XO (XI (XO (XO (XI XH)))))) :: ((Npos (XO
    (XO (XO (XO (XI XH)))))) :: ((Npos (XO (XO (XO (XO (XI XH)))))) :: ((Npos
    (XI (XO (XO (XI (XI XH)))))) :: ((Npos (XI (XI (XI (XI (XO
    XH)))))) :: ((Npos (XO (XO (XO (XO (XI XH)))))) :: ((Npos (XI (XO (XO (XO
    (XI XH)))))) :: ((Npos (XI (XI (XI (XI (XO XH)))))) :: ((Npos (XI (XO (XI
    (XO (XI (XI XH))))))) :: ((Npos (XI (XO (XI (XO (XI (XI
    XH))))))) :: ((Npos (XI (XO (XO (XI (XO (XI XH))))))) :: ((Npos (XO (XO
    (XI (XO (XO (XI
    XH))))))) :: []))))))))))))))))))))))))))))))))))))))))))))))))))))))))));
    m_strcmp = ((Npos (XO (XO (XO (XI (XO (XI XH))))))) :: ((Npos (XO (XO (XI
    (XO (XI (XI XH))))))) :: ((Npos (XO (XO (XI (XO (XI (XI
    XH))))))) :: ((Npos (XO (XO (XO (XO (XI (XI XH))))))) :: ((Npos (XO (XI
    (XO (XI (XI XH)))))) :: ((Npos (XI (XI (XI (XI (XO XH)))))) :: ((Npos (XI
    (XI (XI (XI (XO XH)))))) :: ((Npos (XO (XO (XI (XO (XO (XI
    XH))))))) :: ((Npos (XI (XI (XI (XI (XO (XI XH))))))) :: ((Npos (XI (XI
    (XO (XO (XO (XI XH))))))) :: ((Npos (XI (XI (XO (XO (XI (XI
    XH))))))) :: ((Npos (XO (XI (XI (XI (XO XH)))))) :: ((Npos (XI (XI (XI
    (XI (XO (XI XH))))))) :: ((Npos (XI (XO (XO (XO (XO (XI
    XH))))))) :: ((Npos (XI (XI (XO (XO (XI (XI XH))))))) :: ((Npos (XI (XO
    (XO (XI (XO (XI XH))))))) :: ((Npos (XI (XI (XO (XO (XI (XI
    XH))))))) :: ((Npos (XI (XO (XI (XI (XO XH)))))) :: ((Npos (XI (XI (XI
    (XI (XO (XI XH))))))) :: ((Npos (XO (XO (XO (XO (XI (XI
    XH))))))) :: ((Npos (XI (XO (XI (XO (XO (XI XH))))))) :: ((Npos (XO (XI
    (XI (XI (XO (XI XH))))))) :: ((Npos (XO (XI (XI (XI (XO
    XH)))))) :: ((Npos (XI (XI (XI (XI (XO (XI XH))))))) :: ((Npos (XO (XI
    (XO (XO (XI (XI XH))))))) :: ((Npos (XI (XI (XI (XO (XO (XI
    XH))))))) :: ((Npos (XI (XI (XI (XI (XO XH)))))) :: ((Npos (XI (XI (XI
    (XO (XI (XI XH))))))) :: ((Npos (XI (XI (XO (XO (XI (XI
    XH))))))) :: ((Npos (XI (XO (XI (XI (XO XH)))))) :: ((Npos (XO (XO (XI
    (XO (XO (XI XH))))))) :: ((Npos (XO (XO (XI (XO (XO (XI
    XH))))))) :: ((Npos (XI (XI (XI (XI (XO XH)))))) :: ((Npos (XO (XI (XI
    (XI (XO (XI XH))))))) :: ((Npos (XI (XI (XO (XO (XI (XI
    XH))))))) :: ((Npos (XI (XI (XI (XI (XO XH)))))) :: ((Npos (XO (XO (XI
    (XO (XO (XI XH))))))) :: ((Npos (XI (XO (XO (XI (XO (XI
    XH))))))) :: ((Npos (XI (XI (XO (XO (XI (XI XH))))))) :: ((Npos (XI (XI
    (XO (XO (XO (XI XH))))))) :: ((Npos (XI (XI (XI (XI (XO (XI
    XH))))))) :: ((Npos (XO (XI (XI (XO (XI (XI XH))))))) :: ((Npos (XI (XO
    (XI (XO (XO (XI XH))))))) :: ((Npos (XO (XI (XO (XO (XI (XI
    XH))))))) :: ((Npos (XI (XO (XO (XI (XI (XI XH))))))) :: ((Npos (XI (XI
    (XI (XI (XO XH)))))) :: ((Npos (XO (XI (XO (XO (XI XH)))))) :: ((Npos (XO
    (XO (XO (XO (XI XH)))))) :: ((Npos (XO (XO (XO (XO (XI XH)))))) :: ((Npos
    (XI (XO (XO (XI (XI XH)))))) :: ((Npos (XI (XI (XI (XI (XO
    XH)))))) :: ((Npos (XO (XO (XO (XO (XI XH)))))) :: ((Npos (XI (XO (XO (XO
    (XI XH)))))) :: ((Npos (XI (XI (XI (XI (XO XH)))))) :: ((Npos (XI (XI (XO
    (XO (XI (XI XH))))))) :: ((Npos (XO (XO (XI (XO (XI (XI
    XH))))))) :: ((Npos (XO (XI (XO (XO (XI (XI XH))))))) :: ((Npos (XI (XI
    (XO (XO (XO (XI XH))))))) :: ((Npos (XI (XO (XI (XI (XO (XI
    XH))))))) :: ((Npos (XO (XO (XO (XO (XI (XI XH))))))) :: ((Npos (XO (XO
    (XO (XO (XI
    XH)))))) :: []))))))))))))))))))))))))))))))))))))))))))))))))))))))))))))) }
