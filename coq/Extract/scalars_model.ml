
type nat =
| O
| S of nat

(** val fst : ('a1 * 'a2) -> 'a1 **)

let fst = function
| (x, _) -> x

(** val snd : ('a1 * 'a2) -> 'a2 **)

let snd = function
| (_, y) -> y

type comparison =
| Eq
| Lt
| Gt

(** val compOpp : comparison -> comparison **)

let compOpp = function
| Eq -> Eq
| Lt -> Gt
| Gt -> Lt

type positive =
| XI of positive
| XO of positive
| XH

type z =
| Z0
| Zpos of positive
| Zneg of positive

module Pos =
 struct
  (** val succ : positive -> positive **)

  let rec succ = function
  | XI p -> XO (succ p)
  | XO p -> XI p
  | XH -> XO XH

  (** val add : positive -> positive -> positive **)

  let rec add x y =
    match x with
    | XI p ->
      (match y with
       | XI q -> XO (add_carry p q)
       | XO q -> XI (add p q)
       | XH -> XO (succ p))
    | XO p ->
      (match y with
       | XI q -> XI (add p q)
       | XO q -> XO (add p q)
       | XH -> XI p)
    | XH -> (match y with
             | XI q -> XO (succ q)
             | XO q -> XI q
             | XH -> XO XH)

  (** val add_carry : positive -> positive -> positive **)

  and add_carry x y =
    match x with
    | XI p ->
      (match y with
       | XI q -> XI (add_carry p q)
       | XO q -> XO (add_carry p q)
       | XH -> XI (succ p))
    | XO p ->
      (match y with
       | XI q -> XO (add_carry p q)
       | XO q -> XI (add p q)
       | XH -> XO (succ p))
    | XH ->
      (match y with
       | XI q -> XI (succ q)
       | XO q -> XO (succ q)
       | XH -> XI XH)

  (** val pred_double : positive -> positive **)

  let rec pred_double = function
  | XI p -> XI (XO p)
  | XO p -> XI (pred_double p)
  | XH -> XH

  (** val mul : positive -> positive -> positive **)

  let rec mul x y =
    match x with
    | XI p -> add y (XO (mul p y))
    | XO p -> XO (mul p y)
    | XH -> y

  (** val iter : ('a1 -> 'a1) -> 'a1 -> positive -> 'a1 **)

  let rec iter f x = function
  | XI n' -> f (iter f (iter f x n') n')
  | XO n' -> iter f (iter f x n') n'
  | XH -> f x

  (** val size : positive -> positive **)

  let rec size = function
  | XI p0 -> succ (size p0)
  | XO p0 -> succ (size p0)
  | XH -> XH

  (** val compare_cont : comparison -> positive -> positive -> comparison **)

  let rec compare_cont r x y =
    match x with
    | XI p ->
      (match y with
       | XI q -> compare_cont r p q
       | XO q -> compare_cont Gt p q
       | XH -> Gt)
    | XO p ->
      (match y with
       | XI q -> compare_cont Lt p q
       | XO q -> compare_cont r p q
       | XH -> Gt)
    | XH -> (match y with
             | XH -> r
             | _ -> Lt)

  (** val compare : positive -> positive -> comparison **)

  let compare =
    compare_cont Eq

  (** val eqb : positive -> positive -> bool **)

  let rec eqb p q =
    match p with
    | XI p0 -> (match q with
                | XI q0 -> eqb p0 q0
                | _ -> false)
    | XO p0 -> (match q with
                | XO q0 -> eqb p0 q0
                | _ -> false)
    | XH -> (match q with
             | XH -> true
             | _ -> false)
 end

module Z =
 struct
  (** val double : z -> z **)

  let double = function
  | Z0 -> Z0
  | Zpos p -> Zpos (XO p)
  | Zneg p -> Zneg (XO p)

  (** val succ_double : z -> z **)

  let succ_double = function
  | Z0 -> Zpos XH
  | Zpos p -> Zpos (XI p)
  | Zneg p -> Zneg (Pos.pred_double p)

  (** val pred_double : z -> z **)

  let pred_double = function
  | Z0 -> Zneg XH
  | Zpos p -> Zpos (Pos.pred_double p)
  | Zneg p -> Zneg (XI p)

  (** val pos_sub : positive -> positive -> z **)

  let rec pos_sub x y =
    match x with
    | XI p ->
      (match y with
       | XI q -> double (pos_sub p q)
       | XO q -> succ_double (pos_sub p q)
       | XH -> Zpos (XO p))
    | XO p ->
      (match y with
       | XI q -> pred_double (pos_sub p q)
       | XO q -> double (pos_sub p q)
       | XH -> Zpos (Pos.pred_double p))
    | XH ->
      (match y with
       | XI q -> Zneg (XO q)
       | XO q -> Zneg (Pos.pred_double q)
       | XH -> Z0)

  (** val add : z -> z -> z **)

  let add x y =
    match x with
    | Z0 -> y
    | Zpos x' ->
      (match y with
       | Z0 -> x
       | Zpos y' -> Zpos (Pos.add x' y')
       | Zneg y' -> pos_sub x' y')
    | Zneg x' ->
      (match y with
       | Z0 -> x
       | Zpos y' -> pos_sub y' x'
       | Zneg y' -> Zneg (Pos.add x' y'))

  (** val opp : z -> z **)

  let opp = function
  | Z0 -> Z0
  | Zpos x0 -> Zneg x0
  | Zneg x0 -> Zpos x0

  (** val sub : z -> z -> z **)

  let sub m n =
    add m (opp n)

  (** val mul : z -> z -> z **)

  let mul x y =
    match x with
    | Z0 -> Z0
    | Zpos x' ->
      (match y with
       | Z0 -> Z0
       | Zpos y' -> Zpos (Pos.mul x' y')
       | Zneg y' -> Zneg (Pos.mul x' y'))
    | Zneg x' ->
      (match y with
       | Z0 -> Z0
       | Zpos y' -> Zneg (Pos.mul x' y')
       | Zneg y' -> Zpos (Pos.mul x' y'))

  (** val pow_pos : z -> positive -> z **)

  let pow_pos z0 =
    Pos.iter (mul z0) (Zpos XH)

  (** val pow : z -> z -> z **)

  let pow x = function
  | Z0 -> Zpos XH
  | Zpos p -> pow_pos x p
  | Zneg _ -> Z0

  (** val compare : z -> z -> comparison **)

  let compare x y =
    match x with
    | Z0 -> (match y with
             | Z0 -> Eq
             | Zpos _ -> Lt
             | Zneg _ -> Gt)
    | Zpos x' -> (match y with
                  | Zpos y' -> Pos.compare x' y'
                  | _ -> Gt)
    | Zneg x' ->
      (match y with
       | Zneg y' -> compOpp (Pos.compare x' y')
       | _ -> Lt)

  (** val leb : z -> z -> bool **)

  let leb x y =
    match compare x y with
    | Gt -> false
    | _ -> true

  (** val ltb : z -> z -> bool **)

  let ltb x y =
    match compare x y with
    | Lt -> true
    | _ -> false

  (** val eqb : z -> z -> bool **)

  let eqb x y =
    match x with
    | Z0 -> (match y with
             | Z0 -> true
             | _ -> false)
    | Zpos p -> (match y with
                 | Zpos q -> Pos.eqb p q
                 | _ -> false)
    | Zneg p -> (match y with
                 | Zneg q -> Pos.eqb p q
                 | _ -> false)

  (** val pos_div_eucl : positive -> z -> z * z **)

  let rec pos_div_eucl a b =
    match a with
    | XI a' ->
      let (q, r) = pos_div_eucl a' b in
      let r' = add (mul (Zpos (XO XH)) r) (Zpos XH) in
      if ltb r' b
      then ((mul (Zpos (XO XH)) q), r')
      else ((add (mul (Zpos (XO XH)) q) (Zpos XH)), (sub r' b))
    | XO a' ->
      let (q, r) = pos_div_eucl a' b in
      let r' = mul (Zpos (XO XH)) r in
      if ltb r' b
      then ((mul (Zpos (XO XH)) q), r')
      else ((add (mul (Zpos (XO XH)) q) (Zpos XH)), (sub r' b))
    | XH -> if leb (Zpos (XO XH)) b then (Z0, (Zpos XH)) else ((Zpos XH), Z0)

  (** val div_eucl : z -> z -> z * z **)

  let div_eucl a b =
    match a with
    | Z0 -> (Z0, Z0)
    | Zpos a' ->
      (match b with
       | Z0 -> (Z0, a)
       | Zpos _ -> pos_div_eucl a' b
       | Zneg b' ->
         let (q, r) = pos_div_eucl a' (Zpos b') in
         (match r with
          | Z0 -> ((opp q), Z0)
          | _ -> ((opp (add q (Zpos XH))), (add b r))))
    | Zneg a' ->
      (match b with
       | Z0 -> (Z0, a)
       | Zpos _ ->
         let (q, r) = pos_div_eucl a' b in
         (match r with
          | Z0 -> ((opp q), Z0)
          | _ -> ((opp (add q (Zpos XH))), (sub b r)))
       | Zneg b' -> let (q, r) = pos_div_eucl a' (Zpos b') in (q, (opp r)))

  (** val div : z -> z -> z **)

  let div a b =
    let (q, _) = div_eucl a b in q

  (** val modulo : z -> z -> z **)

  let modulo a b =
    let (_, r) = div_eucl a b in r

  (** val even : z -> bool **)

  let even = function
  | Z0 -> true
  | Zpos p -> (match p with
               | XO _ -> true
               | _ -> false)
  | Zneg p -> (match p with
               | XO _ -> true
               | _ -> false)

  (** val log2 : z -> z **)

  let log2 = function
  | Zpos p0 ->
    (match p0 with
     | XI p -> Zpos (Pos.size p)
     | XO p -> Zpos (Pos.size p)
     | XH -> Z0)
  | _ -> Z0
 end

(** val rne_div : z -> z -> z **)

let rne_div num den =
  let q = Z.div num den in
  let r = Z.modulo num den in
  if Z.ltb (Z.mul (Zpos (XO XH)) r) den
  then q
  else if Z.ltb den (Z.mul (Zpos (XO XH)) r)
       then Z.add q (Zpos XH)
       else if Z.even q then q else Z.add q (Zpos XH)

(** val rnd53 : z -> z -> z * z **)

let rnd53 p q =
  if Z.eqb p Z0
  then (Z0, (Zpos XH))
  else let s = Z.add (Z.log2 q) (Zpos (XI (XO (XI (XO (XI XH)))))) in
       let p0 = Z.mul p (Z.pow (Zpos (XO XH)) s) in
       let t = Z.sub (Z.log2 (Z.div p0 q)) (Zpos (XO (XO (XI (XO (XI XH))))))
       in
       ((Z.mul (rne_div p0 (Z.mul q (Z.pow (Zpos (XO XH)) t)))
          (Z.pow (Zpos (XO XH)) t)), (Z.pow (Zpos (XO XH)) s))

(** val rnd53_mant : z -> z -> z **)

let rnd53_mant p q =
  let s = Z.add (Z.log2 q) (Zpos (XI (XO (XI (XO (XI XH)))))) in
  let p0 = Z.mul p (Z.pow (Zpos (XO XH)) s) in
  let t = Z.sub (Z.log2 (Z.div p0 q)) (Zpos (XO (XO (XI (XO (XI XH)))))) in
  rne_div p0 (Z.mul q (Z.pow (Zpos (XO XH)) t))

(** val rnd53_exp : z -> z -> z **)

let rnd53_exp p q =
  let s = Z.add (Z.log2 q) (Zpos (XI (XO (XI (XO (XI XH)))))) in
  let p0 = Z.mul p (Z.pow (Zpos (XO XH)) s) in
  Z.sub (Z.sub (Z.log2 (Z.div p0 q)) (Zpos (XO (XO (XI (XO (XI XH))))))) s

(** val fr_of_me : z -> z -> z * z **)

let fr_of_me m e =
  if Z.ltb e Z0
  then (m, (Z.pow (Zpos (XO XH)) (Z.opp e)))
  else ((Z.mul m (Z.pow (Zpos (XO XH)) e)), (Zpos XH))

(** val ts_to_py : z -> z * z **)

let ts_to_py n =
  rnd53 n (Zpos (XO (XO (XO (XI (XO (XI (XI (XI (XI XH))))))))))

(** val mul1000 : (z * z) -> z * z **)

let mul1000 x =
  rnd53
    (Z.mul (fst x) (Zpos (XO (XO (XO (XI (XO (XI (XI (XI (XI XH)))))))))))
    (snd x)

(** val round_fr : (z * z) -> z **)

let round_fr y =
  rne_div (fst y) (snd y)

(** val ts_to_xml : (z * z) -> z **)

let ts_to_xml x =
  round_fr (mul1000 x)

(** val ts_to_xml_exact : (z * z) -> z **)

let ts_to_xml_exact x =
  rne_div
    (Z.mul (fst x) (Zpos (XO (XO (XO (XI (XO (XI (XI (XI (XI XH)))))))))))
    (snd x)

(** val count_changed : ((z * z) -> z) -> z -> nat -> z **)

let rec count_changed f lo = function
| O -> Z0
| S k ->
  Z.add (if Z.eqb (f (ts_to_py lo)) lo then Z0 else Zpos XH)
    (count_changed f (Z.add lo (Zpos XH)) k)
