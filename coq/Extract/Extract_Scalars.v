(* Extraction of the executable C18 timestamp model (ExtrOcamlBasic only; Z, positive stay inductives). *)
Require Extraction.
Require Import ExtrOcamlBasic.
From SDC Require Import Scalars.Timestamp.
Extraction "Extract/scalars_model.ml" ts_to_py ts_to_xml ts_to_xml_exact rnd53_mant rnd53_exp fr_of_me count_changed.
