(* Extraction of the executable C14 model (ExtrOcamlBasic only; N, Z, positive, nat stay inductives). *)
Require Extraction.
Require Import ExtrOcamlBasic.
From Coq Require Import ZArith NArith.
From SDC Require Import Location.Quote Location.Loc Wsd.Match Wsd.Udp Wsd.Table Wsd.Gen_Match.
Extraction "Extract/wsd_match_model.ml" run_match run_filter step node0 filter_services t_values split_tbl match_consts
  mkService mkBx BinNat.N.to_nat BinInt.Z.of_N.
