
val xorb : bool -> bool -> bool

val negb : bool -> bool

type nat =
| O
| S of nat

type ('a, 'b) sum =
| Inl of 'a
| Inr of 'b

val fst : ('a1 * 'a2) -> 'a1

val snd : ('a1 * 'a2) -> 'a2

val app : 'a1 list -> 'a1 list -> 'a1 list

type comparison =
| Eq
| Lt
| Gt

val add : nat -> nat -> nat

type positive =
| XI of positive
| XO of positive
| XH

type n =
| N0
| Npos of positive

type z =
| Z0
| Zpos of positive
| Zneg of positive

module Pos :
 sig
  type mask =
  | IsNul
  | IsPos of positive
  | IsNeg
 end

module Coq_Pos :
 sig
  val succ : positive -> positive

  val add : positive -> positive -> positive

  val add_carry : positive -> positive -> positive

  val pred_double : positive -> positive

  type mask = Pos.mask =
  | IsNul
  | IsPos of positive
  | IsNeg

  val succ_double_mask : mask -> mask

  val double_mask : mask -> mask

  val double_pred_mask : positive -> mask

  val sub_mask : positive -> positive -> mask

  val sub_mask_carry : positive -> positive -> mask

  val mul : positive -> positive -> positive

  val compare_cont : comparison -> positive -> positive -> comparison

  val compare : positive -> positive -> comparison

  val eqb : positive -> positive -> bool

  val iter_op : ('a1 -> 'a1 -> 'a1) -> positive -> 'a1 -> 'a1

  val to_nat : positive -> nat
 end

module N :
 sig
  val succ_double : n -> n

  val double : n -> n

  val add : n -> n -> n

  val sub : n -> n -> n

  val mul : n -> n -> n

  val compare : n -> n -> comparison

  val eqb : n -> n -> bool

  val leb : n -> n -> bool

  val ltb : n -> n -> bool

  val pos_div_eucl : positive -> n -> n * n

  val div_eucl : n -> n -> n * n

  val div : n -> n -> n

  val modulo : n -> n -> n

  val to_nat : n -> nat
 end

module Z :
 sig
  val of_N : n -> z
 end

val map : ('a1 -> 'a2) -> 'a1 list -> 'a2 list

val flat_map : ('a1 -> 'a2 list) -> 'a1 list -> 'a2 list

val existsb : ('a1 -> bool) -> 'a1 list -> bool

val forallb : ('a1 -> bool) -> 'a1 list -> bool

val filter : ('a1 -> bool) -> 'a1 list -> 'a1 list

val combine : 'a1 list -> 'a2 list -> ('a1 * 'a2) list

type bytes = n list

val bytes_eqb : bytes -> bytes -> bool

val mem : n -> bytes -> bool

val nonempty : bytes -> bool

val in_range : n -> n -> n -> bool

val is_upper : n -> bool

val is_lower : n -> bool

val is_alpha : n -> bool

val is_digit : n -> bool

val always_safe : n -> bool

val scheme_char : n -> bool

val lower : n -> n

val hexdigit : n -> n

val hexval : n -> n option

val is_safe : bytes -> n -> bool

val quote_byte : bytes -> n -> bytes

val quote : bytes -> bytes -> bytes

val replace_byte : n -> n -> bytes -> bytes

val quote_plus : bytes -> bytes -> bytes

val unquote : bytes -> bytes

val split_on : n -> bytes -> bytes list

val split1 : n -> bytes -> (bytes * bytes) option

val join : bytes -> bytes list -> bytes

val urlencode : (bytes -> bytes) -> (bytes * bytes) list -> bytes

val qs_decode : bytes -> bytes

val parse_field : bytes -> (bytes * bytes) list

val parse_qsl : bytes -> (bytes * bytes) list

val dict_get : bytes -> (bytes * bytes) list -> bytes option

type sres =
| SplitErr
| SplitOk of bytes * bytes * bytes * bytes * bytes

val lstrip_c0 : bytes -> bytes

val remove_unsafe : bytes -> bytes

val split_scheme : bytes -> bytes * bytes

val split_netloc : bytes -> bytes * bytes

val starts_with2 : n -> n -> bytes -> bool

val drop2 : bytes -> bytes

val is_ascii : bytes -> bool

val urlsplit : bool -> bytes -> sres

val urlunparse_nonetloc : bytes -> bytes -> bytes -> bytes

type consts = { c_scheme : bytes; c_elements : bytes list;
                c_default_root : bytes; c_ident_root : bytes;
                c_pub_scheme : bytes; c_unk : bytes }

type loc = { l_root : bytes; l_vals : bytes option list }

type perr =
| ESchemeErr
| EValueErr

type 'a outcome =
| Ret of 'a
| Raise

type ident = { i_root : bytes option; i_ext : bytes option }

type lstate = { s_idents : ident list; s_detail : bytes option list }

type service = bytes list option

val val_or_empty : bytes option -> bytes

val present : bytes list -> bytes option list -> (bytes * bytes) list

val state_query_dict : bytes list -> bytes option list -> (bytes * bytes) list

val elem_ok : bytes option -> bytes option -> bool

val slash5 : bytes

val slash_q : bytes

val scope_string : consts -> loc -> bytes

val from_scope : consts -> (bytes -> sres) -> bytes -> (loc, perr) sum

val contains : loc -> loc -> bool

val scope_matches :
  consts -> bool -> (bytes -> sres) -> loc -> bytes -> bool outcome

val any_scope :
  consts -> bool -> (bytes -> sres) -> loc -> bytes list -> bool outcome

val service_matches :
  consts -> bool -> (bytes -> sres) -> loc -> service -> bool outcome

val filter_inside :
  consts -> bool -> (bytes -> sres) -> loc -> service list -> service list
  outcome

val loc_extension : loc -> bytes

val state_of : consts -> loc -> lstate outcome

val published_scope : consts -> lstate -> ident -> bytes

val published_scopes : consts -> lstate -> bytes list

val split_tbl : bytes list -> bytes -> sres

type parse_res = loc option * n

val canon_parse : (loc, perr) sum -> parse_res

val out_to_opt : 'a1 outcome -> 'a1 option

val run_roundtrip : consts -> loc -> bytes * parse_res

val override : 'a1 option -> 'a1 -> 'a1

val run_published :
  consts -> bool -> bytes list -> loc -> bytes option option -> bytes option
  option -> loc list -> (bytes list * bool option list list) option

val run_foreign :
  consts -> bool -> bytes list -> loc -> service list -> service list option

val run_parse : consts -> bytes list -> bytes -> parse_res

val loc_consts : consts
