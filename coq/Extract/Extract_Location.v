(* Extraction of the executable C16 model (ExtrOcamlBasic only; N, positive, nat stay inductives). *)
Require Extraction.
Require Import ExtrOcamlBasic.
From Coq Require Import ZArith NArith.
From SDC Require Import Location.Quote Location.Loc Location.Gen_Loc.
Extraction "Extract/location_model.ml" run_roundtrip run_published run_foreign run_parse loc_consts mkLoc
  BinInt.Z.of_N BinNat.N.to_nat.   (* the last two only so that ocaml/zutil.inc (Z, nat helpers) type-checks *)
