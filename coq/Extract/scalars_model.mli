
type nat =
| O
| S of nat

val fst : ('a1 * 'a2) -> 'a1

val snd : ('a1 * 'a2) -> 'a2

type comparison =
| Eq
| Lt
| Gt

val compOpp : comparison -> comparison

type positive =
| XI of positive
| XO of positive
| XH

type z =
| Z0
| Zpos of positive
| Zneg of positive

module Pos :
 sig
  val succ : positive -> positive

  val add : positive -> positive -> positive

  val add_carry : positive -> positive -> positive

  val pred_double : positive -> positive

  val mul : positive -> positive -> positive

  val iter : ('a1 -> 'a1) -> 'a1 -> positive -> 'a1

  val size : positive -> positive

  val compare_cont : comparison -> positive -> positive -> comparison

  val compare : positive -> positive -> comparison

  val eqb : positive -> positive -> bool
 end

module Z :
 sig
  val double : z -> z

  val succ_double : z -> z

  val pred_double : z -> z

  val pos_sub : positive -> positive -> z

  val add : z -> z -> z

  val opp : z -> z

  val sub : z -> z -> z

  val mul : z -> z -> z

  val pow_pos : z -> positive -> z

  val pow : z -> z -> z

  val compare : z -> z -> comparison

  val leb : z -> z -> bool

  val ltb : z -> z -> bool

  val eqb : z -> z -> bool

  val pos_div_eucl : positive -> z -> z * z

  val div_eucl : z -> z -> z * z

  val div : z -> z -> z

  val modulo : z -> z -> z

  val even : z -> bool

  val log2 : z -> z
 end

val rne_div : z -> z -> z

val rnd53 : z -> z -> z * z

val rnd53_mant : z -> z -> z

val rnd53_exp : z -> z -> z

val fr_of_me : z -> z -> z * z

val ts_to_py : z -> z * z

val mul1000 : (z * z) -> z * z

val round_fr : (z * z) -> z

val ts_to_xml : (z * z) -> z

val ts_to_xml_exact : (z * z) -> z

val count_changed : ((z * z) -> z) -> z -> nat -> z
