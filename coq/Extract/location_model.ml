
(** val xorb : bool -> bool -> bool **)

let xorb b1 b2 =
  if b1 then if b2 then false else true else b2

(** val negb : bool -> bool **)

let negb = function
| true -> false
| false -> true

type nat =
| O
| S of nat

type ('a, 'b) sum =
| Inl of 'a
| Inr of 'b

(** val fst : ('a1 * 'a2) -> 'a1 **)

let fst = function
| (x, _) -> x

(** val snd : ('a1 * 'a2) -> 'a2 **)

let snd = function
| (_, y) -> y

(** val app : 'a1 list -> 'a1 list -> 'a1 list **)

let rec app l m =
  match l with
  | [] -> m
  | a :: l1 -> a :: (app l1 m)

type comparison =
| Eq
| Lt
| Gt

module Coq__1 = struct
 (** val add : nat -> nat -> nat **)
 let rec add n0 m =
   match n0 with
   | O -> m
   | S p -> S (add p m)
end
include Coq__1

type positive =
| XI of positive
| XO of positive
| XH

type n =
| N0
| Npos of positive

type z =
| Z0
| Zpos of positive
| Zneg of positive

module Pos =
 struct
  type mask =
  | IsNul
  | IsPos of positive
  | IsNeg
 end

module Coq_Pos =
 struct
  (** val succ : positive -> positive **)

  let rec succ = function
  | XI p -> XO (succ p)
  | XO p -> XI p
  | XH -> XO XH

  (** val add : positive -> positive -> positive **)

  let rec add x y =
    match x with
    | XI p ->
      (match y with
       | XI q -> XO (add_carry p q)
       | XO q -> XI (add p q)
       | XH -> XO (succ p))
    | XO p ->
      (match y with
       | XI q -> XI (add p q)
       | XO q -> XO (add p q)
       | XH -> XI p)
    | XH -> (match y with
             | XI q -> XO (succ q)
             | XO q -> XI q
             | XH -> XO XH)

  (** val add_carry : positive -> positive -> positive **)

  and add_carry x y =
    match x with
    | XI p ->
      (match y with
       | XI q -> XI (add_carry p q)
       | XO q -> XO (add_carry p q)
       | XH -> XI (succ p))
    | XO p ->
      (match y with
       | XI q -> XO (add_carry p q)
       | XO q -> XI (add p q)
       | XH -> XO (succ p))
    | XH ->
      (match y with
       | XI q -> XI (succ q)
       | XO q -> XO (succ q)
       | XH -> XI XH)

  (** val pred_double : positive -> positive **)

  let rec pred_double = function
  | XI p -> XI (XO p)
  | XO p -> XI (pred_double p)
  | XH -> XH

  type mask = Pos.mask =
  | IsNul
  | IsPos of positive
  | IsNeg

  (** val succ_double_mask : mask -> mask **)

  let succ_double_mask = function
  | IsNul -> IsPos XH
  | IsPos p -> IsPos (XI p)
  | IsNeg -> IsNeg

  (** val double_mask : mask -> mask **)

  let double_mask = function
  | IsPos p -> IsPos (XO p)
  | x0 -> x0

  (** val double_pred_mask : positive -> mask **)

  let double_pred_mask = function
  | XI p -> IsPos (XO (XO p))
  | XO p -> IsPos (XO (pred_double p))
  | XH -> IsNul

  (** val sub_mask : positive -> positive -> mask **)

  let rec sub_mask x y =
    match x with
    | XI p ->
      (match y with
       | XI q -> double_mask (sub_mask p q)
       | XO q -> succ_double_mask (sub_mask p q)
       | XH -> IsPos (XO p))
    | XO p ->
      (match y with
       | XI q -> succ_double_mask (sub_mask_carry p q)
       | XO q -> double_mask (sub_mask p q)
       | XH -> IsPos (pred_double p))
    | XH -> (match y with
             | XH -> IsNul
             | _ -> IsNeg)

  (** val sub_mask_carry : positive -> positive -> mask **)

  and sub_mask_carry x y =
    match x with
    | XI p ->
      (match y with
       | XI q -> succ_double_mask (sub_mask_carry p q)
       | XO q -> double_mask (sub_mask p q)
       | XH -> IsPos (pred_double p))
    | XO p ->
      (match y with
       | XI q -> double_mask (sub_mask_carry p q)
       | XO q -> succ_double_mask (sub_mask_carry p q)
       | XH -> double_pred_mask p)
    | XH -> IsNeg

  (** val mul : positive -> positive -> positive **)

  let rec mul x y =
    match x with
    | XI p -> add y (XO (mul p y))
    | XO p -> XO (mul p y)
    | XH -> y

  (** val compare_cont : comparison -> positive -> positive -> comparison **)

  let rec compare_cont r x y =
    match x with
    | XI p ->
      (match y with
       | XI q -> compare_cont r p q
       | XO q -> compare_cont Gt p q
       | XH -> Gt)
    | XO p ->
      (match y with
       | XI q -> compare_cont Lt p q
       | XO q -> compare_cont r p q
       | XH -> Gt)
    | XH -> (match y with
             | XH -> r
             | _ -> Lt)

  (** val compare : positive -> positive -> comparison **)

  let compare =
    compare_cont Eq

  (** val eqb : positive -> positive -> bool **)

  let rec eqb p q =
    match p with
    | XI p0 -> (match q with
                | XI q0 -> eqb p0 q0
                | _ -> false)
    | XO p0 -> (match q with
                | XO q0 -> eqb p0 q0
                | _ -> false)
    | XH -> (match q with
             | XH -> true
             | _ -> false)

  (** val iter_op : ('a1 -> 'a1 -> 'a1) -> positive -> 'a1 -> 'a1 **)

  let rec iter_op op p a =
    match p with
    | XI p0 -> op a (iter_op op p0 (op a a))
    | XO p0 -> iter_op op p0 (op a a)
    | XH -> a

  (** val to_nat : positive -> nat **)

  let to_nat x =
    iter_op Coq__1.add x (S O)
 end

module N =
 struct
  (** val succ_double : n -> n **)

  let succ_double = function
  | N0 -> Npos XH
  | Npos p -> Npos (XI p)

  (** val double : n -> n **)

  let double = function
  | N0 -> N0
  | Npos p -> Npos (XO p)

  (** val add : n -> n -> n **)

  let add n0 m =
    match n0 with
    | N0 -> m
    | Npos p -> (match m with
                 | N0 -> n0
                 | Npos q -> Npos (Coq_Pos.add p q))

  (** val sub : n -> n -> n **)

  let sub n0 m =
    match n0 with
    | N0 -> N0
    | Npos n' ->
      (match m with
       | N0 -> n0
       | Npos m' ->
         (match Coq_Pos.sub_mask n' m' with
          | Coq_Pos.IsPos p -> Npos p
          | _ -> N0))

  (** val mul : n -> n -> n **)

  let mul n0 m =
    match n0 with
    | N0 -> N0
    | Npos p -> (match m with
                 | N0 -> N0
                 | Npos q -> Npos (Coq_Pos.mul p q))

  (** val compare : n -> n -> comparison **)

  let compare n0 m =
    match n0 with
    | N0 -> (match m with
             | N0 -> Eq
             | Npos _ -> Lt)
    | Npos n' -> (match m with
                  | N0 -> Gt
                  | Npos m' -> Coq_Pos.compare n' m')

  (** val eqb : n -> n -> bool **)

  let eqb n0 m =
    match n0 with
    | N0 -> (match m with
             | N0 -> true
             | Npos _ -> false)
    | Npos p -> (match m with
                 | N0 -> false
                 | Npos q -> Coq_Pos.eqb p q)

  (** val leb : n -> n -> bool **)

  let leb x y =
    match compare x y with
    | Gt -> false
    | _ -> true

  (** val ltb : n -> n -> bool **)

  let ltb x y =
    match compare x y with
    | Lt -> true
    | _ -> false

  (** val pos_div_eucl : positive -> n -> n * n **)

  let rec pos_div_eucl a b =
    match a with
    | XI a' ->
      let (q, r) = pos_div_eucl a' b in
      let r' = succ_double r in
      if leb b r' then ((succ_double q), (sub r' b)) else ((double q), r')
    | XO a' ->
      let (q, r) = pos_div_eucl a' b in
      let r' = double r in
      if leb b r' then ((succ_double q), (sub r' b)) else ((double q), r')
    | XH ->
      (match b with
       | N0 -> (N0, (Npos XH))
       | Npos p -> (match p with
                    | XH -> ((Npos XH), N0)
                    | _ -> (N0, (Npos XH))))

  (** val div_eucl : n -> n -> n * n **)

  let div_eucl a b =
    match a with
    | N0 -> (N0, N0)
    | Npos na -> (match b with
                  | N0 -> (N0, a)
                  | Npos _ -> pos_div_eucl na b)

  (** val div : n -> n -> n **)

  let div a b =
    fst (div_eucl a b)

  (** val modulo : n -> n -> n **)

  let modulo a b =
    snd (div_eucl a b)

  (** val to_nat : n -> nat **)

  let to_nat = function
  | N0 -> O
  | Npos p -> Coq_Pos.to_nat p
 end

module Z =
 struct
  (** val of_N : n -> z **)

  let of_N = function
  | N0 -> Z0
  | Npos p -> Zpos p
 end

(** val map : ('a1 -> 'a2) -> 'a1 list -> 'a2 list **)

let rec map f = function
| [] -> []
| a :: t -> (f a) :: (map f t)

(** val flat_map : ('a1 -> 'a2 list) -> 'a1 list -> 'a2 list **)

let rec flat_map f = function
| [] -> []
| x :: t -> app (f x) (flat_map f t)

(** val existsb : ('a1 -> bool) -> 'a1 list -> bool **)

let rec existsb f = function
| [] -> false
| a :: l0 -> (||) (f a) (existsb f l0)

(** val forallb : ('a1 -> bool) -> 'a1 list -> bool **)

let rec forallb f = function
| [] -> true
| a :: l0 -> (&&) (f a) (forallb f l0)

(** val filter : ('a1 -> bool) -> 'a1 list -> 'a1 list **)

let rec filter f = function
| [] -> []
| x :: l0 -> if f x then x :: (filter f l0) else filter f l0

(** val combine : 'a1 list -> 'a2 list -> ('a1 * 'a2) list **)

let rec combine l l' =
  match l with
  | [] -> []
  | x :: tl ->
    (match l' with
     | [] -> []
     | y :: tl' -> (x, y) :: (combine tl tl'))

type bytes = n list

(** val bytes_eqb : bytes -> bytes -> bool **)

let rec bytes_eqb a b =
  match a with
  | [] -> (match b with
           | [] -> true
           | _ :: _ -> false)
  | x :: a' ->
    (match b with
     | [] -> false
     | y :: b' -> (&&) (N.eqb x y) (bytes_eqb a' b'))

(** val mem : n -> bytes -> bool **)

let mem c s =
  existsb (N.eqb c) s

(** val nonempty : bytes -> bool **)

let nonempty = function
| [] -> false
| _ :: _ -> true

(** val in_range : n -> n -> n -> bool **)

let in_range lo hi c =
  (&&) (N.leb lo c) (N.leb c hi)

(** val is_upper : n -> bool **)

let is_upper c =
  in_range (Npos (XI (XO (XO (XO (XO (XO XH))))))) (Npos (XO (XI (XO (XI (XI
    (XO XH))))))) c

(** val is_lower : n -> bool **)

let is_lower c =
  in_range (Npos (XI (XO (XO (XO (XO (XI XH))))))) (Npos (XO (XI (XO (XI (XI
    (XI XH))))))) c

(** val is_alpha : n -> bool **)

let is_alpha c =
  (||) (is_upper c) (is_lower c)

(** val is_digit : n -> bool **)

let is_digit c =
  in_range (Npos (XO (XO (XO (XO (XI XH)))))) (Npos (XI (XO (XO (XI (XI
    XH)))))) c

(** val always_safe : n -> bool **)

let always_safe c =
  (||)
    ((||)
      ((||)
        ((||) ((||) (is_alpha c) (is_digit c))
          (N.eqb c (Npos (XI (XI (XI (XI (XI (XO XH)))))))))
        (N.eqb c (Npos (XO (XI (XI (XI (XO XH))))))))
      (N.eqb c (Npos (XI (XO (XI (XI (XO XH))))))))
    (N.eqb c (Npos (XO (XI (XI (XI (XI (XI XH))))))))

(** val scheme_char : n -> bool **)

let scheme_char c =
  (||)
    ((||)
      ((||) ((||) (is_alpha c) (is_digit c))
        (N.eqb c (Npos (XI (XI (XO (XI (XO XH))))))))
      (N.eqb c (Npos (XI (XO (XI (XI (XO XH))))))))
    (N.eqb c (Npos (XO (XI (XI (XI (XO XH)))))))

(** val lower : n -> n **)

let lower c =
  if is_upper c then N.add c (Npos (XO (XO (XO (XO (XO XH)))))) else c

(** val hexdigit : n -> n **)

let hexdigit n0 =
  if N.ltb n0 (Npos (XO (XI (XO XH))))
  then N.add (Npos (XO (XO (XO (XO (XI XH)))))) n0
  else N.add (Npos (XI (XI (XI (XO (XI XH)))))) n0

(** val hexval : n -> n option **)

let hexval c =
  if in_range (Npos (XO (XO (XO (XO (XI XH)))))) (Npos (XI (XO (XO (XI (XI
       XH)))))) c
  then Some (N.sub c (Npos (XO (XO (XO (XO (XI XH)))))))
  else if in_range (Npos (XI (XO (XO (XO (XO (XO XH))))))) (Npos (XO (XI (XI
            (XO (XO (XO XH))))))) c
       then Some (N.sub c (Npos (XI (XI (XI (XO (XI XH)))))))
       else if in_range (Npos (XI (XO (XO (XO (XO (XI XH))))))) (Npos (XO (XI
                 (XI (XO (XO (XI XH))))))) c
            then Some (N.sub c (Npos (XI (XI (XI (XO (XI (XO XH))))))))
            else None

(** val is_safe : bytes -> n -> bool **)

let is_safe safe c =
  (||) (always_safe c)
    ((&&) (N.ltb c (Npos (XO (XO (XO (XO (XO (XO (XO XH))))))))) (mem c safe))

(** val quote_byte : bytes -> n -> bytes **)

let quote_byte safe c =
  if is_safe safe c
  then c :: []
  else (Npos (XI (XO (XI (XO (XO
         XH)))))) :: ((hexdigit (N.div c (Npos (XO (XO (XO (XO XH))))))) :: (
         (hexdigit (N.modulo c (Npos (XO (XO (XO (XO XH))))))) :: []))

(** val quote : bytes -> bytes -> bytes **)

let quote safe s =
  flat_map (quote_byte safe) s

(** val replace_byte : n -> n -> bytes -> bytes **)

let replace_byte a b s =
  map (fun c -> if N.eqb c a then b else c) s

(** val quote_plus : bytes -> bytes -> bytes **)

let quote_plus safe s =
  if mem (Npos (XO (XO (XO (XO (XO XH)))))) s
  then replace_byte (Npos (XO (XO (XO (XO (XO XH)))))) (Npos (XI (XI (XO (XI
         (XO XH))))))
         (quote (app safe ((Npos (XO (XO (XO (XO (XO XH)))))) :: [])) s)
  else quote safe s

(** val unquote : bytes -> bytes **)

let rec unquote = function
| [] -> []
| c :: r ->
  if N.eqb c (Npos (XI (XO (XI (XO (XO XH))))))
  then (match r with
        | [] -> (Npos (XI (XO (XI (XO (XO XH)))))) :: []
        | h :: r1 ->
          (match r1 with
           | [] -> (Npos (XI (XO (XI (XO (XO XH)))))) :: (unquote r)
           | l :: r2 ->
             (match hexval h with
              | Some a ->
                (match hexval l with
                 | Some b ->
                   (N.add (N.mul (Npos (XO (XO (XO (XO XH))))) a) b) :: 
                     (unquote r2)
                 | None -> (Npos (XI (XO (XI (XO (XO XH)))))) :: (unquote r))
              | None -> (Npos (XI (XO (XI (XO (XO XH)))))) :: (unquote r))))
  else c :: (unquote r)

(** val split_on : n -> bytes -> bytes list **)

let rec split_on sep = function
| [] -> [] :: []
| c :: r ->
  if N.eqb c sep
  then [] :: (split_on sep r)
  else (match split_on sep r with
        | [] -> (c :: []) :: []
        | h :: t -> (c :: h) :: t)

(** val split1 : n -> bytes -> (bytes * bytes) option **)

let rec split1 sep = function
| [] -> None
| c :: r ->
  if N.eqb c sep
  then Some ([], r)
  else (match split1 sep r with
        | Some p -> let (a, b) = p in Some ((c :: a), b)
        | None -> None)

(** val join : bytes -> bytes list -> bytes **)

let rec join sep = function
| [] -> []
| p :: r -> (match r with
             | [] -> p
             | _ :: _ -> app p (app sep (join sep r)))

(** val urlencode : (bytes -> bytes) -> (bytes * bytes) list -> bytes **)

let urlencode qv q =
  join ((Npos (XO (XI (XI (XO (XO XH)))))) :: [])
    (map (fun kv ->
      app (qv (fst kv)) ((Npos (XI (XO (XI (XI (XI XH)))))) :: (qv (snd kv))))
      q)

(** val qs_decode : bytes -> bytes **)

let qs_decode s =
  unquote
    (replace_byte (Npos (XI (XI (XO (XI (XO XH)))))) (Npos (XO (XO (XO (XO
      (XO XH)))))) s)

(** val parse_field : bytes -> (bytes * bytes) list **)

let parse_field f = match f with
| [] -> []
| _ :: _ ->
  (match split1 (Npos (XI (XO (XI (XI (XI XH)))))) f with
   | Some p ->
     let (n0, v) = p in
     if nonempty v then ((qs_decode n0), (qs_decode v)) :: [] else []
   | None -> [])

(** val parse_qsl : bytes -> (bytes * bytes) list **)

let parse_qsl qs = match qs with
| [] -> []
| _ :: _ ->
  flat_map parse_field (split_on (Npos (XO (XI (XI (XO (XO XH)))))) qs)

(** val dict_get : bytes -> (bytes * bytes) list -> bytes option **)

let rec dict_get k = function
| [] -> None
| p :: r ->
  let (k', v) = p in
  (match dict_get k r with
   | Some x -> Some x
   | None -> if bytes_eqb k k' then Some v else None)

type sres =
| SplitErr
| SplitOk of bytes * bytes * bytes * bytes * bytes

(** val lstrip_c0 : bytes -> bytes **)

let rec lstrip_c0 s = match s with
| [] -> []
| c :: r ->
  if N.leb c (Npos (XO (XO (XO (XO (XO XH)))))) then lstrip_c0 r else s

(** val remove_unsafe : bytes -> bytes **)

let remove_unsafe s =
  filter (fun c ->
    negb
      ((||)
        ((||) (N.eqb c (Npos (XI (XO (XO XH)))))
          (N.eqb c (Npos (XO (XI (XO XH))))))
        (N.eqb c (Npos (XI (XO (XI XH))))))) s

(** val split_scheme : bytes -> bytes * bytes **)

let split_scheme url =
  match split1 (Npos (XO (XI (XO (XI (XI XH)))))) url with
  | Some p ->
    let (pre, post) = p in
    (match pre with
     | [] -> ([], url)
     | c0 :: _ ->
       if (&&) (is_alpha c0) (forallb scheme_char pre)
       then ((map lower pre), post)
       else ([], url))
  | None -> ([], url)

(** val split_netloc : bytes -> bytes * bytes **)

let rec split_netloc s = match s with
| [] -> ([], [])
| c :: r ->
  if (||)
       ((||) (N.eqb c (Npos (XI (XI (XI (XI (XO XH)))))))
         (N.eqb c (Npos (XI (XI (XI (XI (XI XH))))))))
       (N.eqb c (Npos (XI (XI (XO (XO (XO XH)))))))
  then ([], s)
  else let (a, b) = split_netloc r in ((c :: a), b)

(** val starts_with2 : n -> n -> bytes -> bool **)

let starts_with2 a b = function
| [] -> false
| x :: l ->
  (match l with
   | [] -> false
   | y :: _ -> (&&) (N.eqb x a) (N.eqb y b))

(** val drop2 : bytes -> bytes **)

let drop2 = function
| [] -> []
| _ :: l -> (match l with
             | [] -> []
             | _ :: r -> r)

(** val is_ascii : bytes -> bool **)

let is_ascii s =
  forallb (fun c -> N.ltb c (Npos (XO (XO (XO (XO (XO (XO (XO XH))))))))) s

(** val urlsplit : bool -> bytes -> sres **)

let urlsplit bad url0 =
  let url1 = remove_unsafe (lstrip_c0 url0) in
  let (sch, url2) = split_scheme url1 in
  let (nl, url3) =
    if starts_with2 (Npos (XI (XI (XI (XI (XO XH)))))) (Npos (XI (XI (XI (XI
         (XO XH)))))) url2
    then split_netloc (drop2 url2)
    else ([], url2)
  in
  let lb = mem (Npos (XI (XI (XO (XI (XI (XO XH))))))) nl in
  let rb = mem (Npos (XI (XO (XI (XI (XI (XO XH))))))) nl in
  if xorb lb rb
  then SplitErr
  else if (&&) ((&&) lb rb) bad
       then SplitErr
       else let (url4, frag) =
              match split1 (Npos (XI (XI (XO (XO (XO XH)))))) url3 with
              | Some p -> p
              | None -> (url3, [])
            in
            let (path, q) =
              match split1 (Npos (XI (XI (XI (XI (XI XH)))))) url4 with
              | Some p -> p
              | None -> (url4, [])
            in
            if (&&) (negb (is_ascii nl)) bad
            then SplitErr
            else SplitOk (sch, nl, path, q, frag)

(** val urlunparse_nonetloc : bytes -> bytes -> bytes -> bytes **)

let urlunparse_nonetloc scheme path query =
  app
    (match scheme with
     | [] -> []
     | _ :: _ -> app scheme ((Npos (XO (XI (XO (XI (XI XH)))))) :: []))
    (app path
      (match query with
       | [] -> []
       | _ :: _ -> (Npos (XI (XI (XI (XI (XI XH)))))) :: query))

type consts = { c_scheme : bytes; c_elements : bytes list;
                c_default_root : bytes; c_ident_root : bytes;
                c_pub_scheme : bytes; c_unk : bytes }

type loc = { l_root : bytes; l_vals : bytes option list }

type perr =
| ESchemeErr
| EValueErr

type 'a outcome =
| Ret of 'a
| Raise

type ident = { i_root : bytes option; i_ext : bytes option }

type lstate = { s_idents : ident list; s_detail : bytes option list }

type service = bytes list option

(** val val_or_empty : bytes option -> bytes **)

let val_or_empty = function
| Some x -> x
| None -> []

(** val present : bytes list -> bytes option list -> (bytes * bytes) list **)

let rec present names vals =
  match names with
  | [] -> []
  | n0 :: ns ->
    (match vals with
     | [] -> []
     | v :: vs ->
       app
         (match val_or_empty v with
          | [] -> []
          | n1 :: l -> (n0, (n1 :: l)) :: []) (present ns vs))

(** val state_query_dict :
    bytes list -> bytes option list -> (bytes * bytes) list **)

let rec state_query_dict names detail =
  match names with
  | [] -> []
  | n0 :: ns ->
    (match detail with
     | [] -> []
     | v :: vs ->
       app (match v with
            | Some x -> (n0, x) :: []
            | None -> []) (state_query_dict ns vs))

(** val elem_ok : bytes option -> bytes option -> bool **)

let elem_ok my other =
  match my with
  | Some m -> (match other with
               | Some o -> bytes_eqb m o
               | None -> false)
  | None -> true

(** val slash5 : bytes **)

let slash5 =
  (Npos (XI (XI (XI (XI (XO XH)))))) :: ((Npos (XI (XI (XI (XI (XO
    XH)))))) :: ((Npos (XI (XI (XI (XI (XO XH)))))) :: ((Npos (XI (XI (XI (XI
    (XO XH)))))) :: ((Npos (XI (XI (XI (XI (XO XH)))))) :: []))))

(** val slash_q : bytes **)

let slash_q =
  quote [] ((Npos (XI (XI (XI (XI (XO XH)))))) :: [])

(** val scope_string : consts -> loc -> bytes **)

let scope_string k l =
  let idents = map (fun v -> quote [] (val_or_empty v)) l.l_vals in
  let locseg = join slash_q idents in
  let query = urlencode (quote_plus []) (present k.c_elements l.l_vals) in
  let path = (Npos (XI (XI (XI (XI (XO
    XH)))))) :: (app
                  (quote ((Npos (XI (XI (XI (XI (XO XH)))))) :: []) l.l_root)
                  ((Npos (XI (XI (XI (XI (XO XH)))))) :: locseg))
  in
  urlunparse_nonetloc k.c_scheme path query

(** val from_scope : consts -> (bytes -> sres) -> bytes -> (loc, perr) sum **)

let from_scope k split s =
  match split s with
  | SplitErr -> Inr EValueErr
  | SplitOk (sch, _, path, q, _) ->
    if bytes_eqb (map lower sch) k.c_scheme
    then (match split_on (Npos (XI (XI (XI (XI (XO XH)))))) path with
          | [] -> Inr EValueErr
          | _ :: l ->
            (match l with
             | [] -> Inr EValueErr
             | r :: l0 ->
               (match l0 with
                | [] -> Inr EValueErr
                | _ :: l1 ->
                  (match l1 with
                   | [] ->
                     let qd = parse_qsl q in
                     Inl { l_root = (unquote r); l_vals =
                     (map (fun n0 -> dict_get n0 qd) k.c_elements) }
                   | _ :: _ -> Inr EValueErr))))
    else Inr ESchemeErr

(** val contains : loc -> loc -> bool **)

let contains self other =
  (&&) (bytes_eqb self.l_root other.l_root)
    (forallb (fun p -> elem_ok (fst p) (snd p))
      (combine self.l_vals other.l_vals))

(** val scope_matches :
    consts -> bool -> (bytes -> sres) -> loc -> bytes -> bool outcome **)

let scope_matches k fixed split self s =
  match from_scope k split s with
  | Inl o -> Ret (contains self o)
  | Inr p ->
    (match p with
     | ESchemeErr -> Ret false
     | EValueErr -> if fixed then Ret false else Raise)

(** val any_scope :
    consts -> bool -> (bytes -> sres) -> loc -> bytes list -> bool outcome **)

let rec any_scope k fixed split self = function
| [] -> Ret false
| s :: r ->
  (match scope_matches k fixed split self s with
   | Ret a -> if a then Ret true else any_scope k fixed split self r
   | Raise -> Raise)

(** val service_matches :
    consts -> bool -> (bytes -> sres) -> loc -> service -> bool outcome **)

let service_matches k fixed split self = function
| Some scopes -> any_scope k fixed split self scopes
| None -> Ret false

(** val filter_inside :
    consts -> bool -> (bytes -> sres) -> loc -> service list -> service list
    outcome **)

let rec filter_inside k fixed split self = function
| [] -> Ret []
| sv :: r ->
  (match service_matches k fixed split self sv with
   | Ret b ->
     (match filter_inside k fixed split self r with
      | Ret l -> Ret (if b then sv :: l else l)
      | Raise -> Raise)
   | Raise -> Raise)

(** val loc_extension : loc -> bytes **)

let loc_extension l =
  join ((Npos (XI (XI (XI (XI (XO XH)))))) :: [])
    (map (fun v -> quote [] (val_or_empty v)) l.l_vals)

(** val state_of : consts -> loc -> lstate outcome **)

let state_of k l =
  let ext = loc_extension l in
  if bytes_eqb ext slash5
  then Raise
  else Ret { s_idents = ({ i_root = (Some k.c_ident_root); i_ext = (Some
         ext) } :: []); s_detail = l.l_vals }

(** val published_scope : consts -> lstate -> ident -> bytes **)

let published_scope k st i =
  let ii = (Npos (XI (XI (XI (XI (XO
    XH)))))) :: (app
                  (quote []
                    (match i.i_root with
                     | Some r -> r
                     | None -> k.c_unk))
                  (match i.i_ext with
                   | Some e ->
                     if nonempty e
                     then (Npos (XI (XI (XI (XI (XO XH)))))) :: (quote [] e)
                     else []
                   | None -> []))
  in
  let uri = app k.c_pub_scheme ((Npos (XO (XI (XO (XI (XI XH)))))) :: ii) in
  let q = urlencode (quote []) (state_query_dict k.c_elements st.s_detail) in
  if nonempty q
  then app uri ((Npos (XI (XI (XI (XI (XI XH)))))) :: q)
  else uri

(** val published_scopes : consts -> lstate -> bytes list **)

let published_scopes k st =
  map (published_scope k st) st.s_idents

(** val split_tbl : bytes list -> bytes -> sres **)

let split_tbl badl s =
  urlsplit (existsb (bytes_eqb s) badl) s

type parse_res = loc option * n

(** val canon_parse : (loc, perr) sum -> parse_res **)

let canon_parse = function
| Inl l -> ((Some l), (Npos (XO XH)))
| Inr p ->
  (match p with
   | ESchemeErr -> (None, N0)
   | EValueErr -> (None, (Npos XH)))

(** val out_to_opt : 'a1 outcome -> 'a1 option **)

let out_to_opt = function
| Ret a -> Some a
| Raise -> None

(** val run_roundtrip : consts -> loc -> bytes * parse_res **)

let run_roundtrip k l =
  let s = scope_string k l in
  (s, (canon_parse (from_scope k (split_tbl []) s)))

(** val override : 'a1 option -> 'a1 -> 'a1 **)

let override o x =
  match o with
  | Some y -> y
  | None -> x

(** val run_published :
    consts -> bool -> bytes list -> loc -> bytes option option -> bytes
    option option -> loc list -> (bytes list * bool option list list) option **)

let run_published k fixed badl l ovr_root ovr_ext probes =
  match state_of k l with
  | Ret st ->
    let st' = { s_idents =
      (map (fun i -> { i_root = (override ovr_root i.i_root); i_ext =
        (override ovr_ext i.i_ext) }) st.s_idents); s_detail = st.s_detail }
    in
    let pubs = published_scopes k st' in
    Some (pubs,
    (map (fun p ->
      map (fun s -> out_to_opt (scope_matches k fixed (split_tbl badl) p s))
        pubs) probes))
  | Raise -> None

(** val run_foreign :
    consts -> bool -> bytes list -> loc -> service list -> service list option **)

let run_foreign k fixed badl self svs =
  out_to_opt (filter_inside k fixed (split_tbl badl) self svs)

(** val run_parse : consts -> bytes list -> bytes -> parse_res **)

let run_parse k badl s =
  canon_parse (from_scope k (split_tbl badl) s)

(** val loc_consts : consts **)

let loc_consts =
  { c_scheme = ((Npos (XI (XI (XO (XO (XI (XI XH))))))) :: ((Npos (XO (XO (XI
    (XO (XO (XI XH))))))) :: ((Npos (XI (XI (XO (XO (XO (XI
    XH))))))) :: ((Npos (XO (XI (XI (XI (XO XH)))))) :: ((Npos (XI (XI (XO
    (XO (XO (XI XH))))))) :: ((Npos (XO (XO (XI (XO (XI (XI
    XH))))))) :: ((Npos (XO (XO (XO (XI (XI (XI XH))))))) :: ((Npos (XO (XO
    (XI (XO (XI (XI XH))))))) :: ((Npos (XO (XI (XI (XI (XO
    XH)))))) :: ((Npos (XO (XO (XI (XI (XO (XI XH))))))) :: ((Npos (XI (XI
    (XI (XI (XO (XI XH))))))) :: ((Npos (XI (XI (XO (XO (XO (XI
    XH))))))) :: [])))))))))))); c_elements = (((Npos (XO (XI (XI (XO (XO (XI
    XH))))))) :: ((Npos (XI (XO (XO (XO (XO (XI XH))))))) :: ((Npos (XI (XI
    (XO (XO (XO (XI XH))))))) :: []))) :: (((Npos (XO (XI (XO (XO (XO (XI
    XH))))))) :: ((Npos (XO (XO (XI (XI (XO (XI XH))))))) :: ((Npos (XO (XO
    (XI (XO (XO (XI XH))))))) :: ((Npos (XO (XI (XI (XI (XO (XI
    XH))))))) :: ((Npos (XI (XI (XI (XO (XO (XI
    XH))))))) :: []))))) :: (((Npos (XO (XI (XI (XO (XO (XI
    XH))))))) :: ((Npos (XO (XO (XI (XI (XO (XI XH))))))) :: ((Npos (XO (XI
    (XO (XO (XI (XI XH))))))) :: []))) :: (((Npos (XO (XO (XO (XO (XI (XI
    XH))))))) :: ((Npos (XI (XI (XI (XI (XO (XI XH))))))) :: ((Npos (XI (XI
    (XO (XO (XO (XI XH))))))) :: []))) :: (((Npos (XO (XI (XO (XO (XI (XI
    XH))))))) :: ((Npos (XI (XO (XI (XI (XO (XI XH))))))) :: [])) :: (((Npos
    (XO (XI (XO (XO (XO (XI XH))))))) :: ((Npos (XI (XO (XI (XO (XO (XI
    XH))))))) :: ((Npos (XO (XO (XI (XO (XO (XI
    XH))))))) :: []))) :: [])))))); c_default_root = ((Npos (XI (XI (XO (XO
    (XI (XI XH))))))) :: ((Npos (XO (XO (XI (XO (XO (XI XH))))))) :: ((Npos
    (XI (XI (XO (XO (XO (XI XH))))))) :: ((Npos (XO (XI (XI (XI (XO
    XH)))))) :: ((Npos (XI (XI (XO (XO (XO (XI XH))))))) :: ((Npos (XO (XO
    (XI (XO (XI (XI XH))))))) :: ((Npos (XO (XO (XO (XI (XI (XI
    XH))))))) :: ((Npos (XO (XO (XI (XO (XI (XI XH))))))) :: ((Npos (XO (XI
    (XI (XI (XO XH)))))) :: ((Npos (XO (XO (XI (XI (XO (XI
    XH))))))) :: ((Npos (XI (XI (XI (XI (XO (XI XH))))))) :: ((Npos (XI (XI
    (XO (XO (XO (XI XH))))))) :: ((Npos (XO (XI (XI (XI (XO
    XH)))))) :: ((Npos (XO (XO (XI (XO (XO (XI XH))))))) :: ((Npos (XI (XO
    (XI (XO (XO (XI XH))))))) :: ((Npos (XO (XO (XI (XO (XI (XI
    XH))))))) :: ((Npos (XI (XO (XO (XO (XO (XI XH))))))) :: ((Npos (XI (XO
    (XO (XI (XO (XI XH))))))) :: ((Npos (XO (XO (XI (XI (XO (XI
    XH))))))) :: []))))))))))))))))))); c_ident_root = ((Npos (XI (XI (XO (XO
    (XI (XI XH))))))) :: ((Npos (XO (XO (XI (XO (XO (XI XH))))))) :: ((Npos
    (XI (XI (XO (XO (XO (XI XH))))))) :: ((Npos (XO (XI (XI (XI (XO
    XH)))))) :: ((Npos (XI (XI (XO (XO (XO (XI XH))))))) :: ((Npos (XO (XO
    (XI (XO (XI (XI XH))))))) :: ((Npos (XO (XO (XO (XI (XI (XI
    XH))))))) :: ((Npos (XO (XO (XI (XO (XI (XI XH))))))) :: ((Npos (XO (XI
    (XI (XI (XO XH)))))) :: ((Npos (XO (XO (XI (XI (XO (XI
    XH))))))) :: ((Npos (XI (XI (XI (XI (XO (XI XH))))))) :: ((Npos (XI (XI
    (XO (XO (XO (XI XH))))))) :: ((Npos (XO (XI (XI (XI (XO
    XH)))))) :: ((Npos (XO (XO (XI (XO (XO (XI XH))))))) :: ((Npos (XI (XO
    (XI (XO (XO (XI XH))))))) :: ((Npos (XO (XO (XI (XO (XI (XI
    XH))))))) :: ((Npos (XI (XO (XO (XO (XO (XI XH))))))) :: ((Npos (XI (XO
    (XO (XI (XO (XI XH))))))) :: ((Npos (XO (XO (XI (XI (XO (XI
    XH))))))) :: []))))))))))))))))))); c_pub_scheme = ((Npos (XI (XI (XO (XO
    (XI (XI XH))))))) :: ((Npos (XO (XO (XI (XO (XO (XI XH))))))) :: ((Npos
    (XI (XI (XO (XO (XO (XI XH))))))) :: ((Npos (XO (XI (XI (XI (XO
    XH)))))) :: ((Npos (XI (XI (XO (XO (XO (XI XH))))))) :: ((Npos (XO (XO
    (XI (XO (XI (XI XH))))))) :: ((Npos (XO (XO (XO (XI (XI (XI
    XH))))))) :: ((Npos (XO (XO (XI (XO (XI (XI XH))))))) :: ((Npos (XO (XI
    (XI (XI (XO XH)))))) :: ((Npos (XO (XO (XI (XI (XO (XI
    XH))))))) :: ((Npos (XI (XI (XI (XI (XO (XI XH))))))) :: ((Npos (XI (XI
    (XO (XO (XO (XI XH))))))) :: [])))))))))))); c_unk = ((Npos (XO (XI (XO
    (XO (XO (XI XH))))))) :: ((Npos (XI (XO (XO (XI (XO (XI
    XH))))))) :: ((Npos (XI (XI (XO (XO (XO (XI XH))))))) :: ((Npos (XI (XO
    (XI (XO (XO (XI XH))))))) :: ((Npos (XO (XO (XO (XO (XI (XI
    XH))))))) :: ((Npos (XI (XI (XO (XO (XI (XI XH))))))) :: ((Npos (XO (XI
    (XI (XI (XO XH)))))) :: ((Npos (XI (XO (XI (XO (XI (XI
    XH))))))) :: ((Npos (XO (XI (XO (XO (XI (XI XH))))))) :: ((Npos (XI (XO
    (XO (XI (XO (XI XH))))))) :: ((Npos (XO (XI (XI (XI (XO
    XH)))))) :: ((Npos (XI (XO (XI (XO (XI (XI XH))))))) :: ((Npos (XO (XI
    (XI (XI (XO (XI XH))))))) :: ((Npos (XI (XI (XO (XI (XO (XI
    XH))))))) :: [])))))))))))))) }
