
type nat =
| O
| S of nat

val fst : ('a1 * 'a2) -> 'a1

val snd : ('a1 * 'a2) -> 'a2

val length : 'a1 list -> nat

type comparison =
| Eq
| Lt
| Gt

val compOpp : comparison -> comparison

module Nat :
 sig
  val eqb : nat -> nat -> bool
 end

val map : ('a1 -> 'a2) -> 'a1 list -> 'a2 list

val existsb : ('a1 -> bool) -> 'a1 list -> bool

val firstn : nat -> 'a1 list -> 'a1 list

type positive =
| XI of positive
| XO of positive
| XH

type z =
| Z0
| Zpos of positive
| Zneg of positive

module Pos :
 sig
  val succ : positive -> positive

  val add : positive -> positive -> positive

  val add_carry : positive -> positive -> positive

  val pred_double : positive -> positive

  val mul : positive -> positive -> positive

  val compare_cont : comparison -> positive -> positive -> comparison

  val compare : positive -> positive -> comparison

  val eqb : positive -> positive -> bool
 end

module Z :
 sig
  val double : z -> z

  val succ_double : z -> z

  val pred_double : z -> z

  val pos_sub : positive -> positive -> z

  val add : z -> z -> z

  val opp : z -> z

  val sub : z -> z -> z

  val mul : z -> z -> z

  val compare : z -> z -> comparison

  val leb : z -> z -> bool

  val ltb : z -> z -> bool

  val eqb : z -> z -> bool

  val min : z -> z -> z
 end

type params = { init_ms : z; repeat : nat; min_ms : z; max_ms : z;
                upper_ms : z }

val sends : nat -> z -> z -> z -> z -> (z * z) list

val schedule_ms : params -> z -> z -> (z * z) list

val schedule_us : params -> z -> z -> (z * z) list

val times : (z * z) list -> z list

val gaps : z list -> z list

val envelope_gaps_ok : bool -> z list -> params -> bool

val check_envelope : params -> z -> z -> bool

type kind =
| KHello
| KBye
| KProbe
| KResolve
| KProbeMatches
| KResolveMatches

type pset =
| PUnicast
| PMulticast
| POther of params

val is_multicast_kind : kind -> bool

val spec_pset : kind -> pset

val pset_params : params -> params -> pset -> params

type api_op =
| OpPublish
| OpClearService
| OpClearLocal
| OpClearRemote
| OpSearch
| OpFound
| OpStop

type known = z list

val remember : nat -> known -> z -> known

val is_known : known -> z -> bool

type ev =
| EvOut of z
| EvIn of z
| EvOp of api_op
| EvRestart

val dstep : nat -> known -> ev -> known * bool

val drun : nat -> known -> ev list -> known * bool list

val unicast_params : params

val multicast_params : params

val impl_kind_pset : kind -> pset

val kind_params : kind -> params

val spec_params : kind -> params

val kind_schedule_us : kind -> z -> z -> (z * z) list

val kind_count_ok : kind -> bool
