
type nat =
| O
| S of nat

(** val fst : ('a1 * 'a2) -> 'a1 **)

let fst = function
| (x, _) -> x

(** val snd : ('a1 * 'a2) -> 'a2 **)

let snd = function
| (_, y) -> y

(** val length : 'a1 list -> nat **)

let rec length = function
| [] -> O
| _ :: l' -> S (length l')

type comparison =
| Eq
| Lt
| Gt

(** val compOpp : comparison -> comparison **)

let compOpp = function
| Eq -> Eq
| Lt -> Gt
| Gt -> Lt

module Nat =
 struct
  (** val eqb : nat -> nat -> bool **)

  let rec eqb n m =
    match n with
    | O -> (match m with
            | O -> true
            | S _ -> false)
    | S n' -> (match m with
               | O -> false
               | S m' -> eqb n' m')
 end

(** val map : ('a1 -> 'a2) -> 'a1 list -> 'a2 list **)

let rec map f = function
| [] -> []
| a :: t -> (f a) :: (map f t)

(** val existsb : ('a1 -> bool) -> 'a1 list -> bool **)

let rec existsb f = function
| [] -> false
| a :: l0 -> (||) (f a) (existsb f l0)

(** val firstn : nat -> 'a1 list -> 'a1 list **)

let rec firstn n l =
  match n with
  | O -> []
  | S n0 -> (match l with
             | [] -> []
             | a :: l0 -> a :: (firstn n0 l0))

type positive =
| XI of positive
| XO of positive
| XH

type z =
| Z0
| Zpos of positive
| Zneg of positive

module Pos =
 struct
  (** val succ : positive -> positive **)

  let rec succ = function
  | XI p -> XO (succ p)
  | XO p -> XI p
  | XH -> XO XH

  (** val add : positive -> positive -> positive **)

  let rec add x y =
    match x with
    | XI p ->
      (match y with
       | XI q -> XO (add_carry p q)
       | XO q -> XI (add p q)
       | XH -> XO (succ p))
    | XO p ->
      (match y with
       | XI q -> XI (add p q)
       | XO q -> XO (add p q)
       | XH -> XI p)
    | XH -> (match y with
             | XI q -> XO (succ q)
             | XO q -> XI q
             | XH -> XO XH)

  (** val add_carry : positive -> positive -> positive **)

  and add_carry x y =
    match x with
    | XI p ->
      (match y with
       | XI q -> XI (add_carry p q)
       | XO q -> XO (add_carry p q)
       | XH -> XI (succ p))
    | XO p ->
      (match y with
       | XI q -> XO (add_carry p q)
       | XO q -> XI (add p q)
       | XH -> XO (succ p))
    | XH ->
      (match y with
       | XI q -> XI (succ q)
       | XO q -> XO (succ q)
       | XH -> XI XH)

  (** val pred_double : positive -> positive **)

  let rec pred_double = function
  | XI p -> XI (XO p)
  | XO p -> XI (pred_double p)
  | XH -> XH

  (** val mul : positive -> positive -> positive **)

  let rec mul x y =
    match x with
    | XI p -> add y (XO (mul p y))
    | XO p -> XO (mul p y)
    | XH -> y

  (** val compare_cont : comparison -> positive -> positive -> comparison **)

  let rec compare_cont r x y =
    match x with
    | XI p ->
      (match y with
       | XI q -> compare_cont r p q
       | XO q -> compare_cont Gt p q
       | XH -> Gt)
    | XO p ->
      (match y with
       | XI q -> compare_cont Lt p q
       | XO q -> compare_cont r p q
       | XH -> Gt)
    | XH -> (match y with
             | XH -> r
             | _ -> Lt)

  (** val compare : positive -> positive -> comparison **)

  let compare =
    compare_cont Eq

  (** val eqb : positive -> positive -> bool **)

  let rec eqb p q =
    match p with
    | XI p0 -> (match q with
                | XI q0 -> eqb p0 q0
                | _ -> false)
    | XO p0 -> (match q with
                | XO q0 -> eqb p0 q0
                | _ -> false)
    | XH -> (match q with
             | XH -> true
             | _ -> false)
 end

module Z =
 struct
  (** val double : z -> z **)

  let double = function
  | Z0 -> Z0
  | Zpos p -> Zpos (XO p)
  | Zneg p -> Zneg (XO p)

  (** val succ_double : z -> z **)

  let succ_double = function
  | Z0 -> Zpos XH
  | Zpos p -> Zpos (XI p)
  | Zneg p -> Zneg (Pos.pred_double p)

  (** val pred_double : z -> z **)

  let pred_double = function
  | Z0 -> Zneg XH
  | Zpos p -> Zpos (Pos.pred_double p)
  | Zneg p -> Zneg (XI p)

  (** val pos_sub : positive -> positive -> z **)

  let rec pos_sub x y =
    match x with
    | XI p ->
      (match y with
       | XI q -> double (pos_sub p q)
       | XO q -> succ_double (pos_sub p q)
       | XH -> Zpos (XO p))
    | XO p ->
      (match y with
       | XI q -> pred_double (pos_sub p q)
       | XO q -> double (pos_sub p q)
       | XH -> Zpos (Pos.pred_double p))
    | XH ->
      (match y with
       | XI q -> Zneg (XO q)
       | XO q -> Zneg (Pos.pred_double q)
       | XH -> Z0)

  (** val add : z -> z -> z **)

  let add x y =
    match x with
    | Z0 -> y
    | Zpos x' ->
      (match y with
       | Z0 -> x
       | Zpos y' -> Zpos (Pos.add x' y')
       | Zneg y' -> pos_sub x' y')
    | Zneg x' ->
      (match y with
       | Z0 -> x
       | Zpos y' -> pos_sub y' x'
       | Zneg y' -> Zneg (Pos.add x' y'))

  (** val opp : z -> z **)

  let opp = function
  | Z0 -> Z0
  | Zpos x0 -> Zneg x0
  | Zneg x0 -> Zpos x0

  (** val sub : z -> z -> z **)

  let sub m n =
    add m (opp n)

  (** val mul : z -> z -> z **)

  let mul x y =
    match x with
    | Z0 -> Z0
    | Zpos x' ->
      (match y with
       | Z0 -> Z0
       | Zpos y' -> Zpos (Pos.mul x' y')
       | Zneg y' -> Zneg (Pos.mul x' y'))
    | Zneg x' ->
      (match y with
       | Z0 -> Z0
       | Zpos y' -> Zneg (Pos.mul x' y')
       | Zneg y' -> Zpos (Pos.mul x' y'))

  (** val compare : z -> z -> comparison **)

  let compare x y =
    match x with
    | Z0 -> (match y with
             | Z0 -> Eq
             | Zpos _ -> Lt
             | Zneg _ -> Gt)
    | Zpos x' -> (match y with
                  | Zpos y' -> Pos.compare x' y'
                  | _ -> Gt)
    | Zneg x' ->
      (match y with
       | Zneg y' -> compOpp (Pos.compare x' y')
       | _ -> Lt)

  (** val leb : z -> z -> bool **)

  let leb x y =
    match compare x y with
    | Gt -> false
    | _ -> true

  (** val ltb : z -> z -> bool **)

  let ltb x y =
    match compare x y with
    | Lt -> true
    | _ -> false

  (** val eqb : z -> z -> bool **)

  let eqb x y =
    match x with
    | Z0 -> (match y with
             | Z0 -> true
             | _ -> false)
    | Zpos p -> (match y with
                 | Zpos q -> Pos.eqb p q
                 | _ -> false)
    | Zneg p -> (match y with
                 | Zneg q -> Pos.eqb p q
                 | _ -> false)

  (** val min : z -> z -> z **)

  let min n m =
    match compare n m with
    | Gt -> m
    | _ -> n
 end

type params = { init_ms : z; repeat : nat; min_ms : z; max_ms : z;
                upper_ms : z }

(** val sends : nat -> z -> z -> z -> z -> (z * z) list **)

let rec sends n idx t delta upper =
  match n with
  | O -> []
  | S n' ->
    ((Z.add t delta),
      idx) :: (sends n' (Z.add idx (Zpos XH)) (Z.add t delta)
                (Z.min (Z.mul (Zpos (XO XH)) delta) upper) upper)

(** val schedule_ms : params -> z -> z -> (z * z) list **)

let schedule_ms p d0 g =
  (d0, (Zpos XH)) :: (sends p.repeat (Zpos (XO XH)) d0 g p.upper_ms)

(** val schedule_us : params -> z -> z -> (z * z) list **)

let schedule_us p d0 g =
  map (fun e ->
    ((Z.mul (Zpos (XO (XO (XO (XI (XO (XI (XI (XI (XI XH)))))))))) (fst e)),
    (snd e))) (schedule_ms p d0 g)

(** val times : (z * z) list -> z list **)

let times l =
  map fst l

(** val gaps : z list -> z list **)

let rec gaps = function
| [] -> []
| a :: r -> (match r with
             | [] -> []
             | b :: _ -> (Z.sub b a) :: (gaps r))

(** val envelope_gaps_ok : bool -> z list -> params -> bool **)

let rec envelope_gaps_ok first gs p =
  match gs with
  | [] -> true
  | g :: r ->
    (&&)
      ((&&)
        ((&&)
          (if first then (&&) (Z.leb p.min_ms g) (Z.ltb g p.max_ms) else true)
          (Z.leb g p.upper_ms))
        (match r with
         | [] -> true
         | g' :: _ -> Z.eqb g' (Z.min (Z.mul (Zpos (XO XH)) g) p.upper_ms)))
      (envelope_gaps_ok false r p)

(** val check_envelope : params -> z -> z -> bool **)

let check_envelope p d0 g =
  let s = times (schedule_ms p d0 g) in
  (&&)
    ((&&) (Nat.eqb (length s) (S p.repeat))
      (match s with
       | [] -> false
       | t0 :: _ -> (&&) (Z.leb Z0 t0) (Z.leb t0 p.init_ms)))
    (envelope_gaps_ok true (gaps s) p)

type kind =
| KHello
| KBye
| KProbe
| KResolve
| KProbeMatches
| KResolveMatches

type pset =
| PUnicast
| PMulticast
| POther of params

(** val is_multicast_kind : kind -> bool **)

let is_multicast_kind = function
| KProbeMatches -> false
| KResolveMatches -> false
| _ -> true

(** val spec_pset : kind -> pset **)

let spec_pset k =
  if is_multicast_kind k then PMulticast else PUnicast

(** val pset_params : params -> params -> pset -> params **)

let pset_params u m = function
| PUnicast -> u
| PMulticast -> m
| POther p -> p

type api_op =
| OpPublish
| OpClearService
| OpClearLocal
| OpClearRemote
| OpSearch
| OpFound
| OpStop

type known = z list

(** val remember : nat -> known -> z -> known **)

let remember cap k id =
  firstn cap (id :: k)

(** val is_known : known -> z -> bool **)

let is_known k id =
  existsb (Z.eqb id) k

type ev =
| EvOut of z
| EvIn of z
| EvOp of api_op
| EvRestart

(** val dstep : nat -> known -> ev -> known * bool **)

let dstep cap k = function
| EvOut id -> ((remember cap k id), false)
| EvIn id -> if is_known k id then (k, false) else ((remember cap k id), true)
| EvOp _ -> (k, false)
| EvRestart -> ([], false)

(** val drun : nat -> known -> ev list -> known * bool list **)

let rec drun cap k = function
| [] -> (k, [])
| e :: r ->
  let (k1, b) = dstep cap k e in
  let (k2, bs) = drun cap k1 r in (k2, (b :: bs))

(** val unicast_params : params **)

let unicast_params =
  { init_ms = (Zpos (XO (XO (XI (XO (XI (XI (XI (XI XH))))))))); repeat = (S
    (S O)); min_ms = (Zpos (XO (XI (XO (XO (XI XH)))))); max_ms = (Zpos (XO
    (XI (XO (XI (XI (XI (XI XH)))))))); upper_ms = (Zpos (XO (XO (XI (XO (XI
    (XI (XI (XI XH))))))))) }

(** val multicast_params : params **)

let multicast_params =
  { init_ms = (Zpos (XO (XO (XI (XO (XI (XI (XI (XI XH))))))))); repeat = (S
    (S (S (S O)))); min_ms = (Zpos (XO (XI (XO (XO (XI XH)))))); max_ms =
    (Zpos (XO (XI (XO (XI (XI (XI (XI XH)))))))); upper_ms = (Zpos (XO (XO
    (XI (XO (XI (XI (XI (XI XH))))))))) }

(** val impl_kind_pset : kind -> pset **)

let impl_kind_pset = function
| KProbeMatches -> PUnicast
| KResolveMatches -> PUnicast
| _ -> PMulticast

(** val kind_params : kind -> params **)

let kind_params k =
  pset_params unicast_params multicast_params (impl_kind_pset k)

(** val spec_params : kind -> params **)

let spec_params k =
  pset_params unicast_params multicast_params (spec_pset k)

(** val kind_schedule_us : kind -> z -> z -> (z * z) list **)

let kind_schedule_us k d0 g =
  schedule_us (kind_params k) d0 g

(** val kind_count_ok : kind -> bool **)

let kind_count_ok k =
  Nat.eqb (length (schedule_ms (kind_params k) Z0 (kind_params k).min_ms)) (S
    (spec_params k).repeat)
