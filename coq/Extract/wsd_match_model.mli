
val xorb : bool -> bool -> bool

val negb : bool -> bool

type nat =
| O
| S of nat

val fst : ('a1 * 'a2) -> 'a1

val snd : ('a1 * 'a2) -> 'a2

val length : 'a1 list -> nat

val app : 'a1 list -> 'a1 list -> 'a1 list

type comparison =
| Eq
| Lt
| Gt

val compOpp : comparison -> comparison

val add : nat -> nat -> nat

type positive =
| XI of positive
| XO of positive
| XH

type n =
| N0
| Npos of positive

type z =
| Z0
| Zpos of positive
| Zneg of positive

module Nat :
 sig
  val leb : nat -> nat -> bool

  val ltb : nat -> nat -> bool
 end

module Pos :
 sig
  type mask =
  | IsNul
  | IsPos of positive
  | IsNeg
 end

module Coq_Pos :
 sig
  val succ : positive -> positive

  val add : positive -> positive -> positive

  val add_carry : positive -> positive -> positive

  val pred_double : positive -> positive

  type mask = Pos.mask =
  | IsNul
  | IsPos of positive
  | IsNeg

  val succ_double_mask : mask -> mask

  val double_mask : mask -> mask

  val double_pred_mask : positive -> mask

  val sub_mask : positive -> positive -> mask

  val sub_mask_carry : positive -> positive -> mask

  val mul : positive -> positive -> positive

  val compare_cont : comparison -> positive -> positive -> comparison

  val compare : positive -> positive -> comparison

  val eqb : positive -> positive -> bool

  val iter_op : ('a1 -> 'a1 -> 'a1) -> positive -> 'a1 -> 'a1

  val to_nat : positive -> nat

  val of_succ_nat : nat -> positive
 end

module N :
 sig
  val add : n -> n -> n

  val sub : n -> n -> n

  val mul : n -> n -> n

  val compare : n -> n -> comparison

  val eqb : n -> n -> bool

  val leb : n -> n -> bool

  val ltb : n -> n -> bool

  val to_nat : n -> nat
 end

module Z :
 sig
  val double : z -> z

  val succ_double : z -> z

  val pred_double : z -> z

  val pos_sub : positive -> positive -> z

  val add : z -> z -> z

  val opp : z -> z

  val compare : z -> z -> comparison

  val ltb : z -> z -> bool

  val eqb : z -> z -> bool

  val of_nat : nat -> z

  val of_N : n -> z
 end

val nth_error : 'a1 list -> nat -> 'a1 option

val map : ('a1 -> 'a2) -> 'a1 list -> 'a2 list

val existsb : ('a1 -> bool) -> 'a1 list -> bool

val forallb : ('a1 -> bool) -> 'a1 list -> bool

val filter : ('a1 -> bool) -> 'a1 list -> 'a1 list

val firstn : nat -> 'a1 list -> 'a1 list

type bytes = n list

val bytes_eqb : bytes -> bytes -> bool

val mem : n -> bytes -> bool

val nonempty : bytes -> bool

val in_range : n -> n -> n -> bool

val is_upper : n -> bool

val is_lower : n -> bool

val is_alpha : n -> bool

val is_digit : n -> bool

val scheme_char : n -> bool

val lower : n -> n

val hexval : n -> n option

val unquote : bytes -> bytes

val split_on : n -> bytes -> bytes list

val split1 : n -> bytes -> (bytes * bytes) option

type sres =
| SplitErr
| SplitOk of bytes * bytes * bytes * bytes * bytes

val lstrip_c0 : bytes -> bytes

val remove_unsafe : bytes -> bytes

val split_scheme : bytes -> bytes * bytes

val split_netloc : bytes -> bytes * bytes

val starts_with2 : n -> n -> bytes -> bool

val drop2 : bytes -> bytes

val is_ascii : bytes -> bool

val urlsplit : bool -> bytes -> sres

type 'a outcome =
| Ret of 'a
| Raise

val split_tbl : bytes list -> bytes -> sres

type mconsts = { m_ldap : bytes; m_uri : bytes; m_uuid : bytes;
                 m_strcmp : bytes }

val prefixb : bytes list -> bytes list -> bool

val lower_s : bytes -> bytes

val match_rfc : bool -> (bytes -> sres) -> bytes -> bytes -> bool outcome

val is_rfc : mconsts -> bytes option -> bool

val is_strcmp : mconsts -> bytes option -> bool

val match_scope :
  mconsts -> bool -> (bytes -> sres) -> bytes option -> bytes -> bytes ->
  bool outcome

type qname = bytes * bytes

val match_type : qname -> qname -> bool

val type_in_list : qname -> qname list -> bool

type service = { s_epr : bytes; s_types : qname list;
                 s_scopes : bytes list option; s_xaddrs : bytes list;
                 s_mdv : z; s_iid : z }

type scopes_filter = bytes option * bytes list

val any_entry :
  mconsts -> bool -> (bytes -> sres) -> bytes option -> bytes -> bytes list
  -> bool outcome

val scope_in_list :
  mconsts -> bool -> (bytes -> sres) -> bytes option -> bytes -> bytes list
  option -> bool outcome

val all_uris :
  mconsts -> bool -> (bytes -> sres) -> bytes option -> bytes list -> bytes
  list option -> bool outcome

val types_ok : qname list option -> service -> bool

val matches_filter :
  mconsts -> bool -> (bytes -> sres) -> service -> qname list option ->
  scopes_filter option -> bool outcome

val filter_services :
  mconsts -> bool -> (bytes -> sres) -> service list -> qname list option ->
  scopes_filter option -> service list outcome

val outb_to_N : bool outcome -> n

val run_match :
  mconsts -> bool -> bytes list -> bytes option -> bytes -> bytes -> n

val run_filter :
  mconsts -> bool -> bytes list -> service list -> qname list option ->
  scopes_filter option -> (n list * n) list * bytes list option

type known = z list

val remember : nat -> known -> z -> known

val is_known : known -> z -> bool

type table = (bytes * service) list

val t_get : bytes -> table -> service option

val t_set : bytes -> service -> table -> table

val t_del : bytes -> table -> table

val t_values : table -> service list

val merge : service -> service -> service

val add_remote : table -> service -> table

type bye_extra = { bx_appseq : z option; bx_mdv : z option;
                   bx_types : qname list; bx_scopes : bytes list option;
                   bx_xaddrs : bytes list }

val bx_plain : z -> bye_extra

type msg =
| MHello of z option * service
| MBye of bytes * bye_extra
| MProbe of qname list option * scopes_filter option
| MProbeMatches of z option * service list
| MResolve of bytes
| MResolveMatches of z option * service option
| MOther

type out =
| OHello of service
| OBye of service
| OProbeMatch of service
| OResolveMatch of service
| OResolve of bytes

type dstate = { remote : table; local : table }

val hello_of : service -> service

val with_iid : z -> service -> service

val eff_iid : bool -> z option -> z option

val probe_matches : table -> z -> service list -> table * out list

val handle :
  mconsts -> bool -> (bytes -> sres) -> bool -> dstate -> msg -> dstate * out
  list

type node = { disc : dstate; kn_ids : z list; sent : out list }

val msg_of_out : out -> msg

val send_all : nat -> z list -> nat -> out list -> z list

type event =
| EPublish of bytes * qname list * bytes list option * bytes list * z
| EClear of bytes
| EIn of z * msg
| ELoop of nat

val deliver :
  mconsts -> bool -> (bytes -> sres) -> bool -> nat -> node -> z -> msg ->
  node * out list

val step :
  mconsts -> bool -> (bytes -> sres) -> bool -> nat -> node -> event ->
  node * out list

val node0 : node

val match_consts : mconsts
