(* Extraction of the executable C15 model (ExtrOcamlBasic only; Z, positive, nat stay inductives). *)
Require Extraction.
Require Import ExtrOcamlBasic.
From SDC Require Import Wsd.Udp Wsd.Kinds.
Extraction "Extract/wsd_udp_model.ml" schedule_us check_envelope drun mkParams kind_schedule_us kind_count_ok.
