(* GENERATED on every run by harness/impl/gen_http_params.py from
   src/sdc11073/httpserver/httpreader.py and compression.py -- do not edit. *)
From Coq Require Import List NArith.
From SDC Require Import Http.Chunk.
Import ListNotations.
Open Scope N_scope.
Definition hdr_max : nat := 16%nat.
Definition available_encodings : list bytes := [[103; 122; 105; 112]; [120; 45; 108; 122; 52]; [108; 122; 52]].
