(* Proofs about Http.Dispatch: every combination of stage outcomes is answered. *)
From Coq Require Import List NArith Bool Lia ZifyBool.
From SDC Require Import Http.Dispatch.
Import ListNotations.
Open Scope N_scope.

Definition is_answer (r : result) : Prop := exists s k, r = Answer s k.

Lemma do_post_total st :
  p_fault_reply st = true -> p_recover st = true ->
  exists s k, do_post st = Answer s k /\
              (k = KResponse \/ k = KFault) /\
              (k = KResponse <-> (p_parse st = SOk /\ p_dispatch st = SOk)) /\
              (k = KResponse -> s = 200).
Proof.
  intros F R. unfold do_post. rewrite F, R.
  destruct (p_parse st) as [|s|]; [destruct (p_dispatch st) as [|s|]|..];
    eexists; eexists; (split; [reflexivity|]); repeat split; auto; try discriminate;
    try (intros [H1 H2]; discriminate); try (intros H; discriminate).
Qed.

(* without the two side conditions the only other outcome is an exception that leaves do_post,
   and that is what the request handler's catch-all is for *)
Lemma do_post_cases st : is_answer (do_post st) \/ do_post st = Propagates.
Proof.
  unfold do_post, is_answer.
  destruct (p_parse st); [destruct (p_dispatch st)|..];
    try destruct (p_fault_reply st); try destruct (p_recover st); eauto.
Qed.

Lemma do_get_total st : g_urlparse st = true -> exists s k, do_get st = Answer s k /\ (s = 200 \/ s = 500).
Proof. intros U. unfold do_get. rewrite U. destruct (g_dispatch st); eauto. Qed.

Lemma handle_post_total i :
  (i_component i <> Propagates \/ i_reason_ok i = true) -> is_answer (handle_post i).
Proof.
  intros H. unfold handle_post, is_answer.
  destruct (i_read_ok i); simpl; [|eauto].
  destruct (i_dispatcher i); simpl; [|eauto].
  destruct (i_path i); eauto.
  destruct (i_component i) as [s k|]; eauto.
  destruct H as [H|H]; [congruence|]. rewrite H. eauto.
Qed.

Lemma handle_get_total i : i_component i <> Propagates -> is_answer (handle_get i).
Proof.
  intros H. unfold handle_get, is_answer.
  destruct (i_dispatcher i); simpl; [|eauto].
  destruct (i_path i); eauto. destruct (i_component i); [eauto|congruence].
Qed.

(* one POST, whatever the bytes were: reader outcome x dispatcher x path x all middleware stages *)
Theorem serve_post_total read_ok dispatcher p st reason_ok :
  ((p_fault_reply st = true /\ p_recover st = true) \/ reason_ok = true) ->
  is_answer (serve_post read_ok dispatcher p st reason_ok).
Proof.
  intros H. unfold serve_post. apply handle_post_total. simpl.
  destruct H as [[F R]|H]; [left|right; assumption].
  destruct (do_post_total st F R) as [s [k [E _]]]. rewrite E. discriminate.
Qed.

(* a failing reader, an unknown path, a missing dispatcher never reach the component *)
Theorem serve_post_not_dispatched read_ok dispatcher p st reason_ok :
  read_ok = false \/ dispatcher = false \/ p <> PathKnown ->
  exists s k, serve_post read_ok dispatcher p st reason_ok = Answer s k /\ 400 <= s /\ (k = KEmpty \/ k = KText).
Proof.
  unfold serve_post, handle_post. simpl. intros [->|[->|H]]; simpl.
  - exists 400, KEmpty. repeat split; auto; lia.
  - destruct read_ok; simpl; [exists 500, KText|exists 400, KEmpty]; repeat split; auto; lia.
  - destruct read_ok; simpl; [|exists 400, KEmpty; repeat split; auto; lia].
    destruct dispatcher; simpl; [|exists 500, KText; repeat split; auto; lia].
    destruct p; try congruence; exists 404, KEmpty; repeat split; auto; lia.
Qed.

Theorem serve_get_total dispatcher p st :
  (p = PathKnown -> g_urlparse st = true) ->
  is_answer (serve_get dispatcher p st).
Proof.
  intros H. unfold serve_get, handle_get, is_answer. simpl.
  destruct dispatcher; simpl; [|eauto].
  destruct p; eauto. destruct (do_get_total st (H eq_refl)) as [s [k [E _]]]. rewrite E. eauto.
Qed.

(* the pinned source lets exceptions out of do_POST / do_GET *)
Lemma handle_post_found_propagates :
  exists i, i_component i <> Propagates /\ handle_post_found i = Propagates.
Proof. exists (mkIn false true PathKnown (Answer 200 KResponse) true). split; [discriminate|reflexivity]. Qed.

Lemma handle_get_found_propagates :
  exists i, i_component i <> Propagates /\ handle_get_found i = Propagates.
Proof. exists (mkIn true true PathUnknown (Answer 200 KResponse) true). split; [discriminate|reflexivity]. Qed.

(* ---------------------------------------------------------------- state *)
Section State.
  Variable S : Type.
  Variable handler : S -> stage * S.
  (* service handlers are atomic: a handler that does not complete leaves the state alone
     (validated on the implementation by the snapshot oracle of the bytes stream) *)
  Hypothesis handler_atomic : forall s, fst (handler s) <> SOk -> snd (handler s) = s.

  Lemma rejected_unchanged parse fault_reply recover s :
    rejected (fst (do_post_state S handler parse fault_reply recover s)) = true ->
    snd (do_post_state S handler parse fault_reply recover s) = s.
  Proof.
    unfold do_post_state. destruct parse; try reflexivity.
    destruct (handler s) as [d s'] eqn:E. simpl.
    destruct d; simpl.
    - discriminate.
    - intros _. specialize (handler_atomic s). rewrite E in handler_atomic. simpl in handler_atomic.
      apply handler_atomic. discriminate.
    - intros _. specialize (handler_atomic s). rewrite E in handler_atomic. simpl in handler_atomic.
      apply handler_atomic. discriminate.
  Qed.

  (* parse / validation failures never reach a handler at all, atomic or not *)
  Lemma not_parsed_unchanged parse fault_reply recover s :
    parse <> SOk -> snd (do_post_state S handler parse fault_reply recover s) = s.
  Proof. unfold do_post_state. destruct parse; [congruence|reflexivity|reflexivity]. Qed.
End State.
