(* Control-flow model of request handling (C13):
     DispatchingRequestHandler.do_POST / do_GET          (httpserver/httprequesthandler.py)
     MessageConverterMiddleware.do_post / do_get         (dispatch/messageconverter.py)
   over abstract stage outcomes.  Definitions only (proofs: Dispatch_Proofs.v).

   The model is the code WITH fixes/C13_handler_total.diff (a failing body reader, an URL that
   urlparse rejects and a path without '/' are answered instead of raising out of do_POST/do_GET;
   do_GET answers an unknown path with 404).  [handle_post_found] / [handle_get_found] keep the
   behaviour of the pinned source for the refutation theorems.

   A stage either completes, asks for an HTTP error (HTTPRequestHandlingError and subclasses:
   status + SOAP fault), or raises any other exception. *)
From Coq Require Import List NArith Bool.
Import ListNotations.
Open Scope N_scope.

Inductive stage :=
| SOk
| SHttp (status : N)      (* raises HTTPRequestHandlingError(status, reason, fault) *)
| SRaises.                (* raises something else *)

(* what goes back on the wire *)
Inductive body_kind :=
| KResponse               (* the handler's response message *)
| KFault                  (* a SOAP envelope carrying a Fault *)
| KText                   (* plain text: do_get's exception text, do_POST without dispatcher *)
| KEmpty.                 (* text/plain, Content-length 0 *)

Inductive result :=
| Answer (status : N) (k : body_kind)
| Propagates.             (* an exception leaves the function *)

Definition result_eqb (a b : result) : bool :=
  match a, b with
  | Propagates, Propagates => true
  | Answer s k, Answer s' k' =>
      (s =? s') && match k, k' with
                   | KResponse, KResponse | KFault, KFault | KText, KText | KEmpty, KEmpty => true
                   | _, _ => false
                   end
  | _, _ => false
  end.

(* ---------------------------------------------------------------- MessageConverterMiddleware.do_post *)
Record post_stages := mkPost {
  p_parse : stage;        (* msg_reader.read_received_message(request_bytes): parse + schema validation *)
  p_fault_reply : bool;   (* mk_soap_message(fault).serialize() completes (it is outside any try) *)
  p_dispatch : stage;     (* RequestData, dispatcher.on_post (path + action lookup, the handler), serialize() *)
  p_recover : bool        (* inside the except blocks: re-read without validation, mk_reply_soap_message, serialize *)
}.

Definition do_post (st : post_stages) : result :=
  match p_parse st with
  | SHttp s => if p_fault_reply st then Answer s KFault else Propagates
  | SRaises => if p_fault_reply st then Answer 500 KFault else Propagates
  | SOk =>
      match p_dispatch st with
      | SOk => Answer 200 KResponse
      | SHttp s => if p_recover st then Answer s KFault else Propagates
      | SRaises => if p_recover st then Answer 500 KFault else Propagates
      end
  end.

(* do_get: everything after urlparse is inside one try with a catch-all; urlparse itself is not
   (the request handler has parsed the same path before, see [handle_get]) *)
Record get_stages := mkGet {
  g_urlparse : bool;      (* urlparse(path) completes *)
  g_dispatch : stage      (* RequestData, dispatcher.on_get *)
}.

Definition do_get (st : get_stages) : result :=
  if g_urlparse st then
    match g_dispatch st with
    | SOk => Answer 200 KResponse
    | _ => Answer 500 KText
    end
  else Propagates.

(* ---------------------------------------------------------------- DispatchingRequestHandler *)
Inductive path_class :=
| PathKnown               (* first path element is registered *)
| PathUnknown             (* get_instance raises InvalidPathError *)
| PathNoSlash             (* urlparse(path).path has no '/' and is empty: [''][1] raised IndexError as found *)
| PathBadUrl.             (* urlparse raises ValueError, e.g. 'http://[' *)

Record handler_in := mkIn {
  i_read_ok : bool;       (* HTTPReader.read_request_body completes (Chunk.read_request_body is not an error) *)
  i_dispatcher : bool;    (* server.dispatcher is not None *)
  i_path : path_class;
  i_component : result;   (* what component.do_post / do_get does *)
  i_reason_ok : bool      (* str(exception) can be sent as reason phrase (latin-1, no CR/LF) *)
}.

Definition path_ok_repaired (p : path_class) : bool :=
  match p with PathKnown => true | _ => false end.

Definition handle_post (i : handler_in) : result :=
  if negb (i_read_ok i) then Answer 400 KEmpty
  else if negb (i_dispatcher i) then Answer 500 KText   (* text/plain: 'received a POST request, but have no dispatcher' *)
  else match i_path i with
       | PathKnown =>
           match i_component i with
           | Answer s k => Answer s k
           | Propagates => if i_reason_ok i then Answer 500 KEmpty else Propagates
           end
       | _ => Answer 404 KEmpty
       end.

Definition handle_post_found (i : handler_in) : result :=
  if negb (i_read_ok i) then Propagates
  else if negb (i_dispatcher i) then Answer 500 KText   (* text/plain: 'received a POST request, but have no dispatcher' *)
  else match i_path i with
       | PathKnown =>
           match i_component i with
           | Answer s k => Answer s k
           | Propagates => if i_reason_ok i then Answer 500 KEmpty else Propagates
           end
       | PathUnknown => Answer 404 KEmpty
       | PathNoSlash | PathBadUrl => Propagates
       end.

Definition handle_get (i : handler_in) : result :=
  if negb (i_dispatcher i) then Answer 404 KEmpty
  else match i_path i with
       | PathKnown => i_component i
       | _ => Answer 404 KEmpty
       end.

Definition handle_get_found (i : handler_in) : result :=
  if negb (i_dispatcher i) then Propagates     (* send_response without end_headers: nothing is sent *)
  else match i_path i with
       | PathKnown => i_component i
       | _ => Propagates
       end.

(* ---------------------------------------------------------------- composition: one POST request *)
(* [reader_ok] is decided by the body reader of Http.Chunk; the component is the middleware *)
Definition serve_post (read_ok dispatcher : bool) (p : path_class) (st : post_stages) (reason_ok : bool) : result :=
  handle_post (mkIn read_ok dispatcher p (do_post st) reason_ok).

Definition serve_get (dispatcher : bool) (p : path_class) (st : get_stages) : result :=
  handle_get (mkIn true dispatcher p (do_get st) true).

(* ---------------------------------------------------------------- state *)
(* The only stage that is handed the provider state is the handler inside [p_dispatch].  [S] is
   whatever the provider keeps (MDIB tables, versions, subscription table). *)
Section State.
  Variable S : Type.
  Variable handler : S -> stage * S.      (* outcome of dispatch + state afterwards *)

  Definition do_post_state (parse : stage) (fault_reply recover : bool) (s : S) : result * S :=
    match parse with
    | SOk => let '(d, s') := handler s in (do_post (mkPost SOk fault_reply d recover), s')
    | _ => (do_post (mkPost parse fault_reply SOk recover), s)
    end.
End State.

Definition rejected (r : result) : bool :=
  match r with
  | Answer s _ => 400 <=? s
  | Propagates => true
  end.

(* ---------------------------------------------------------------- correspondence helpers *)
Definition mk_stage (c v : N) : stage := match c with 0 => SOk | 1 => SHttp v | _ => SRaises end.
Definition mk_path (c : N) : path_class :=
  match c with 0 => PathKnown | 1 => PathUnknown | 2 => PathNoSlash | _ => PathBadUrl end.
Definition mk_kind (c : N) : body_kind := match c with 0 => KResponse | 1 => KFault | 2 => KText | _ => KEmpty end.
Definition mk_result (c s k : N) : result := match c with 0 => Propagates | _ => Answer s (mk_kind k) end.

(* case encodings used by the harness *)
Definition run_do_post (c : (N * N) * bool * (N * N) * bool) : result :=
  let '(pa, fr, di, rc) := c in
  do_post (mkPost (mk_stage (fst pa) (snd pa)) fr (mk_stage (fst di) (snd di)) rc).

Definition run_do_get (c : bool * (N * N)) : result :=
  do_get (mkGet (fst c) (mk_stage (fst (snd c)) (snd (snd c)))).

Definition run_handle (c : bool * (bool * bool * N) * (N * N * N) * bool) : result :=
  let '(is_post, hd, comp, reason_ok) := c in
  let '(read_ok, disp, p) := hd in
  let '(cc, cs, ck) := comp in
  let i := mkIn read_ok disp (mk_path p) (mk_result cc cs ck) reason_ok in
  if is_post then handle_post i else handle_get i.

Inductive dcase :=
| DPost (c : (N * N) * bool * (N * N) * bool)
| DGet (c : bool * (N * N))
| DHandle (c : bool * (bool * bool * N) * (N * N * N) * bool).

Definition run_dispatch (c : dcase) : result :=
  match c with
  | DPost c => run_do_post c
  | DGet c => run_do_get c
  | DHandle c => run_handle c
  end.
