(* End-to-end statement for C17: what the sender produces (optional content coding, then either
   chunked framing or Content-Length) is decoded to the original bytes by the receiver, on the
   request path (SoapClient._send_soap_request -> HTTPReader.read_request_body) and on the
   response path (DispatchingRequestHandler.do_POST -> http.client -> HTTPReader.read_response_body).

   The compressors (zlib, lz4) and http.client's own chunk reader are not modelled: they enter as
   Section variables with the laws below as explicit premises of the theorems; the harness
   validates those laws differentially on every run (streams "codec" and "mk_chunks"). *)
From Coq Require Import List NArith Bool Lia.
From SDC Require Import Http.Chunk Http.Chunk_Proofs.
Import ListNotations.
Open Scope N_scope.

Section Coding.
  Variable hmax : nat.
  Variable avail : list bytes.
  (* coding name -> payload -> result; None = the library raises *)
  Variable compress decompress : bytes -> bytes -> option bytes.
  Hypothesis codec_law :
    forall c b, In c avail -> exists z, compress c b = Some z /\ decompress c z = Some b.

  (* http.client's reader of chunked bodies, specified only on the strict grammar *)
  Variable client_dechunk : bytes -> option bytes.
  Hypothesis client_dechunk_ok :
    forall w b, chunked (hmax - 2) w b -> client_dechunk w = Some b.

  (* sender: coding = the chosen content coding (None: identity), chunk = configured chunk size *)
  Definition encode (coding : option bytes) (chunk : N) (xml : bytes) : option (req_headers * bytes) :=
    match (match coding with None => Some xml | Some c => compress c xml end) with
    | None => None
    | Some payload =>
        if 0 <? chunk then Some (mkH true CLAbsent coding, mk_chunks chunk payload)
        else Some (mkH false (CLNum (lenN payload)) coding, payload)
    end.

  Definition finish (r : rres) : option bytes :=
    match r with
    | RBody (Some b) _ => Some b
    | RDecode enc (Some z) _ => decompress enc z
    | _ => None
    end.

  Definition decode_request (h : req_headers) (wire : bytes) : option bytes :=
    let s := uncapped wire in
    finish (read_request_body hmax avail (fuel_for s) h s).

  Definition decode_response (h : req_headers) (wire : bytes) : option bytes :=
    match (if h_chunked h then client_dechunk wire else Some wire) with
    | None => None
    | Some payload => finish (read_response_body avail h (uncapped payload))
    end.

  Definition coding_ok (coding : option bytes) : Prop :=
    match coding with Some c => In c avail | None => True end.

  Lemma sread_all b : sread (lenN b) (uncapped b) = (b, uncapped []).
  Proof.
    rewrite sread_uncapped. destruct (takeN_all b (lenN b)) as [E1 E2]; [lia|]. now rewrite E1, E2.
  Qed.

  Lemma mem_avail c : In c avail -> mem_bytes c avail = true.
  Proof. apply mem_bytes_In. Qed.

  Theorem request_roundtrip coding chunk xml h wire :
    (3 <= hmax)%nat -> chunk < 16 ^ N.of_nat (hmax - 2) -> coding_ok coding ->
    encode coding chunk xml = Some (h, wire) ->
    decode_request h wire = Some xml.
  Proof.
    intros Hm Hc Hok E. unfold encode in E.
    assert (P : exists payload,
               match coding with None => Some xml | Some c => compress c xml end = Some payload /\
               match coding with None => payload = xml | Some c => decompress c payload = Some xml end).
    { destruct coding as [c|]; [|eauto]. destruct (codec_law c xml Hok) as [z [Z1 Z2]]. eauto. }
    destruct P as [payload [P1 P2]]. rewrite P1 in E.
    unfold decode_request, read_request_body.
    destruct (0 <? chunk) eqn:C; inversion E; subst; clear E; simpl h_chunked; simpl h_cl; cbv iota beta.
    - pose proof (dechunk_mk_chunks hmax chunk payload [] Hm ltac:(lia) ltac:(lia)) as D.
      simpl in D. rewrite app_nil_r in D. rewrite D.
      unfold decode_step. simpl h_ce. destruct coding as [c|]; simpl.
      + rewrite (mem_avail c Hok). simpl. exact P2.
      + now subst.
    - rewrite sread_all. unfold decode_step. simpl h_ce. destruct coding as [c|]; simpl.
      + rewrite (mem_avail c Hok). simpl. exact P2.
      + now subst.
  Qed.

  Theorem response_roundtrip coding chunk xml h wire :
    (3 <= hmax)%nat -> chunk < 16 ^ N.of_nat (hmax - 2) -> coding_ok coding ->
    encode coding chunk xml = Some (h, wire) ->
    decode_response h wire = Some xml.
  Proof.
    intros Hm Hc Hok E. unfold encode in E.
    assert (P : exists payload,
               match coding with None => Some xml | Some c => compress c xml end = Some payload /\
               match coding with None => payload = xml | Some c => decompress c payload = Some xml end).
    { destruct coding as [c|]; [|eauto]. destruct (codec_law c xml Hok) as [z [Z1 Z2]]. eauto. }
    destruct P as [payload [P1 P2]]. rewrite P1 in E.
    unfold decode_response, read_response_body.
    destruct (0 <? chunk) eqn:C; inversion E; subst; clear E; simpl h_chunked; simpl h_cl; cbv iota beta.
    - rewrite (client_dechunk_ok (mk_chunks chunk payload) payload).
      2:{ apply mk_chunks_chunked; lia. }
      unfold decode_step. simpl h_ce. destruct coding as [c|]; simpl.
      + rewrite (mem_avail c Hok). simpl. exact P2.
      + now subst.
    - rewrite sread_all. unfold decode_step. simpl h_ce. destruct coding as [c|]; simpl.
      + rewrite (mem_avail c Hok). simpl. exact P2.
      + now subst.
  Qed.

  (* a body that carries a Content-Encoding is never returned raw: whatever is returned is the
     named decompressor's answer, so a payload it rejects (corrupt, foreign) is rejected *)
  Theorem coded_never_raw h wire enc :
    h_ce h = Some enc ->
    forall b, decode_request h wire = Some b ->
    exists z, decompress enc z = Some b.
  Proof.
    intros He b H. unfold decode_request in H.
    destruct (read_request_body hmax avail (fuel_for (uncapped wire)) h (uncapped wire)) as [ob s|e ob s| |] eqn:R;
      simpl in H; try discriminate.
    - exfalso. unfold read_request_body, decode_step in R. rewrite He in R.
      destruct (h_chunked h).
      + destruct (dechunk hmax _ _); try discriminate. destruct (mem_bytes enc avail); discriminate.
      + destruct (h_cl h) as [|n| |]; try discriminate.
        * destruct (mem_bytes enc avail); discriminate.
        * destruct (sread n _). destruct (mem_bytes enc avail); discriminate.
    - destruct ob as [z|]; [|discriminate].
      apply decode_only_available in R as [R1 _]. rewrite He in R1. inversion R1; subst. eauto.
  Qed.
End Coding.
