(* The request loop of one kept-alive connection (BaseHTTPRequestHandler.handle: handle_one_request until
   close_connection) around DispatchingRequestHandler.do_POST / do_GET.  Definitions only (proofs:
   Connection_Proofs.v).

   http.server parses the request line and the header block of every request; that part is not modelled.
   The stream of the model therefore holds the BODY bytes of the requests only, one behind the other, and a
   request is given by the header classes that decide its framing plus the remaining inputs of
   handle_post / handle_get.  The question the model answers: where in the stream does the handler stand
   when it is done with one request - i.e. are the next bytes it will treat as a request really the next
   request, or bytes of this request's body.

   [step] is the code WITH fixes/C13_get_body_unread.diff (a GET that announces a body closes the connection).
   [step_lazy] (body read only after the path lookup) and [step_get_found] (do_GET as found: body ignored,
   connection kept) are kept for the refutation theorems. *)
From Coq Require Import List NArith Bool.
From SDC Require Import Http.Chunk Http.Dispatch.
Import ListNotations.
Open Scope N_scope.

Record creq := mkC {
  c_post : bool;            (* POST: do_POST reads the body; GET: do_GET does not *)
  c_hdr : req_headers;      (* Transfer-Encoding / Content-Length / Content-Encoding classes of this request *)
  c_in : handler_in;        (* dispatcher, path class, component outcome, reason phrase (i_read_ok is not used) *)
  c_decode_ok : bool        (* the decompressor accepts the payload (asked only when the reader hands one on) *)
}.

Definition with_read (ok : bool) (i : handler_in) : handler_in :=
  mkIn ok (i_dispatcher i) (i_path i) (i_component i) (i_reason_ok i).

(* Content-Length or Transfer-Encoding present *)
Definition announces_body (h : req_headers) : bool :=
  h_chunked h || match h_cl h with CLAbsent => false | _ => true end.

Definition is_propagates (r : result) : bool := match r with Propagates => true | _ => false end.

(* answer, stream position afterwards, connection closed *)
Definition answered (i : handler_in) (s : stream) : result * stream * bool :=
  let a := handle_post (with_read true i) in
  (a, s, negb (i_dispatcher i) || is_propagates a).

Definition step (hmax : nat) (avail : list bytes) (r : creq) (s : stream) : result * stream * bool :=
  if c_post r then
    match read_request_body hmax avail (fuel_for s) (c_hdr r) s with
    | RBody _ s' => answered (c_in r) s'
    | RDecode _ _ s' => if c_decode_ok r then answered (c_in r) s' else (Answer 400 KEmpty, s', true)
    | RErr _ s' => (Answer 400 KEmpty, s', true)
    | RFuel => (Propagates, s, true)
    end
  else
    let a := handle_get (c_in r) in
    (a, s, announces_body (c_hdr r) || negb (i_dispatcher (c_in r)) || is_propagates a).

(* do_POST that looks the path up first and reads the body only for a registered path *)
Definition step_lazy (hmax : nat) (avail : list bytes) (r : creq) (s : stream) : result * stream * bool :=
  if c_post r && i_dispatcher (c_in r) && negb (path_ok_repaired (i_path (c_in r)))
  then (Answer 404 KEmpty, s, false)
  else step hmax avail r s.

(* do_GET as found: the body is not read and the connection stays open *)
Definition step_get_found (hmax : nat) (avail : list bytes) (r : creq) (s : stream) : result * stream * bool :=
  if c_post r then step hmax avail r s
  else let a := handle_get (c_in r) in (a, s, negb (i_dispatcher (c_in r)) || is_propagates a).

Section Loop.
  Variable stepf : creq -> stream -> result * stream * bool.

  Fixpoint run_conn (rs : list creq) (s : stream) : list result * stream :=
    match rs with
    | [] => ([], s)
    | r :: rest =>
        let '(a, s', close) := stepf r s in
        if close then ([a], s')
        else let '(answers, s'') := run_conn rest s' in (a :: answers, s'')
    end.
End Loop.

(* every request served on a stream that holds its own body and nothing else *)
Fixpoint serve_isolated (hmax : nat) (avail : list bytes) (rs : list creq) (ws : list bytes) : list result :=
  match rs, ws with
  | r :: rs', w :: ws' =>
      let '(a, _, close) := step hmax avail r (uncapped w) in
      if close then [a] else a :: serve_isolated hmax avail rs' ws'
  | _, _ => []
  end.

(* ---------------------------------------------------------------- correspondence helpers *)
(* one request: (is_post, (chunked, cl code, cl value), content-encoding, (dispatcher, path class),
   component (c, status, kind), decode_ok) *)
Definition mk_creq (c : bool * (bool * N * N) * option bytes * (bool * N) * (N * N * N) * bool) : creq :=
  let '(post, hd, ce, dp, comp, dec) := c in
  let '(ch, code, v) := hd in
  let '(cc, cs, ck) := comp in
  mkC post (mkH ch (mk_cl code v) ce) (mkIn true (fst dp) (mk_path (snd dp)) (mk_result cc cs ck) true) dec.

Definition run_conn_case (hmax : nat) (avail : list bytes)
           (c : list (bool * (bool * N * N) * option bytes * (bool * N) * (N * N * N) * bool) * bytes) : list result * N :=
  let '(answers, s) := run_conn (step hmax avail) (map mk_creq (fst c)) (uncapped (snd c)) in
  (answers, lenN (sdata s)).

Definition results_eqb (a b : list result) : bool :=
  (fix go (a b : list result) : bool :=
     match a, b with
     | [], [] => true
     | x :: a', y :: b' => result_eqb x y && go a' b'
     | _, _ => false
     end) a b.

Definition conn_eqb (a b : list result * N) : bool := results_eqb (fst a) (fst b) && (snd a =? snd b).

Definition run_conn_answers (hmax : nat) (avail : list bytes)
           (c : list (bool * (bool * N * N) * option bytes * (bool * N) * (N * N * N) * bool) * bytes) : list result :=
  fst (run_conn_case hmax avail c).
