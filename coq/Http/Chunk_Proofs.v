(* Proofs about Http.Chunk: hex round trip, framing grammar, decoder completeness and soundness,
   termination of the readers. *)
From Coq Require Import List NArith ZArith Bool Lia ZifyBool Arith.
From SDC Require Import Http.Chunk.
Import ListNotations.
Open Scope N_scope.

Local Arguments sread : simpl never.
Local Arguments lenN : simpl never.
Local Arguments to_hex : simpl never.
Local Arguments parse_size : simpl never.
Local Arguments N.sub : simpl never.
Local Arguments N.eqb : simpl never.

Lemma mod16_lt n : n mod 16 < 16.
Proof. apply N.mod_lt. lia. Qed.

(* ---------------------------------------------------------------- takeN / dropN *)
Lemma takeN_dropN {A} : forall (l : list A) n, takeN n l ++ dropN n l = l.
Proof.
  induction l as [|x l IH]; intros n; simpl; [reflexivity|].
  destruct (n =? 0); simpl; [reflexivity|]. now rewrite IH.
Qed.

Lemma lenN_cons {A} (x : A) l : lenN (x :: l) = 1 + lenN l.
Proof. unfold lenN. simpl length. lia. Qed.

Lemma lenN_app {A} (a b : list A) : lenN (a ++ b) = lenN a + lenN b.
Proof. unfold lenN. rewrite app_length. lia. Qed.

Lemma lenN_nil {A} : lenN (@nil A) = 0.
Proof. reflexivity. Qed.

Lemma lenN_takeN {A} : forall (l : list A) n, lenN (takeN n l) = N.min n (lenN l).
Proof.
  induction l as [|x l IH]; intros n; simpl.
  - rewrite lenN_nil. lia.
  - destruct (n =? 0) eqn:E.
    + rewrite lenN_nil. lia.
    + rewrite !lenN_cons, IH. lia.
Qed.

Lemma takeN_0 {A} (l : list A) : takeN 0 l = [].
Proof. destruct l; reflexivity. Qed.

Lemma dropN_0 {A} (l : list A) : dropN 0 l = l.
Proof. destruct l; reflexivity. Qed.

Lemma takeN_app_exact {A} : forall (a b : list A), takeN (lenN a) (a ++ b) = a.
Proof.
  induction a as [|x a IH]; intros b.
  - rewrite lenN_nil. apply takeN_0.
  - rewrite lenN_cons. simpl app. cbn [takeN].
    replace (1 + lenN a =? 0) with false by lia.
    replace (N.pred (1 + lenN a)) with (lenN a) by lia. now rewrite IH.
Qed.

Lemma dropN_app_exact {A} : forall (a b : list A), dropN (lenN a) (a ++ b) = b.
Proof.
  induction a as [|x a IH]; intros b.
  - rewrite lenN_nil. apply dropN_0.
  - rewrite lenN_cons. simpl app. cbn [dropN].
    replace (1 + lenN a =? 0) with false by lia.
    replace (N.pred (1 + lenN a)) with (lenN a) by lia. now rewrite IH.
Qed.

Lemma takeN_all {A} : forall (l : list A) n, lenN l <= n -> takeN n l = l /\ dropN n l = [].
Proof.
  induction l as [|x l IH]; intros n H; simpl; [split; reflexivity|].
  rewrite lenN_cons in H.
  replace (n =? 0) with false by lia.
  destruct (IH (N.pred n)) as [E1 E2]; [lia|]. now rewrite E1, E2.
Qed.

Lemma takeN_nil_inv {A} : forall (l : list A) n, 0 < n -> takeN n l = [] -> l = [].
Proof.
  intros [|x l] n H E; [reflexivity|]. simpl in E.
  replace (n =? 0) with false in E by lia. discriminate.
Qed.

(* ---------------------------------------------------------------- hexadecimal *)
Lemma hex_value_digit d : d < 16 -> hex_value (hex_digit d) = Some d.
Proof.
  intros H. unfold hex_digit, hex_value.
  destruct (d <? 10) eqn:E.
  - replace ((48 <=? 48 + d) && (48 + d <=? 57)) with true by lia. f_equal. lia.
  - replace ((48 <=? 87 + d) && (87 + d <=? 57)) with false by lia.
    replace ((97 <=? 87 + d) && (87 + d <=? 102)) with true by lia. f_equal. lia.
Qed.

Definition is_hexb (c : N) : bool := match hex_value c with Some _ => true | None => false end.

Lemma is_hexb_digit d : d < 16 -> is_hexb (hex_digit d) = true.
Proof. intros H. unfold is_hexb. now rewrite hex_value_digit. Qed.

Lemma from_hex_aux_to_hex_aux : forall fuel n acc a,
  N.log2 n < N.of_nat fuel ->
  exists k, from_hex_aux (to_hex_aux fuel n acc) a = from_hex_aux acc (a * 16 ^ k + n).
Proof.
  induction fuel as [|f IH]; intros n acc a H; [lia|].
  simpl to_hex_aux. destruct (n <? 16) eqn:E.
  - exists 1. cbn [from_hex_aux]. rewrite hex_value_digit by apply mod16_lt.
    f_equal. rewrite N.pow_1_r. rewrite N.mod_small by lia. lia.
  - assert (Hn : 16 <= n) by lia.
    assert (Hl : N.log2 (n / 16) < N.of_nat f).
    { change 16 with (2 ^ 4). rewrite <- N.shiftr_div_pow2, N.log2_shiftr.
      assert (4 <= N.log2 n) by (apply N.log2_le_pow2; simpl; lia). lia. }
    destruct (IH (n / 16) (hex_digit (n mod 16) :: acc) a Hl) as [k Hk].
    exists (k + 1). rewrite Hk. cbn [from_hex_aux].
    rewrite hex_value_digit by apply mod16_lt. f_equal.
    rewrite N.pow_add_r, N.pow_1_r. pose proof (N.div_mod n 16 ltac:(lia)). lia.
Qed.

Lemma to_hex_aux_nonempty : forall fuel n acc, fuel <> O -> to_hex_aux fuel n acc <> [].
Proof.
  induction fuel as [|f IH]; intros n acc H; [congruence|].
  simpl. destruct (n <? 16); [discriminate|].
  destruct f as [|f']; [simpl; discriminate|]. apply IH. discriminate.
Qed.

Lemma to_hex_aux_hex : forall fuel n acc,
  Forall (fun c => is_hexb c = true) acc -> Forall (fun c => is_hexb c = true) (to_hex_aux fuel n acc).
Proof.
  induction fuel as [|f IH]; intros n acc H; simpl; [assumption|].
  assert (Forall (fun c => is_hexb c = true) (hex_digit (n mod 16) :: acc)).
  { constructor; [apply is_hexb_digit; apply mod16_lt | assumption]. }
  destruct (n <? 16); [assumption | now apply IH].
Qed.

Lemma to_hex_hex n : Forall (fun c => is_hexb c = true) (to_hex n).
Proof. apply to_hex_aux_hex. constructor. Qed.

Lemma to_hex_nonempty n : to_hex n <> [].
Proof. apply to_hex_aux_nonempty. discriminate. Qed.

Lemma from_hex_to_hex n : from_hex (to_hex n) = Some n.
Proof.
  unfold from_hex. destruct (to_hex n) eqn:E; [now apply to_hex_nonempty in E|].
  rewrite <- E. unfold to_hex.
  destruct (from_hex_aux_to_hex_aux (S (N.to_nat (N.log2 n))) n [] 0) as [k Hk]; [lia|].
  rewrite Hk. simpl. f_equal.
Qed.

Lemma to_hex_aux_length : forall fuel n acc k,
  (1 <= k)%nat -> n < 16 ^ N.of_nat k ->
  (length (to_hex_aux fuel n acc) <= k + length acc)%nat.
Proof.
  induction fuel as [|f IH]; intros n acc k Hk H; simpl; [lia|].
  destruct (n <? 16) eqn:E; [simpl; lia|].
  destruct k as [|k]; [lia|]. destruct k as [|k].
  { simpl in H. lia. }
  assert (Hd : n / 16 < 16 ^ N.of_nat (S k)).
  { apply N.div_lt_upper_bound; [lia|].
    rewrite Nat2N.inj_succ with (n := S k), N.pow_succ_r' in H. exact H. }
  specialize (IH (n / 16) (hex_digit (n mod 16) :: acc) (S k) ltac:(lia) Hd).
  simpl length in IH. lia.
Qed.

Lemma to_hex_length n k : (1 <= k)%nat -> n < 16 ^ N.of_nat k -> (length (to_hex n) <= k)%nat.
Proof.
  intros Hk H. pose proof (to_hex_aux_length (S (N.to_nat (N.log2 n))) n [] k Hk H) as L.
  unfold to_hex. simpl in L. rewrite Nat.add_0_r in L. exact L.
Qed.

(* strings that from_hex accepts consist of hex digits only *)
Lemma from_hex_aux_hex : forall l a n, from_hex_aux l a = Some n -> Forall (fun c => is_hexb c = true) l.
Proof.
  induction l as [|c l IH]; intros a n H; [constructor|].
  simpl in H. destruct (hex_value c) eqn:E; [|discriminate].
  constructor; [unfold is_hexb; now rewrite E | eauto].
Qed.

Lemma from_hex_hex l n : from_hex l = Some n -> Forall (fun c => is_hexb c = true) l /\ l <> [].
Proof.
  unfold from_hex. destruct l; [discriminate|]. intros H. split; [eapply from_hex_aux_hex; eauto | discriminate].
Qed.

Lemma is_hexb_not_ws c : is_hexb c = true -> is_ws c = false.
Proof.
  unfold is_hexb, hex_value, is_ws.
  destruct ((48 <=? c) && (c <=? 57)) eqn:E1; [lia|].
  destruct ((97 <=? c) && (c <=? 102)) eqn:E2; [lia|].
  destruct ((65 <=? c) && (c <=? 70)) eqn:E3; [lia|discriminate].
Qed.

Lemma is_hexb_range c : is_hexb c = true -> 48 <= c <= 102 /\ c <> 59.
Proof.
  unfold is_hexb, hex_value.
  destruct ((48 <=? c) && (c <=? 57)) eqn:E1; [lia|].
  destruct ((97 <=? c) && (c <=? 102)) eqn:E2; [lia|].
  destruct ((65 <=? c) && (c <=? 70)) eqn:E3; [lia|discriminate].
Qed.

Lemma take_until_hex l : Forall (fun c => is_hexb c = true) l -> take_until 59 l = l.
Proof.
  induction 1 as [|c l Hc _ IH]; simpl; [reflexivity|].
  apply is_hexb_range in Hc. replace (c =? 59) with false by lia. now rewrite IH.
Qed.

Lemma drop_ws_hex l : Forall (fun c => is_hexb c = true) l -> drop_ws l = l.
Proof. destruct 1 as [|c l Hc _]; simpl; [reflexivity|]. now rewrite (is_hexb_not_ws _ Hc). Qed.

Lemma strip_hex l : Forall (fun c => is_hexb c = true) l -> strip l = l.
Proof.
  intros H. unfold strip. rewrite (drop_ws_hex l H).
  rewrite drop_ws_hex; [apply rev_involutive | now apply Forall_rev].
Qed.

Lemma parse_size_hex h n : from_hex h = Some n -> parse_size h = Some n.
Proof.
  intros H. destruct (from_hex_hex _ _ H) as [Hh _].
  unfold parse_size. now rewrite take_until_hex, strip_hex.
Qed.

Lemma parse_size_to_hex n : parse_size (to_hex n) = Some n.
Proof. apply parse_size_hex, from_hex_to_hex. Qed.

(* ---------------------------------------------------------------- sread *)
Lemma sread_split n s c s' : sread n s = (c, s') -> sdata s = c ++ sdata s' /\ lenN c <= n.
Proof.
  unfold sread. intros H. inversion H; subst; clear H. simpl. split.
  - symmetry. apply takeN_dropN.
  - rewrite lenN_takeN. destruct (scaps s); lia.
Qed.

Lemma sread_progress n s c s' : sread n s = (c, s') -> 0 < n -> sdata s <> [] -> c <> [].
Proof.
  unfold sread. intros H Hn Hd. inversion H; subst; clear H. intros E.
  apply takeN_nil_inv in E; [congruence|]. destruct (scaps s); lia.
Qed.

Lemma sread_uncapped n d : sread n (uncapped d) = (takeN n d, uncapped (dropN n d)).
Proof. reflexivity. Qed.

Lemma sread_uncapped_app a b : sread (lenN a) (uncapped (a ++ b)) = (a, uncapped b).
Proof. rewrite sread_uncapped, takeN_app_exact, dropN_app_exact. reflexivity. Qed.

Lemma sread1_uncapped_cons x l : sread 1 (uncapped (x :: l)) = ([x], uncapped l).
Proof. unfold sread, uncapped. simpl. rewrite takeN_0, dropN_0. reflexivity. Qed.

Lemma sread_empty n caps : sread n (mkS [] caps) = ([], mkS [] (tl caps)).
Proof. unfold sread. simpl. reflexivity. Qed.

Opaque sread.

(* ---------------------------------------------------------------- read_until *)
(* soundness: what was consumed is the returned line followed by CRLF *)
Lemma read_until_sound : forall k rbuf s h s1,
  read_until k rbuf s = (Some h, s1) ->
  exists consumed, sdata s = consumed ++ sdata s1 /\ rev rbuf ++ consumed = h ++ crlf.
Proof.
  induction k as [|k IH]; intros rbuf s h s1 H; simpl in H; [discriminate|].
  destruct (sread 1 s) as [c s'] eqn:Es.
  destruct (sread_split _ _ _ _ Es) as [Hd Hl].
  destruct c as [|b c]; [discriminate|].
  assert (c = []) as ->.
  { destruct c; [reflexivity|]. rewrite !lenN_cons in Hl. lia. }
  destruct rbuf as [|p rest].
  - apply IH in H. destruct H as [cons [H1 H2]]. exists (b :: cons). split.
    + rewrite Hd, H1. reflexivity.
    + simpl in *. exact H2.
  - destruct ((b =? 10) && (p =? 13)) eqn:E.
    + inversion H; subst; clear H. exists [b]. split; [exact Hd|].
      assert (b = 10) by lia. assert (p = 13) by lia. subst. simpl.
      rewrite <- app_assoc. reflexivity.
    + apply IH in H. destruct H as [cons [H1 H2]]. exists (b :: cons). split.
      * rewrite Hd, H1. reflexivity.
      * simpl rev in *. rewrite <- H2. rewrite <- !app_assoc. reflexivity.
Qed.

(* completeness on an uncapped stream: a line without LF, followed by CRLF, within k bytes *)
Lemma read_until_line : forall pre k rbuf rest,
  Forall (fun c => c <> 10) pre -> (length pre + 2 <= k)%nat ->
  read_until k rbuf (uncapped (pre ++ crlf ++ rest)) = (Some (rev rbuf ++ pre), uncapped rest).
Proof.
  induction pre as [|c pre IH]; intros k rbuf rest Hp Hk.
  - destruct k as [|[|k]]; try (simpl in Hk; lia). simpl app.
    unfold crlf. cbn [read_until]. rewrite !sread1_uncapped_cons.
    destruct rbuf as [|p r].
    + reflexivity.
    + replace ((13 =? 10) && (p =? 13)) with false by reflexivity.
      replace ((10 =? 10) && (13 =? 13)) with true by reflexivity.
      rewrite app_nil_r. reflexivity.
  - destruct k as [|k]; [simpl in Hk; lia|].
    inversion Hp; subst. simpl app. cbn [read_until]. rewrite sread1_uncapped_cons.
    change (pre ++ 13 :: 10 :: rest) with (pre ++ crlf ++ rest).
    destruct rbuf as [|p r].
    + rewrite IH by (auto; simpl in Hk; lia). reflexivity.
    + replace ((c =? 10) && (p =? 13)) with false by lia.
      rewrite IH by (auto; simpl in Hk; lia). simpl. rewrite <- app_assoc. reflexivity.
Qed.

Lemma hex_no_lf l : Forall (fun c => is_hexb c = true) l -> Forall (fun c => c <> 10) l.
Proof. apply Forall_impl. intros c H. apply is_hexb_range in H. lia. Qed.

(* ---------------------------------------------------------------- read_n *)
Lemma read_n_sound : forall fuel n s d s',
  read_n fuel n s = NData d s' -> sdata s = d ++ sdata s' /\ lenN d = n.
Proof.
  induction fuel as [|f IH]; intros n s d s' H; simpl in H; [discriminate|].
  destruct (n =? 0) eqn:E.
  - inversion H; subst. split; [reflexivity|]. rewrite lenN_nil. lia.
  - destruct (sread n s) as [c s1] eqn:Es.
    destruct (sread_split _ _ _ _ Es) as [Hd Hl].
    destruct c as [|b c]; [discriminate|].
    destruct (read_n f (n - lenN (b :: c)) s1) as [d1 s2| |] eqn:Er; try discriminate.
    inversion H; subst; clear H.
    apply IH in Er. destruct Er as [H1 H2]. split.
    + rewrite Hd, H1. now rewrite app_assoc.
    + change (b :: c ++ d1) with ((b :: c) ++ d1). rewrite lenN_app, H2. lia.
Qed.

Lemma read_n_uncapped_exact : forall fuel d rest,
  (2 <= fuel)%nat -> read_n fuel (lenN d) (uncapped (d ++ rest)) = NData d (uncapped rest).
Proof.
  intros fuel d rest Hf. destruct fuel as [|[|f]]; try lia.
  simpl read_n. destruct (lenN d =? 0) eqn:E.
  - destruct d; [reflexivity|]. rewrite lenN_cons in E. lia.
  - change (mkS (d ++ rest) []) with (uncapped (d ++ rest)).
    rewrite sread_uncapped_app.
    destruct d as [|b d]; [rewrite lenN_nil in E; lia|].
    replace (lenN (b :: d) - lenN (b :: d) =? 0) with true by lia.
    now rewrite app_nil_r.
Qed.

Lemma read_n_terminates : forall fuel n s,
  (length (sdata s) < fuel)%nat -> read_n fuel n s <> NFuel.
Proof.
  induction fuel as [|f IH]; intros n s H; [lia|].
  simpl. destruct (n =? 0) eqn:E; [discriminate|].
  destruct (sread n s) as [c s1] eqn:Es.
  destruct (sread_split _ _ _ _ Es) as [Hd _].
  destruct c as [|b c]; [discriminate|].
  assert (Hlt : (length (sdata s1) < f)%nat).
  { rewrite Hd in H. rewrite app_length in H. simpl in H. lia. }
  specialize (IH (n - lenN (b :: c)) s1 Hlt).
  destruct (read_n f (n - lenN (b :: c)) s1); congruence.
Qed.

(* the loop as found: at end of data no amount of fuel is enough *)
Lemma read_n_found_spins : forall fuel n caps, 0 < n -> read_n_found fuel n (mkS [] caps) = NFuel.
Proof.
  induction fuel as [|f IH]; intros n caps H; [reflexivity|].
  simpl. replace (n =? 0) with false by lia.
  rewrite sread_empty, lenN_nil, N.sub_0_r.
  rewrite IH by assumption. reflexivity.
Qed.

(* ---------------------------------------------------------------- the framing grammar *)
(* strict HTTP/1.1 chunked body without extensions and trailers, chunk-size lines of at most m digits *)
Inductive chunked (m : nat) : bytes -> bytes -> Prop :=
| ch_last : forall h,
    from_hex h = Some 0 -> (length h <= m)%nat ->
    chunked m (h ++ crlf ++ crlf) []
| ch_cons : forall h d w b,
    from_hex h = Some (lenN d) -> d <> [] -> (length h <= m)%nat ->
    chunked m w b ->
    chunked m (h ++ crlf ++ d ++ crlf ++ w) (d ++ b).

(* what the reader accepts: any size line that parse_size understands (white space, extensions) *)
Inductive chunked_any : bytes -> bytes -> Prop :=
| ca_last : forall h,
    parse_size h = Some 0 -> chunked_any (h ++ crlf ++ crlf) []
| ca_cons : forall h d w b,
    parse_size h = Some (lenN d) -> d <> [] -> chunked_any w b ->
    chunked_any (h ++ crlf ++ d ++ crlf ++ w) (d ++ b).

Lemma chunked_chunked_any m w b : chunked m w b -> chunked_any w b.
Proof. induction 1; [apply ca_last | apply ca_cons]; auto using parse_size_hex. Qed.

(* mk_chunks produces the strict grammar *)
Lemma mk_chunks_aux_chunked : forall fuel n tail m,
  (length tail < fuel)%nat -> 1 <= n -> (1 <= m)%nat -> N.min n (lenN tail) < 16 ^ N.of_nat m ->
  chunked m (mk_chunks_aux fuel n tail) tail.
Proof.
  induction fuel as [|f IH]; intros n tail m Hf Hn Hm Hb; [lia|].
  cbn [mk_chunks_aux].
  destruct (takeN n tail) as [|x hd] eqn:Eh.
  - apply takeN_nil_inv in Eh; [|lia]. subst tail.
    change (to_hex (lenN []) ++ crlf ++ [] ++ crlf ++ []) with (to_hex 0 ++ crlf ++ crlf).
    apply ch_last; [apply from_hex_to_hex|].
    apply to_hex_length; [lia|].
    apply N.neq_0_lt_0. apply N.pow_nonzero. lia.
  - pose proof (takeN_dropN tail n) as Hsplit. rewrite Eh in Hsplit.
    pose proof (lenN_takeN tail n) as Hl. rewrite Eh in Hl.
    rewrite <- Hsplit at 2.
    apply ch_cons.
    + apply from_hex_to_hex.
    + discriminate.
    + apply to_hex_length; [lia|]. rewrite Hl. exact Hb.
    + apply IH; try assumption.
      * rewrite <- Hsplit in Hf. rewrite app_length in Hf. simpl in Hf. lia.
      * assert (lenN (dropN n tail) <= lenN tail).
        { rewrite <- Hsplit at 2. rewrite lenN_app. lia. }
        lia.
Qed.

Lemma mk_chunks_chunked n body m :
  1 <= n -> (1 <= m)%nat -> N.min n (lenN body) < 16 ^ N.of_nat m -> chunked m (mk_chunks n body) body.
Proof. intros. apply mk_chunks_aux_chunked; auto. Qed.

Lemma bytes_eqb_eq : forall a b, bytes_eqb a b = true -> a = b.
Proof.
  induction a as [|x a IH]; intros [|y b] H; simpl in H; try discriminate; [reflexivity|].
  apply andb_prop in H as [H1 H2]. apply N.eqb_eq in H1. subst. f_equal. now apply IH.
Qed.

Lemma bytes_eqb_refl : forall a, bytes_eqb a a = true.
Proof. induction a as [|x a IH]; simpl; [reflexivity|]. now rewrite N.eqb_refl, IH. Qed.

(* unfolding equations (rewriting with them leaves the arguments untouched) *)
Lemma dechunk_gen_S hmax rn f s :
  dechunk_gen hmax rn (S f) s =
  match read_until hmax [] s with
  | (None, s1) => DErr EHeader s1
  | (Some h, s1) =>
      match parse_size h with
      | None => DErr ESize s1
      | Some n =>
          match rn f n s1 with
          | NFuel => DFuel
          | NEof s2 => DErr EEofInChunk s2
          | NData d s2 =>
              let '(c, s3) := sread 2 s2 in
              if bytes_eqb c crlf then
                if n =? 0 then DOk d s3
                else match dechunk_gen hmax rn f s3 with
                     | DOk b s4 => DOk (d ++ b) s4
                     | r => r
                     end
              else DErr ECrLf s3
          end
      end
  end.
Proof. reflexivity. Qed.

Lemma read_n_S f n s :
  read_n (S f) n s =
  if n =? 0 then NData [] s
  else let '(c, s') := sread n s in
       match c with
       | [] => NEof s'
       | _ => match read_n f (n - lenN c) s' with
              | NData d s'' => NData (c ++ d) s''
              | r => r
              end
       end.
Proof. reflexivity. Qed.

(* ---------------------------------------------------------------- decoder completeness *)
Lemma dechunk_complete hmax : forall w b, chunked (hmax - 2) w b ->
  forall rest fuel, (2 <= hmax)%nat -> (length w < fuel)%nat ->
  dechunk hmax fuel (uncapped (w ++ rest)) = DOk b (uncapped rest).
Proof.
  induction 1 as [h Hh Hl | h d w b Hh Hd Hl Hw IH]; intros rest fuel Hm Hf.
  - destruct fuel as [|f]; [lia|].
    unfold dechunk. rewrite dechunk_gen_S. rewrite <- !app_assoc.
    destruct (from_hex_hex _ _ Hh) as [Hhex _].
    rewrite read_until_line by (auto using hex_no_lf; lia). cbn [rev app].
    rewrite (parse_size_hex _ _ Hh).
    rewrite !app_length in Hf. simpl length in Hf.
    destruct f as [|f]; [lia|]. rewrite read_n_S. rewrite N.eqb_refl.
    change 2 with (lenN crlf).
    rewrite sread_uncapped_app. reflexivity.
  - destruct fuel as [|f]; [lia|].
    unfold dechunk. rewrite dechunk_gen_S. rewrite <- !app_assoc.
    destruct (from_hex_hex _ _ Hh) as [Hhex _].
    rewrite read_until_line by (auto using hex_no_lf; lia). cbn [rev app].
    rewrite (parse_size_hex _ _ Hh).
    rewrite !app_length in Hf. simpl length in Hf.
    rewrite read_n_uncapped_exact by lia.
    change 2 with (lenN crlf).
    rewrite sread_uncapped_app. rewrite bytes_eqb_refl.
    destruct (lenN d =? 0) eqn:E.
    { destruct d; [congruence|]. rewrite lenN_cons in E. lia. }
    fold (dechunk hmax f (uncapped (w ++ rest))).
    rewrite IH by (auto; lia). reflexivity.
Qed.

Theorem dechunk_mk_chunks hmax n body rest :
  (3 <= hmax)%nat -> 1 <= n -> N.min n (lenN body) < 16 ^ N.of_nat (hmax - 2) ->
  let s := uncapped (mk_chunks n body ++ rest) in
  dechunk hmax (fuel_for s) s = DOk body (uncapped rest).
Proof.
  intros Hm Hn Hb s. unfold s, fuel_for. simpl sdata.
  apply dechunk_complete; [|lia|rewrite app_length; lia].
  apply mk_chunks_chunked; auto. lia.
Qed.

(* ---------------------------------------------------------------- decoder soundness (no over-read) *)
Lemma dechunk_sound hmax : forall fuel s b s',
  dechunk hmax fuel s = DOk b s' ->
  exists w, sdata s = w ++ sdata s' /\ chunked_any w b.
Proof.
  induction fuel as [|f IH]; intros s b s' H; [discriminate|].
  unfold dechunk in H. rewrite dechunk_gen_S in H.
  destruct (read_until hmax [] s) as [[h|] s1] eqn:Eu; [|discriminate].
  destruct (read_until_sound _ _ _ _ _ Eu) as [cons [Hc1 Hc2]]. simpl in Hc2. subst cons.
  destruct (parse_size h) as [n|] eqn:Ep; [|discriminate].
  destruct (read_n f n s1) as [d s2|s2|] eqn:Er; try discriminate.
  destruct (read_n_sound _ _ _ _ _ Er) as [Hd1 Hd2].
  destruct (sread 2 s2) as [c s3] eqn:Es.
  destruct (sread_split _ _ _ _ Es) as [Hs1 _].
  destruct (bytes_eqb c crlf) eqn:Ec; [|discriminate].
  apply bytes_eqb_eq in Ec. subst c.
  destruct (n =? 0) eqn:En.
  - injection H as Hb Hs'. subst b s'.
    assert (Dn : d = []). { destruct d; [reflexivity|]. rewrite lenN_cons in Hd2. lia. }
    subst d.
    exists (h ++ crlf ++ crlf). split.
    + rewrite Hc1, Hd1, Hs1. simpl. now rewrite <- !app_assoc.
    + apply ca_last. rewrite Ep. f_equal. lia.
  - fold (dechunk hmax f s3) in H.
    destruct (dechunk hmax f s3) as [b1 s4| |] eqn:Ed; try discriminate.
    injection H as Hb Hs'. subst b s'.
    destruct (IH _ _ _ Ed) as [w [Hw1 Hw2]].
    exists (h ++ crlf ++ d ++ crlf ++ w). split.
    + rewrite Hc1, Hd1, Hs1, Hw1. now rewrite <- !app_assoc.
    + apply ca_cons; auto.
      * rewrite Ep. f_equal. lia.
      * intros ->. rewrite lenN_nil in Hd2. lia.
Qed.

(* ---------------------------------------------------------------- termination *)
Lemma read_until_shrinks : forall k rbuf s r s1,
  read_until k rbuf s = (r, s1) -> (length (sdata s1) <= length (sdata s))%nat.
Proof.
  induction k as [|k IH]; intros rbuf s r s1 H; simpl in H.
  - inversion H; subst. lia.
  - destruct (sread 1 s) as [c s'] eqn:Es.
    destruct (sread_split _ _ _ _ Es) as [Hd _].
    assert (L : (length (sdata s') <= length (sdata s))%nat) by (rewrite Hd, app_length; lia).
    destruct c as [|b c]; [inversion H; subst; lia|].
    destruct rbuf as [|p rest]; [apply IH in H; lia|].
    destruct ((b =? 10) && (p =? 13)); [inversion H; subst; lia | apply IH in H; lia].
Qed.

Lemma read_until_some_shrinks : forall k rbuf s h s1,
  read_until k rbuf s = (Some h, s1) -> (length (sdata s1) < length (sdata s))%nat.
Proof.
  destruct k as [|k]; intros rbuf s h s1 H; simpl in H; [discriminate|].
  destruct (sread 1 s) as [c s'] eqn:Es.
  destruct (sread_split _ _ _ _ Es) as [Hd _].
  destruct c as [|b c]; [discriminate|].
  assert (L : (length (sdata s') < length (sdata s))%nat) by (rewrite Hd, app_length; simpl; lia).
  destruct rbuf as [|p rest]; [apply read_until_shrinks in H; lia|].
  destruct ((b =? 10) && (p =? 13)); [inversion H; subst; lia | apply read_until_shrinks in H; lia].
Qed.

Lemma dechunk_terminates hmax : forall fuel s,
  (length (sdata s) < fuel)%nat -> dechunk hmax fuel s <> DFuel.
Proof.
  induction fuel as [|f IH]; intros s H; [lia|].
  unfold dechunk. rewrite dechunk_gen_S.
  destruct (read_until hmax [] s) as [[h|] s1] eqn:Eu; [|discriminate].
  apply read_until_some_shrinks in Eu.
  destruct (parse_size h) as [n|]; [|discriminate].
  pose proof (read_n_terminates f n s1 ltac:(lia)) as Hn.
  destruct (read_n f n s1) as [d s2|s2|] eqn:Er; try congruence; try discriminate.
  apply read_n_sound in Er. destruct Er as [Hd _].
  destruct (sread 2 s2) as [c s3] eqn:Es.
  destruct (sread_split _ _ _ _ Es) as [Hs _].
  destruct (bytes_eqb c crlf); [|discriminate].
  destruct (n =? 0); [discriminate|].
  fold (dechunk hmax f s3).
  assert (Hlt : (length (sdata s3) < f)%nat).
  { rewrite Hd, app_length, Hs, app_length in Eu. lia. }
  specialize (IH s3 Hlt). destruct (dechunk hmax f s3); congruence.
Qed.

Lemma read_n_found_S f n s :
  read_n_found (S f) n s =
  if n =? 0 then NData [] s
  else let '(c, s') := sread n s in
       match read_n_found f (n - lenN c) s' with
       | NData d s'' => NData (c ++ d) s''
       | r => r
       end.
Proof. reflexivity. Qed.

Lemma dechunk_found_spins hmax : (3 <= hmax)%nat ->
  forall fuel, dechunk_found hmax fuel (uncapped [53; 13; 10; 97; 98; 99]) = DFuel.
Proof.
  intros Hm fuel. destruct fuel as [|f]; [reflexivity|].
  unfold dechunk_found. rewrite dechunk_gen_S.
  change [53; 13; 10; 97; 98; 99] with ([53] ++ crlf ++ [97; 98; 99]).
  rewrite read_until_line; [|repeat constructor; discriminate|simpl; lia].
  change (parse_size (rev [] ++ [53])) with (Some 5).
  destruct f as [|f]; [reflexivity|].
  rewrite read_n_found_S. change (5 =? 0) with false. cbv iota.
  rewrite sread_uncapped. change (takeN 5 [97; 98; 99]) with [97; 98; 99].
  change (dropN 5 [97; 98; 99]) with (@nil N). unfold uncapped.
  rewrite read_n_found_spins by (vm_compute; reflexivity). reflexivity.
Qed.

(* ---------------------------------------------------------------- read_request_body *)
Lemma request_terminates hmax avail h s :
  read_request_body hmax avail (fuel_for s) h s <> RFuel.
Proof.
  unfold read_request_body, fuel_for, decode_step.
  destruct (h_chunked h).
  - pose proof (dechunk_terminates hmax (length (sdata s) + 2) s ltac:(lia)) as T.
    destruct (dechunk hmax (length (sdata s) + 2) s); try congruence; try discriminate.
    destruct (h_ce h); [destruct (mem_bytes _ _)|]; discriminate.
  - destruct (h_cl h); try discriminate.
    + destruct (h_ce h); [destruct (mem_bytes _ _)|]; discriminate.
    + destruct (sread n s). destruct (h_ce h); [destruct (mem_bytes _ _)|]; discriminate.
Qed.

Definition consumed_ok (h : req_headers) (consumed : bytes) (b : option bytes) : Prop :=
  if h_chunked h then exists body, b = Some body /\ chunked_any consumed body
  else match h_cl h with
       | CLNum n => b = Some consumed /\ lenN consumed <= n
       | _ => b = None /\ consumed = []
       end.

Lemma request_no_overread hmax avail fuel h s :
  forall b s', (read_request_body hmax avail fuel h s = RBody b s' \/
                exists enc, read_request_body hmax avail fuel h s = RDecode enc b s') ->
  exists consumed, sdata s = consumed ++ sdata s' /\ consumed_ok h consumed b.
Proof.
  intros b s' H. unfold read_request_body, decode_step, consumed_ok in *.
  destruct (h_chunked h).
  - destruct (dechunk hmax fuel s) as [b1 s1| |] eqn:Ed.
    + destruct (dechunk_sound _ _ _ _ _ Ed) as [w [Hw1 Hw2]].
      assert (b = Some b1 /\ s' = s1) as [-> ->].
      { destruct H as [H|[enc H]]; destruct (h_ce h); try destruct (mem_bytes _ _); inversion H; auto. }
      exists w. split; [assumption|]. exists b1. auto.
    + destruct H as [H|[enc H]]; discriminate.
    + destruct H as [H|[enc H]]; discriminate.
  - destruct (h_cl h) as [|n| |].
    + exists []. assert (b = None /\ s' = s) as [-> ->].
      { destruct H as [H|[enc H]]; destruct (h_ce h); try destruct (mem_bytes _ _); inversion H; auto. }
      auto.
    + destruct (sread n s) as [c s1] eqn:Es. destruct (sread_split _ _ _ _ Es) as [Hd Hl].
      assert (b = Some c /\ s' = s1) as [-> ->].
      { destruct H as [H|[enc H]]; destruct (h_ce h); try destruct (mem_bytes _ _); inversion H; auto. }
      exists c. auto.
    + destruct H as [H|[enc H]]; discriminate.
    + destruct H as [H|[enc H]]; discriminate.
Qed.

Lemma mem_bytes_In x l : mem_bytes x l = true <-> In x l.
Proof.
  induction l as [|y l IH]; simpl; [split; [discriminate|tauto]|].
  rewrite orb_true_iff, IH. split; intros [H|H]; auto.
  - left. symmetry. now apply bytes_eqb_eq.
  - left. subst. apply bytes_eqb_refl.
Qed.

(* an unsupported content coding is never handed on, whatever the framing *)
Lemma unsupported_rejected hmax avail fuel h s enc :
  h_ce h = Some enc -> ~ In enc avail ->
  match read_request_body hmax avail fuel h s with
  | RBody _ _ | RDecode _ _ _ => False
  | _ => True
  end.
Proof.
  intros He Hn. assert (M : mem_bytes enc avail = false).
  { destruct (mem_bytes enc avail) eqn:E; [apply mem_bytes_In in E; contradiction|reflexivity]. }
  unfold read_request_body, decode_step. rewrite He, M.
  destruct (h_chunked h).
  - destruct (dechunk hmax fuel s); exact I.
  - destruct (h_cl h) as [|n| |]; try exact I; try (destruct (sread n s); exact I).
Qed.

Lemma unsupported_rejected_response avail h s enc :
  h_ce h = Some enc -> ~ In enc avail ->
  match read_response_body avail h s with
  | RBody _ _ | RDecode _ _ _ => False
  | _ => True
  end.
Proof.
  intros He Hn. assert (M : mem_bytes enc avail = false).
  { destruct (mem_bytes enc avail) eqn:E; [apply mem_bytes_In in E; contradiction|reflexivity]. }
  unfold read_response_body, decode_step. rewrite He, M.
  destruct (h_cl h) as [|n| |]; try exact I; try (destruct (sread n s); exact I).
Qed.

(* a coding is only ever decoded with the decoder named in the header, and only if available *)
Lemma decode_only_available hmax avail fuel h s enc b s' :
  read_request_body hmax avail fuel h s = RDecode enc b s' -> h_ce h = Some enc /\ In enc avail.
Proof.
  unfold read_request_body, decode_step. intros H.
  assert (G : forall b0 s0, match h_ce h with
                            | Some enc0 => if mem_bytes enc0 avail then RDecode enc0 b0 s0 else RErr EUnsupported s0
                            | None => RBody b0 s0 end = RDecode enc b s' -> h_ce h = Some enc /\ In enc avail).
  { intros b0 s0 E. destruct (h_ce h) as [e|]; [|discriminate].
    destruct (mem_bytes e avail) eqn:M; [|discriminate]. inversion E; subst. split; [reflexivity|]. now apply mem_bytes_In. }
  destruct (h_chunked h).
  - destruct (dechunk hmax fuel s); try discriminate. eauto.
  - destruct (h_cl h) as [|n| |]; try discriminate; eauto. destruct (sread n s). eauto.
Qed.

Transparent sread.
