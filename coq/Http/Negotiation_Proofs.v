(* Proofs about Http.Negotiation: the chosen coding was offered with q > 0, is enabled locally,
   and no enabled coding was offered with a higher quality. *)
From Coq Require Import List NArith ZArith Bool Lia ZifyBool Sorting.Sorted.
From SDC Require Import Http.Chunk Http.Chunk_Proofs Http.Negotiation.
Import ListNotations.
Open Scope N_scope.

(* ---------------------------------------------------------------- sort_desc *)
Lemma insert_desc_In x y l : In y (insert_desc x l) <-> x = y \/ In y l.
Proof.
  induction l as [|z l IH]; simpl; [tauto|].
  destruct (zkey (snd z) <? zkey (snd x))%Z; simpl; [tauto|]. rewrite IH. tauto.
Qed.

Lemma fold_insert_In y : forall l acc,
  In y (fold_left (fun acc x => insert_desc x acc) l acc) <-> In y l \/ In y acc.
Proof.
  induction l as [|x l IH]; intros acc; simpl; [tauto|].
  rewrite IH, insert_desc_In. split; intros H; intuition (subst; auto).
Qed.

Lemma sort_desc_In y l : In y (sort_desc l) <-> In y l.
Proof. unfold sort_desc. rewrite fold_insert_In. simpl. tauto. Qed.

Definition ge_item (a b : item) : Prop := (zkey (snd b) <= zkey (snd a))%Z.

Lemma insert_desc_sorted x l : StronglySorted ge_item l -> StronglySorted ge_item (insert_desc x l).
Proof.
  induction 1 as [|z l Hs IH Hf]; simpl; [repeat constructor|].
  destruct (zkey (snd z) <? zkey (snd x))%Z eqn:E.
  - constructor; [constructor; assumption|].
    constructor; [unfold ge_item; lia|].
    rewrite Forall_forall in *. intros w Hw. specialize (Hf w Hw). unfold ge_item in *. lia.
  - constructor; [assumption|].
    rewrite Forall_forall in *. intros w Hw. apply insert_desc_In in Hw as [<-|Hw].
    + unfold ge_item. lia.
    + auto.
Qed.

Lemma fold_insert_sorted : forall l acc,
  StronglySorted ge_item acc -> StronglySorted ge_item (fold_left (fun acc x => insert_desc x acc) l acc).
Proof. induction l as [|x l IH]; intros acc H; simpl; [assumption|]. apply IH, insert_desc_sorted, H. Qed.

Lemma sort_desc_sorted l : StronglySorted ge_item (sort_desc l).
Proof. apply fold_insert_sorted. constructor. Qed.

(* ---------------------------------------------------------------- choose *)
Lemma choose_sound accepted enabled c :
  choose accepted enabled = Some c -> In c accepted /\ In c enabled.
Proof.
  unfold choose. intros H. apply find_some in H as [H1 H2]. split; [assumption|].
  now apply mem_bytes_In.
Qed.

Lemma choose_none accepted enabled :
  choose accepted enabled = None -> forall c, In c accepted -> ~ In c enabled.
Proof.
  unfold choose. intros H c Hc He. apply (find_none _ _ H) in Hc.
  apply mem_bytes_In in He. congruence.
Qed.

Lemma choose_best : forall sorted enabled c,
  StronglySorted ge_item sorted ->
  choose (map fst sorted) enabled = Some c ->
  exists q, In (c, q) sorted /\
            forall c' q', In (c', q') sorted -> In c' enabled -> (zkey q' <= zkey q)%Z.
Proof.
  induction sorted as [|[k v] r IH]; intros enabled c Hs H; [discriminate|].
  inversion Hs as [|? ? Hs' Hf]; subst. unfold choose in H. simpl in H.
  destruct (mem_bytes k enabled) eqn:M.
  - inversion H; subst. exists v. split; [left; reflexivity|].
    intros c' q' [E|Hin] _.
    + inversion E; subst. lia.
    + rewrite Forall_forall in Hf. specialize (Hf _ Hin). unfold ge_item in Hf. simpl in Hf. exact Hf.
  - destruct (IH enabled c Hs' H) as [q [Hq1 Hq2]]. exists q. split; [right; assumption|].
    intros c' q' [E|Hin] He.
    + inversion E; subst. apply mem_bytes_In in He. congruence.
    + eauto.
Qed.

(* ---------------------------------------------------------------- the accepted list *)
Lemma accepted_of_In c items :
  In c (accepted_of items) <-> exists q, In (c, q) items /\ qpos q = true.
Proof.
  unfold accepted_of. rewrite in_map_iff. split.
  - intros [[k q] [E H]]. simpl in E. subst k. apply sort_desc_In, filter_In in H as [H1 H2].
    exists q. auto.
  - intros [q [H1 H2]]. exists (c, q). split; [reflexivity|].
    apply sort_desc_In, filter_In. auto.
Qed.

Theorem server_choice_sound header enabled items c :
  parse_items header = Some items ->
  server_choice header enabled = Some (Some c) ->
  In c enabled /\
  exists q, In (c, q) items /\ qpos q = true /\
            forall c' q', In (c', q') items -> qpos q' = true -> In c' enabled -> (zkey q' <= zkey q)%Z.
Proof.
  intros Hi H. unfold server_choice, parse_header in H. rewrite Hi in H. simpl in H.
  inversion H as [H']; clear H. unfold accepted_of in H'.
  destruct (choose_sound _ _ _ H') as [_ He]. split; [assumption|].
  destruct (choose_best _ _ _ (sort_desc_sorted _) H') as [q [Hq1 Hq2]].
  apply sort_desc_In, filter_In in Hq1 as [Hq1 Hq1']. simpl in Hq1'.
  exists q. split; [assumption|]. split; [assumption|].
  intros c' q' Hin Hp He'. apply (Hq2 c' q'); [|assumption].
  apply sort_desc_In, filter_In. auto.
Qed.

(* nothing acceptable and enabled => no coding (identity) *)
Theorem server_choice_none header enabled items :
  parse_items header = Some items ->
  server_choice header enabled = Some None ->
  forall c q, In (c, q) items -> qpos q = true -> ~ In c enabled.
Proof.
  intros Hi H c q Hin Hp. unfold server_choice, parse_header in H. rewrite Hi in H. simpl in H.
  inversion H as [H']. apply (choose_none _ _ H'). apply accepted_of_In. eauto.
Qed.

(* client side: the request coding is one the peer offered (q > 0 when the list came from
   parse_header) and that is supported locally *)
Theorem client_choice_sound header items supported c :
  parse_items header = Some items ->
  client_choice (accepted_of items) supported = Some c ->
  In c supported /\ exists q, In (c, q) items /\ qpos q = true.
Proof.
  intros _ H. apply choose_sound in H as [H1 H2]. split; [assumption|]. now apply accepted_of_In.
Qed.

(* ---------------------------------------------------------------- keys of the dict are unique *)
Lemma od_set_keys k v : forall l,
  map fst (od_set k v l) = if mem_bytes k (map fst l) then map fst l else map fst l ++ [k].
Proof.
  induction l as [|[k' v'] l IH]; simpl; [reflexivity|].
  destruct (bytes_eqb k k') eqn:E; simpl.
  - apply bytes_eqb_eq in E. subst. reflexivity.
  - rewrite IH. destruct (mem_bytes k (map fst l)); reflexivity.
Qed.

Lemma NoDup_snoc {A} (k : A) : forall l, NoDup l -> ~ In k l -> NoDup (l ++ [k]).
Proof.
  induction l as [|x l IH]; intros H Hn; simpl; [repeat constructor; auto|].
  inversion H; subst. constructor.
  - rewrite in_app_iff. simpl. intros [Hx|[Hx|[]]]; [contradiction|]. subst. apply Hn. left. reflexivity.
  - apply IH; [assumption|]. intros Hk. apply Hn. right. assumption.
Qed.

Lemma od_set_NoDup k v l : NoDup (map fst l) -> NoDup (map fst (od_set k v l)).
Proof.
  intros H. rewrite od_set_keys. destruct (mem_bytes k (map fst l)) eqn:M; [assumption|].
  apply NoDup_snoc; [assumption|].
  intros Hin. apply mem_bytes_In in Hin. congruence.
Qed.

Lemma parse_element_NoDup d x d' :
  NoDup (map fst d) -> parse_element d x = Some d' -> NoDup (map fst d').
Proof.
  unfold parse_element. intros H E.
  set (name := ustrip (hd [] (split 59 x))) in *.
  pose proof (od_set_NoDup name q_one d H) as H1.
  destruct (nth_opt (split 59 x) 1) as [p|]; [|inversion E; subst; assumption].
  destruct (nth_opt (split 61 p) 1) as [v|]; [|inversion E; subst; assumption].
  destruct (parse_q v) eqn:Q; inversion E; subst; auto using od_set_NoDup.
Qed.

Lemma parse_elements_NoDup : forall xs d d',
  NoDup (map fst d) -> parse_elements d xs = Some d' -> NoDup (map fst d').
Proof.
  induction xs as [|x xs IH]; intros d d' H E; simpl in E; [inversion E; subst; assumption|].
  destruct (parse_element d x) as [d1|] eqn:E1; [|discriminate].
  eapply IH; [|exact E]. eapply parse_element_NoDup; eauto.
Qed.

(* every coding name has exactly one effective quality value *)
Theorem parse_items_NoDup header items : parse_items header = Some items -> NoDup (map fst items).
Proof.
  unfold parse_items. destruct header as [[|c h]|]; intros E; try (inversion E; subst; constructor).
  eapply parse_elements_NoDup; [|exact E]. constructor.
Qed.

(* ---------------------------------------------------------------- keep-alive connections *)
Lemma conn_choices_nth enabled hs i :
  nth_error (conn_choices enabled hs) i = option_map (fun h => server_choice h enabled) (nth_error hs i).
Proof. unfold conn_choices. apply nth_error_map. Qed.

(* whatever was requested before and after on the same connection *)
Lemma conn_choices_independent enabled before h after :
  nth_error (conn_choices enabled (before ++ h :: after)) (length before) = Some (server_choice h enabled).
Proof.
  rewrite conn_choices_nth, nth_error_app2 by apply le_n. rewrite PeanoNat.Nat.sub_diag. reflexivity.
Qed.

Lemma conn_choices_cached_refuted :
  exists enabled h1 h2 c items q,
    nth_error (conn_choices_cached enabled [h1; h2]) 1 = Some (Some (Some c)) /\
    parse_items h2 = Some items /\ In (c, q) items /\ qpos q = false.
Proof.
  exists [[103; 122; 105; 112]], (Some [103; 122; 105; 112]), (Some [103; 122; 105; 112; 59; 113; 61; 48]),
         [103; 122; 105; 112], [([103; 122; 105; 112], QVal false 0)], (QVal false 0).
  vm_compute. repeat split; auto.
Qed.
