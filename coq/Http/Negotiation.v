(* Executable model of content-coding negotiation:
     CompressionHandler.parse_header                      (httpserver/compression.py)
     DispatchingRequestHandler._compress_if_supported     (httpserver/httprequesthandler.py)
     SoapClient._send_soap_request, coding choice         (pysoap/soapclient.py, soapclient_async.py)
   Definitions only (proofs: Negotiation_Proofs.v).

   A header is a Python str given as the list of its code points (0..255: http.server decodes
   header bytes as iso-8859-1).  Quality values are decimal numbers; the model keeps them exactly,
   in units of 10^-15 ([qkey]), and answers [None] ("not modelled") for the few strings that
   Python's float() accepts outside the grammar  [sign] digits [. digits] | [sign] . digits  with
   at most 15 digits (exponents, '_', inf, nan): the harness does not compare those cases. *)
From Coq Require Import List NArith ZArith Bool.
From SDC Require Import Http.Chunk.
Import ListNotations.
Open Scope N_scope.

(* ---------------------------------------------------------------- str.split / str.strip *)
Fixpoint split_aux (sep : N) (l cur : bytes) : list bytes :=
  match l with
  | [] => [rev cur]
  | c :: r => if c =? sep then rev cur :: split_aux sep r [] else split_aux sep r (c :: cur)
  end.

Definition split (sep : N) (l : bytes) : list bytes := split_aux sep l [].

(* str.isspace() for code points below 256 *)
Definition is_uws (c : N) : bool :=
  ((9 <=? c) && (c <=? 13)) || ((28 <=? c) && (c <=? 32)) || (c =? 133) || (c =? 160).

Fixpoint drop_uws (l : bytes) : bytes :=
  match l with
  | [] => []
  | c :: r => if is_uws c then drop_uws r else l
  end.

Definition ustrip (l : bytes) : bytes := rev (drop_uws (rev (drop_uws l))).

(* ---------------------------------------------------------------- float(): quality values *)
Inductive qval :=
| QVal (neg : bool) (key : N)   (* (-1)^neg * key * 10^-15 *)
| QBad                          (* float() raises ValueError: the default 1 stays *)
| QUnmodelled.

Definition is_digit (c : N) : bool := (48 <=? c) && (c <=? 57).

(* digits of the integer part: returns (value, number of digits, rest) *)
Fixpoint digits (l : bytes) (acc : N) (cnt : nat) : N * nat * bytes :=
  match l with
  | c :: r => if is_digit c then digits r (acc * 10 + (c - 48)) (S cnt) else (acc, cnt, l)
  | [] => (acc, cnt, [])
  end.

Definition q_scale : nat := 15.

(* letters of inf / infinity / nan, exponent marker, underscore *)
Definition is_floatish_letter (c : N) : bool :=
  let u := if (97 <=? c) && (c <=? 122) then c - 32 else c in
  (u =? 69) || (u =? 73) || (u =? 78) || (u =? 70) || (u =? 65) || (u =? 84) || (u =? 89) || (c =? 95).

Definition is_plain_float_char (c : N) : bool := is_digit c || (c =? 43) || (c =? 45) || (c =? 46).

Definition parse_q (t : bytes) : qval :=
  let s := ustrip t in
  let '(neg, body) := match s with
                      | 45 :: r => (true, r)
                      | 43 :: r => (false, r)
                      | _ => (false, s)
                      end in
  let '(ip, ni, rest) := digits body 0 O in
  let '(fp, nf, rest') := match rest with
                          | 46 :: r => digits r 0 O
                          | _ => (0, O, rest)
                          end in
  let has_dot := match rest with 46 :: _ => true | _ => false end in
  let in_grammar := match rest' with [] => negb (Nat.eqb (ni + nf) 0) | _ => false end in
  if in_grammar then
    if Nat.leb (ni + nf) q_scale
    then QVal neg ((ip * 10 ^ N.of_nat nf + fp) * 10 ^ N.of_nat (q_scale - nf))
    else QUnmodelled
  else if forallb is_plain_float_char s then QBad
  else if forallb (fun c => is_plain_float_char c || is_floatish_letter c) s then QUnmodelled
  else QBad.

Definition q_one : qval := QVal false (10 ^ N.of_nat q_scale).

Definition qpos (q : qval) : bool :=
  match q with QVal false k => 0 <? k | _ => false end.

Definition zkey (q : qval) : Z :=
  match q with
  | QVal true k => (- Z.of_N k)%Z
  | QVal false k => Z.of_N k
  | _ => 0%Z
  end.

Definition q_is_unmodelled (q : qval) : bool := match q with QUnmodelled => true | _ => false end.

(* ---------------------------------------------------------------- OrderedDict *)
Definition item := (bytes * qval)%type.

Fixpoint od_set (k : bytes) (v : qval) (l : list item) : list item :=
  match l with
  | [] => [(k, v)]
  | (k', v') :: r => if bytes_eqb k k' then (k, v) :: r else (k', v') :: od_set k v r
  end.

Definition nth_opt {A} (l : list A) (n : nat) : option A := nth_error l n.

(* one element of header.split(","): returns the new dict, None when the q string is not modelled *)
Definition parse_element (d : list item) (x : bytes) : option (list item) :=
  let alg := split 59 x in
  let name := ustrip (hd [] alg) in
  let d1 := od_set name q_one d in
  match nth_opt alg 1 with
  | None => Some d1                                     (* IndexError: alg[1] *)
  | Some p =>
      match nth_opt (split 61 p) 1 with
      | None => Some d1                                 (* IndexError: split("=")[1] *)
      | Some v =>
          match parse_q v with
          | QBad => Some d1                             (* ValueError *)
          | QUnmodelled => None
          | q => Some (od_set name q d1)
          end
      end
  end.

Fixpoint parse_elements (d : list item) (xs : list bytes) : option (list item) :=
  match xs with
  | [] => Some d
  | x :: r => match parse_element d x with
              | None => None
              | Some d' => parse_elements d' r
              end
  end.

(* the OrderedDict after the loop; [None] header and '' are falsy *)
Definition parse_items (header : option bytes) : option (list item) :=
  match header with
  | None | Some [] => Some []
  | Some h => parse_elements [] (split 44 h)
  end.

(* sorted(..., key=q, reverse=True): stable, descending *)
Fixpoint insert_desc (x : item) (l : list item) : list item :=
  match l with
  | [] => [x]
  | y :: r => if (zkey (snd y) <? zkey (snd x))%Z then x :: l else y :: insert_desc x r
  end.

Definition sort_desc (l : list item) : list item := fold_left (fun acc x => insert_desc x acc) l [].

(* repaired: entries whose quality is not > 0 are dropped, then sorted *)
Definition accepted_of (items : list item) : list bytes :=
  map fst (sort_desc (filter (fun it => qpos (snd it)) items)).

(* as found in the pinned source: no filter *)
Definition accepted_of_found (items : list item) : list bytes := map fst (sort_desc items).

Definition parse_header (header : option bytes) : option (list bytes) :=
  option_map accepted_of (parse_items header).

Definition parse_header_found (header : option bytes) : option (list bytes) :=
  option_map accepted_of_found (parse_items header).

(* for enc in accepted: if enc in enabled: ... break *)
Definition choose (accepted enabled : list bytes) : option bytes :=
  find (fun c => mem_bytes c enabled) accepted.

(* server: _compress_if_supported(headers.get('accept-encoding')), enabled = server.supported_encodings *)
Definition server_choice (header : option bytes) (enabled : list bytes) : option (option bytes) :=
  option_map (fun acc => choose acc enabled) (parse_header header).

Definition server_choice_found (header : option bytes) (enabled : list bytes) : option (option bytes) :=
  option_map (fun acc => choose acc enabled) (parse_header_found header).

(* client: request_encodings = what the peer accepts (parse_header of its Accept-Encoding at
   Subscribe time), supported = locally enabled codings *)
Definition client_choice (request_encodings supported : list bytes) : option bytes :=
  choose request_encodings supported.

(* ---------------------------------------------------------------- correspondence helpers *)
Definition bl_eqb (a b : list bytes) : bool :=
  (fix go (a b : list bytes) : bool :=
     match a, b with
     | [], [] => true
     | x :: a', y :: b' => bytes_eqb x y && go a' b'
     | _, _ => false
     end) a b.

(* expected literal: Some list, or None when the model declines (then any implementation answer
   is accepted by [hdr_eqb] and the harness counts the case as not compared) *)
Definition hdr_eqb (model impl : option (list bytes)) : bool :=
  match model, impl with
  | None, _ => true
  | Some a, Some b => bl_eqb a b
  | Some _, None => false
  end.

Definition choice_eqb (model impl : option (option bytes)) : bool :=
  match model, impl with
  | None, _ => true
  | Some a, Some b => obytes_eqb a b
  | Some _, None => false
  end.

Definition run_parse_header (h : option bytes) : option (list bytes) := parse_header h.
Definition run_server_choice (c : option bytes * list bytes) : option (option bytes) :=
  server_choice (fst c) (snd c).
Definition run_client_choice (c : list bytes * list bytes) : option bytes := client_choice (fst c) (snd c).
Definition is_modelled (h : option bytes) : bool :=
  match parse_items h with Some _ => true | None => false end.

(* ---------------------------------------------------------------- keep-alive connections *)
(* One DispatchingRequestHandler instance serves every request of a connection.  The coding of a
   response is negotiated from the Accept-Encoding header of ITS request: no state is carried from one
   request to the next. *)
Definition conn_choices (enabled : list bytes) (hs : list (option bytes)) : list (option (option bytes)) :=
  map (fun h => server_choice h enabled) hs.

(* the variant that evaluates the header once per handler instance (= per connection) and re-uses
   the result; kept only for the refutation theorem *)
Definition conn_choices_cached (enabled : list bytes) (hs : list (option bytes)) : list (option (option bytes)) :=
  match hs with
  | [] => []
  | h :: _ => map (fun _ => server_choice h enabled) hs
  end.

(* all negotiation cases of one run in one evaluation *)
Inductive ncase :=
| NParse (h : option bytes)
| NModelled (h : option bytes)
| NServer (h : option bytes) (enabled : list bytes)
| NClient (request_encodings supported : list bytes).

Inductive nres :=
| NList (o : option (list bytes))
| NBool (b : bool)
| NChoice (o : option (option bytes))
| NCoding (o : option bytes).

Definition run_neg (c : ncase) : nres :=
  match c with
  | NParse h => NList (parse_header h)
  | NModelled h => NBool (is_modelled h)
  | NServer h en => NChoice (server_choice h en)
  | NClient re sup => NCoding (client_choice re sup)
  end.

Definition nres_eqb (model impl : nres) : bool :=
  match model, impl with
  | NList a, NList b => hdr_eqb a b
  | NBool a, NBool b => Bool.eqb a b
  | NChoice a, NChoice b => choice_eqb a b
  | NCoding a, NCoding b => obytes_eqb a b
  | _, _ => false
  end.
