(* Executable model of src/sdc11073/httpserver/httpreader.py: mk_chunks, HTTPReader._read_until,
   _read_dechunk, read_request_body, read_response_body.  Definitions only (proofs: Chunk_Proofs.v).

   Bytes are [list N] (values 0..255).  A [stream] is what the code calls [stream] / [rfile]: a
   readable object whose [read n] returns at most [n] bytes and [] only at end of data.  The list
   [scaps] makes short reads explicit: the i-th call of [read n] returns at most [max 1 cap_i]
   bytes (no caps left: as many as requested, the behaviour of the BufferedReader used as rfile).

   Every [read] of a loop of the code costs one unit of [fuel] in the corresponding Fixpoint, so
   that "the loop terminates" is a theorem ([OutOfFuel] is unreachable with enough fuel) instead
   of being built into the definition.  [read_n_found] / [dechunk_found] keep the data loop as it
   is in the pinned source (no end-of-data test), only to state the refutation witness. *)
From Coq Require Import List NArith Bool.
Import ListNotations.
Open Scope N_scope.

Definition bytes := list N.
Definition lenN {A} (l : list A) : N := N.of_nat (length l).

Definition crlf : bytes := [13; 10].

(* ---------------------------------------------------------------- list helpers over N counts *)
Fixpoint takeN {A} (n : N) (l : list A) : list A :=
  match l with
  | [] => []
  | x :: r => if n =? 0 then [] else x :: takeN (N.pred n) r
  end.

Fixpoint dropN {A} (n : N) (l : list A) : list A :=
  match l with
  | [] => []
  | x :: r => if n =? 0 then l else dropN (N.pred n) r
  end.

Definition bytes_eqb (a b : bytes) : bool :=
  (fix go (a b : bytes) : bool :=
     match a, b with
     | [], [] => true
     | x :: a', y :: b' => (x =? y) && go a' b'
     | _, _ => false
     end) a b.

Fixpoint mem_bytes (x : bytes) (l : list bytes) : bool :=
  match l with
  | [] => false
  | y :: r => bytes_eqb x y || mem_bytes x r
  end.

(* ---------------------------------------------------------------- hexadecimal chunk sizes *)
(* f'{n:x}' : lower-case, no prefix, no leading zeros *)
Definition hex_digit (d : N) : N := if d <? 10 then 48 + d else 87 + d.

Fixpoint to_hex_aux (fuel : nat) (n : N) (acc : bytes) : bytes :=
  match fuel with
  | O => acc
  | S f =>
      let acc' := hex_digit (n mod 16) :: acc in
      if n <? 16 then acc' else to_hex_aux f (n / 16) acc'
  end.

Definition to_hex (n : N) : bytes := to_hex_aux (S (N.to_nat (N.log2 n))) n [].

(* value of one HEXDIG (both cases), None for any other byte *)
Definition hex_value (c : N) : option N :=
  if (48 <=? c) && (c <=? 57) then Some (c - 48)
  else if (97 <=? c) && (c <=? 102) then Some (c - 87)
  else if (65 <=? c) && (c <=? 70) then Some (c - 55)
  else None.

Fixpoint from_hex_aux (l : bytes) (acc : N) : option N :=
  match l with
  | [] => Some acc
  | c :: r => match hex_value c with
              | None => None
              | Some d => from_hex_aux r (acc * 16 + d)
              end
  end.

(* 1*HEXDIG (the repaired code tests this before calling int(x, 16)) *)
Definition from_hex (l : bytes) : option N :=
  match l with
  | [] => None
  | _ => from_hex_aux l 0
  end.

(* bytes.strip(): ASCII white space \t \n \v \f \r and space *)
Definition is_ws (c : N) : bool := ((9 <=? c) && (c <=? 13)) || (c =? 32).

Fixpoint drop_ws (l : bytes) : bytes :=
  match l with
  | [] => []
  | c :: r => if is_ws c then drop_ws r else l
  end.

Definition strip (l : bytes) : bytes := rev (drop_ws (rev (drop_ws l))).

(* chunk_header.split(b';')[0] *)
Fixpoint take_until (sep : N) (l : bytes) : bytes :=
  match l with
  | [] => []
  | c :: r => if c =? sep then [] else c :: take_until sep r
  end.

(* chunk size of a chunk header line (without its CRLF); extensions after ';' are ignored *)
Definition parse_size (h : bytes) : option N := from_hex (strip (take_until 59 h)).

(* ---------------------------------------------------------------- mk_chunks *)
Fixpoint mk_chunks_aux (fuel : nat) (n : N) (tail : bytes) : bytes :=
  match fuel with
  | O => []
  | S f =>
      let head := takeN n tail in
      to_hex (lenN head) ++ crlf ++ head ++ crlf ++
      match head with
      | [] => []
      | _ => mk_chunks_aux f n (dropN n tail)
      end
  end.

(* mk_chunks(body, chunk_size=n); chunk_size 0 yields the zero chunk only (callers test > 0) *)
Definition mk_chunks (n : N) (body : bytes) : bytes := mk_chunks_aux (S (length body)) n body.

(* ---------------------------------------------------------------- streams *)
Record stream := mkS { sdata : bytes; scaps : list N }.

Definition uncapped (b : bytes) : stream := mkS b [].

Definition sread (n : N) (s : stream) : bytes * stream :=
  let c := match scaps s with
           | [] => n
           | c :: _ => N.min n (N.max 1 c)
           end in
  (takeN c (sdata s), mkS (dropN c (sdata s)) (tl (scaps s))).

Inductive err :=
| EHeader        (* no CRLF within the first hmax bytes of a chunk header, or end of data *)
| ESize          (* chunk size is not 1*HEXDIG *)
| EEofInChunk    (* end of data inside chunk data *)
| ECrLf          (* chunk data not followed by CRLF *)
| EContentLength (* content-length is not a non-negative number *)
| EUnsupported   (* content-encoding not available *).

Definition err_eqb (a b : err) : bool :=
  match a, b with
  | EHeader, EHeader | ESize, ESize | EEofInChunk, EEofInChunk | ECrLf, ECrLf
  | EContentLength, EContentLength | EUnsupported, EUnsupported => true
  | _, _ => false
  end.

(* HTTPReader._read_until(stream, CR_LF, max_bytes=k): one byte per read; [rbuf] is the buffer
   reversed.  Structural in [k]: at most k reads. *)
Fixpoint read_until (k : nat) (rbuf : bytes) (s : stream) : option bytes * stream :=
  match k with
  | O => (None, s)
  | S k' =>
      let '(c, s') := sread 1 s in
      match c with
      | [] => (None, s')
      | b :: _ =>
          match rbuf with
          | p :: rest =>
              if (b =? 10) && (p =? 13) then (Some (rev rest), s')
              else read_until k' (b :: rbuf) s'
          | [] => read_until k' [b] s'
          end
      end
  end.

Inductive nres :=
| NData (d : bytes) (s : stream)
| NEof (s : stream)
| NFuel.

(* while bytes_to_read: chunk = stream.read(bytes_to_read); if not chunk: raise ...  (repaired) *)
Fixpoint read_n (fuel : nat) (n : N) (s : stream) : nres :=
  match fuel with
  | O => NFuel
  | S f =>
      if n =? 0 then NData [] s
      else
        let '(c, s') := sread n s in
        match c with
        | [] => NEof s'
        | _ => match read_n f (n - lenN c) s' with
               | NData d s'' => NData (c ++ d) s''
               | r => r
               end
        end
  end.

(* the loop of the pinned source: an empty read does not end it *)
Fixpoint read_n_found (fuel : nat) (n : N) (s : stream) : nres :=
  match fuel with
  | O => NFuel
  | S f =>
      if n =? 0 then NData [] s
      else
        let '(c, s') := sread n s in
        match read_n_found f (n - lenN c) s' with
        | NData d s'' => NData (c ++ d) s''
        | r => r
        end
  end.

Inductive dres :=
| DOk (body : bytes) (rest : stream)
| DErr (e : err) (rest : stream)
| DFuel.

Section Dechunk.
  Variable hmax : nat.                                  (* max_bytes of _read_until: 16 *)
  Variable rn : nat -> N -> stream -> nres.             (* the data loop *)

  Fixpoint dechunk_gen (fuel : nat) (s : stream) : dres :=
    match fuel with
    | O => DFuel
    | S f =>
        match read_until hmax [] s with
        | (None, s1) => DErr EHeader s1
        | (Some h, s1) =>
            match parse_size h with
            | None => DErr ESize s1
            | Some n =>
                match rn f n s1 with
                | NFuel => DFuel
                | NEof s2 => DErr EEofInChunk s2
                | NData d s2 =>
                    let '(c, s3) := sread 2 s2 in
                    if bytes_eqb c crlf then
                      if n =? 0 then DOk d s3
                      else match dechunk_gen f s3 with
                           | DOk b s4 => DOk (d ++ b) s4
                           | r => r
                           end
                    else DErr ECrLf s3
                end
            end
        end
    end.
End Dechunk.

Definition dechunk (hmax : nat) := dechunk_gen hmax read_n.
Definition dechunk_found (hmax : nat) := dechunk_gen hmax read_n_found.

(* fuel that always suffices (Chunk_Proofs.dechunk_terminates) *)
Definition fuel_for (s : stream) : nat := length (sdata s) + 2.

(* ---------------------------------------------------------------- read_request_body *)
(* classes of header values; the harness renders each class as concrete header strings *)
Inductive cl_class :=
| CLAbsent             (* no content-length header, or an empty one *)
| CLNum (n : N)        (* decimal digits *)
| CLNeg                (* int() accepts it, value < 0 *)
| CLBad.               (* int() raises ValueError *)

Record req_headers := mkH {
  h_chunked : bool;            (* transfer-encoding present and .lower() == 'chunked' *)
  h_cl : cl_class;
  h_ce : option bytes          (* content-encoding, None when absent or empty *)
}.

Inductive rres :=
| RBody (b : option bytes) (rest : stream)                 (* returned as is; None: no body read *)
| RDecode (enc : bytes) (b : option bytes) (rest : stream) (* decompress_payload(enc, b) is the result *)
| RErr (e : err) (rest : stream)
| RFuel.

Definition decode_step (avail : list bytes) (h : req_headers) (b : option bytes) (s : stream) : rres :=
  match h_ce h with
  | None => RBody b s
  | Some enc => if mem_bytes enc avail then RDecode enc b s else RErr EUnsupported s
  end.

Definition read_request_body (hmax : nat) (avail : list bytes) (fuel : nat) (h : req_headers) (s : stream) : rres :=
  if h_chunked h then
    match dechunk hmax fuel s with
    | DOk b s' => decode_step avail h (Some b) s'
    | DErr e s' => RErr e s'
    | DFuel => RFuel
    end
  else
    match h_cl h with
    | CLAbsent => decode_step avail h None s
    | CLNum n => let '(b, s') := sread n s in decode_step avail h (Some b) s'
    | CLNeg | CLBad => RErr EContentLength s
    end.

(* read_response_body: http.client has removed the chunked framing already; [s] is the payload
   stream of the HTTPResponse ([read n] / [read()]).  Only content-length classes that
   http.client lets through are modelled (absent or a number). *)
Definition read_response_body (avail : list bytes) (h : req_headers) (s : stream) : rres :=
  match h_cl h with
  | CLNum n => let '(b, s') := sread n s in decode_step avail h (Some b) s'
  | _ => decode_step avail h (Some (sdata s)) (mkS [] [])
  end.

(* ---------------------------------------------------------------- correspondence helpers *)
Definition nl_eqb := bytes_eqb.

Definition obytes_eqb (a b : option bytes) : bool :=
  match a, b with
  | None, None => true
  | Some x, Some y => bytes_eqb x y
  | _, _ => false
  end.

(* canonical trace of one reader run: (tag, payload, bytes left in the stream)
   tag 0 = body as is, 1 = body handed to the decompressor, 2.. = error, 99 = out of fuel *)
Definition err_tag (e : err) : N :=
  match e with
  | EHeader => 10 | ESize => 11 | EEofInChunk => 12 | ECrLf => 13
  | EContentLength => 14 | EUnsupported => 15
  end.

Definition rres_trace (r : rres) : N * (option bytes * N) :=
  match r with
  | RBody b s => (0, (b, lenN (sdata s)))
  | RDecode _ b s => (1, (b, lenN (sdata s)))
  | RErr e s => (err_tag e, (None, lenN (sdata s)))
  | RFuel => (99, (None, 0))
  end.

Definition trace_eqb (a b : N * (option bytes * N)) : bool :=
  (fst a =? fst b) && obytes_eqb (fst (snd a)) (fst (snd b)) && (snd (snd a) =? snd (snd b)).

(* case = ((chunked, cl-class code, cl value), content-encoding, data, caps) ; cl code 0 absent 1 num 2 neg 3 bad *)
Definition mk_cl (code v : N) : cl_class :=
  match code with 0 => CLAbsent | 1 => CLNum v | 2 => CLNeg | _ => CLBad end.

Definition run_request (hmax : nat) (avail : list bytes)
           (c : (bool * N * N) * option bytes * bytes * list N) : N * (option bytes * N) :=
  let '(hd, ce, data, caps) := c in
  let '(ch, code, v) := hd in
  let s := mkS data caps in
  rres_trace (read_request_body hmax avail (fuel_for s) (mkH ch (mk_cl code v) ce) s).

Definition run_response (avail : list bytes)
           (c : (bool * N * N) * option bytes * bytes * list N) : N * (option bytes * N) :=
  let '(hd, ce, data, caps) := c in
  let '(ch, code, v) := hd in
  rres_trace (read_response_body avail (mkH ch (mk_cl code v) ce) (mkS data caps)).

Definition run_mk_chunks (c : N * bytes) : bytes := mk_chunks (fst c) (snd c).

(* all framing cases of one run in one evaluation *)
Inductive fcase :=
| FMk (n : N) (b : bytes)
| FReq (c : (bool * N * N) * option bytes * bytes * list N)
| FResp (c : (bool * N * N) * option bytes * bytes * list N).

Inductive fres :=
| FBytes (b : bytes)
| FTrace (t : N * (option bytes * N)).

Definition run_framing (hmax : nat) (avail : list bytes) (c : fcase) : fres :=
  match c with
  | FMk n b => FBytes (mk_chunks n b)
  | FReq c => FTrace (run_request hmax avail c)
  | FResp c => FTrace (run_response avail c)
  end.

Definition fres_eqb (a b : fres) : bool :=
  match a, b with
  | FBytes x, FBytes y => bytes_eqb x y
  | FTrace x, FTrace y => trace_eqb x y
  | _, _ => false
  end.
