(* Proofs about Http.Connection: on a kept-alive connection every request is served on exactly its own
   body bytes - whatever the outcome (unknown path, unsupported coding, handler fault ...) - or the
   connection is closed. *)
From Coq Require Import List NArith Bool Lia ZifyBool.
From SDC Require Import Http.Chunk Http.Chunk_Proofs Http.Dispatch Http.Connection.
Import ListNotations.
Open Scope N_scope.

(* the body bytes [w] are exactly what the headers [h] announce *)
Definition framed (hmax : nat) (h : req_headers) (w : bytes) : Prop :=
  if h_chunked h then exists b, chunked (hmax - 2) w b
  else match h_cl h with
       | CLNum n => lenN w = n
       | CLAbsent => w = []
       | _ => True               (* rejected without reading a byte; the connection is closed *)
       end.

Lemma decode_step_stream avail h b s1 s2 :
  match decode_step avail h b s1, decode_step avail h b s2 with
  | RBody x _, RBody y _ => x = y
  | RDecode e x _, RDecode e' y _ => e = e' /\ x = y
  | RErr e _, RErr e' _ => e = e'
  | _, _ => False
  end.
Proof. unfold decode_step. destruct (h_ce h); [destruct (mem_bytes _ _)|]; auto. Qed.

Lemma decode_step_rest avail h b s :
  match decode_step avail h b s with
  | RBody _ s' | RDecode _ _ s' | RErr _ s' => s' = s
  | RFuel => False
  end.
Proof. unfold decode_step. destruct (h_ce h); [destruct (mem_bytes _ _)|]; auto. Qed.

(* the reader on "own body ++ rest" and on "own body" alone: same outcome, and "rest" is what is left *)
Lemma read_framed hmax avail h w rest :
  (2 <= hmax)%nat -> framed hmax h w ->
  let s := uncapped (w ++ rest) in
  let s0 := uncapped w in
  match read_request_body hmax avail (fuel_for s) h s, read_request_body hmax avail (fuel_for s0) h s0 with
  | RBody x s', RBody y _ => x = y /\ s' = uncapped rest
  | RDecode e x s', RDecode e' y _ => e = e' /\ x = y /\ s' = uncapped rest
  | RErr e _, RErr e' _ => e = e'
  | _, _ => False
  end.
Proof.
  intros Hm F. unfold framed in F. unfold read_request_body. cbv zeta.
  destruct (h_chunked h).
  - destruct F as [b F].
    rewrite (dechunk_complete hmax w b F rest (fuel_for (uncapped (w ++ rest))) Hm)
      by (unfold fuel_for, uncapped; simpl; rewrite app_length; lia).
    pose proof (dechunk_complete hmax w b F [] (fuel_for (uncapped w)) Hm) as D0.
    rewrite app_nil_r in D0. rewrite D0 by (unfold fuel_for, uncapped; simpl; lia).
    pose proof (decode_step_stream avail h (Some b) (uncapped rest) (uncapped [])) as E.
    pose proof (decode_step_rest avail h (Some b) (uncapped rest)) as R.
    destruct (decode_step avail h (Some b) (uncapped rest)), (decode_step avail h (Some b) (uncapped [])); intuition.
  - destruct (h_cl h) as [|n| |].
    + subst w. simpl app.
      pose proof (decode_step_stream avail h None (uncapped rest) (uncapped [])) as E.
      pose proof (decode_step_rest avail h None (uncapped rest)) as R.
      destruct (decode_step avail h None (uncapped rest)), (decode_step avail h None (uncapped [])); intuition.
    + subst n. rewrite sread_uncapped_app.
      pose proof (sread_uncapped_app w []) as S0. rewrite app_nil_r in S0. rewrite S0.
      pose proof (decode_step_stream avail h (Some w) (uncapped rest) (uncapped [])) as E.
      pose proof (decode_step_rest avail h (Some w) (uncapped rest)) as R.
      destruct (decode_step avail h (Some w) (uncapped rest)), (decode_step avail h (Some w) (uncapped [])); intuition.
    + reflexivity.
    + reflexivity.
Qed.

(* one request: same answer and same close decision as on its own body alone; unless the connection is
   closed the stream stands exactly behind this request's body *)
Lemma step_framed hmax avail r w rest :
  (2 <= hmax)%nat -> framed hmax (c_hdr r) w ->
  exists a c s1 s0,
    step hmax avail r (uncapped (w ++ rest)) = (a, s1, c) /\
    step hmax avail r (uncapped w) = (a, s0, c) /\
    (c = false -> s1 = uncapped rest).
Proof.
  intros Hm F. unfold step. destruct (c_post r) eqn:P.
  - pose proof (read_framed hmax avail (c_hdr r) w rest Hm F) as R. cbv zeta in R.
    destruct (read_request_body hmax avail (fuel_for (uncapped (w ++ rest))) (c_hdr r) (uncapped (w ++ rest))) as [x s'|e x s'|e s'|];
      destruct (read_request_body hmax avail (fuel_for (uncapped w)) (c_hdr r) (uncapped w)) as [y t'|e' y t'|e' t'|]; try contradiction.
    + destruct R as [-> ->]. unfold answered. do 4 eexists. repeat split; eauto.
    + destruct R as [-> [-> ->]]. destruct (c_decode_ok r).
      * unfold answered. do 4 eexists. repeat split; eauto.
      * do 4 eexists. repeat split; eauto; try discriminate.
    + do 4 eexists. repeat split; eauto; try discriminate.
  - do 4 eexists. repeat split; eauto.
    intros C. apply orb_false_elim in C as [C _]. apply orb_false_elim in C as [C _].
    unfold announces_body in C. apply orb_false_elim in C as [C1 C2].
    unfold framed in F. rewrite C1 in F. destruct (h_cl (c_hdr r)); try discriminate. subst w. reflexivity.
Qed.

(* the whole connection: the answers are those of every request served in isolation on its own body, up to
   the first request that closes the connection *)
Theorem conn_aligned hmax avail : (2 <= hmax)%nat ->
  forall rs ws tail,
  Forall2 (fun r w => framed hmax (c_hdr r) w) rs ws ->
  fst (run_conn (step hmax avail) rs (uncapped (concat ws ++ tail))) = serve_isolated hmax avail rs ws.
Proof.
  intros Hm rs ws tail F. induction F as [|r w rs ws Fr _ IH]; [reflexivity|].
  simpl concat. rewrite <- app_assoc.
  destruct (step_framed hmax avail r w (concat ws ++ tail) Hm Fr) as [a [c [s1 [s0 [E1 [E0 Hc]]]]]].
  simpl. rewrite E1, E0. destruct c; [reflexivity|].
  rewrite (Hc eq_refl).
  destruct (run_conn (step hmax avail) rs (uncapped (concat ws ++ tail))) as [answers s''] eqn:R.
  simpl in IH. simpl. now rewrite IH.
Qed.

(* ... and when no request closes it, the loop stands exactly behind the last request *)
Theorem conn_consumes_exactly hmax avail : (2 <= hmax)%nat ->
  forall rs ws tail,
  Forall2 (fun r w => framed hmax (c_hdr r) w) rs ws ->
  Forall (fun rw => snd (step hmax avail (fst rw) (uncapped (snd rw))) = false) (combine rs ws) ->
  snd (run_conn (step hmax avail) rs (uncapped (concat ws ++ tail))) = uncapped tail.
Proof.
  intros Hm rs ws tail F NC. induction F as [|r w rs ws Fr F IH]; [reflexivity|].
  simpl concat. rewrite <- app_assoc.
  destruct (step_framed hmax avail r w (concat ws ++ tail) Hm Fr) as [a [c [s1 [s0 [E1 [E0 Hc]]]]]].
  simpl in NC. inversion NC as [|? ? N1 N2]; subst. simpl in N1. rewrite E0 in N1. simpl in N1. subst c.
  simpl. rewrite E1, (Hc eq_refl).
  destruct (run_conn (step hmax avail) rs (uncapped (concat ws ++ tail))) as [answers s''] eqn:R.
  simpl. specialize (IH N2). simpl in IH. exact IH.
Qed.

(* reading the body only after the path lookup: a POST to an unknown path leaves its body in front of the
   next request although the connection stays open *)
Lemma step_lazy_misaligned hmax avail :
  exists r w rest,
    framed hmax (c_hdr r) w /\ w <> [] /\
    step_lazy hmax avail r (uncapped (w ++ rest)) = (Answer 404 KEmpty, uncapped (w ++ rest), false).
Proof.
  exists (mkC true (mkH false (CLNum 3) None) (mkIn true true PathUnknown (Answer 200 KResponse) true) true), [80; 79; 83], [84].
  split; [reflexivity|]. split; [discriminate|reflexivity].
Qed.

(* do_GET as found: a GET with a body keeps the connection and leaves the body in front of the next request *)
Lemma step_get_found_misaligned hmax avail :
  exists r w rest a,
    framed hmax (c_hdr r) w /\ w <> [] /\
    step_get_found hmax avail r (uncapped (w ++ rest)) = (a, uncapped (w ++ rest), false).
Proof.
  exists (mkC false (mkH false (CLNum 3) None) (mkIn true true PathKnown (Answer 200 KResponse) true) true), [80; 79; 83], [84].
  eexists. split; [reflexivity|]. split; [discriminate|reflexivity].
Qed.
