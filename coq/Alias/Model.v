(* Alias -- object graphs with sharing: the heap model behind C12 (and the isolation parts of C03/C04).
   Definitions only (proofs: Alias/Proofs.v).

   What is modelled (src/sdc11073/xml_types/xml_structure.py, xml_types/basetypes.py, mdib/containerbase.py):
     * an INSTANCE (container or data type object held by the program) is a record of fields; a field is
       an immutable value (str, int, Decimal, enum, None ... abstracted to a Z) or a reference to a nested
       MUTABLE object (XMLTypeBase value, list, ExtensionLocalValue, lxml element) living in the heap;
     * the class-level DEFAULT objects (_default_py_value of the property descriptors) are heap cells too;
     * cls()            = [ONew]:      every defaulted member is a deep copy of the default  (init_instance_data)
     * cls.from_node(x) = [OParse]:    present members are fresh objects, an ABSENT member with a mutable
                                       default is  - the default object itself    (parse_fresh = false: today's
                                                     SubElementProperty.get_py_value_from_node)
                                                   - a deep copy of the default   (parse_fresh = true: repaired)
     * mk_copy()        = [OCopy]:     copy.copy, all nested objects shared       (mkcopy_deep = false: today)
                                       nested objects deep-copied                  (mkcopy_deep = true: repaired)
     * copy.deepcopy    = [ODeepCopy]
     * dst.update_from_other_container(src) = [OUpdate]: every field of dst becomes copy.copy(getattr(src, name)):
                                       one level fresh, everything below shared with src (upd = UShallow: today,
                                       unchanged by the repairs); UAlias: the member object itself is handed over
                                       (what a "copy only XMLTypeBase values" shortcut does to list members);
                                       UDeep: copy.deepcopy (what a repair would do);
                                       getattr substitutes the IMPLIED value of a property whose value is None,
                                       which the operation carries as an explicit list of overrides
     * x.a.b.c = v      = [OWrite]:    follows references from an instance, overwrites one field of the object
                                       reached with an immutable value.
     * x.a.b.append(v) / .pop() / .clear() = [OMut]: IN-PLACE change of the list object reached (its cell gets a
                                       field more / a field less / no fields); appended values are immutable.
     * a constructor parameter with a MUTABLE DEFAULT ARGUMENT (def __init__(self, names=[])) that is not given
                                       = [XArg k]: Python evaluates the default once, the object lives as long as
                                       the function (it is one of the process-start objects [dfl], like the
                                       class-level defaults).  arg_fresh = true: the constructor stores a fresh
                                       value (the `names or []` / None idiom: today's code has no such parameter),
                                       arg_fresh = false: it stores the default-argument object itself.
   The heap is an append-only list of cells; a cell only ever refers to OLDER cells (every operation allocates
   children before parents and writes store immutable values), which makes the graph acyclic by construction. *)
From Coq Require Import List ZArith Bool Arith.
Import ListNotations.

Definition loc := nat.
Inductive fval := Imm (z : Z) | Ref (l : loc).
Definition cell := list fval.
Definition heap := list cell.

(* the VALUE of a field: the tree obtained by following references (sharing forgotten) *)
Inductive tree := TImm (z : Z) | TNode (fs : list tree).

Fixpoint value_f (n : nat) (h : heap) (v : fval) {struct n} : tree :=
  match v with
  | Imm z => TImm z
  | Ref l =>
      match n with
      | O => TNode []
      | S n' => match nth_error h l with
                | None => TNode []
                | Some c => TNode (map (value_f n' h) c)
                end
      end
  end.

(* recipe for an allocation: fresh nodes, immutable leaves, and references to EXISTING cells *)
Inductive ptree := PImm (z : Z) | PNode (fs : list ptree) | PAlias (l : loc).

Fixpoint alloc (h : heap) (p : ptree) {struct p} : heap * fval :=
  match p with
  | PImm z => (h, Imm z)
  | PAlias l => (h, Ref l)
  | PNode fs =>
      let hv := (fix go (fs : list ptree) (h : heap) {struct fs} : heap * list fval :=
                   match fs with
                   | [] => (h, [])
                   | f :: r => let (h1, v) := alloc h f in
                               let (h2, vs) := go r h1 in (h2, v :: vs)
                   end) fs h in
      (fst hv ++ [snd hv], Ref (length (fst hv)))
  end.

Fixpoint alloc_list (fs : list ptree) (h : heap) {struct fs} : heap * list fval :=
  match fs with
  | [] => (h, [])
  | f :: r => let (h1, v) := alloc h f in
              let (h2, vs) := alloc_list r h1 in (h2, v :: vs)
  end.

Fixpoint of_tree (t : tree) : ptree :=
  match t with
  | TImm z => PImm z
  | TNode fs => PNode (map of_tree fs)
  end.

Fixpoint paliases (p : ptree) : list loc :=
  match p with
  | PImm _ => []
  | PAlias l => [l]
  | PNode fs => flat_map paliases fs
  end.

(* value denoted by a recipe in heap h *)
Fixpoint pvalue (n : nat) (h : heap) (p : ptree) {struct p} : tree :=
  match p with
  | PImm z => TImm z
  | PAlias l => value_f n h (Ref l)
  | PNode fs => match n with
                | O => TNode []
                | S n' => TNode (map (pvalue n' h) fs)
                end
  end.

(* ---------------------------------------------------------------- state and operations *)
Record state := mkState { hp : heap; dfl : list loc; insts : list cell }.

Inductive umode := UAlias | UShallow | UDeep.
Record cfg := mkCfg { parse_fresh : bool; mkcopy_deep : bool; arg_fresh : bool; upd : umode }.
Definition today : cfg := mkCfg false false true UShallow.  (* the code before the repairs *)
Definition fixed : cfg := mkCfg true true true UShallow.    (* with fixes/C12_parse_default + fixes/C12_mk_copy *)
Definition fixed_deep : cfg := mkCfg true true true UDeep.  (* ... and a deep-copying update_from_other_container *)
Definition shared_arg : cfg := mkCfg true true false UShallow. (* a constructor storing its mutable default argument *)
Definition byref_update : cfg := mkCfg true true true UAlias.  (* update handing members over by reference *)

(* what a constructor / parser is asked to build, member by member *)
Inductive xin :=
| XImm (z : Z)                 (* immutable member (attribute, text, None) *)
| XNode (fs : list xin)        (* a nested object / list created by this call *)
| XDefault (k : nat)           (* member with mutable class default number k, not given (cls()) / absent in XML *)
| XArg (k : nat).              (* member taken from a constructor parameter whose mutable default object is k *)

Definition deep_p (h : heap) (v : fval) : ptree := of_tree (value_f (length h) h v).

Fixpoint resolve (fresh afresh : bool) (s : state) (x : xin) {struct x} : ptree :=
  match x with
  | XImm z => PImm z
  | XNode fs => PNode (map (resolve fresh afresh s) fs)
  | XDefault k => match nth_error (dfl s) k with
                  | None => PImm 0
                  | Some d => if fresh then deep_p (hp s) (Ref d) else PAlias d
                  end
  | XArg k => match nth_error (dfl s) k with
              | None => PImm 0
              | Some d => if afresh then deep_p (hp s) (Ref d) else PAlias d
              end
  end.

(* copy.copy of one field value: immutable stays, a nested object gets a new top cell with the same fields *)
Definition alias_p (v : fval) : ptree := match v with Imm z => PImm z | Ref j => PAlias j end.
Definition shallow_p (h : heap) (v : fval) : ptree :=
  match v with
  | Imm z => PImm z
  | Ref l => match nth_error h l with
             | None => PImm 0
             | Some c => PNode (map alias_p c)
             end
  end.

(* fields of dst after update_from_other_container: override (implied value) or copy of the source field *)
Definition upd_p (m : umode) (h : heap) (v : fval) : ptree :=
  match m with UAlias => alias_p v | UShallow => shallow_p h v | UDeep => deep_p h v end.

Fixpoint upd_list (m : umode) (h : heap) (ov : list (option Z)) (rec : cell) {struct rec} : list ptree :=
  match rec with
  | [] => []
  | v :: r =>
      match ov with
      | Some z :: ro => PImm z :: upd_list m h ro r
      | None :: ro => upd_p m h v :: upd_list m h ro r
      | [] => upd_p m h v :: upd_list m h [] r
      end
  end.

Fixpoint set_nth {A} (i : nat) (x : A) (l : list A) {struct l} : list A :=
  match l, i with
  | [], _ => []
  | _ :: r, O => x :: r
  | y :: r, S i' => y :: set_nth i' x r
  end.

Fixpoint walk (h : heap) (l : loc) (path : list nat) {struct path} : option loc :=
  match path with
  | [] => Some l
  | i :: rest => match nth_error h l with
                 | None => None
                 | Some c => match nth_error c i with
                             | Some (Ref j) => walk h j rest
                             | _ => None
                             end
                 end
  end.

(* in-place operations on a list object *)
Inductive mut := MAppend (z : Z) | MPop | MClear.
Definition mut_cell (m : mut) (c : cell) : cell :=
  match m with MAppend z => c ++ [Imm z] | MPop => removelast c | MClear => [] end.

Inductive op :=
| ONew (fs : list xin)
| OParse (fs : list xin)
| OCopy (r : nat)
| ODeepCopy (r : nat)
| OUpdate (dst src : nat) (ov : list (option Z))
| OWrite (r : nat) (path : list nat) (k : nat) (z : Z)
| OMut (r : nat) (path : list nat) (m : mut).

Definition build (s : state) (ps : list ptree) : state :=
  let (h', vs) := alloc_list ps (hp s) in mkState h' (dfl s) (insts s ++ [vs]).

(* replace the cell reached from instance r along path by (f cell) *)
Definition write_gen (s : state) (r : nat) (path : list nat) (f : cell -> cell) : state :=
  match nth_error (insts s) r with
  | None => s
  | Some rec =>
      match path with
      | [] => mkState (hp s) (dfl s) (set_nth r (f rec) (insts s))
      | i :: rest =>
          match nth_error rec i with
          | Some (Ref l) =>
              match walk (hp s) l rest with
              | None => s
              | Some t => match nth_error (hp s) t with
                          | None => s
                          | Some c => mkState (set_nth t (f c) (hp s)) (dfl s) (insts s)
                          end
              end
          | _ => s
          end
      end
  end.

Definition write (s : state) (r : nat) (path : list nat) (k : nat) (z : Z) : state :=
  write_gen s r path (set_nth k (Imm z)).
Definition mutate (s : state) (r : nat) (path : list nat) (m : mut) : state :=
  write_gen s r path (mut_cell m).

Definition step (c : cfg) (s : state) (o : op) : state :=
  match o with
  | ONew fs => build s (map (resolve true (arg_fresh c) s) fs)
  | OParse fs => build s (map (resolve (parse_fresh c) (arg_fresh c) s) fs)
  | OCopy r => match nth_error (insts s) r with
               | None => s
               | Some rec => if mkcopy_deep c then build s (map (deep_p (hp s)) rec)
                             else mkState (hp s) (dfl s) (insts s ++ [rec])
               end
  | ODeepCopy r => match nth_error (insts s) r with
                   | None => s
                   | Some rec => build s (map (deep_p (hp s)) rec)
                   end
  | OUpdate dst src ov =>
      match nth_error (insts s) dst, nth_error (insts s) src with
      | Some _, Some rec =>
          let (h', vs) := alloc_list (upd_list (upd c) (hp s) ov rec) (hp s) in
          mkState h' (dfl s) (set_nth dst vs (insts s))
      | _, _ => s
      end
  | OWrite r path k z => write s r path k z
  | OMut r path m => mutate s r path m
  end.

Definition run (c : cfg) (s : state) (ops : list op) : state := fold_left (step c) ops s.

Definition ref_locs (vs : list fval) : list loc :=
  flat_map (fun v => match v with Ref l => [l] | Imm _ => [] end) vs.

(* process start: the class-level default objects exist, no instance yet *)
Definition init (ds : list tree) : state :=
  let (h, vs) := alloc_list (map of_tree ds) [] in mkState h (ref_locs vs) [].

Definition inst_values (n : nat) (s : state) (r : nat) : option (list tree) :=
  option_map (map (value_f n (hp s))) (nth_error (insts s) r).
Definition last_values (n : nat) (s : state) : option (list tree) :=
  inst_values n s (length (insts s) - 1).
Definition default_value (n : nat) (s : state) (k : nat) : option tree :=
  option_map (fun d => value_f n (hp s) (Ref d)) (nth_error (dfl s) k).

(* the instance an operation is allowed to change *)
Definition target (o : op) : option nat :=
  match o with
  | OWrite r _ _ _ => Some r
  | OMut r _ _ => Some r
  | OUpdate d _ _ => Some d
  | _ => None
  end.
Definition is_update (o : op) : bool := match o with OUpdate _ _ _ => true | _ => false end.
Definition no_update (ops : list op) : Prop := forallb (fun o => negb (is_update o)) ops = true.

(* ---------------------------------------------------------------- boolean twins / executable checks *)
Fixpoint tree_eqb (a b : tree) {struct a} : bool :=
  match a, b with
  | TImm x, TImm y => Z.eqb x y
  | TNode fa, TNode fb =>
      (fix go (fa fb : list tree) {struct fa} : bool :=
         match fa, fb with
         | [], [] => true
         | x :: ra, y :: rb => tree_eqb x y && go ra rb
         | _, _ => false
         end) fa fb
  | _, _ => false
  end.

Fixpoint trees_eqb (a b : list tree) : bool :=
  match a, b with
  | [], [] => true
  | x :: ra, y :: rb => tree_eqb x y && trees_eqb ra rb
  | _, _ => false
  end.

Definition otrees_eqb (a b : option (list tree)) : bool :=
  match a, b with
  | None, None => true
  | Some x, Some y => trees_eqb x y
  | _, _ => false
  end.

Definition all_defaults (s : state) : list tree :=
  map (fun d => value_f (length (hp s)) (hp s) (Ref d)) (dfl s).

Definition all_insts (s : state) : list (list tree) :=
  map (map (value_f (length (hp s)) (hp s))) (insts s).

(* one step keeps every default and every instance other than the target as it was *)
Definition step_ok (c : cfg) (s : state) (o : op) : bool :=
  let s' := step c s o in
  trees_eqb (all_defaults s') (all_defaults s) &&
  (fix go (i : nat) (old new : list (list tree)) {struct old} : bool :=
     match old, new with
     | [], _ => true
     | x :: ro, y :: rn =>
         (match target o with
          | Some r => Nat.eqb r i
          | None => false
          end || trees_eqb x y) && go (S i) ro rn
     | _ :: _, [] => false
     end) O (all_insts s) (all_insts s').

Fixpoint check_run (c : cfg) (s : state) (ops : list op) : bool :=
  match ops with
  | [] => true
  | o :: r => step_ok c s o && check_run c (step c s o) r
  end.

(* C12 evaluated on the model: no step of the history changes a default or a non-target instance *)
Definition check_C12 (c : cfg) (ds : list tree) (ops : list op) : bool := check_run c (init ds) ops.

(* ---------------------------------------------------------------- canonical sharing graph (correspondence)
   Tokens: Imm z -> [0; z]   first visit of cell -> [1; id; #fields] fields...   revisit -> [2; id]
   ids number the mutable objects in order of first visit (defaults first, then instances in order). *)
Fixpoint index_of (l : loc) (seen : list loc) (i : nat) : option nat :=
  match seen with
  | [] => None
  | x :: r => if Nat.eqb x l then Some i else index_of l r (S i)
  end.

Fixpoint label (n : nat) (h : heap) (v : fval) (seen : list loc) {struct n} : list Z * list loc :=
  match v with
  | Imm z => ([0%Z; z], seen)
  | Ref l =>
      match index_of l seen O with
      | Some i => ([2%Z; Z.of_nat i], seen)
      | None =>
          match n with
          | O => ([9%Z], seen)
          | S n' =>
              let id := length seen in
              let c := match nth_error h l with Some c => c | None => [] end in
              let r := (fix go (fs : list fval) (seen : list loc) {struct fs} : list Z * list loc :=
                          match fs with
                          | [] => ([], seen)
                          | f :: rest => let (t1, s1) := label n' h f seen in
                                         let (t2, s2) := go rest s1 in (t1 ++ t2, s2)
                          end) c (seen ++ [l]) in
              (1%Z :: Z.of_nat id :: Z.of_nat (length c) :: fst r, snd r)
          end
      end
  end.

Fixpoint label_list (n : nat) (h : heap) (fs : list fval) (seen : list loc) : list Z * list loc :=
  match fs with
  | [] => ([], seen)
  | f :: rest => let (t1, s1) := label n h f seen in
                 let (t2, s2) := label_list n h rest s1 in (t1 ++ t2, s2)
  end.

Fixpoint label_insts (n : nat) (h : heap) (recs : list cell) (seen : list loc) : list Z :=
  match recs with
  | [] => []
  | rec :: rest => let (t1, s1) := label_list n h rec seen in
                   (3%Z :: Z.of_nat (length rec) :: t1) ++ label_insts n h rest s1
  end.

Definition observe (s : state) : list Z :=
  let n := S (length (hp s)) in
  let (t0, seen) := label_list n (hp s) (map Ref (dfl s)) [] in
  t0 ++ label_insts n (hp s) (insts s) seen.

Fixpoint run_obs (c : cfg) (s : state) (ops : list op) : list (list Z) :=
  match ops with
  | [] => []
  | o :: r => let s' := step c s o in observe s' :: run_obs c s' r
  end.

(* correspondence entry point: (defaults, ops) -> observation of the initial state and after every op *)
Definition run_case (c : cfg) (x : list tree * list op) : list (list Z) :=
  let s := init (fst x) in observe s :: run_obs c s (snd x).
