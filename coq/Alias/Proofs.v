(* Alias -- proofs: heap well-formedness, reachability, frame lemmas, allocation, separation. *)
From Coq Require Import List ZArith Bool Arith Lia.
From SDC Require Import Alias.Model.
Import ListNotations.

(* ------------------------------------------------------------------ lists *)
Lemma set_nth_length {A} (i : nat) (x : A) l : length (set_nth i x l) = length l.
Proof. revert i; induction l as [|y l IH]; intros [|i]; simpl; auto. Qed.

Lemma nth_error_set_nth_eq {A} (i : nat) (x : A) l :
  i < length l -> nth_error (set_nth i x l) i = Some x.
Proof. revert i; induction l as [|y l IH]; intros [|i]; simpl; intros; try lia; auto. apply IH; lia. Qed.

Lemma nth_error_set_nth_ne {A} (i j : nat) (x : A) l :
  i <> j -> nth_error (set_nth i x l) j = nth_error l j.
Proof.
  revert i j; induction l as [|y l IH]; intros [|i] [|j]; simpl; intros; try congruence; auto.
Qed.

Lemma nth_error_set_nth {A} (i j : nat) (x : A) l y :
  nth_error (set_nth i x l) j = Some y -> (i = j /\ y = x) \/ (i <> j /\ nth_error l j = Some y).
Proof.
  intros H. destruct (Nat.eq_dec i j) as [->|N].
  - left. split; auto. assert (j < length l).
    { apply nth_error_Some. intros E. rewrite <- (set_nth_length j x l) in E at 1.
      assert (nth_error (set_nth j x l) j = None) by (apply nth_error_None; rewrite set_nth_length;
        apply nth_error_None; rewrite set_nth_length in E; exact E). congruence. }
    rewrite nth_error_set_nth_eq in H by auto. congruence.
  - right. split; auto. now rewrite nth_error_set_nth_ne in H.
Qed.

Lemma in_set_nth {A} (i : nat) (x y : A) l : In y (set_nth i x l) -> y = x \/ In y l.
Proof.
  revert i; induction l as [|a l IH]; intros [|i]; simpl; auto.
  - intros [E|H]; auto.
  - intros [E|H]; auto. destruct (IH _ H); auto.
Qed.

(* ------------------------------------------------------------------ heaps *)
Definition hwf (h : heap) : Prop :=
  forall l c j, nth_error h l = Some c -> In (Ref j) c -> j < l.
Definition vfits (n : nat) (v : fval) : Prop := match v with Imm _ => True | Ref l => l < n end.
Definition cfits (n : nat) (c : cell) : Prop := forall j, In (Ref j) c -> j < n.

Inductive reach (h : heap) : loc -> loc -> Prop :=
| reach_refl l : reach h l l
| reach_step l j k c : reach h l j -> nth_error h j = Some c -> In (Ref k) c -> reach h l k.

Definition vreach (h : heap) (v : fval) (k : loc) : Prop :=
  match v with Imm _ => False | Ref l => reach h l k end.
Definition creach (h : heap) (c : cell) (k : loc) : Prop := exists l, In (Ref l) c /\ reach h l k.

Lemma reach_trans h a b c : reach h a b -> reach h b c -> reach h a c.
Proof. intros H1 H2; induction H2; eauto using reach. Qed.

Lemma reach_le h : hwf h -> forall l k, reach h l k -> k <= l.
Proof. intros W l k R; induction R; auto. specialize (W _ _ _ H H0). lia. Qed.

Lemma reach_head h l k : reach h l k -> l = k \/ exists c j, nth_error h l = Some c /\ In (Ref j) c /\ reach h j k.
Proof.
  intros R; induction R; auto.
  destruct IHR as [->|(c0 & j0 & H1 & H2 & H3)].
  - right. exists c, k. repeat split; auto. constructor.
  - right. exists c0, j0. repeat split; auto. econstructor; eauto.
Qed.

(* cells reachable from l are the same in h and h' => same reachability, same value *)
Lemma reach_agree h h' l :
  (forall k, reach h l k -> nth_error h' k = nth_error h k) -> forall k, reach h l k -> reach h' l k.
Proof.
  intros A k R; induction R; [constructor|].
  econstructor; eauto. rewrite A; auto.
Qed.

Lemma value_agree h h' : forall n l,
  (forall k, reach h l k -> nth_error h' k = nth_error h k) ->
  value_f n h' (Ref l) = value_f n h (Ref l).
Proof.
  induction n as [|n IH]; intros l A; simpl; auto.
  rewrite (A l (reach_refl _ _)). destruct (nth_error h l) as [c|] eqn:E; auto.
  f_equal. apply map_ext_in. intros [z|j] Hin; [destruct n; reflexivity|].
  apply IH. intros k R. apply A. eapply reach_trans; [|exact R].
  econstructor; [constructor|exact E|exact Hin].
Qed.

Lemma value_f_imm n h z : value_f n h (Imm z) = TImm z.
Proof. destruct n; reflexivity. Qed.

(* enough fuel: the value does not depend on it *)
Lemma value_f_mono h : hwf h -> forall n m v, vfits n v -> vfits m v -> value_f n h v = value_f m h v.
Proof.
  intros W; induction n as [|n IH]; intros m [z|l] Fn Fm; simpl in *; try lia.
  - now rewrite value_f_imm.
  - now rewrite value_f_imm.
  - destruct m as [|m]; [lia|]. simpl. destruct (nth_error h l) as [c|] eqn:E; auto.
    f_equal. apply map_ext_in. intros [z|j] Hin; [now rewrite !value_f_imm|].
    specialize (W _ _ _ E Hin). apply IH; simpl; lia.
Qed.

(* extension of the heap (allocation) does not touch old cells *)
Lemma nth_error_app_old {A} (h ext : list A) l : l < length h -> nth_error (h ++ ext) l = nth_error h l.
Proof. intros; now rewrite nth_error_app1. Qed.

Lemma reach_old h ext : hwf h -> forall l, l < length h -> forall k, reach h l k -> nth_error (h ++ ext) k = nth_error h k.
Proof. intros W l L k R. apply nth_error_app_old. apply (reach_le _ W) in R. lia. Qed.

Lemma reach_ext_iff h ext : hwf h -> forall l, l < length h -> forall k, reach (h ++ ext) l k <-> reach h l k.
Proof.
  intros W l L k; split; intros R.
  - induction R; [constructor|].
    econstructor; eauto. rewrite <- H. symmetry. apply nth_error_app_old.
    apply (reach_le _ W) in IHR. lia.
  - eapply reach_agree; [|exact R]. intros; eapply reach_old; eauto.
Qed.

Lemma value_ext h ext : hwf h -> forall n v, vfits (length h) v -> value_f n (h ++ ext) v = value_f n h v.
Proof.
  intros W n [z|l] F; [now rewrite !value_f_imm|]. simpl in F.
  apply value_agree. intros; eapply reach_old; eauto.
Qed.
