(* Alias -- proofs: heap well-formedness, reachability, frame lemmas, allocation, separation. *)
From Coq Require Import List ZArith Bool Arith Lia.
From SDC Require Import Alias.Model.
Import ListNotations.

(* ------------------------------------------------------------------ lists *)
Lemma set_nth_length {A} (i : nat) (x : A) l : length (set_nth i x l) = length l.
Proof. revert i; induction l as [|y l IH]; intros [|i]; simpl; auto. Qed.

Lemma nth_error_set_nth_eq {A} (i : nat) (x : A) l :
  i < length l -> nth_error (set_nth i x l) i = Some x.
Proof. revert i; induction l as [|y l IH]; intros [|i]; simpl; intros; try lia; auto. apply IH; lia. Qed.

Lemma nth_error_set_nth_ne {A} (i j : nat) (x : A) l :
  i <> j -> nth_error (set_nth i x l) j = nth_error l j.
Proof.
  revert i j; induction l as [|y l IH]; intros [|i] [|j]; simpl; intros; try congruence; auto.
Qed.

Lemma nth_error_set_nth {A} (i j : nat) (x : A) l y :
  nth_error (set_nth i x l) j = Some y -> (i = j /\ y = x) \/ (i <> j /\ nth_error l j = Some y).
Proof.
  intros H. destruct (Nat.eq_dec i j) as [->|N].
  - left. split; auto. assert (j < length l).
    { rewrite <- (set_nth_length j x l). apply nth_error_Some. congruence. }
    rewrite nth_error_set_nth_eq in H by auto. congruence.
  - right. split; auto. now rewrite nth_error_set_nth_ne in H.
Qed.

Lemma in_set_nth {A} (i : nat) (x y : A) l : In y (set_nth i x l) -> y = x \/ In y l.
Proof.
  revert i; induction l as [|a l IH]; intros [|i]; simpl; auto.
  - intros [E|H]; auto.
  - intros [E|H]; auto. destruct (IH _ H); auto.
Qed.

(* ------------------------------------------------------------------ heaps *)
Definition hwf (h : heap) : Prop :=
  forall l c j, nth_error h l = Some c -> In (Ref j) c -> j < l.
Definition vfits (n : nat) (v : fval) : Prop := match v with Imm _ => True | Ref l => l < n end.
Definition cfits (n : nat) (c : cell) : Prop := forall j, In (Ref j) c -> j < n.

Inductive reach (h : heap) : loc -> loc -> Prop :=
| reach_refl l : reach h l l
| reach_step l j k c : reach h l j -> nth_error h j = Some c -> In (Ref k) c -> reach h l k.

Definition vreach (h : heap) (v : fval) (k : loc) : Prop :=
  match v with Imm _ => False | Ref l => reach h l k end.
Definition creach (h : heap) (c : cell) (k : loc) : Prop := exists l, In (Ref l) c /\ reach h l k.

Lemma reach_trans h a b c : reach h a b -> reach h b c -> reach h a c.
Proof. intros H1 H2; induction H2; eauto using reach. Qed.

Lemma reach_le h : hwf h -> forall l k, reach h l k -> k <= l.
Proof. intros W l k R; induction R; auto. specialize (W _ _ _ H H0). lia. Qed.

Lemma reach_head h l k : reach h l k -> l = k \/ exists c j, nth_error h l = Some c /\ In (Ref j) c /\ reach h j k.
Proof.
  intros R; induction R; auto.
  destruct IHR as [->|(c0 & j0 & H1 & H2 & H3)].
  - right. exists c, k. repeat split; auto. constructor.
  - right. exists c0, j0. repeat split; auto. econstructor; eauto.
Qed.

(* cells reachable from l are the same in h and h' => same reachability, same value *)
Lemma reach_agree h h' l :
  (forall k, reach h l k -> nth_error h' k = nth_error h k) -> forall k, reach h l k -> reach h' l k.
Proof.
  intros A k R; induction R; [constructor|].
  econstructor; eauto. rewrite A; auto.
Qed.

Lemma value_agree h h' : forall n l,
  (forall k, reach h l k -> nth_error h' k = nth_error h k) ->
  value_f n h' (Ref l) = value_f n h (Ref l).
Proof.
  induction n as [|n IH]; intros l A; simpl; auto.
  rewrite (A l (reach_refl _ _)). destruct (nth_error h l) as [c|] eqn:E; auto.
  f_equal. apply map_ext_in. intros [z|j] Hin; [destruct n; reflexivity|].
  apply IH. intros k R. apply A. eapply reach_trans; [|exact R].
  econstructor; [constructor|exact E|exact Hin].
Qed.

Lemma value_f_imm n h z : value_f n h (Imm z) = TImm z.
Proof. destruct n; reflexivity. Qed.

(* enough fuel: the value does not depend on it *)
Lemma value_f_mono h : hwf h -> forall n m v, vfits n v -> vfits m v -> value_f n h v = value_f m h v.
Proof.
  intros W; induction n as [|n IH]; intros m [z|l] Fn Fm; try (now rewrite !value_f_imm);
    simpl in Fn, Fm; try lia.
  - destruct m as [|m]; [lia|]. simpl. destruct (nth_error h l) as [c|] eqn:E; auto.
    f_equal. apply map_ext_in. intros [z|j] Hin; [now rewrite !value_f_imm|].
    specialize (W _ _ _ E Hin). apply IH; simpl; lia.
Qed.

(* extension of the heap (allocation) does not touch old cells *)
Lemma nth_error_app_old {A} (h ext : list A) l : l < length h -> nth_error (h ++ ext) l = nth_error h l.
Proof. intros; now rewrite nth_error_app1. Qed.

Lemma reach_old h ext : hwf h -> forall l, l < length h -> forall k, reach h l k -> nth_error (h ++ ext) k = nth_error h k.
Proof. intros W l L k R. apply nth_error_app_old. apply (reach_le _ W) in R. lia. Qed.

Lemma reach_ext_iff h ext : hwf h -> forall l, l < length h -> forall k, reach (h ++ ext) l k <-> reach h l k.
Proof.
  intros W l L k; split; intros R.
  - induction R; [constructor|]. specialize (IHR L).
    econstructor; [exact IHR| |exact H0]. rewrite <- H. symmetry. apply nth_error_app_old.
    apply (reach_le _ W) in IHR. lia.
  - eapply reach_agree; [|exact R]. intros; eapply reach_old; eauto.
Qed.

Lemma value_ext h ext : hwf h -> forall n v, vfits (length h) v -> value_f n (h ++ ext) v = value_f n h v.
Proof.
  intros W n [z|l] F; [now rewrite !value_f_imm|]. simpl in F.
  apply value_agree. intros; eapply reach_old; eauto.
Qed.
(* ------------------------------------------------------------------ allocation *)
Section PtreeInd.
  Variable P : ptree -> Prop.
  Hypothesis HI : forall z, P (PImm z).
  Hypothesis HA : forall l, P (PAlias l).
  Hypothesis HN : forall fs, Forall P fs -> P (PNode fs).
  Fixpoint ptree_ind' (p : ptree) : P p :=
    match p with
    | PImm z => HI z
    | PAlias l => HA l
    | PNode fs => HN fs ((fix go (fs : list ptree) : Forall P fs :=
                            match fs with
                            | [] => Forall_nil _
                            | f :: r => Forall_cons _ (ptree_ind' f) (go r)
                            end) fs)
    end.
End PtreeInd.

Lemma alloc_node h fs :
  alloc h (PNode fs) = (fst (alloc_list fs h) ++ [snd (alloc_list fs h)], Ref (length (fst (alloc_list fs h)))).
Proof.
  simpl.
  assert (E : forall fs h, (fix go (fs : list ptree) (h : heap) {struct fs} : heap * list fval :=
                   match fs with
                   | [] => (h, [])
                   | f :: r => let (h1, v) := alloc h f in
                               let (h2, vs) := go r h1 in (h2, v :: vs)
                   end) fs h = alloc_list fs h).
  { induction fs0 as [|f r IH]; intros h0; simpl; auto. }
  now rewrite E.
Qed.

Lemma hwf_snoc h c : hwf h -> cfits (length h) c -> hwf (h ++ [c]).
Proof.
  intros W F l c0 j E Hin. destruct (Nat.lt_ge_cases l (length h)) as [L|L].
  - rewrite nth_error_app1 in E by auto. eauto.
  - rewrite nth_error_app2 in E by auto. destruct (l - length h) as [|d] eqn:D.
    + simpl in E. injection E as <-. apply F in Hin. lia.
    + simpl in E. destruct d; discriminate.
Qed.

Lemma pvalue_ext h ext : hwf h -> forall p, (forall a, In a (paliases p) -> a < length h) ->
  forall n, pvalue n (h ++ ext) p = pvalue n h p.
Proof.
  intros W p; induction p as [z|l|fs IH] using ptree_ind'; intros A n; simpl; auto.
  - destruct n; simpl; auto. rewrite nth_error_app1 by (apply A; simpl; auto).
    destruct (nth_error h l) as [c|] eqn:E; auto. f_equal. apply map_ext_in. intros v Hin.
    apply value_ext; auto. destruct v as [z|j]; simpl; auto.
    specialize (W _ _ _ E Hin). specialize (A l (or_introl eq_refl)). lia.
  - destruct n; auto. f_equal. apply map_ext_in. intros p Hin.
    rewrite Forall_forall in IH. apply IH; auto. intros a Ha. apply A. simpl.
    apply in_flat_map. eauto.
Qed.

Definition alloc_spec (h : heap) (p : ptree) (h' : heap) (v : fval) : Prop :=
  (exists ext, h' = h ++ ext) /\ hwf h' /\ vfits (length h') v /\
  (forall k, vreach h' v k -> length h <= k \/ exists a, In a (paliases p) /\ reach h a k) /\
  (forall n, value_f n h' v = pvalue n h p).

Definition allocs_spec (h : heap) (ps : list ptree) (h' : heap) (vs : list fval) : Prop :=
  (exists ext, h' = h ++ ext) /\ hwf h' /\ cfits (length h') vs /\
  (forall k, creach h' vs k -> length h <= k \/ exists a, In a (flat_map paliases ps) /\ reach h a k) /\
  (forall n, map (value_f n h') vs = map (pvalue n h) ps).

Ltac split5 := split; [|split; [|split; [|split]]].

Definition alloc_ok (p : ptree) : Prop :=
  forall h, hwf h -> (forall a, In a (paliases p) -> a < length h) ->
            alloc_spec h p (fst (alloc h p)) (snd (alloc h p)).

Lemma alloc_list_ok ps : Forall alloc_ok ps ->
  forall h, hwf h -> (forall a, In a (flat_map paliases ps) -> a < length h) ->
            allocs_spec h ps (fst (alloc_list ps h)) (snd (alloc_list ps h)).
Proof.
  induction 1 as [|f r Hf Hr IH]; intros h W A; simpl.
  - split5.
    + exists []. now rewrite app_nil_r.
    + exact W.
    + intros j [].
    + intros k (l & [] & _).
    + reflexivity.
  - assert (Af : forall a, In a (paliases f) -> a < length h) by (intros; apply A; simpl; apply in_or_app; auto).
    assert (Ar : forall a, In a (flat_map paliases r) -> a < length h) by (intros; apply A; simpl; apply in_or_app; auto).
    specialize (Hf h W Af). destruct (alloc h f) as [h1 v]. simpl in Hf.
    destruct Hf as ((e1 & E1) & W1 & F1 & R1 & V1).
    assert (L1 : length h <= length h1) by (rewrite E1, app_length; lia).
    specialize (IH h1 W1 (fun a Ha => Nat.lt_le_trans _ _ _ (Ar a Ha) L1)).
    destruct (alloc_list r h1) as [h2 vs]. simpl in IH |- *.
    destruct IH as ((e2 & E2) & W2 & F2 & R2 & V2).
    assert (L2 : length h1 <= length h2) by (rewrite E2, app_length; lia).
    split5.
    + exists (e1 ++ e2). now rewrite E2, E1, app_assoc.
    + exact W2.
    + intros j [E|Hin]; [|now apply F2]. subst v. simpl in F1. lia.
    + intros k (l & [E|Hin] & Rk).
      * subst v. simpl in F1. rewrite E2 in Rk. apply (reach_ext_iff _ _ W1 _ F1) in Rk.
        destruct (R1 k Rk) as [?|(a & Ha & Ra)]; auto. right. exists a. split; auto. apply in_or_app; auto.
      * destruct (R2 k (ex_intro _ l (conj Hin Rk))) as [?|(a & Ha & Ra)]; [left; lia|].
        right. exists a. split; [apply in_or_app; auto|]. rewrite E1 in Ra.
        apply (reach_ext_iff _ _ W _ (Ar a Ha)) in Ra. exact Ra.
    + intros n. simpl. f_equal.
      * rewrite <- V1. rewrite E2. apply value_ext; auto.
      * rewrite V2. apply map_ext_in. intros p Hin. rewrite E1. apply pvalue_ext; auto.
        intros a Ha. apply Ar. apply in_flat_map. eauto.
Qed.

Lemma alloc_all_ok : forall p, alloc_ok p.
Proof.
  induction p as [z|l|fs IH] using ptree_ind'; intros h W A.
  - simpl. split5; simpl.
    + exists []. now rewrite app_nil_r.
    + exact W.
    + exact I.
    + intros k [].
    + intros n. apply value_f_imm.
  - simpl. split5; simpl.
    + exists []. now rewrite app_nil_r.
    + exact W.
    + apply A. simpl; auto.
    + intros k R. right. exists l. simpl; auto.
    + reflexivity.
  - rewrite alloc_node. simpl fst; simpl snd.
    pose proof (alloc_list_ok fs IH h W A) as S.
    destruct (alloc_list fs h) as [h1 vs]. simpl in S |- *.
    destruct S as ((e1 & E1) & W1 & F1 & R1 & V1).
    assert (Wn : hwf (h1 ++ [vs])) by (apply hwf_snoc; auto).
    split5.
    + exists (e1 ++ [vs]). now rewrite E1, app_assoc.
    + exact Wn.
    + rewrite app_length. simpl. lia.
    + intros k R. apply reach_head in R. destruct R as [<-|(c & j & Ec & Hin & Rj)].
      * left. rewrite E1, app_length. lia.
      * rewrite nth_error_app2, Nat.sub_diag in Ec by lia. simpl in Ec. injection Ec as <-.
        pose proof (F1 _ Hin) as Fj. apply (reach_ext_iff _ _ W1 _ Fj) in Rj.
        apply R1. exists j. auto.
    + intros [|n]; simpl; auto.
      rewrite nth_error_app2, Nat.sub_diag by lia. simpl. f_equal. rewrite <- V1.
      apply map_ext_in. intros v Hin. apply value_ext; auto. destruct v; simpl; auto.
Qed.

Lemma alloc_list_spec ps h : hwf h -> (forall a, In a (flat_map paliases ps) -> a < length h) ->
  allocs_spec h ps (fst (alloc_list ps h)) (snd (alloc_list ps h)).
Proof. apply alloc_list_ok. apply Forall_forall. intros; apply alloc_all_ok. Qed.
(* ------------------------------------------------------------------ state invariants *)
Record Inv (s : state) : Prop := mkInv {
  inv_wf : hwf (hp s);
  inv_dfl : forall d, In d (dfl s) -> d < length (hp s);
  inv_fits : forall rec, In rec (insts s) -> cfits (length (hp s)) rec;
  (* no instance reaches a cell that belongs to a class default *)
  inv_iso : forall rec d k, In rec (insts s) -> In d (dfl s) ->
                            creach (hp s) rec k -> reach (hp s) d k -> False }.

(* SEPARATION: the nested objects of two different instances are disjoint *)
Definition Sep (s : state) : Prop :=
  forall i j ri rj k, i <> j -> nth_error (insts s) i = Some ri -> nth_error (insts s) j = Some rj ->
                      creach (hp s) ri k -> creach (hp s) rj k -> False.

Lemma creach_ext h ext c : hwf h -> cfits (length h) c -> forall k, creach (h ++ ext) c k <-> creach h c k.
Proof.
  intros W F k; split; intros (l & Hin & R); exists l; split; auto;
    apply (reach_ext_iff _ ext W _ (F _ Hin)); auto.
Qed.

Lemma creach_lt h c k : hwf h -> cfits (length h) c -> creach h c k -> k < length h.
Proof. intros W F (l & Hin & R). apply F in Hin. apply (reach_le _ W) in R. lia. Qed.

(* aliases that are harmless for the defaults *)
Definition clean (s : state) (a : loc) : Prop :=
  a < length (hp s) /\ forall d k, In d (dfl s) -> reach (hp s) a k -> reach (hp s) d k -> False.

Lemma alloc_inv s ps insts' :
  Inv s -> (forall a, In a (flat_map paliases ps) -> clean s a) ->
  (forall rec, In rec insts' -> In rec (insts s) \/ rec = snd (alloc_list ps (hp s))) ->
  Inv (mkState (fst (alloc_list ps (hp s))) (dfl s) insts').
Proof.
  intros [W D F I] C Hi.
  destruct (alloc_list_spec ps (hp s) W (fun a Ha => proj1 (C a Ha))) as ((ext & E) & W' & F' & R' & _).
  set (h' := fst (alloc_list ps (hp s))) in *. set (vs := snd (alloc_list ps (hp s))) in *.
  assert (L : length (hp s) <= length h') by (rewrite E, app_length; lia).
  constructor; simpl.
  - exact W'.
  - intros d Hd. specialize (D d Hd). lia.
  - intros rec Hr. destruct (Hi rec Hr) as [Ho| ->]; auto. intros j Hj. specialize (F rec Ho j Hj). lia.
  - intros rec d k Hr Hd Rc Rd. rewrite E in Rd. apply (reach_ext_iff _ _ W _ (D d Hd)) in Rd.
    destruct (Hi rec Hr) as [Ho| ->].
    + rewrite E in Rc. apply (creach_ext _ _ _ W (F rec Ho)) in Rc. eauto.
    + destruct (R' k Rc) as [Lk|(a & Ha & Ra)].
      * apply (reach_le _ W) in Rd. specialize (D d Hd). lia.
      * destruct (C a Ha) as [_ Cl]. eauto.
Qed.

Lemma alloc_values s ps : Inv s -> (forall a, In a (flat_map paliases ps) -> a < length (hp s)) ->
  forall n v, vfits (length (hp s)) v ->
              value_f n (fst (alloc_list ps (hp s))) v = value_f n (hp s) v.
Proof.
  intros [W D F I] C n v Fv.
  destruct (alloc_list_spec ps (hp s) W C) as ((ext & E) & _). rewrite E. apply value_ext; auto.
Qed.

Lemma build_eq s ps : build s ps = mkState (fst (alloc_list ps (hp s))) (dfl s) (insts s ++ [snd (alloc_list ps (hp s))]).
Proof. unfold build. now destruct (alloc_list ps (hp s)). Qed.

Lemma build_inv s ps : Inv s -> (forall a, In a (flat_map paliases ps) -> clean s a) -> Inv (build s ps).
Proof.
  intros HI C. rewrite build_eq. apply alloc_inv; auto.
  intros rec Hin. apply in_app_or in Hin. destruct Hin as [?|[<-|[]]]; auto.
Qed.

Lemma build_sep s ps : Inv s -> Sep s -> flat_map paliases ps = [] -> Sep (build s ps).
Proof.
  intros [W D F I] S A. rewrite build_eq.
  assert (C : forall a, In a (flat_map paliases ps) -> a < length (hp s)) by (rewrite A; intros a []).
  destruct (alloc_list_spec ps (hp s) W C) as ((ext & E) & W' & F' & R' & _).
  set (h' := fst (alloc_list ps (hp s))) in *. set (vs := snd (alloc_list ps (hp s))) in *.
  assert (Old : forall i ri k, nth_error (insts s ++ [vs]) i = Some ri -> i < length (insts s) ->
                               creach h' ri k -> nth_error (insts s) i = Some ri /\ creach (hp s) ri k).
  { intros i ri k Hn Li Rc. rewrite nth_error_app1 in Hn by auto. split; auto.
    rewrite E in Rc. apply (creach_ext _ _ _ W (F _ (nth_error_In _ _ Hn))) in Rc. auto. }
  assert (New : forall i ri k, nth_error (insts s ++ [vs]) i = Some ri -> ~ i < length (insts s) ->
                               creach h' ri k -> length (hp s) <= k).
  { intros i ri k Hn Li Rc. rewrite nth_error_app2 in Hn by lia.
    destruct (i - length (insts s)) as [|[|?]]; simpl in Hn; try discriminate. injection Hn as <-.
    destruct (R' k Rc) as [?|(a & Ha & _)]; auto. rewrite A in Ha. destruct Ha. }
  intros i j ri rj k Nij Hi Hj Ri Rj. simpl in *.
  destruct (lt_dec i (length (insts s))) as [Li|Li], (lt_dec j (length (insts s))) as [Lj|Lj].
  - destruct (Old _ _ _ Hi Li Ri), (Old _ _ _ Hj Lj Rj). eapply S; eauto.
  - destruct (Old _ _ _ Hi Li Ri) as [Hi' Ri']. pose proof (New _ _ _ Hj Lj Rj).
    pose proof (creach_lt _ _ _ W (F _ (nth_error_In _ _ Hi')) Ri'). lia.
  - destruct (Old _ _ _ Hj Lj Rj) as [Hj' Rj']. pose proof (New _ _ _ Hi Li Ri).
    pose proof (creach_lt _ _ _ W (F _ (nth_error_In _ _ Hj')) Rj'). lia.
  - assert (i < length (insts s ++ [vs])) by (apply nth_error_Some; congruence).
    assert (j < length (insts s ++ [vs])) by (apply nth_error_Some; congruence).
    rewrite app_length in *. simpl in *. lia.
Qed.

(* ---- recipes without aliases *)
Lemma of_tree_no_alias t : paliases (of_tree t) = [].
Proof.
  revert t. fix IH 1. intros [z|fs]; simpl; auto.
  induction fs as [|f r IHr]; simpl; auto. now rewrite IH, IHr.
Qed.

Lemma resolve_fresh_no_alias s x : paliases (resolve true true s x) = [].
Proof.
  revert x. fix IH 1. intros [z|fs|k|k]; simpl; auto.
  - induction fs as [|f r IHr]; simpl; auto. now rewrite IH, IHr.
  - destruct (nth_error (dfl s) k); simpl; auto. apply of_tree_no_alias.
  - destruct (nth_error (dfl s) k); simpl; auto. apply of_tree_no_alias.
Qed.

Lemma flat_map_nil {A B} (f : A -> list B) l : (forall x, In x l -> f x = []) -> flat_map f l = [].
Proof. induction l; simpl; auto. intros H. rewrite H, IHl; auto. Qed.

Lemma no_alias_fresh s fs : flat_map paliases (map (resolve true true s) fs) = [].
Proof. apply flat_map_nil. intros p Hp. apply in_map_iff in Hp as (x & <- & _). apply resolve_fresh_no_alias. Qed.

Lemma no_alias_deep h rec : flat_map paliases (map (deep_p h) rec) = [].
Proof. apply flat_map_nil. intros p Hp. apply in_map_iff in Hp as (x & <- & _). apply of_tree_no_alias. Qed.

Lemma clean_nil s ps : flat_map paliases ps = [] -> forall a, In a (flat_map paliases ps) -> clean s a.
Proof. intros -> a []. Qed.

(* ---- writes *)
Definition sub_refs (c' c : cell) : Prop := forall j, In (Ref j) c' -> In (Ref j) c.

Lemma sub_refs_set c k z : sub_refs (set_nth k (Imm z) c) c.
Proof. intros j H. apply in_set_nth in H. destruct H; [discriminate|auto]. Qed.

Lemma creach_sub h c' c k : sub_refs c' c -> creach h c' k -> creach h c k.
Proof. intros S (l & Hin & R). exists l; auto. Qed.

Lemma walk_reach h : forall path l t, walk h l path = Some t -> reach h l t.
Proof.
  induction path as [|i rest IH]; simpl; intros l t H.
  - injection H as <-. constructor.
  - destruct (nth_error h l) as [c|] eqn:E; try discriminate.
    destruct (nth_error c i) as [[z|j]|] eqn:Ei; try discriminate.
    eapply reach_trans; [|apply IH; eauto]. econstructor; [constructor|exact E|]. eapply nth_error_In; eauto.
Qed.

Section HeapWrite.
  Variables (h : heap) (t : loc) (c c' : cell).
  Hypothesis Ht : nth_error h t = Some c.
  Hypothesis Sub : sub_refs c' c.
  Let h' := set_nth t c' h.

  Lemma hw_reach a b : reach h' a b -> reach h a b.
  Proof.
    intros R; induction R; [constructor|]. unfold h' in H. apply nth_error_set_nth in H.
    destruct H as [[-> ->]|[N H]]; econstructor; eauto.
  Qed.

  Lemma hw_wf : hwf h -> hwf h'.
  Proof.
    intros W l c0 j E Hin. unfold h' in E. apply nth_error_set_nth in E.
    destruct E as [[-> ->]|[N E]]; eauto.
  Qed.

  Lemma hw_len : length h' = length h.
  Proof. apply set_nth_length. Qed.

  Lemma hw_frame l : ~ reach h l t -> forall n, value_f n h' (Ref l) = value_f n h (Ref l).
  Proof.
    intros N n. apply value_agree. intros k R. unfold h'. apply nth_error_set_nth_ne. intros ->. auto.
  Qed.

  Lemma hw_creach rec k : creach h' rec k -> creach h rec k.
  Proof. intros (l & Hin & R). exists l. split; auto. apply hw_reach; auto. Qed.
End HeapWrite.

Inductive write_shape (s s' : state) (r : nat) : Prop :=
| ws_same : s' = s -> write_shape s s' r
| ws_top rec rec' : nth_error (insts s) r = Some rec -> sub_refs rec' rec ->
    s' = mkState (hp s) (dfl s) (set_nth r rec' (insts s)) -> write_shape s s' r
| ws_heap rec t c c' : nth_error (insts s) r = Some rec -> creach (hp s) rec t ->
    nth_error (hp s) t = Some c -> sub_refs c' c ->
    s' = mkState (set_nth t c' (hp s)) (dfl s) (insts s) -> write_shape s s' r.

Lemma write_gen_shape_ok s r path f : (forall c, sub_refs (f c) c) -> write_shape s (write_gen s r path f) r.
Proof.
  intros Hf. unfold write_gen. destruct (nth_error (insts s) r) as [rec|] eqn:Er; [|now apply ws_same].
  destruct path as [|i rest].
  - eapply ws_top; eauto.
  - destruct (nth_error rec i) as [[z0|l]|] eqn:Ei; try now apply ws_same.
    destruct (walk (hp s) l rest) as [t|] eqn:Ew; [|now apply ws_same].
    destruct (nth_error (hp s) t) as [c|] eqn:Et; [|now apply ws_same].
    eapply ws_heap; eauto.
    exists l. split; [eapply nth_error_In; eauto|eapply walk_reach; eauto].
Qed.

Lemma write_shape_ok s r path k z : write_shape s (write s r path k z) r.
Proof. apply write_gen_shape_ok. intros c. apply sub_refs_set. Qed.

(* in-place list operations only ever DROP references or add immutable values *)
Lemma in_removelast {A} (x : A) l : In x (removelast l) -> In x l.
Proof.
  induction l as [|a l IH]; simpl; auto. destruct l as [|b l]; [intros []|].
  intros [E|H]; auto.
Qed.

Lemma sub_refs_mut m c : sub_refs (mut_cell m c) c.
Proof.
  destruct m as [z| |]; intros j H; simpl in H.
  - apply in_app_or in H as [H|[H|[]]]; auto. discriminate.
  - now apply in_removelast.
  - destruct H.
Qed.

Lemma mutate_shape_ok s r path m : write_shape s (mutate s r path m) r.
Proof. apply write_gen_shape_ok. intros c. apply sub_refs_mut. Qed.

Lemma write_inv s s' r : write_shape s s' r -> Inv s -> Inv s'.
Proof.
  intros [->|rec rec' Er Sub ->|rec t c c' Er Rt Et Sub ->] [W D F I]; [constructor; auto| |].
  - constructor; simpl; auto.
    + intros x Hx. apply in_set_nth in Hx. destruct Hx as [->|Hx]; auto.
      intros j Hj. eapply F; [eapply nth_error_In; eauto|auto].
    + intros x d k Hx Hd Rc Rd. apply in_set_nth in Hx. destruct Hx as [->|Hx]; eauto.
      eapply I; [eapply nth_error_In; exact Er|exact Hd| |exact Rd]. eapply creach_sub; eauto.
  - constructor; simpl.
    + eapply hw_wf; eauto.
    + intros d Hd. rewrite set_nth_length. auto.
    + intros x Hx. rewrite set_nth_length. auto.
    + intros x d k Hx Hd Rc Rd. eapply I; [exact Hx|exact Hd| |].
      * eapply hw_creach; eauto.
      * eapply hw_reach; eauto.
Qed.

Lemma write_sep s s' r : write_shape s s' r -> Sep s -> Sep s'.
Proof.
  intros [->|rec rec' Er Sub ->|rec t c c' Er Rt Et Sub ->] S; auto.
  - intros i j ri rj k Nij Hi Hj Ri Rj. simpl in *.
    apply nth_error_set_nth in Hi. apply nth_error_set_nth in Hj.
    destruct Hi as [[<- ->]|[Ni Hi]], Hj as [[<- ->]|[Nj Hj]]; try congruence.
    + eapply (S r j); eauto. eapply creach_sub; eauto.
    + eapply (S i r); eauto. eapply creach_sub; eauto.
    + eapply (S i j); eauto.
  - intros i j ri rj k Nij Hi Hj Ri Rj. simpl in *.
    eapply (S i j); eauto; eapply hw_creach; eauto.
Qed.

(* a write through instance r leaves the cells of every default and of every other instance alone *)
Lemma write_default_frame s s' r : write_shape s s' r -> Inv s ->
  forall d n, In d (dfl s) -> value_f n (hp s') (Ref d) = value_f n (hp s) (Ref d).
Proof.
  intros [->|rec rec' Er Sub ->|rec t c c' Er Rt Et Sub ->] [W D F I] d n Hd; auto.
  simpl. eapply hw_frame; eauto. intros Rd. eapply I; eauto. eapply nth_error_In; eauto.
Qed.

Lemma write_inst_frame s s' r : write_shape s s' r -> Sep s ->
  forall r' n, r' <> r -> inst_values n s' r' = inst_values n s r'.
Proof.
  intros [->|rec rec' Er Sub ->|rec t c c' Er Rt Et Sub ->] S r' n N; auto; unfold inst_values; simpl.
  - rewrite nth_error_set_nth_ne by auto. reflexivity.
  - destruct (nth_error (insts s) r') as [rec0|] eqn:E0; simpl; auto. f_equal.
    apply map_ext_in. intros [z|l] Hin; [now rewrite !value_f_imm|].
    eapply hw_frame; eauto. intros Rl. eapply (S r' r); eauto. exists l; auto.
Qed.
(* ------------------------------------------------------------------ one step *)
Definition update_state (m : umode) (s : state) (dst : nat) (ov : list (option Z)) (rec : cell) : state :=
  mkState (fst (alloc_list (upd_list m (hp s) ov rec) (hp s))) (dfl s)
          (set_nth dst (snd (alloc_list (upd_list m (hp s) ov rec) (hp s))) (insts s)).

Lemma step_update c s dst src ov : step c s (OUpdate dst src ov) =
  match nth_error (insts s) dst, nth_error (insts s) src with
  | Some _, Some rec => update_state (upd c) s dst ov rec
  | _, _ => s
  end.
Proof.
  simpl. destruct (nth_error (insts s) dst); auto. destruct (nth_error (insts s) src) as [rec|]; auto.
  unfold update_state. now destruct (alloc_list (upd_list (upd c) (hp s) ov rec) (hp s)).
Qed.

Lemma upd_list_aliases m h : forall rec ov a,
  In a (flat_map paliases (upd_list m h ov rec)) -> In a (flat_map paliases (map (upd_p m h) rec)).
Proof.
  induction rec as [|v r IH]; intros ov a Ha; simpl in *; auto.
  destruct ov as [|[z|] ro]; simpl in Ha.
  - apply in_app_or in Ha as [Ha|Ha]; apply in_or_app; eauto.
  - apply in_or_app; eauto.
  - apply in_app_or in Ha as [Ha|Ha]; apply in_or_app; eauto.
Qed.

(* whatever the copy mode of update_from_other_container: the aliases it creates point into the SOURCE instance
   (never into a class default) *)
Lemma shallow_aliases m s ov rec a : Inv s -> In rec (insts s) ->
  In a (flat_map paliases (upd_list m (hp s) ov rec)) -> clean s a.
Proof.
  intros [W D F I] Hr Ha. apply upd_list_aliases in Ha. apply in_flat_map in Ha as (p & Hp & Ha).
  apply in_map_iff in Hp as ([z|l] & <- & Hl); [destruct m; simpl in Ha; try (unfold deep_p in Ha; rewrite value_f_imm in Ha; simpl in Ha); destruct Ha|].
  destruct m; simpl in Ha.
  - (* UAlias: the member object itself *)
    destruct Ha as [<-|[]]. pose proof (F _ Hr _ Hl) as Ll. split; auto.
    intros d k Hd Rk Rd. eapply I; [exact Hr|exact Hd| |exact Rd]. exists l; auto.
  - (* UShallow: the objects one level below *)
    destruct (nth_error (hp s) l) as [c|] eqn:E; simpl in Ha; [|destruct Ha].
    apply in_flat_map in Ha as (q & Hq & Ha). apply in_map_iff in Hq as ([z|j] & <- & Hj); simpl in Ha; [destruct Ha|].
    destruct Ha as [<-|[]].
    pose proof (W _ _ _ E Hj) as Ljl. pose proof (F _ Hr _ Hl) as Ll.
    split; [lia|]. intros d k Hd Rk Rd. eapply I; [exact Hr|exact Hd| |exact Rd].
    exists l. split; auto. eapply reach_trans; [|exact Rk]. econstructor; [constructor|exact E|exact Hj].
  - (* UDeep: none *)
    unfold deep_p in Ha. now rewrite of_tree_no_alias in Ha.
Qed.

Lemma upd_deep_no_alias h ov rec : flat_map paliases (upd_list UDeep h ov rec) = [].
Proof.
  destruct (flat_map paliases (upd_list UDeep h ov rec)) as [|a r] eqn:E; auto.
  assert (Ha : In a (flat_map paliases (upd_list UDeep h ov rec))) by (rewrite E; simpl; auto).
  apply upd_list_aliases in Ha. apply in_flat_map in Ha as (p & Hp & Ha).
  apply in_map_iff in Hp as (v & <- & _). simpl in Ha. unfold deep_p in Ha. now rewrite of_tree_no_alias in Ha.
Qed.

Lemma step_dfl c s o : dfl (step c s o) = dfl s.
Proof.
  destruct o as [fs|fs|r|r|dst src ov|r path k z|r path m]; try rewrite step_update; simpl;
    rewrite ?build_eq; simpl; auto.
  - destruct (nth_error (insts s) r); auto. destruct (mkcopy_deep c); rewrite ?build_eq; auto.
  - destruct (nth_error (insts s) r); rewrite ?build_eq; auto.
  - destruct (nth_error (insts s) dst); auto. destruct (nth_error (insts s) src); auto.
  - destruct (write_shape_ok s r path k z) as [->|? ? ? ? ->|? ? ? ? ? ? ? ? ->]; auto.
  - destruct (mutate_shape_ok s r path m) as [->|? ? ? ? ->|? ? ? ? ? ? ? ? ->]; auto.
Qed.

Lemma step_inv c s o : parse_fresh c = true -> arg_fresh c = true -> Inv s -> Inv (step c s o).
Proof.
  intros PF AF HI. destruct o as [fs|fs|r|r|dst src ov|r path k z|r path m]; try rewrite step_update; simpl.
  - rewrite AF. apply build_inv; auto. apply clean_nil, no_alias_fresh.
  - rewrite PF, AF. apply build_inv; auto. apply clean_nil, no_alias_fresh.
  - destruct (nth_error (insts s) r) as [rec|] eqn:Er; auto. destruct (mkcopy_deep c).
    + apply build_inv; auto. apply clean_nil, no_alias_deep.
    + destruct HI as [W D F I]. apply nth_error_In in Er. constructor; simpl; auto.
      * intros x Hx. apply in_app_or in Hx as [Hx|[<-|[]]]; auto.
      * intros x d k Hx. apply in_app_or in Hx as [Hx|[<-|[]]]; eauto.
  - destruct (nth_error (insts s) r) as [rec|] eqn:Er; auto.
    apply build_inv; auto. apply clean_nil, no_alias_deep.
  - destruct (nth_error (insts s) dst) as [rd|] eqn:Ed; auto.
    destruct (nth_error (insts s) src) as [rec|] eqn:Es; auto.
    apply alloc_inv; auto.
    + intros a Ha. eapply shallow_aliases; eauto. eapply nth_error_In; eauto.
    + intros x Hx. apply in_set_nth in Hx. destruct Hx; auto.
  - eapply write_inv; eauto using write_shape_ok.
  - eapply write_inv; eauto using mutate_shape_ok.
Qed.

Lemma step_sep c s o : parse_fresh c = true -> mkcopy_deep c = true -> arg_fresh c = true ->
  is_update o = false -> Inv s -> Sep s -> Sep (step c s o).
Proof.
  intros PF MD AF NU HI S. destruct o as [fs|fs|r|r|dst src ov|r path k z|r path m]; simpl; try discriminate.
  - rewrite AF. apply build_sep; auto. apply no_alias_fresh.
  - rewrite PF, AF. apply build_sep; auto. apply no_alias_fresh.
  - destruct (nth_error (insts s) r) as [rec|] eqn:Er; auto. rewrite MD.
    apply build_sep; auto. apply no_alias_deep.
  - destruct (nth_error (insts s) r) as [rec|] eqn:Er; auto.
    apply build_sep; auto. apply no_alias_deep.
  - eapply write_sep; eauto using write_shape_ok.
  - eapply write_sep; eauto using mutate_shape_ok.
Qed.

(* allocation of an alias-free record that REPLACES (or extends by) the record at position p *)
Lemma alloc_sep s ps insts' p :
  Inv s -> Sep s -> flat_map paliases ps = [] ->
  (forall i ri, nth_error insts' i = Some ri ->
     (i <> p /\ nth_error (insts s) i = Some ri) \/ (i = p /\ ri = snd (alloc_list ps (hp s)))) ->
  Sep (mkState (fst (alloc_list ps (hp s))) (dfl s) insts').
Proof.
  intros [W D F I] S A Hi.
  assert (C : forall a, In a (flat_map paliases ps) -> a < length (hp s)) by (rewrite A; intros a []).
  destruct (alloc_list_spec ps (hp s) W C) as ((ext & E) & W' & F' & R' & _).
  set (h' := fst (alloc_list ps (hp s))) in *. set (vs := snd (alloc_list ps (hp s))) in *.
  assert (Old : forall i ri k, nth_error insts' i = Some ri -> i <> p ->
                               creach h' ri k -> nth_error (insts s) i = Some ri /\ creach (hp s) ri k).
  { intros i ri k Hn Np Rc. destruct (Hi _ _ Hn) as [[_ Ho]|[Ep _]]; [|congruence]. split; auto.
    rewrite E in Rc. apply (creach_ext _ _ _ W (F _ (nth_error_In _ _ Ho))) in Rc. auto. }
  assert (New : forall i ri k, nth_error insts' i = Some ri -> i = p -> creach h' ri k -> length (hp s) <= k).
  { intros i ri k Hn Ep Rc. destruct (Hi _ _ Hn) as [[Np _]|[_ ->]]; [congruence|].
    destruct (R' k Rc) as [?|(a & Ha & _)]; auto. rewrite A in Ha. destruct Ha. }
  intros i j ri rj k Nij Hi' Hj Ri Rj. simpl in *.
  destruct (Nat.eq_dec i p) as [Ei|Ni], (Nat.eq_dec j p) as [Ej|Nj].
  - congruence.
  - pose proof (New _ _ _ Hi' Ei Ri). destruct (Old _ _ _ Hj Nj Rj) as [Hj' Rj'].
    pose proof (creach_lt _ _ _ W (F _ (nth_error_In _ _ Hj')) Rj'). lia.
  - pose proof (New _ _ _ Hj Ej Rj). destruct (Old _ _ _ Hi' Ni Ri) as [Hi'' Ri'].
    pose proof (creach_lt _ _ _ W (F _ (nth_error_In _ _ Hi'')) Ri'). lia.
  - destruct (Old _ _ _ Hi' Ni Ri), (Old _ _ _ Hj Nj Rj). eapply (S i j); eauto.
Qed.

(* with a DEEP-copying update_from_other_container every operation keeps the instances separated *)
Lemma step_sep_deep c s o : parse_fresh c = true -> mkcopy_deep c = true -> arg_fresh c = true ->
  upd c = UDeep -> Inv s -> Sep s -> Sep (step c s o).
Proof.
  intros PF MD AF UD HI S. destruct (is_update o) eqn:U; [|now apply step_sep].
  destruct o as [fs|fs|r|r|dst src ov|r path k z|r path m]; try discriminate.
  rewrite step_update, UD.
  destruct (nth_error (insts s) dst) as [rd|] eqn:Ed; auto.
  destruct (nth_error (insts s) src) as [rec|] eqn:Es; auto.
  apply (alloc_sep s _ _ dst); auto using upd_deep_no_alias.
  intros i ri Hn. apply nth_error_set_nth in Hn. destruct Hn as [[<- ->]|[N Hn]]; auto.
Qed.

Lemma aliases_lt s ps : (forall a, In a (flat_map paliases ps) -> clean s a) ->
  forall a, In a (flat_map paliases ps) -> a < length (hp s).
Proof. intros C a Ha. apply (C a Ha). Qed.

Lemma step_default_frame c s o : parse_fresh c = true -> arg_fresh c = true -> Inv s ->
  forall d n, In d (dfl s) -> value_f n (hp (step c s o)) (Ref d) = value_f n (hp s) (Ref d).
Proof.
  intros PF AF HI d n Hd. pose proof (inv_dfl _ HI d Hd) as Ld.
  assert (B : forall ps, flat_map paliases ps = [] ->
                         value_f n (hp (build s ps)) (Ref d) = value_f n (hp s) (Ref d)).
  { intros ps A. rewrite build_eq. simpl. apply alloc_values; auto. rewrite A. intros a []. }
  destruct o as [fs|fs|r|r|dst src ov|r path k z|r path m]; try rewrite step_update; simpl.
  - rewrite AF. apply B, no_alias_fresh.
  - rewrite PF, AF. apply B, no_alias_fresh.
  - destruct (nth_error (insts s) r) as [rec|]; auto. destruct (mkcopy_deep c); auto. apply B, no_alias_deep.
  - destruct (nth_error (insts s) r) as [rec|]; auto. apply B, no_alias_deep.
  - destruct (nth_error (insts s) dst) as [rd|] eqn:Ed; auto.
    destruct (nth_error (insts s) src) as [rec|] eqn:Es; auto.
    simpl. apply alloc_values; auto. apply aliases_lt. intros a Ha.
    eapply shallow_aliases; eauto. eapply nth_error_In; eauto.
  - eapply write_default_frame; eauto using write_shape_ok.
  - eapply write_default_frame; eauto using mutate_shape_ok.
Qed.

Lemma step_inst_frame c s o r' n : parse_fresh c = true -> arg_fresh c = true -> Inv s -> Sep s ->
  target o <> Some r' -> r' < length (insts s) ->
  inst_values n (step c s o) r' = inst_values n s r'.
Proof.
  intros PF AF HI S T L.
  assert (B : forall ps, flat_map paliases ps = [] -> inst_values n (build s ps) r' = inst_values n s r').
  { intros ps A. rewrite build_eq. unfold inst_values. simpl. rewrite nth_error_app1 by auto.
    destruct (nth_error (insts s) r') as [rec|] eqn:E; simpl; auto. f_equal.
    apply map_ext_in. intros v Hv. apply alloc_values; auto.
    - rewrite A. intros a [].
    - pose proof (inv_fits _ HI _ (nth_error_In _ _ E)) as Fr. destruct v; simpl; auto. }
  destruct o as [fs|fs|r|r|dst src ov|r path k z|r path m]; try rewrite step_update; simpl.
  - rewrite AF. apply B, no_alias_fresh.
  - rewrite PF, AF. apply B, no_alias_fresh.
  - destruct (nth_error (insts s) r) as [rec|]; auto. destruct (mkcopy_deep c); [apply B, no_alias_deep|].
    unfold inst_values. simpl. now rewrite nth_error_app1 by auto.
  - destruct (nth_error (insts s) r) as [rec|]; auto. apply B, no_alias_deep.
  - destruct (nth_error (insts s) dst) as [rd|] eqn:Ed; auto.
    destruct (nth_error (insts s) src) as [rec|] eqn:Es; auto.
    unfold inst_values. simpl. rewrite nth_error_set_nth_ne by (simpl in T; congruence).
    destruct (nth_error (insts s) r') as [rec0|] eqn:E; simpl; auto. f_equal.
    apply map_ext_in. intros v Hv. apply alloc_values; auto.
    + apply aliases_lt. intros a Ha. eapply shallow_aliases; eauto. eapply nth_error_In; eauto.
    + pose proof (inv_fits _ HI _ (nth_error_In _ _ E)) as Fr. destruct v; simpl; auto.
  - eapply write_inst_frame; eauto using write_shape_ok. simpl in T. congruence.
  - eapply write_inst_frame; eauto using mutate_shape_ok. simpl in T. congruence.
Qed.

(* ------------------------------------------------------------------ histories *)
Lemma init_eq ds : init ds = mkState (fst (alloc_list (map of_tree ds) [])) (ref_locs (snd (alloc_list (map of_tree ds) []))) [].
Proof. unfold init. now destruct (alloc_list (map of_tree ds) []). Qed.

Lemma init_inv ds : Inv (init ds) /\ Sep (init ds).
Proof.
  rewrite init_eq. split.
  - assert (W0 : hwf []) by (intros l c j E; destruct l; discriminate).
    assert (A : flat_map paliases (map of_tree ds) = []).
    { apply flat_map_nil. intros p Hp. apply in_map_iff in Hp as (x & <- & _). apply of_tree_no_alias. }
    destruct (alloc_list_spec (map of_tree ds) [] W0) as (_ & W & F & _).
    { rewrite A. intros a []. }
    constructor; simpl; auto.
    + intros d Hd. apply F. unfold ref_locs in Hd. apply in_flat_map in Hd as ([z|l] & Hv & Hd); simpl in Hd.
      * destruct Hd.
      * destruct Hd as [<-|[]]. exact Hv.
    + intros rec [].
  - intros i j ri rj k _ Hi. simpl in Hi. destruct i; discriminate.
Qed.

Lemma run_snoc c s ops o : run c s (ops ++ [o]) = step c (run c s ops) o.
Proof. unfold run. now rewrite fold_left_app. Qed.

Lemma run_inv c : parse_fresh c = true -> arg_fresh c = true -> forall ops s, Inv s -> Inv (run c s ops).
Proof. intros PF AF; induction ops as [|o ops IH]; simpl; intros s HI; auto. apply IH. apply step_inv; auto. Qed.

Lemma run_dfl c : forall ops s, dfl (run c s ops) = dfl s.
Proof. induction ops as [|o ops IH]; simpl; intros s; auto. rewrite IH. apply step_dfl. Qed.

Lemma run_sep c : parse_fresh c = true -> mkcopy_deep c = true -> arg_fresh c = true ->
  forall ops s, no_update ops -> Inv s -> Sep s -> Sep (run c s ops).
Proof.
  intros PF MD AF; induction ops as [|o ops IH]; simpl; intros s NU HI S; auto.
  unfold no_update in NU. simpl in NU. apply andb_prop in NU as [N1 N2].
  apply negb_true_iff in N1. apply IH; auto using step_inv, step_sep.
Qed.

Lemma run_sep_deep c : parse_fresh c = true -> mkcopy_deep c = true -> arg_fresh c = true -> upd c = UDeep ->
  forall ops s, Inv s -> Sep s -> Sep (run c s ops).
Proof.
  intros PF MD AF UD; induction ops as [|o ops IH]; simpl; intros s HI S; auto.
  apply IH; auto using step_inv, step_sep_deep.
Qed.

Lemma run_default_frame c : parse_fresh c = true -> arg_fresh c = true -> forall ops s, Inv s ->
  forall d n, In d (dfl s) -> value_f n (hp (run c s ops)) (Ref d) = value_f n (hp s) (Ref d).
Proof.
  intros PF AF; induction ops as [|o ops IH]; simpl; intros s HI d n Hd; auto.
  rewrite IH; auto using step_inv.
  - apply step_default_frame; auto.
  - now rewrite step_dfl.
Qed.

(* ---- a freshly constructed object has the same value whenever it is constructed *)
Lemma pvalue_no_alias p : paliases p = [] -> forall n h h', pvalue n h p = pvalue n h' p.
Proof.
  induction p as [z|l|fs IH] using ptree_ind'; simpl; intros A n h h'; auto; try discriminate.
  destruct n; auto. f_equal. apply map_ext_in. intros p Hp. rewrite Forall_forall in IH.
  apply IH; auto. destruct (paliases p) as [|a r] eqn:E; auto.
  assert (In a (flat_map paliases fs)) by (apply in_flat_map; exists p; rewrite E; simpl; auto).
  rewrite A in H. destruct H.
Qed.

Lemma resolve_same s s0 : Inv s -> Inv s0 -> dfl s = dfl s0 -> length (hp s0) <= length (hp s) ->
  (forall d n, In d (dfl s0) -> value_f n (hp s) (Ref d) = value_f n (hp s0) (Ref d)) ->
  forall x, resolve true true s x = resolve true true s0 x.
Proof.
  intros HI HI0 ED L V. fix IH 1. intros [z|fs|k|k]; simpl; auto.
  - f_equal. induction fs as [|f r IHr]; simpl; auto. now rewrite IH, IHr.
  - rewrite ED. destruct (nth_error (dfl s0) k) as [d|] eqn:E; auto.
    unfold deep_p. f_equal. apply nth_error_In in E. rewrite V by auto.
    apply value_f_mono; [apply HI0| |]; simpl; pose proof (inv_dfl _ HI0 d E); lia.
  - rewrite ED. destruct (nth_error (dfl s0) k) as [d|] eqn:E; auto.
    unfold deep_p. f_equal. apply nth_error_In in E. rewrite V by auto.
    apply value_f_mono; [apply HI0| |]; simpl; pose proof (inv_dfl _ HI0 d E); lia.
Qed.

Lemma last_values_build s ps n : Inv s -> flat_map paliases ps = [] ->
  last_values n (build s ps) = Some (map (pvalue n (hp s)) ps).
Proof.
  intros HI A. rewrite build_eq. unfold last_values, inst_values. simpl.
  rewrite app_length. simpl. replace (length (insts s) + 1 - 1) with (length (insts s)) by lia.
  rewrite nth_error_app2, Nat.sub_diag by lia. simpl. f_equal.
  destruct (alloc_list_spec ps (hp s) (inv_wf _ HI)) as (_ & _ & _ & _ & V); auto.
  rewrite A. intros a [].
Qed.
Lemma alloc_len : forall p h, length h <= length (fst (alloc h p)).
Proof.
  induction p as [z|l|fs IH] using ptree_ind'; intros h; [simpl; auto|simpl; auto|].
  rewrite alloc_node. simpl fst. rewrite app_length. simpl.
  assert (forall h, length h <= length (fst (alloc_list fs h))).
  { clear h. induction IH as [|f r Hf Hr IHr]; intros h; simpl; auto.
    specialize (Hf h). destruct (alloc h f) as [h1 v]. specialize (IHr h1).
    destruct (alloc_list r h1) as [h2 vs]. simpl in *. lia. }
  specialize (H h). lia.
Qed.

Lemma alloc_list_len : forall ps h, length h <= length (fst (alloc_list ps h)).
Proof.
  induction ps as [|f r IH]; intros h; simpl; auto.
  pose proof (alloc_len f h). destruct (alloc h f) as [h1 v]. specialize (IH h1).
  destruct (alloc_list r h1) as [h2 vs]. simpl in *. lia.
Qed.

Lemma step_len c s o : length (hp s) <= length (hp (step c s o)).
Proof.
  destruct o as [fs|fs|r|r|dst src ov|r path k z|r path m]; try rewrite step_update; simpl;
    rewrite ?build_eq; simpl; auto using alloc_list_len.
  - destruct (nth_error (insts s) r); auto. destruct (mkcopy_deep c); rewrite ?build_eq; simpl; auto using alloc_list_len.
  - destruct (nth_error (insts s) r); rewrite ?build_eq; simpl; auto using alloc_list_len.
  - destruct (nth_error (insts s) dst); auto. destruct (nth_error (insts s) src); simpl; auto using alloc_list_len.
  - destruct (write_shape_ok s r path k z) as [->|? ? ? ? ->|? ? ? ? ? ? ? ? ->]; simpl; auto.
    rewrite set_nth_length. auto.
  - destruct (mutate_shape_ok s r path m) as [->|? ? ? ? ->|? ? ? ? ? ? ? ? ->]; simpl; auto.
    rewrite set_nth_length. auto.
Qed.

Lemma run_len c : forall ops s, length (hp s) <= length (hp (run c s ops)).
Proof.
  induction ops as [|o ops IH]; simpl; intros s; auto.
  specialize (IH (step c s o)). pose proof (step_len c s o). lia.
Qed.

(* ================================================================== main results *)

(* SEPARATION FRAME: under separation, an operation aimed at one instance (or at none) -- construct, parse,
   copy, update, write, in-place list operation -- leaves the value of every other instance as it was. *)
Theorem separation_frame c s o r' n : parse_fresh c = true -> arg_fresh c = true -> Inv s -> Sep s ->
  target o <> Some r' -> r' < length (insts s) ->
  inst_values n (step c s o) r' = inst_values n s r'.
Proof. apply step_inst_frame. Qed.

Theorem reachable_inv c ds ops : parse_fresh c = true -> arg_fresh c = true -> Inv (run c (init ds) ops).
Proof. intros PF AF. apply run_inv; auto. apply init_inv. Qed.

Theorem reachable_sep c ds ops : parse_fresh c = true -> mkcopy_deep c = true -> arg_fresh c = true ->
  no_update ops -> Sep (run c (init ds) ops).
Proof. intros PF MD AF NU. apply run_sep; auto; apply init_inv. Qed.

(* a separated heap stays separated under EVERY operation sequence once update copies deeply *)
Theorem reachable_sep_deep c ds ops : parse_fresh c = true -> mkcopy_deep c = true -> arg_fresh c = true ->
  upd c = UDeep -> Sep (run c (init ds) ops).
Proof. intros PF MD AF UD. apply run_sep_deep; auto; apply init_inv. Qed.

Theorem sep_preserved c s ops : parse_fresh c = true -> mkcopy_deep c = true -> arg_fresh c = true ->
  (upd c = UDeep \/ no_update ops) -> Inv s -> Sep s -> Inv (run c s ops) /\ Sep (run c s ops).
Proof.
  intros PF MD AF [UD|NU] HI S; split; auto using run_inv, run_sep, run_sep_deep.
Qed.

Theorem defaults_constant c ds ops k n : parse_fresh c = true -> arg_fresh c = true ->
  default_value n (run c (init ds) ops) k = default_value n (init ds) k.
Proof.
  intros PF AF. unfold default_value. rewrite run_dfl.
  destruct (nth_error (dfl (init ds)) k) as [d|] eqn:E; simpl; auto. f_equal.
  apply run_default_frame; auto. apply init_inv. eapply nth_error_In; eauto.
Qed.

Theorem new_constant c ds ops fs n : parse_fresh c = true -> arg_fresh c = true ->
  last_values n (step c (run c (init ds) ops) (ONew fs)) = last_values n (step c (init ds) (ONew fs)).
Proof.
  intros PF AF. simpl. rewrite AF. set (s0 := init ds). set (s := run c s0 ops).
  assert (HI0 : Inv s0) by apply init_inv.
  assert (HI : Inv s) by (apply run_inv; auto).
  rewrite !last_values_build by auto using no_alias_fresh. f_equal.
  rewrite !map_map. apply map_ext. intros x.
  rewrite (resolve_same s s0); auto.
  - apply pvalue_no_alias. apply resolve_fresh_no_alias.
  - apply run_dfl.
  - apply run_len.
  - intros d m Hd. apply run_default_frame; auto.
Qed.

Theorem instances_independent ds ops o r' n : no_update ops -> target o <> Some r' ->
  r' < length (insts (run fixed (init ds) ops)) ->
  inst_values n (step fixed (run fixed (init ds) ops) o) r' = inst_values n (run fixed (init ds) ops) r'.
Proof.
  intros NU T L. apply separation_frame; auto.
  - apply reachable_inv; auto.
  - apply reachable_sep; auto.
Qed.

(* with a deep-copying update the restriction on the history disappears *)
Theorem instances_independent_deep ds ops o r' n : target o <> Some r' ->
  r' < length (insts (run fixed_deep (init ds) ops)) ->
  inst_values n (step fixed_deep (run fixed_deep (init ds) ops) o) r' = inst_values n (run fixed_deep (init ds) ops) r'.
Proof.
  intros T L. apply separation_frame; auto.
  - apply reachable_inv; auto.
  - apply reachable_sep_deep; auto.
Qed.

(* ------------------------------------------------------------------ what fails without the repairs *)
(* today's parse: the absent member IS the class default; writing through the parsed instance changes
   the default, and with it every instance constructed later *)
Definition wit_parse_ds : list tree := [TNode [TImm 1; TImm 2]].
Definition wit_parse_ops : list op := [OParse [XImm 5; XDefault 0]; OWrite 0 [1] 0 7].

Lemma parse_default_refuted :
  default_value 3 (run today (init wit_parse_ds) wit_parse_ops) 0 = Some (TNode [TImm 7; TImm 2]) /\
  default_value 3 (init wit_parse_ds) 0 = Some (TNode [TImm 1; TImm 2]) /\
  last_values 3 (step today (run today (init wit_parse_ds) wit_parse_ops) (ONew [XImm 0; XDefault 0]))
    = Some [TImm 0; TNode [TImm 7; TImm 2]] /\
  check_C12 today wit_parse_ds wit_parse_ops = false /\
  check_C12 fixed wit_parse_ds wit_parse_ops = true.
Proof. vm_compute. repeat split. Qed.

(* today's mk_copy (copy.copy): a nested write on the copy changes the original *)
Definition wit_copy_ops : list op := [ONew [XImm 5; XDefault 0]; OCopy 0; OWrite 1 [1] 0 7].

Lemma shallow_refuted :
  inst_values 3 (run today (init wit_parse_ds) wit_copy_ops) 0 = Some [TImm 5; TNode [TImm 7; TImm 2]] /\
  inst_values 3 (run fixed (init wit_parse_ds) wit_copy_ops) 0 = Some [TImm 5; TNode [TImm 1; TImm 2]] /\
  check_C12 today wit_parse_ds wit_copy_ops = false /\
  check_C12 fixed wit_parse_ds wit_copy_ops = true.
Proof. vm_compute. repeat split. Qed.

(* update_from_other_container copies one level only (unchanged by the repairs): below that level source
   and destination share -- this is why [instances_independent] excludes OUpdate from the history *)
Definition wit_update_ops : list op :=
  [ONew [XNode [XNode [XImm 1]]]; ONew [XNode []]; OUpdate 1 0 []; OWrite 1 [0; 0] 0 9].

Lemma update_shares :
  inst_values 4 (run fixed (init []) wit_update_ops) 0 = Some [TNode [TNode [TImm 9]]] /\
  check_C12 fixed [] wit_update_ops = false.
Proof. vm_compute. repeat split. Qed.

(* update that hands the member objects over by reference (lists are not XMLTypeBase values): an in-place
   append on the destination's list shows up in the source *)
Definition wit_byref_ops : list op :=
  [ONew [XNode [XImm 1]]; ONew [XNode []]; OUpdate 1 0 []; OMut 1 [0] (MAppend 9)].

Lemma update_byref_refuted :
  inst_values 3 (run byref_update (init []) wit_byref_ops) 0 = Some [TNode [TImm 1; TImm 9]] /\
  inst_values 3 (run fixed (init []) wit_byref_ops) 0 = Some [TNode [TImm 1]] /\
  check_C12 byref_update [] wit_byref_ops = false /\
  check_C12 fixed [] wit_byref_ops = true.
Proof. vm_compute. repeat split. Qed.

(* a constructor that stores its mutable default ARGUMENT: all instances built without that argument hold the
   one list object; an in-place append on one changes the others, every later cls() and the default itself *)
Definition wit_arg_ds : list tree := [TNode []].
Definition wit_arg_ops : list op := [ONew [XImm 5; XArg 0]; ONew [XImm 6; XArg 0]; OMut 0 [1] (MAppend 7)].

Lemma shared_arg_refuted :
  inst_values 3 (run shared_arg (init wit_arg_ds) wit_arg_ops) 1 = Some [TImm 6; TNode [TImm 7]] /\
  default_value 3 (run shared_arg (init wit_arg_ds) wit_arg_ops) 0 = Some (TNode [TImm 7]) /\
  last_values 3 (step shared_arg (run shared_arg (init wit_arg_ds) wit_arg_ops) (ONew [XImm 0; XArg 0]))
    = Some [TImm 0; TNode [TImm 7]] /\
  last_values 3 (step shared_arg (init wit_arg_ds) (ONew [XImm 0; XArg 0])) = Some [TImm 0; TNode []] /\
  check_C12 shared_arg wit_arg_ds wit_arg_ops = false /\
  check_C12 fixed wit_arg_ds wit_arg_ops = true.
Proof. vm_compute. repeat split. Qed.
