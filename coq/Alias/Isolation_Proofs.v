(* Alias/Isolation_Proofs.v -- whole-history isolation: an instance that no operation of a history targets
   keeps its value through the WHOLE history (C03: a handed-out copy and the stored object). *)
From Coq Require Import List ZArith Lia.
From SDC Require Import Alias.Model Alias.Proofs.
Import ListNotations.

Lemma set_nth_len' {A} (i : nat) (x : A) l : length (set_nth i x l) = length l.
Proof. apply set_nth_length. Qed.

Lemma write_gen_insts_len s r path f : length (insts (write_gen s r path f)) = length (insts s).
Proof.
  unfold write_gen. destruct (nth_error (insts s) r) as [rec|]; auto.
  destruct path as [|i rest]; simpl; [apply set_nth_length|].
  destruct (nth_error rec i) as [[z|l]|]; auto.
  destruct (walk (hp s) l rest) as [t|]; auto.
  destruct (nth_error (hp s) t); auto.
Qed.

Lemma step_insts_len c s o : length (insts s) <= length (insts (step c s o)).
Proof.
  destruct o as [fs|fs|r|r|dst src ov|r path k z|r path m]; simpl.
  - rewrite build_eq; simpl. rewrite app_length; simpl; lia.
  - rewrite build_eq; simpl. rewrite app_length; simpl; lia.
  - destruct (nth_error (insts s) r); auto. destruct (mkcopy_deep c); rewrite ?build_eq; simpl;
      rewrite app_length; simpl; lia.
  - destruct (nth_error (insts s) r); auto. rewrite build_eq; simpl. rewrite app_length; simpl; lia.
  - destruct (nth_error (insts s) dst); auto. destruct (nth_error (insts s) src); auto.
    destruct (alloc_list _ _). simpl. rewrite set_nth_length. lia.
  - unfold write. rewrite write_gen_insts_len. lia.
  - unfold mutate. rewrite write_gen_insts_len. lia.
Qed.

Lemma no_update_snoc ops o : no_update ops -> is_update o = false -> no_update (ops ++ [o]).
Proof. unfold no_update. intros H E. rewrite forallb_app, H. simpl. now rewrite E. Qed.

Lemma no_update_cons o ops : no_update (o :: ops) -> is_update o = false /\ no_update ops.
Proof.
  unfold no_update. simpl. intros H. apply andb_prop in H. destruct H as [H1 H2]. split; auto.
  now destruct (is_update o).
Qed.

Lemma run_snoc c s ops o : run c s (ops ++ [o]) = step c (run c s ops) o.
Proof. unfold run. now rewrite fold_left_app. Qed.

(* the instance r' that no operation of [rest] targets keeps its value through all of [rest] *)
Theorem untargeted_instance_constant ds n r' : forall rest ops,
  no_update ops -> no_update rest -> Forall (fun o => target o <> Some r') rest ->
  r' < length (insts (run fixed (init ds) ops)) ->
  inst_values n (run fixed (init ds) (ops ++ rest)) r' = inst_values n (run fixed (init ds) ops) r'.
Proof.
  induction rest as [|o rest IH]; intros ops NU NR FT L.
  - now rewrite app_nil_r.
  - apply no_update_cons in NR. destruct NR as [Eo NR]. inversion FT as [|? ? To FT']; subst.
    replace (ops ++ o :: rest) with ((ops ++ [o]) ++ rest) by (now rewrite <- app_assoc).
    rewrite IH; auto.
    + rewrite run_snoc. now apply instances_independent.
    + now apply no_update_snoc.
    + rewrite run_snoc. eapply Nat.lt_le_trans; [exact L|apply step_insts_len].
Qed.

(* handing out a copy of a valid instance appends exactly one instance *)
Lemma copy_appends ds ops r : r < length (insts (run fixed (init ds) ops)) ->
  length (insts (run fixed (init ds) (ops ++ [OCopy r]))) = S (length (insts (run fixed (init ds) ops))).
Proof.
  intros L. rewrite run_snoc. simpl.
  destruct (nth_error (insts (run fixed (init ds) ops)) r) as [rec|] eqn:E.
  - rewrite build_eq. simpl. rewrite app_length. simpl. lia.
  - apply nth_error_None in E. lia.
Qed.

(* (a) the stored object r is out of reach of whatever the application does with the copy it was handed *)
Theorem handed_out_copy_isolated ds ops r app n :
  no_update ops -> no_update app -> Forall (fun o => target o <> Some r) app ->
  r < length (insts (run fixed (init ds) ops)) ->
  inst_values n (run fixed (init ds) (ops ++ OCopy r :: app)) r = inst_values n (run fixed (init ds) ops) r.
Proof.
  intros NU NA FT L. apply untargeted_instance_constant; [exact NU| |constructor; [simpl; discriminate|exact FT]|exact L].
  unfold no_update in *. simpl. exact NA.
Qed.

(* (b) the copy is a snapshot: later writes to the stored object (or to anything but the copy) do not show in it *)
Theorem handed_out_copy_stable ds ops r later n :
  no_update ops -> no_update later ->
  r < length (insts (run fixed (init ds) ops)) ->
  Forall (fun o => target o <> Some (length (insts (run fixed (init ds) ops)))) later ->
  inst_values n (run fixed (init ds) (ops ++ OCopy r :: later)) (length (insts (run fixed (init ds) ops))) =
  inst_values n (run fixed (init ds) (ops ++ [OCopy r])) (length (insts (run fixed (init ds) ops))).
Proof.
  intros NU NL L FT.
  replace (ops ++ OCopy r :: later) with ((ops ++ [OCopy r]) ++ later) by (now rewrite <- app_assoc).
  apply untargeted_instance_constant; [now apply no_update_snoc|exact NL|exact FT|].
  rewrite copy_appends by exact L. lia.
Qed.
