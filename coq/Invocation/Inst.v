(* The model instantiated with the constants read from the source (Gen_Consts.v), and the
   functions evaluated by the correspondence check.  Definitions only. *)
From Coq Require Import List ZArith Bool.
From SDC Require Import Common.Corr Invocation.Model Invocation.Gen_Consts.
Import ListNotations.
Open Scope Z_scope.

Definition dresp_gen : istate -> istate := tbl_get direct_resp_table.
Definition pstep_gen := pstep sco_queue_cap dresp_gen direct_raise_resp sco_full_queue_loses_wait.
Definition prun_gen := prun sco_queue_cap dresp_gen direct_raise_resp sco_full_queue_loses_wait.
Definition pversions_gen := pversions sco_queue_cap dresp_gen direct_raise_resp sco_full_queue_loses_wait.

Definition completing_gen : istate -> bool := in_states consumer_completing.
Definition nonfinal_gen : istate -> bool := in_states consumer_nonfinal.
Definition cstep_gen := cstep recent_cap consumer_keeps_early_parts completing_gen nonfinal_gen.
Definition crun_gen := crun recent_cap consumer_keeps_early_parts completing_gen nonfinal_gen.

(* the code as found, before the repairs proposed in fixes/C09_*.diff: direct processing answers Fin
   whatever the handler returned; a completing response drops the parts that arrived before it *)
Definition prun_orig := prun sco_queue_cap (fun _ => Fin) Fail false.
(* an enqueue that swallows queue.Full: the request is answered Wait, nothing is queued *)
Definition prun_lostwait := prun sco_queue_cap dresp_gen direct_raise_resp true.
Definition crun_orig := crun recent_cap false completing_gen nonfinal_gen.
(* a notification handler that buffers the parts of unknown transactions after it has left the critical section *)
Definition urun_gen := urun recent_cap consumer_keeps_early_parts completing_gen nonfinal_gen.

(* the claim about report parts received before the response is made for this many parts; the buffer found in the
   source may be larger, not smaller *)
Definition pinned_recent_cap : nat := 50%nat.

(* what the generated constants have to satisfy for the theorems (checked by computation) *)
Definition gen_ok : bool :=
  forallb (fun s => implb (final s) (st_eqb (dresp_gen s) s)) all_states
  && st_eqb direct_raise_resp Fail
  && forallb (fun s => implb (completing_gen s) (final s)) all_states
  && forallb (fun s => Bool.eqb (nonfinal_gen s) (negb (final s))) all_states
  && consumer_keeps_early_parts && txid_under_lock && consumer_state_under_lock
  && negb sco_full_queue_loses_wait && consumer_restart_fresh_manager
  && (pinned_recent_cap <=? recent_cap)%nat
  && (0 <? Z.of_nat recent_cap) && (0 <? Z.of_nat sco_queue_cap).

(* ---- provider correspondence.  The harness steps the real worker with two operations: a request, or
        "let the handler that waits at the gate finish"; the real worker takes the next queued operation as
        soon as it is free, hence the EvTake after each.
        (last id, MdibVersion, ops) -> (responses, report parts, MdibVersion after every op,
                                       number of report parts sent during every op) *)
Inductive hop := HReq (r : req) | HFinish.
Definition hop_events (h : hop) : list pevent :=
  match h with HReq r => [EvReq r; EvTake] | HFinish => [EvFinish; EvTake] end.
Fixpoint hrun (s : pstate) (hs : list hop) : list (list pout * Z) :=
  match hs with
  | [] => []
  | h :: r => let '(s1, o1) := prun_gen s (hop_events h) in (o1, p_mv s1) :: hrun s1 r
  end.
Definition prov_obs : Type := list (list Z) * list (list Z) * list Z * list Z.
Definition run_prov (c : Z * Z * list hop) : prov_obs :=
  let '(n, mv, hs) := c in
  let l := hrun (pinit n mv) hs in
  let o := flat_map fst l in
  (enc_resps o, enc_parts o, map snd l, map (fun x => Z.of_nat (length (enc_parts (fst x)))) l).
Definition prov_eqb (a b : prov_obs) : bool :=
  let '(a1, a2, a3, a4) := a in let '(b1, b2, b3, b4) := b in
  zll_eqb a1 b1 && zll_eqb a2 b2 && zl_eqb a3 b3 && zl_eqb a4 b4.
(* boolean twin of C09_legal_sequence on the same inputs *)
Definition check_prov (c : Z * Z * list hop) : bool :=
  let '(n, mv, hs) := c in
  let '(s, o) := prun_gen (pinit n mv) (flat_map hop_events hs) in
  forallb (fun x => check_tx o (quiescent s) (fst x)) (p_hist s).
(* observation and twin in one evaluation *)
Definition run_prov2 (c : Z * Z * list hop) : prov_obs * bool := (run_prov c, check_prov c).
Definition prov2_eqb (a b : prov_obs * bool) : bool := prov_eqb (fst a) (fst b) && Bool.eqb (snd a) (snd b).
(* concurrent stream: responses and report parts only (the requests in the order of their ids) *)
Definition run_prov_lite (c : Z * Z * list hop) : list (list Z) * list (list Z) :=
  let '(r, p, _, _) := run_prov c in (r, p).
Definition lite_eqb (a b : list (list Z) * list (list Z)) : bool :=
  zll_eqb (fst a) (fst b) && zll_eqb (snd a) (snd b).

(* ---- consumer correspondence: events -> (completions, pending, recent) *)
Definition run_cons (es : list cevent) : list (list Z) * list (list Z) * list Z :=
  enc_cstate (crun_gen cinit es).
Definition cons_eqb (a b : list (list Z) * list (list Z) * list Z) : bool :=
  zll_eqb (fst (fst a)) (fst (fst b)) && zll_eqb (snd (fst a)) (snd (fst b)) && zl_eqb (snd a) (snd b).
