(* The model instantiated with the constants read from the source (Gen_Consts.v), and the
   functions evaluated by the correspondence check.  Definitions only. *)
From Coq Require Import List ZArith Bool.
From SDC Require Import Common.Corr Invocation.Model Invocation.Gen_Consts.
Import ListNotations.
Open Scope Z_scope.

Definition dresp_gen : istate -> istate := tbl_get direct_resp_table.
Definition pstep_gen := pstep sco_queue_cap dresp_gen direct_raise_resp.
Definition prun_gen := prun sco_queue_cap dresp_gen direct_raise_resp.
Definition pversions_gen := pversions sco_queue_cap dresp_gen direct_raise_resp.

Definition completing_gen : istate -> bool := in_states consumer_completing.
Definition nonfinal_gen : istate -> bool := in_states consumer_nonfinal.
Definition cstep_gen := cstep recent_cap consumer_keeps_early_parts completing_gen nonfinal_gen.
Definition crun_gen := crun recent_cap consumer_keeps_early_parts completing_gen nonfinal_gen.

(* the code as found, before the repairs proposed in fixes/C09_*.diff: direct processing answers Fin
   whatever the handler returned; a completing response drops the parts that arrived before it *)
Definition prun_orig := prun sco_queue_cap (fun _ => Fin) Fail.
Definition crun_orig := crun recent_cap false completing_gen nonfinal_gen.

(* what the generated constants have to satisfy for the theorems (checked by computation) *)
Definition gen_ok : bool :=
  forallb (fun s => implb (final s) (st_eqb (dresp_gen s) s)) all_states
  && st_eqb direct_raise_resp Fail
  && forallb (fun s => implb (completing_gen s) (final s)) all_states
  && forallb (fun s => Bool.eqb (nonfinal_gen s) (negb (final s))) all_states
  && consumer_keeps_early_parts && txid_under_lock
  && (0 <? Z.of_nat recent_cap) && (0 <? Z.of_nat sco_queue_cap).

(* ---- provider correspondence: (first id - 1, first MdibVersion, events) ->
        (responses, report parts, MdibVersion after every event, boolean twin of the theorems) *)
Definition run_prov (c : Z * Z * list pevent) : list (list Z) * list (list Z) * list Z :=
  let '(n, mv, es) := c in
  let '(s, o) := prun_gen (pinit n mv) es in
  (enc_resps o, enc_parts o, pversions_gen (pinit n mv) es).
Definition prov_eqb (a b : list (list Z) * list (list Z) * list Z) : bool :=
  zll_eqb (fst (fst a)) (fst (fst b)) && zll_eqb (snd (fst a)) (snd (fst b)) && zl_eqb (snd a) (snd b).
Definition check_prov (c : Z * Z * list pevent) : bool :=
  let '(n, mv, es) := c in
  let '(s, o) := prun_gen (pinit n mv) es in
  forallb (fun x => check_tx o (quiescent s) (fst x)) (p_hist s).

(* ---- consumer correspondence: events -> (completions, pending, recent) *)
Definition run_cons (es : list cevent) : list (list Z) * list (list Z) * list Z :=
  enc_cstate (crun_gen cinit es).
Definition cons_eqb (a b : list (list Z) * list (list Z) * list Z) : bool :=
  zll_eqb (fst (fst a)) (fst (fst b)) && zll_eqb (snd (fst a)) (snd (fst b)) && zl_eqb (snd a) (snd b).
