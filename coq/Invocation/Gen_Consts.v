(* GENERATED on every run by harness/impl/gen_invocation_consts.py from
   src/sdc11073/provider/sco.py, provider/providerimpl.py, consumer/operations.py -- do not edit. *)
From Coq Require Import List ZArith Bool.
From SDC Require Import Invocation.Model.
Import ListNotations.
Definition sco_queue_cap : nat := 10%nat.
Definition recent_cap : nat := 50%nat.
Definition direct_resp_table : list (istate * istate) :=
  [(Wait, Wait); (Start, Start); (Cnclld, Cnclld); (CnclldMan, CnclldMan); (Fin, Fin); (FinMod, FinMod); (Fail, Fail)].
Definition direct_raise_resp : istate := Fail.
Definition consumer_completing : list istate := [Cnclld; CnclldMan; Fail].
Definition consumer_nonfinal : list istate := [Wait; Start].
Definition consumer_keeps_early_parts : bool := true.
Definition txid_under_lock : bool := true.
Definition consumer_state_under_lock : bool := true.
Definition sco_full_queue_loses_wait : bool := false.
Definition consumer_restart_fresh_manager : bool := true.
