(* Proofs about the invocation model (property C09). *)
From Coq Require Import List ZArith Bool Lia ZifyBool Sorted.
From SDC Require Import Invocation.Model.
Import ListNotations.
Open Scope Z_scope.

(* ------------------------------------------------------------------ small facts *)
Lemma st_eqb_refl s : st_eqb s s = true.
Proof. destruct s; reflexivity. Qed.
Lemma st_eqb_eq a b : st_eqb a b = true -> a = b.
Proof. destruct a, b; simpl; intros; try reflexivity; discriminate. Qed.

Lemma resp_of_app id a b : resp_of id (a ++ b) = resp_of id a ++ resp_of id b.
Proof. unfold resp_of. apply flat_map_app. Qed.
Lemma parts_of_app id a b : parts_of id (a ++ b) = parts_of id a ++ parts_of id b.
Proof. unfold parts_of. apply flat_map_app. Qed.
Lemma resp_ids_app a b : resp_ids (a ++ b) = resp_ids a ++ resp_ids b.
Proof. unfold resp_ids. apply flat_map_app. Qed.

Lemma zseq_app a n m : zseq a (n + m) = zseq a n ++ zseq (a + Z.of_nat n) m.
Proof.
  revert a; induction n as [|n IH]; intros a; simpl.
  - now rewrite Z.add_0_r.
  - rewrite IH. do 3 f_equal. lia.
Qed.
Lemma zseq_lower a n x : In x (zseq a n) -> a <= x < a + Z.of_nat n.
Proof.
  revert a; induction n as [|n IH]; intros a; simpl; [tauto|].
  intros [E | H]; [lia|]. apply IH in H. lia.
Qed.
Lemma zseq_sorted a n : StronglySorted Z.lt (zseq a n).
Proof.
  revert a; induction n as [|n IH]; intros a; simpl; constructor; auto.
  apply Forall_forall. intros x H. apply zseq_lower in H. lia.
Qed.
Lemma zseq_nodup a n : NoDup (zseq a n).
Proof.
  revert a; induction n as [|n IH]; intros a; simpl; constructor; auto.
  intros H. apply zseq_lower in H. lia.
Qed.

(* ------------------------------------------------------------------ provider *)
Section ProviderProofs.
  Variable qcap : nat.
  Variable dresp : istate -> istate.
  Variable rresp : istate.
  (* a full queue refuses: all provider results are about the code in which queue.Full is not swallowed *)
  Notation pstep := (pstep qcap dresp rresp false).
  Notation prun := (prun qcap dresp rresp false).

  Lemma prun_app s a b :
    prun s (a ++ b) =
    let '(s1, o1) := prun s a in let '(s2, o2) := prun s1 b in (s2, o1 ++ o2).
  Proof.
    revert s; induction a as [|e a IH]; intros s; simpl.
    - destruct (prun s b); reflexivity.
    - destruct (pstep s e) as [s1 o1]. rewrite IH.
      destruct (prun s1 a) as [s2 o2]. destruct (prun s2 b) as [s3 o3].
      now rewrite app_assoc.
  Qed.

  (* --- transaction ids: every request gets the next number, whatever else happens *)
  Lemma pstep_ids s e :
    match e with
    | EvReq _ => resp_ids (snd (pstep s e)) = [p_next s + 1] /\ p_next (fst (pstep s e)) = p_next s + 1
    | _ => resp_ids (snd (pstep s e)) = [] /\ p_next (fst (pstep s e)) = p_next s
    end.
  Proof.
    destruct e as [r| |]; simpl.
    - destruct (r_known r); simpl; [|auto].
      destruct (r_direct r); simpl; [auto|].
      destruct (qcap <=? length (p_queue s))%nat; simpl; auto.
    - destruct (p_cur s) as [[i r]|]; simpl; auto.
      destruct (p_queue s) as [|[i r] q]; simpl; auto.
    - destruct (p_cur s) as [[i r]|]; simpl; auto.
  Qed.

  Lemma prun_ids es : forall s,
    resp_ids (snd (prun s es)) = zseq (p_next s + 1) (count_reqs es) /\
    p_next (fst (prun s es)) = p_next s + Z.of_nat (count_reqs es).
  Proof.
    induction es as [|e es IH]; intros s; simpl.
    - split; [reflexivity|lia].
    - pose proof (pstep_ids s e) as H.
      destruct (pstep s e) as [s1 o1] eqn:E1. simpl in H.
      specialize (IH s1). destruct (prun s1 es) as [s2 o2] eqn:E2. simpl in *.
      rewrite resp_ids_app.
      destruct e; destruct H as [Ha Hb]; destruct IH as [Hc Hd]; rewrite Ha, Hc, Hd, Hb; simpl; split;
        try reflexivity; try lia.
  Qed.

  (* --- the invariant that ties every transaction to its outputs *)
  Definition inq (id : Z) (q : list (Z * req)) : bool := existsb (fun x => fst x =? id) q.
  Definition iscur (id : Z) (c : option (Z * req)) : bool :=
    match c with Some (i, _) => i =? id | None => false end.
  Definition is_some {A} (x : option A) : bool := match x with Some _ => true | None => false end.

  Definition exp_parts (s : pstate) (id : Z) (r : req) (acc : bool) : list part :=
    if negb (r_known r) then []
    else if r_direct r then [final_part id r]
    else if negb acc then []
    else if inq id (p_queue s) then []
    else if iscur id (p_cur s) then [progress_part id r Wait; progress_part id r Start]
    else [progress_part id r Wait; progress_part id r Start; final_part id r].

  Definition wait_info (id : Z) : info := mkInfo id Wait ENone false.

  Definition exp_resp (id : Z) (r : req) (x : option info) : Prop :=
    if negb (r_known r) then x = Some (mkInfo id Fail Inv true)
    else if r_direct r then
      x = Some (mkInfo id (match r_out r with Returns st => dresp st | Raises => rresp end) ENone false)
    else x = None \/ x = Some (wait_info id).

  Definition work_ok (s : pstate) (o : list pout) (id : Z) (r : req) : Prop :=
    In (id, r) (p_hist s) /\ r_known r = true /\ r_direct r = false /\
    resp_of id o = [Some (wait_info id)].

  Record pinv (s : pstate) (o : list pout) : Prop := {
    inv_hist_le : forall id r, In (id, r) (p_hist s) -> id <= p_next s;
    inv_hist_nodup : NoDup (map fst (p_hist s));
    inv_q : forall id r, In (id, r) (p_queue s) -> work_ok s o id r;
    inv_cur : forall id r, p_cur s = Some (id, r) -> work_ok s o id r;
    inv_q_nodup : NoDup (map fst (p_queue s));
    inv_cur_notq : forall id r, p_cur s = Some (id, r) -> inq id (p_queue s) = false;
    inv_tx : forall id r, In (id, r) (p_hist s) ->
             exists x, resp_of id o = [x] /\ exp_resp id r x /\ parts_of id o = exp_parts s id r (is_some x);
    inv_fresh : forall id, p_next s < id -> resp_of id o = [] /\ parts_of id o = [];
    inv_execd : forall id, In id (p_execd s) -> exists r, In (id, r) (p_hist s) /\ r_known r = true
  }.

  Lemma pinv_init n mv : pinv (pinit n mv) [].
  Proof.
    constructor; simpl; try tauto; try constructor; try discriminate; auto.
  Qed.

  Lemma inq_false_notin id q : inq id q = false -> ~ In id (map fst q).
  Proof.
    unfold inq. induction q as [|[i r] q IH]; simpl; [tauto|].
    intros H. apply orb_false_iff in H as [H1 H2]. intros [E|E]; [lia|]. now apply IH.
  Qed.
  Lemma notin_inq_false id q : ~ In id (map fst q) -> inq id q = false.
  Proof.
    unfold inq. induction q as [|[i r] q IH]; simpl; [reflexivity|].
    intros H. apply orb_false_iff. split; [|apply IH; tauto].
    destruct (i =? id) eqn:E; [|reflexivity]. exfalso. apply H. left. lia.
  Qed.
  Lemma inq_app id q x : inq id (q ++ [x]) = inq id q || (fst x =? id).
  Proof. unfold inq. rewrite existsb_app. simpl. now rewrite orb_false_r. Qed.
  Lemma in_inq id r q : In (id, r) q -> inq id q = true.
  Proof.
    unfold inq. intros H. apply existsb_exists. exists (id, r). split; [assumption|simpl; lia].
  Qed.

  Lemma hist_fun (h : list (Z * req)) id r1 r2 :
    NoDup (map fst h) -> In (id, r1) h -> In (id, r2) h -> r1 = r2.
  Proof.
    induction h as [|[i r] h IH]; simpl; [tauto|].
    intros N H1 H2. inversion N as [|? ? Hn N']; subst.
    destruct H1 as [E1|H1], H2 as [E2|H2].
    - congruence.
    - inversion E1; subst. exfalso. apply Hn. now apply (in_map fst) in H2.
    - inversion E2; subst. exfalso. apply Hn. now apply (in_map fst) in H1.
    - auto.
  Qed.

  (* outputs of one step mention one transaction only *)
  Lemma resp_of_other id id' x : id' <> id -> resp_of id [OResp id' x] = [].
  Proof. intros H. unfold resp_of. simpl. destruct (id' =? id) eqn:E; [lia|reflexivity]. Qed.
  Lemma parts_of_other id p : i_id (p_info p) <> id -> parts_of id [OPart p] = [].
  Proof. intros H. unfold parts_of. simpl. destruct (i_id (p_info p) =? id) eqn:E; [lia|reflexivity]. Qed.

  Lemma final_part_id id r : i_id (p_info (final_part id r)) = id.
  Proof. unfold final_part. destruct (r_out r); reflexivity. Qed.

  Lemma exp_parts_same s s' id r acc :
    inq id (p_queue s') = inq id (p_queue s) -> iscur id (p_cur s') = iscur id (p_cur s) ->
    exp_parts s' id r acc = exp_parts s id r acc.
  Proof. unfold exp_parts. intros -> ->. reflexivity. Qed.

  Lemma nodup_snoc (l : list Z) x : NoDup l -> ~ In x l -> NoDup (l ++ [x]).
  Proof.
    induction l as [|y l IH]; simpl; intros N H.
    - repeat constructor. simpl. tauto.
    - inversion N as [|? ? Hy N']; subst. constructor.
      + intros Hin. apply in_app_or in Hin as [Hin|[E|[]]]; [contradiction|]. subst. tauto.
      + apply IH; tauto.
  Qed.

  (* a request: the new state differs from the old one as described by (a)-(e) *)
  Lemma pinv_req s o s' new r x :
    let id' := p_next s + 1 in
    pinv s o ->
    p_next s' = id' -> p_hist s' = p_hist s ++ [(id', r)] -> p_cur s' = p_cur s ->
    (p_queue s' = p_queue s \/
     (p_queue s' = p_queue s ++ [(id', r)] /\ r_known r = true /\ r_direct r = false /\ x = Some (wait_info id'))) ->
    resp_of id' new = [x] -> exp_resp id' r x -> parts_of id' new = exp_parts s' id' r (is_some x) ->
    (forall id, id <> id' -> resp_of id new = [] /\ parts_of id new = []) ->
    (p_execd s' = p_execd s \/ (p_execd s' = p_execd s ++ [id'] /\ r_known r = true)) ->
    pinv s' (o ++ new).
  Proof.
    intros id' I Hn Hh Hc Hq Hr Her Hp Hoth Hex.
    assert (Hnew : forall i r0, In (i, r0) (p_hist s) -> i <> id').
    { intros i r0 H. apply (inv_hist_le _ _ I) in H. unfold id'. lia. }
    destruct (inv_fresh _ _ I id' ltac:(unfold id'; lia)) as [Hfr Hfp].
    assert (Hqnew : ~ In id' (map fst (p_queue s))).
    { intros H. apply in_map_iff in H as [[i r0] [E H]]. simpl in E. subst i.
      apply (inv_q _ _ I) in H. destruct H as [H _]. now apply Hnew in H. }
    assert (Hold : forall id, id <> id' ->
              resp_of id (o ++ new) = resp_of id o /\ parts_of id (o ++ new) = parts_of id o).
    { intros id Hd. rewrite resp_of_app, parts_of_app. destruct (Hoth id Hd) as [-> ->].
      now rewrite !app_nil_r. }
    assert (Hinq : forall id, id <> id' -> inq id (p_queue s') = inq id (p_queue s)).
    { intros id Hd. destruct Hq as [->|[-> _]]; [reflexivity|]. rewrite inq_app. simpl.
      destruct (id' =? id) eqn:E; [lia|]. now rewrite orb_false_r. }
    assert (Hwork : forall id r0, work_ok s o id r0 -> work_ok s' (o ++ new) id r0).
    { intros id r0 (Ha & Hb & Hc' & Hd). pose proof (Hnew _ _ Ha) as Hne.
      split; [rewrite Hh; apply in_or_app; now left|]. repeat split; auto.
      now rewrite (proj1 (Hold id Hne)). }
    constructor.
    - intros i r0 H. rewrite Hh in H. apply in_app_or in H as [H|[H|[]]].
      + apply (inv_hist_le _ _ I) in H. lia.
      + inversion H. lia.
    - rewrite Hh, map_app. simpl. apply nodup_snoc; [apply (inv_hist_nodup _ _ I)|].
      intros H. apply in_map_iff in H as [[i r0] [E H]]. simpl in E. subst i. now apply Hnew in H.
    - intros id r0 H. destruct Hq as [Hq|(Hq & Hk & Hd & Hx)]; rewrite Hq in H.
      + apply Hwork. now apply (inv_q _ _ I).
      + apply in_app_or in H as [H|[H|[]]]; [apply Hwork; now apply (inv_q _ _ I)|].
        inversion H; subst id r0. split; [rewrite Hh; apply in_or_app; right; now left|].
        repeat split; auto. rewrite resp_of_app, Hfr, Hr, Hx. reflexivity.
    - intros id r0 H. rewrite Hc in H. apply Hwork. now apply (inv_cur _ _ I).
    - destruct Hq as [->|[-> _]]; [apply (inv_q_nodup _ _ I)|].
      rewrite map_app. simpl. apply nodup_snoc; [apply (inv_q_nodup _ _ I)|assumption].
    - intros id r0 H. rewrite Hc in H. pose proof (inv_cur_notq _ _ I _ _ H) as Hn'.
      destruct (inv_cur _ _ I _ _ H) as [Hin _]. apply Hnew in Hin. now rewrite Hinq.
    - intros id r0 H. rewrite Hh in H. apply in_app_or in H as [H|[H|[]]].
      + pose proof (Hnew _ _ H) as Hne. destruct (inv_tx _ _ I _ _ H) as (x0 & Ha & Hb & Hc').
        exists x0. destruct (Hold id Hne) as [-> ->]. repeat split; auto.
        rewrite Hc'. symmetry. apply exp_parts_same; [now apply Hinq|now rewrite Hc].
      + inversion H; subst id r0. exists x. rewrite resp_of_app, parts_of_app, Hfr, Hfp, Hr, Hp. auto.
    - intros id H. rewrite Hn in H. assert (Hd : id <> id') by lia.
      destruct (Hold id Hd) as [-> ->]. apply (inv_fresh _ _ I). unfold id' in H. lia.
    - intros id H. destruct Hex as [Hex|[Hex Hk]]; rewrite Hex in H.
      + destruct (inv_execd _ _ I _ H) as (r0 & Ha & Hb). exists r0. split; [|assumption].
        rewrite Hh. apply in_or_app. now left.
      + apply in_app_or in H as [H|[H|[]]].
        * destruct (inv_execd _ _ I _ H) as (r0 & Ha & Hb). exists r0. split; [|assumption].
          rewrite Hh. apply in_or_app. now left.
        * subst id. exists r. split; [|assumption]. rewrite Hh. apply in_or_app. right. now left.
  Qed.

  Lemma resp_of_parts_only id o ps : resp_of id (o ++ map OPart ps) = resp_of id o.
  Proof.
    rewrite resp_of_app. replace (resp_of id (map OPart ps)) with (@nil (option info)); [now rewrite app_nil_r|].
    induction ps; simpl; auto.
  Qed.

  Lemma work_ok_parts s s' o ps id r :
    p_hist s' = p_hist s -> work_ok s o id r -> work_ok s' (o ++ map OPart ps) id r.
  Proof.
    intros Hh (Ha & Hb & Hc & Hd). split; [now rewrite Hh|]. repeat split; auto.
    now rewrite resp_of_parts_only.
  Qed.

  Lemma pinv_take s o id0 r0 q :
    pinv s o -> p_cur s = None -> p_queue s = (id0, r0) :: q ->
    pinv (mkP (p_next s) q (Some (id0, r0)) (p_mv s) (p_execd s) (p_hist s))
         (o ++ map OPart [progress_part id0 r0 Wait; progress_part id0 r0 Start]).
  Proof.
    intros I Hc Hq.
    assert (W0 : work_ok s o id0 r0). { apply (inv_q _ _ I). rewrite Hq. now left. }
    pose proof (inv_q_nodup _ _ I) as N. rewrite Hq in N. simpl in N.
    inversion N as [|? ? Hn0 N']; subst.
    constructor; cbn [p_hist p_queue p_cur p_next p_execd p_mv].
    - apply (inv_hist_le _ _ I).
    - apply (inv_hist_nodup _ _ I).
    - intros id r H. apply (work_ok_parts s); [reflexivity|]. apply (inv_q _ _ I). rewrite Hq. now right.
    - intros id r H. inversion H; subst. now apply (work_ok_parts s).
    - assumption.
    - intros id r H. inversion H; subst. now apply notin_inq_false.
    - intros id r H. destruct (inv_tx _ _ I _ _ H) as (x & Ha & Hb & Hd).
      exists x. rewrite resp_of_parts_only. repeat split; auto.
      rewrite parts_of_app, Hd. destruct (Z.eq_dec id id0) as [E|E].
      + subst id. destruct W0 as (Hin & Hk & Hdir & Hr).
        assert (r = r0) by apply (hist_fun (p_hist s) id0 r r0 (inv_hist_nodup _ _ I) H Hin). subst r.
        rewrite Hr in Ha. inversion Ha; subst x.
        unfold exp_parts. rewrite Hk, Hdir, Hq. simpl. rewrite Z.eqb_refl. simpl.
        now rewrite (notin_inq_false _ _ Hn0).
      + match goal with |- _ ++ ?t = _ => replace t with (@nil part) end.
        2:{ unfold parts_of. simpl. destruct (id0 =? id) eqn:E'; [lia|reflexivity]. }
        rewrite app_nil_r. apply exp_parts_same; simpl.
        * rewrite Hq. simpl. destruct (id0 =? id) eqn:E'; [lia|reflexivity].
        * rewrite Hc. simpl. destruct (id0 =? id) eqn:E'; [lia|reflexivity].
    - intros id H. rewrite resp_of_parts_only, parts_of_app.
      destruct (inv_fresh _ _ I id H) as [-> ->]. split; [reflexivity|].
      destruct W0 as (Hin & _). apply (inv_hist_le _ _ I) in Hin.
      unfold parts_of. simpl. destruct (id0 =? id) eqn:E'; [lia|reflexivity].
    - apply (inv_execd _ _ I).
  Qed.

  Lemma pinv_finish s o id0 r0 :
    pinv s o -> p_cur s = Some (id0, r0) ->
    pinv (mkP (p_next s) (p_queue s) None (p_mv s + r_dv r0) (p_execd s ++ [id0]) (p_hist s))
         (o ++ map OPart [final_part id0 r0]).
  Proof.
    intros I Hc.
    assert (W0 : work_ok s o id0 r0) by now apply (inv_cur _ _ I).
    pose proof (inv_cur_notq _ _ I _ _ Hc) as Hnq.
    constructor; cbn [p_hist p_queue p_cur p_next p_execd p_mv].
    - apply (inv_hist_le _ _ I).
    - apply (inv_hist_nodup _ _ I).
    - intros id r H. apply (work_ok_parts s); [reflexivity|]. now apply (inv_q _ _ I).
    - discriminate.
    - apply (inv_q_nodup _ _ I).
    - discriminate.
    - intros id r H. destruct (inv_tx _ _ I _ _ H) as (x & Ha & Hb & Hd).
      exists x. rewrite resp_of_parts_only. repeat split; auto.
      rewrite parts_of_app, Hd. destruct (Z.eq_dec id id0) as [E|E].
      + subst id. destruct W0 as (Hin & Hk & Hdir & Hr).
        assert (r = r0) by apply (hist_fun (p_hist s) id0 r r0 (inv_hist_nodup _ _ I) H Hin). subst r.
        rewrite Hr in Ha. inversion Ha; subst x.
        unfold exp_parts. rewrite Hk, Hdir, Hc, Hnq. simpl. rewrite Z.eqb_refl.
        unfold parts_of. simpl. now rewrite final_part_id, Z.eqb_refl, Hnq.
      + match goal with |- _ ++ ?t = _ => replace t with (@nil part) end.
        2:{ unfold parts_of. simpl. rewrite final_part_id. destruct (id0 =? id) eqn:E'; [lia|reflexivity]. }
        rewrite app_nil_r. apply exp_parts_same; simpl; [reflexivity|].
        rewrite Hc. simpl. destruct (id0 =? id) eqn:E'; [lia|reflexivity].
    - intros id H. rewrite resp_of_parts_only, parts_of_app.
      destruct (inv_fresh _ _ I id H) as [-> ->]. split; [reflexivity|].
      destruct W0 as (Hin & _). apply (inv_hist_le _ _ I) in Hin.
      unfold parts_of. simpl. rewrite final_part_id. destruct (id0 =? id) eqn:E'; [lia|reflexivity].
    - intros id H. apply in_app_or in H as [H|[H|[]]]; [now apply (inv_execd _ _ I)|].
      subst id. destruct W0 as (Hin & Hk & _). eauto.
  Qed.

  Lemma pinv_step s o e : pinv s o -> pinv (fst (pstep s e)) (o ++ snd (pstep s e)).
  Proof.
    intros I. destruct e as [r| |].
    - set (id' := p_next s + 1).
      assert (Hoth1 : forall x id, id <> id' -> resp_of id [OResp id' x] = [] /\ parts_of id [OResp id' x] = []).
      { intros x id H. split; [apply resp_of_other; lia|reflexivity]. }
      assert (Hoth2 : forall x id, id <> id' ->
                resp_of id [OPart (final_part id' r); OResp id' x] = [] /\
                parts_of id [OPart (final_part id' r); OResp id' x] = []).
      { intros x id H. unfold resp_of, parts_of. simpl. rewrite final_part_id.
        destruct (id' =? id) eqn:E; [lia|auto]. }
      assert (Hr1 : forall x, resp_of id' [OResp id' x] = [x]).
      { intros x. unfold resp_of. simpl. now rewrite Z.eqb_refl. }
      assert (Hp2 : forall x, parts_of id' [OPart (final_part id' r); OResp id' x] = [final_part id' r]).
      { intros x. unfold parts_of. simpl. now rewrite final_part_id, Z.eqb_refl. }
      assert (Hr2 : forall x, resp_of id' [OPart (final_part id' r); OResp id' x] = [x]).
      { intros x. unfold resp_of. simpl. now rewrite Z.eqb_refl. }
      cbn [pstep]. fold id'. destruct (r_known r) eqn:Ek; cbn [negb fst snd].
      2:{ match goal with |- pinv ?s' (o ++ ?new) => refine (pinv_req s o s' new r (Some (mkInfo id' Fail Inv true)) I eq_refl eq_refl eq_refl _ _ _ _ _ _) end.
          - now left.
          - apply Hr1.
          - unfold exp_resp. now rewrite Ek.
          - unfold exp_parts. now rewrite Ek.
          - apply Hoth1.
          - now left. }
      destruct (r_direct r) eqn:Ed; cbn [fst snd].
      { match goal with |- pinv ?s' (o ++ ?new) => refine (pinv_req s o s' new r _ I eq_refl eq_refl eq_refl _ _ _ _ _ _) end.
        - now left.
        - apply Hr2.
        - unfold exp_resp. rewrite Ek, Ed. reflexivity.
        - unfold exp_parts. rewrite Ek, Ed. apply Hp2.
        - apply Hoth2.
        - right. split; [reflexivity|assumption]. }
      destruct (qcap <=? length (p_queue s))%nat eqn:Eq; cbn [fst snd].
      { match goal with |- pinv ?s' (o ++ ?new) => refine (pinv_req s o s' new r None I eq_refl eq_refl eq_refl _ _ _ _ _ _) end.
        - now left.
        - apply Hr1.
        - unfold exp_resp. rewrite Ek, Ed. now left.
        - unfold exp_parts. now rewrite Ek, Ed.
        - apply Hoth1.
        - now left. }
      match goal with |- pinv ?s' (o ++ ?new) => refine (pinv_req s o s' new r (Some (wait_info id')) I eq_refl eq_refl eq_refl _ _ _ _ _ _) end.
      + right. auto.
      + apply Hr1.
      + unfold exp_resp. rewrite Ek, Ed. now right.
      + unfold exp_parts. rewrite Ek, Ed. cbn [negb is_some p_queue]. rewrite inq_app. cbn [fst].
        now rewrite Z.eqb_refl, orb_true_r.
      + apply Hoth1.
      + now left.
    - simpl. destruct (p_cur s) as [[i r]|] eqn:Ec; simpl; [now rewrite app_nil_r|].
      destruct (p_queue s) as [|[i r] q] eqn:Eq; simpl; [now rewrite app_nil_r|].
      now apply (pinv_take s o i r q).
    - simpl. destruct (p_cur s) as [[i r]|] eqn:Ec; simpl; [|now rewrite app_nil_r].
      now apply (pinv_finish s o i r).
  Qed.

  Lemma pinv_run es : forall s o, pinv s o -> pinv (fst (prun s es)) (o ++ snd (prun s es)).
  Proof.
    induction es as [|e es IH]; intros s o I; simpl; [now rewrite app_nil_r|].
    pose proof (pinv_step s o e I) as I1. destruct (pstep s e) as [s1 o1]. simpl in I1.
    specialize (IH s1 (o ++ o1) I1). destruct (prun s1 es) as [s2 o2]. simpl in *.
    now rewrite app_assoc.
  Qed.

  (* --- consequences *)

  Lemma hist_step s e id r :
    In (id, r) (p_hist (fst (pstep s e))) -> In (id, r) (p_hist s) \/ e = EvReq r.
  Proof.
    destruct e as [r'| |]; simpl.
    - destruct (r_known r'); simpl; [destruct (r_direct r'); simpl;
        [|destruct (qcap <=? length (p_queue s))%nat; simpl]|];
      intros H; apply in_app_or in H as [H|[H|[]]]; auto; inversion H; auto.
    - destruct (p_cur s) as [[i r']|]; simpl; auto. destruct (p_queue s) as [|[i r'] q]; simpl; auto.
    - destruct (p_cur s) as [[i r']|]; simpl; auto.
  Qed.
  Lemma hist_run es : forall s id r,
    In (id, r) (p_hist (fst (prun s es))) -> In (id, r) (p_hist s) \/ In (EvReq r) es.
  Proof.
    induction es as [|e es IH]; intros s id r; simpl; auto.
    pose proof (hist_step s e id r) as Hs. destruct (pstep s e) as [s1 o1]. simpl in Hs.
    specialize (IH s1 id r). destruct (prun s1 es) as [s2 o2]. simpl in *.
    intros H. destruct (IH H) as [H1|H1]; auto. destruct (Hs H1); auto.
  Qed.

  Definition run_inv n mv es := pinv_run es (pinit n mv) [] (pinv_init n mv).

  Section Repaired.
    Hypothesis Hd : forall st, final st = true -> dresp st = st.
    Hypothesis Hrr : rresp = Fail.

    Lemma legal_of_inv s o id r x :
      out_ok r -> exp_resp id r x -> parts_of id o = exp_parts s id r (is_some x) ->
      match x with
      | None => r_known r = true /\ r_direct r = false /\ parts_of id o = []
      | Some i => i_id i = id /\
                  tx_legal_prefix (i_st i) (part_states (parts_of id o)) = true /\
                  (quiescent s = true -> tx_legal (i_st i) (part_states (parts_of id o)) = true)
      end.
    Proof.
      unfold out_ok, exp_resp, exp_parts. intros Ho He Hp. rewrite Hp. clear Hp.
      destruct (r_known r) eqn:Ek; simpl in *.
      2:{ subst x. simpl. auto. }
      destruct (r_direct r) eqn:Ed; simpl in *.
      { subst x. simpl. unfold final_part. destruct (r_out r) as [st|] eqn:Eo.
        - rewrite (Hd st Ho). simpl. destruct st; try discriminate; auto.
        - rewrite Hrr. simpl. auto. }
      destruct He as [->| ->]; simpl; [auto|].
      split; [reflexivity|].
      assert (Hf : final (i_st (p_info (final_part id r))) = true).
      { unfold final_part. destruct (r_out r) as [st|]; simpl; auto. }
      unfold quiescent.
      destruct (inq id (p_queue s)) eqn:Eq.
      { simpl. split; [reflexivity|]. destruct (p_queue s); [discriminate|]. discriminate. }
      destruct (iscur id (p_cur s)) eqn:Ec.
      { simpl. split; [reflexivity|]. destruct (p_queue s); [|discriminate].
        destruct (p_cur s); [discriminate|]. discriminate. }
      simpl. destruct (i_st (p_info (final_part id r))); try discriminate; auto.
    Qed.

    Theorem prov_legal es n mv :
      reqs_ok es ->
      let s := fst (prun (pinit n mv) es) in
      let o := snd (prun (pinit n mv) es) in
      forall id r, In (id, r) (p_hist s) ->
      exists x, resp_of id o = [x] /\
        match x with
        | None => r_known r = true /\ r_direct r = false /\ parts_of id o = []
        | Some i => i_id i = id /\
                    tx_legal_prefix (i_st i) (part_states (parts_of id o)) = true /\
                    (quiescent s = true -> tx_legal (i_st i) (part_states (parts_of id o)) = true)
        end.
    Proof.
      intros Hok s o id r H. pose proof (run_inv n mv es) as I. simpl in I. fold s o in I.
      destruct (inv_tx _ _ I _ _ H) as (x & Ha & Hb & Hc). exists x. split; [assumption|].
      apply legal_of_inv; auto.
      destruct (hist_run es _ _ _ H) as [[]|Hin].
      unfold reqs_ok in Hok. rewrite Forall_forall in Hok. apply (Hok _ Hin).
    Qed.

    Theorem prov_raise es n mv :
      let s := fst (prun (pinit n mv) es) in
      let o := snd (prun (pinit n mv) es) in
      forall id r, In (id, r) (p_hist s) -> r_known r = true -> r_out r = Raises ->
      (forall p, In p (parts_of id o) -> final (i_st (p_info p)) = true ->
                 p_info p = mkInfo id Fail Oth true) /\
      (r_direct r = true ->
         resp_of id o = [Some (mkInfo id Fail ENone false)] /\
         part_states (parts_of id o) = [Fail]) /\
      (r_direct r = false -> resp_of id o = [Some (mkInfo id Wait ENone false)] ->
         quiescent s = true ->
         exists p, In p (parts_of id o) /\ p_info p = mkInfo id Fail Oth true).
    Proof.
      intros s o id r H Hk Hr. pose proof (run_inv n mv es) as I. simpl in I. fold s o in I.
      destruct (inv_tx _ _ I _ _ H) as (x & Ha & Hb & Hc).
      unfold exp_resp in Hb. unfold exp_parts in Hc. rewrite Hk in *. simpl in *.
      assert (Hfp : final_part id r = mkPart (mkInfo id Fail Oth true) (r_op r) false).
      { unfold final_part. now rewrite Hr. }
      destruct (r_direct r) eqn:Ed.
      - rewrite Hr, Hrr in Hb. subst x. rewrite Hc, Hfp. simpl. repeat split; auto; try discriminate.
        intros p [<-|[]] _. reflexivity.
      - repeat split; try discriminate.
        + intros p Hp Hf. rewrite Hc in Hp. destruct (is_some x); simpl in Hp; [|tauto].
          destruct (inq id (p_queue s)); [destruct Hp|].
          destruct (iscur id (p_cur s)); simpl in Hp.
          * destruct Hp as [<-|[<-|[]]]; discriminate.
          * destruct Hp as [<-|[<-|[<-|[]]]]; try discriminate. now rewrite Hfp.
        + intros _ Hw Hq. rewrite Hw in Ha. inversion Ha; subst x. simpl in Hc.
          unfold quiescent in Hq. destruct (p_queue s); [|discriminate].
          destruct (p_cur s); [discriminate|]. simpl in Hc.
          exists (final_part id r). rewrite Hc. split; [simpl; auto|]. now rewrite Hfp.
    Qed.
  End Repaired.

  (* a request for an operation that is not registered: answered Fail/Inv with a message, nothing
     else happens -- no report, no handler, MdibVersion, queue and worker untouched *)
  Lemma unknown_step s r :
    r_known r = false ->
    pstep s (EvReq r) =
    (mkP (p_next s + 1) (p_queue s) (p_cur s) (p_mv s) (p_execd s) (p_hist s ++ [(p_next s + 1, r)]),
     [OResp (p_next s + 1) (Some (mkInfo (p_next s + 1) Fail Inv true))]).
  Proof. intros H. simpl. now rewrite H. Qed.

  Theorem prov_unknown es n mv :
    let s := fst (prun (pinit n mv) es) in
    let o := snd (prun (pinit n mv) es) in
    forall id r, In (id, r) (p_hist s) -> r_known r = false ->
    resp_of id o = [Some (mkInfo id Fail Inv true)] /\ parts_of id o = [] /\ ~ In id (p_execd s).
  Proof.
    intros s o id r H Hk. pose proof (run_inv n mv es) as I. simpl in I. fold s o in I.
    destruct (inv_tx _ _ I _ _ H) as (x & Ha & Hb & Hc).
    unfold exp_resp in Hb. unfold exp_parts in Hc. rewrite Hk in *. simpl in *. subst x.
    repeat split; auto. intros Hin. destruct (inv_execd _ _ I _ Hin) as (r' & H1 & H2).
    assert (r' = r) by apply (hist_fun _ _ _ _ (inv_hist_nodup _ _ I) H1 H). subst. congruence.
  Qed.

  (* the only way to be refused with a fault: the queue holds qcap operations *)
  Lemma fault_iff s r id :
    In (OResp id None) (snd (pstep s (EvReq r))) <->
    id = p_next s + 1 /\ r_known r = true /\ r_direct r = false /\ (qcap <= length (p_queue s))%nat.
  Proof.
    simpl. destruct (r_known r); simpl.
    2:{ split; [intros [H|[]]; discriminate|intros (_ & H & _); discriminate]. }
    destruct (r_direct r); simpl.
    { split; [intros [H|[H|[]]]; discriminate|intros (_ & _ & H & _); discriminate]. }
    destruct (qcap <=? length (p_queue s))%nat eqn:E; simpl.
    - apply Nat.leb_le in E. split; [intros [H|[]]; inversion H; repeat split; auto|intros (-> & _); now left].
    - apply Nat.leb_gt in E. split; [intros [H|[]]; discriminate|intros (_ & _ & _ & H); lia].
  Qed.

  Lemma queue_bounded es : forall s, (length (p_queue s) <= qcap)%nat ->
    (length (p_queue (fst (prun s es))) <= qcap)%nat.
  Proof.
    induction es as [|e es IH]; intros s H; simpl; auto.
    assert (H1 : (length (p_queue (fst (pstep s e))) <= qcap)%nat).
    { destruct e as [r| |]; simpl.
      - destruct (r_known r); simpl; auto. destruct (r_direct r); simpl; auto.
        destruct (qcap <=? length (p_queue s))%nat eqn:E; simpl; auto. apply Nat.leb_gt in E. rewrite app_length. simpl. lia.
      - destruct (p_cur s) as [[i r]|]; simpl; auto. destruct (p_queue s) as [|[i r] q] eqn:Eq; simpl; [now rewrite Eq|]. simpl in H. lia.
      - destruct (p_cur s) as [[i r]|]; simpl; auto. }
    destruct (pstep s e) as [s1 o1]. specialize (IH s1 H1). destruct (prun s1 es). exact IH.
  Qed.

  (* the worker left alone comes to rest: one Take/Finish round per outstanding operation *)

  Lemma drains n : forall s, (outstanding s <= n)%nat -> quiescent (fst (prun s (drain n))) = true.
  Proof.
    induction n as [|n IH]; intros s H.
    - unfold outstanding in H. simpl. unfold quiescent.
      destruct (p_queue s); [|simpl in H; lia]. destruct (p_cur s); [simpl in H; lia|reflexivity].
    - unfold outstanding in H.
      change (drain (S n)) with ([EvTake; EvFinish] ++ drain n). rewrite prun_app.
      assert (Hs : (outstanding (fst (prun s [EvTake; EvFinish])) <= n)%nat).
      { clear IH. destruct s as [nx q c mv ex h]. unfold outstanding in *. simpl in *.
        destruct c as [[i r]|]; [simpl; lia|]. destruct q as [|[i r] q]; simpl in *; lia. }
      destruct (prun s [EvTake; EvFinish]) as [s1 o1]. simpl in Hs.
      specialize (IH s1 Hs). destruct (prun s1 (drain n)) as [s2 o2]. exact IH.
  Qed.

  Lemma reqs_ok_drain es n : reqs_ok es -> reqs_ok (es ++ drain n).
  Proof.
    intros H. apply Forall_app. split; [assumption|]. induction n; simpl; repeat constructor; auto.
  Qed.

  Lemma outstanding_bounded es n mv :
    (outstanding (fst (prun (pinit n mv) es)) <= S qcap)%nat.
  Proof.
    pose proof (queue_bounded es (pinit n mv)) as H. simpl in H.
    specialize (H ltac:(lia)). unfold outstanding. destruct (p_cur _); lia.
  Qed.

  Lemma drained_quiescent es n mv :
    quiescent (fst (prun (pinit n mv) (es ++ drain (S qcap)))) = true.
  Proof.
    rewrite prun_app. pose proof (outstanding_bounded es n mv) as H.
    destruct (prun (pinit n mv) es) as [s1 o1]. simpl in H.
    pose proof (drains (S qcap) s1 H) as Hq. destruct (prun s1 (drain (S qcap))) as [s2 o2]. exact Hq.
  Qed.
End ProviderProofs.

(* the words of the statement: the states of one transaction, in the order response, reports, read
   "Wait, Start, one final state" or "one final state" once an immediately repeated state is counted once *)
Lemma tx_legal_word resp sts : tx_legal resp sts = true -> legal_word (collapse (resp :: sts)) = true.
Proof.
  destruct sts as [|a [|b [|c [|d l]]]].
  - destruct resp; simpl; intros; try discriminate; reflexivity.
  - destruct resp, a; simpl; intros; try discriminate; reflexivity.
  - destruct resp, a, b; simpl; intros; discriminate.
  - destruct resp, a, b, c; simpl; intros; try discriminate; reflexivity.
  - destruct resp, a, b, c; simpl; intros; discriminate.
Qed.

(* ------------------------------------------------------------------ consumer *)
Section AssocFacts.
  Context {V : Type}.
  Lemma aget_aset_eq k (v : V) l : aget k (aset k v l) = Some v.
  Proof.
    induction l as [|[k' v'] l IH]; simpl; [now rewrite Z.eqb_refl|].
    destruct (k' =? k) eqn:E; simpl; [now rewrite Z.eqb_refl|]. now rewrite E.
  Qed.
  Lemma aget_aset_ne k k' (v : V) l : k <> k' -> aget k (aset k' v l) = aget k l.
  Proof.
    intros H. induction l as [|[k2 v2] l IH]; simpl.
    - destruct (k' =? k) eqn:E; [lia|reflexivity].
    - destruct (k2 =? k') eqn:E; simpl.
      + destruct (k' =? k) eqn:E1; [lia|]. destruct (k2 =? k) eqn:E2; [lia|reflexivity].
      + destruct (k2 =? k); auto.
  Qed.
  Lemma aget_adel_eq k (l : list (Z * V)) : aget k (adel k l) = None.
  Proof.
    induction l as [|[k' v'] l IH]; simpl; auto.
    destruct (k' =? k) eqn:E; simpl; auto. now rewrite E.
  Qed.
  Lemma aget_adel_ne k k' (l : list (Z * V)) : k <> k' -> aget k (adel k' l) = aget k l.
  Proof.
    intros H. induction l as [|[k2 v2] l IH]; simpl; auto.
    destruct (k2 =? k') eqn:E; simpl.
    - destruct (k2 =? k) eqn:E2; [lia|assumption].
    - destruct (k2 =? k); auto.
  Qed.
End AssocFacts.

Lemma lastn_app_keep {A} (n : nat) (a b : list A) :
  (length b <= n)%nat -> lastn n (a ++ b) = lastn (n - length b) a ++ b.
Proof.
  intros H. unfold lastn. rewrite skipn_app, app_length.
  replace (length a + length b - n - length a)%nat with O by lia. simpl.
  f_equal. f_equal. lia.
Qed.

Lemma own_app id a b : own id (a ++ b) = own id a ++ own id b.
Proof. unfold own. apply filter_app. Qed.
Lemma own_skipn id m : forall l, own id l = [] -> own id (skipn m l) = [].
Proof.
  induction m as [|m IH]; intros l H; simpl; auto.
  destruct l as [|x l]; auto. apply IH. unfold own in *. simpl in H.
  destruct (cp_id x =? id); [discriminate|assumption].
Qed.

Lemma own_parts_app id a b : own_parts id (a ++ b) = own_parts id a ++ own_parts id b.
Proof. unfold own_parts. apply flat_map_app. Qed.

Section ConsumerProofs.
  Variable cap : nat.
  Variable kp : bool.
  Variable completing nonfinal : istate -> bool.
  Variable id : Z.
  Notation cstep := (cstep cap kp completing nonfinal).
  Notation crun := (crun cap kp completing nonfinal).

  Lemma crun_app s a b : crun s (a ++ b) = crun (crun s a) b.
  Proof. unfold crun. apply fold_left_app. Qed.

  Lemma done_of_snoc s p r j x :
    done_of id (mkC p r (c_done s ++ [(j, x)])) = done_of id s ++ (if j =? id then [x] else []).
  Proof. unfold done_of. simpl. rewrite flat_map_app. simpl. now rewrite app_nil_r. Qed.

  (* an event of another transaction changes neither the pending entry nor the completions of id *)
  Lemma step_other s e :
    mentions id e = false ->
    aget id (c_pend (cstep s e)) = aget id (c_pend s) /\ done_of id (cstep s e) = done_of id s.
  Proof.
    destruct e as [j st|p]; simpl; intros H.
    - assert (j <> id) by lia.
      destruct (completing st); simpl.
      + split; [reflexivity|]. rewrite done_of_snoc. destruct (j =? id); [discriminate|]. now rewrite app_nil_r.
      + destruct (filter _ _) as [|f l]; simpl.
        * split; [|reflexivity]. apply aget_aset_ne. lia.
        * split; [reflexivity|]. rewrite done_of_snoc. destruct (j =? id); [discriminate|]. now rewrite app_nil_r.
    - assert (cp_id p <> id) by lia.
      destruct (aget (cp_id p) (c_pend s)) as [[rst ps]|]; simpl; [|auto].
      destruct (nonfinal (cp_st p)); simpl.
      + split; [|reflexivity]. apply aget_aset_ne. lia.
      + split; [apply aget_adel_ne; lia|]. rewrite done_of_snoc.
        destruct (cp_id p =? id); [discriminate|]. now rewrite app_nil_r.
  Qed.

  (* --- before the response *)
  Definition P1 (s : cstate) (acc : list cpart) (k : nat) : Prop :=
    aget id (c_pend s) = None /\ done_of id s = [] /\
    exists old app, c_recent s = old ++ app /\ own id old = [] /\ own id app = acc /\ (length app <= k)%nat.

  Lemma count_parts_cons_part p es : count_parts (CPart p :: es) = S (count_parts es).
  Proof. reflexivity. Qed.
  Lemma count_parts_cons_resp j st es : count_parts (CResp j st :: es) = count_parts es.
  Proof. reflexivity. Qed.

  Lemma phase1 pre : forall s acc k,
    P1 s acc k -> noresp id pre = true -> (k + count_parts pre <= cap)%nat ->
    P1 (crun s pre) (acc ++ own_parts id pre) (k + count_parts pre).
  Proof.
    induction pre as [|e pre IH]; intros s acc k HP Hn Hk.
    - simpl. rewrite app_nil_r. unfold count_parts. simpl. now rewrite Nat.add_0_r.
    - simpl in Hn. apply andb_prop in Hn as [Hn1 Hn2].
      change (crun s (e :: pre)) with (crun (cstep s e) pre).
      destruct HP as (Hp & Hd & old & app & Hr & Ho & Ha & Hl).
      destruct e as [j st|p].
      + (* the response of another transaction *)
        rewrite count_parts_cons_resp in *. simpl in Hn1.
        assert (Hm : mentions id (CResp j st) = false) by (simpl; lia).
        destruct (step_other s _ Hm) as [H1 H2].
        replace (own_parts id (CResp j st :: pre)) with (own_parts id pre) by reflexivity.
        apply IH; auto. split; [congruence|]. split; [congruence|].
        exists old, app. repeat split; auto.
        simpl. destruct (completing st); simpl; auto. destruct (filter _ _); simpl; auto.
      + rewrite count_parts_cons_part in *.
        replace (k + S (count_parts pre))%nat with (S k + count_parts pre)%nat in * by lia.
        destruct (aget (cp_id p) (c_pend s)) as [[rst ps]|] eqn:Eg.
        * (* a part of another, pending transaction *)
          assert (Hne : cp_id p <> id) by (intros E; rewrite E in Eg; congruence).
          assert (Hm : mentions id (CPart p) = false) by (simpl; lia).
          destruct (step_other s _ Hm) as [H1 H2].
          replace (own_parts id (CPart p :: pre)) with (own_parts id pre).
          2:{ unfold own_parts. simpl. destruct (cp_id p =? id) eqn:E; [lia|reflexivity]. }
          apply IH; auto. split; [congruence|]. split; [congruence|].
          exists old, app. repeat split; auto.
          simpl. rewrite Eg. destruct (nonfinal (cp_st p)); simpl; auto.
        * (* the part goes into the bounded buffer *)
          assert (Hs : cstep s (CPart p) = mkC (c_pend s) (lastn cap (c_recent s ++ [p])) (c_done s)).
          { simpl. now rewrite Eg. }
          rewrite Hs.
          replace (acc ++ own_parts id (CPart p :: pre))
            with ((acc ++ own id [p]) ++ own_parts id pre).
          2:{ rewrite <- app_assoc. reflexivity. }
          apply IH; auto. split; [assumption|]. split; [assumption|].
          exists (lastn (cap - length (app ++ [p])) old), (app ++ [p]). simpl.
          assert (Hlen : (length (app ++ [p]) <= cap)%nat) by (rewrite app_length; simpl; lia).
          repeat split.
          -- rewrite Hr, <- app_assoc. now apply lastn_app_keep.
          -- unfold lastn. now apply own_skipn.
          -- rewrite own_app. now rewrite Ha.
          -- rewrite app_length. simpl. lia.
  Qed.

  (* --- after the call has completed: nothing changes any more *)
  Lemma caseA post : forall s,
    aget id (c_pend s) = None -> noresp id post = true ->
    aget id (c_pend (crun s post)) = None /\ done_of id (crun s post) = done_of id s.
  Proof.
    induction post as [|e post IH]; intros s Hp Hn; [auto|].
    simpl in Hn. apply andb_prop in Hn as [Hn1 Hn2].
    change (crun s (e :: post)) with (crun (cstep s e) post).
    destruct (mentions id e) eqn:Hm.
    - destruct e as [j st|p]; simpl in Hm, Hn1; [lia|].
      assert (E : cp_id p = id) by lia.
      assert (Hs : cstep s (CPart p) = mkC (c_pend s) (lastn cap (c_recent s ++ [p])) (c_done s)).
      { simpl. now rewrite E, Hp. }
      rewrite Hs. match goal with |- context [crun ?s1 post] => destruct (IH s1 Hp Hn2) as [H1 H2] end.
      split; [assumption|]. rewrite H2. reflexivity.
    - destruct (step_other s e Hm) as [H1 H2]. rewrite <- H1 in Hp.
      destruct (IH _ Hp Hn2) as [H3 H4]. split; [assumption|congruence].
  Qed.

  (* --- the call is registered and waits for the final part *)
  Lemma caseB post : forall s rst ps nf f,
    aget id (c_pend s) = Some (rst, ps) -> done_of id s = [] -> noresp id post = true ->
    own_parts id post = nf ++ [f] ->
    Forall (fun p => nonfinal (cp_st p) = true) nf -> nonfinal (cp_st f) = false ->
    aget id (c_pend (crun s post)) = None /\
    done_of id (crun s post) = [mkCR (cp_st f) rst false (ps ++ nf ++ [f])].
  Proof.
    induction post as [|e post IH]; intros s rst ps nf f Hp Hd Hn Ho Hnf Hf.
    - destruct nf; discriminate.
    - simpl in Hn. apply andb_prop in Hn as [Hn1 Hn2].
      change (crun s (e :: post)) with (crun (cstep s e) post).
      destruct (mentions id e) eqn:Hm.
      + destruct e as [j st|p]; simpl in Hm, Hn1; [lia|].
        assert (E : cp_id p = id) by lia.
        assert (Ho' : p :: own_parts id post = nf ++ [f]).
        { rewrite <- Ho. unfold own_parts. simpl. now rewrite Hm. }
        destruct nf as [|q nf].
        * simpl in Ho'. injection Ho' as E1 E2. subst p.
          assert (Hs : cstep s (CPart f) =
                       mkC (adel id (c_pend s)) (c_recent s)
                           (c_done s ++ [(id, mkCR (cp_st f) rst false (ps ++ [f]))])).
          { simpl. rewrite E, Hp, Hf. reflexivity. }
          rewrite Hs.
          destruct (caseA post (mkC (adel id (c_pend s)) (c_recent s)
                           (c_done s ++ [(id, mkCR (cp_st f) rst false (ps ++ [f]))]))) as [H1 H2]; auto.
          { simpl. apply aget_adel_eq. }
          split; [assumption|]. rewrite H2, done_of_snoc, Hd, Z.eqb_refl. reflexivity.
        * simpl in Ho'. injection Ho' as E1 E2. subst q. pose proof (Forall_inv Hnf) as Hq. pose proof (Forall_inv_tail Hnf) as Hnf'. simpl in Hq.
          assert (Hs : cstep s (CPart p) =
                       mkC (aset id (rst, ps ++ [p]) (c_pend s)) (c_recent s) (c_done s)).
          { simpl. rewrite E, Hp, Hq. reflexivity. }
          rewrite Hs.
          destruct (IH (mkC (aset id (rst, ps ++ [p]) (c_pend s)) (c_recent s) (c_done s))
                       rst (ps ++ [p]) nf f) as [H1 H2]; auto.
          { simpl. apply aget_aset_eq. }
          split; [assumption|]. rewrite H2. now rewrite <- app_assoc.
      + destruct (step_other s e Hm) as [H1 H2].
        apply IH; auto; try congruence.
        rewrite <- Ho. unfold own_parts. simpl. destruct e as [j st|p]; simpl in *; [reflexivity|].
        now rewrite Hm.
  Qed.

  Lemma filter_nonfinal_nil (l : list cpart) :
    Forall (fun p => nonfinal (cp_st p) = true) l -> filter (fun p => negb (nonfinal (cp_st p))) l = [].
  Proof. induction 1 as [|x l Hx _ IH]; simpl; auto. now rewrite Hx. Qed.

  Lemma app_snoc_split {A} (a b nf : list A) f :
    a ++ b = nf ++ [f] -> (b = [] /\ a = nf ++ [f]) \/ exists nf2, b = nf2 ++ [f] /\ nf = a ++ nf2.
  Proof.
    intros H. destruct b as [|x b] using rev_ind; [left; now rewrite app_nil_r in H|].
    right. exists b. rewrite app_assoc in H. apply app_inj_tail in H as [H1 H2]. subst. auto.
  Qed.

  Theorem cons_complete pre post s0 rst nf f :
    fresh id s0 -> noresp id pre = true -> noresp id post = true ->
    own_parts id pre ++ own_parts id post = nf ++ [f] ->
    Forall (fun p => nonfinal (cp_st p) = true) nf -> nonfinal (cp_st f) = false ->
    (count_parts pre <= cap)%nat ->
    let s' := crun s0 (pre ++ CResp id rst :: post) in
    aget id (c_pend s') = None /\
    done_of id s' =
      [if completing rst then mkCR rst rst true (if kp then own_parts id pre else [])
       else mkCR (cp_st f) rst false (nf ++ [f])].
  Proof.
    intros (F1 & F2 & F3) Hn1 Hn2 Ho Hnf Hf Hc s'. unfold s'. rewrite crun_app.
    assert (HP : P1 s0 [] 0). { split; [assumption|]. split; [assumption|]. exists (c_recent s0), []. rewrite app_nil_r. auto. }
    apply (phase1 pre) in HP; auto. simpl in HP.
    set (s1 := crun s0 pre) in *.
    destruct HP as (Hp & Hd & old & app & Hr & Hoo & Ha & Hl).
    change (crun s1 (CResp id rst :: post)) with (crun (cstep s1 (CResp id rst)) post).
    assert (Hown : own id (c_recent s1) = own_parts id pre).
    { rewrite Hr, own_app, Hoo, Ha. reflexivity. }
    simpl. rewrite Hown. destruct (completing rst).
    - match goal with |- context [crun ?s post] => destruct (caseA post s) as [H1 H2]; auto end.
      split; [assumption|]. rewrite H2, done_of_snoc, Hd, Z.eqb_refl. reflexivity.
    - destruct (app_snoc_split _ _ _ _ Ho) as [[Hb Hall]|(nf2 & Hb & Hsp)].
      + rewrite Hall, filter_app, (filter_nonfinal_nil _ Hnf). simpl. rewrite Hf. simpl.
        match goal with |- context [crun ?s post] => destruct (caseA post s) as [H1 H2]; auto end.
        split; [assumption|]. rewrite H2, done_of_snoc, Hd, Z.eqb_refl. reflexivity.
      + assert (Hnf1 : Forall (fun p => nonfinal (cp_st p) = true) (own_parts id pre)).
        { rewrite Hsp in Hnf. apply Forall_app in Hnf. tauto. }
        assert (Hnf2 : Forall (fun p => nonfinal (cp_st p) = true) nf2).
        { rewrite Hsp in Hnf. apply Forall_app in Hnf. tauto. }
        rewrite (filter_nonfinal_nil _ Hnf1).
        match goal with |- context [crun ?s post] =>
          destruct (caseB post s rst (own_parts id pre) nf2 f) as [H1 H2]; auto end.
        { simpl. apply aget_aset_eq. }
        split; [assumption|]. rewrite H2, Hsp. now rewrite <- app_assoc.
  Qed.

  (* a response that completes the call at once: whatever is reported for the transaction (nothing at
     all for an unknown operation), the call completes at the response, once *)
  Theorem cons_completing pre post s0 rst :
    fresh id s0 -> noresp id pre = true -> noresp id post = true -> completing rst = true ->
    (count_parts pre <= cap)%nat ->
    let s' := crun s0 (pre ++ CResp id rst :: post) in
    aget id (c_pend s') = None /\
    done_of id s' = [mkCR rst rst true (if kp then own_parts id pre else [])].
  Proof.
    intros (F1 & F2 & F3) Hn1 Hn2 Hcp Hc s'. unfold s'. rewrite crun_app.
    assert (HP : P1 s0 [] 0). { split; [assumption|]. split; [assumption|]. exists (c_recent s0), []. rewrite app_nil_r. auto. }
    apply (phase1 pre) in HP; auto. simpl in HP.
    set (s1 := crun s0 pre) in *.
    destruct HP as (Hp & Hd & old & app & Hr & Hoo & Ha & Hl).
    change (crun s1 (CResp id rst :: post)) with (crun (cstep s1 (CResp id rst)) post).
    assert (Hown : own id (c_recent s1) = own_parts id pre).
    { rewrite Hr, own_app, Hoo, Ha. reflexivity. }
    simpl. rewrite Hown, Hcp.
    match goal with |- context [crun ?s post] => destruct (caseA post s) as [H1 H2]; auto end.
    split; [assumption|]. rewrite H2, done_of_snoc, Hd, Z.eqb_refl. reflexivity.
  Qed.

  (* --- the same for every interleaving *)
  Lemma before_resp_split pre rst post :
    noresp id pre = true -> before_resp id (pre ++ CResp id rst :: post) = pre.
  Proof.
    induction pre as [|e pre IH]; simpl; intros H.
    - now rewrite Z.eqb_refl.
    - apply andb_prop in H as [H1 H2]. destruct (is_resp id e); [discriminate|]. now rewrite IH.
  Qed.

  Lemma filter_parts l : forall m,
    filter (mentions id) l = map CPart m -> own_parts id l = m /\ noresp id l = true.
  Proof.
    induction l as [|e l IH]; intros m H; simpl in *.
    - destruct m; [auto|discriminate].
    - destruct (mentions id e) eqn:Hm.
      + destruct m as [|p m]; [discriminate|]. simpl in H. injection H as E1 E2. subst e.
        destruct (IH m E2) as [H1 H2]. simpl in Hm. unfold own_parts in *. simpl. rewrite Hm, H1. simpl. auto.
      + destruct (IH m H) as [H1 H2]. destruct e as [j st|p]; simpl in *.
        * rewrite Hm. simpl. auto.
        * unfold own_parts in *. simpl. rewrite Hm. simpl. auto.
  Qed.
End ConsumerProofs.

Lemma merge_nil_l {A} (b c : list A) : Merge [] b c -> b = c.
Proof.
  intros H. remember [] as a eqn:Ea. induction H; auto; [discriminate|]. f_equal. auto.
Qed.
Lemma merge_single {A} (x : A) ys zs :
  Merge [x] ys zs -> exists a b, ys = a ++ b /\ zs = a ++ x :: b.
Proof.
  intros H. remember [x] as l eqn:El. revert El. induction H; intros El.
  - discriminate.
  - injection El as E1 E2. subst. apply merge_nil_l in H. subst. exists [], c. auto.
  - destruct (IHMerge El) as (a' & b' & E1 & E2). subst. exists (x0 :: a'), b'. auto.
Qed.
Lemma filter_split {A} (f : A -> bool) l : forall a x b,
  filter f l = a ++ x :: b -> exists p q, l = p ++ x :: q /\ filter f p = a /\ filter f q = b.
Proof.
  induction l as [|y l IH]; intros a x b H; simpl in H.
  - destruct a; discriminate.
  - destruct (f y) eqn:Ey.
    + destruct a as [|a0 a].
      * simpl in H. injection H as E1 E2. subst. exists [], l. auto.
      * simpl in H. injection H as E1 E2. subst. destruct (IH _ _ _ E2) as (p & q & E & F1 & F2).
        subst. exists (a0 :: p), q. simpl. rewrite Ey. auto.
    + destruct (IH _ _ _ H) as (p & q & E & F1 & F2). subst. exists (y :: p), q. simpl. rewrite Ey. auto.
Qed.

Section ConsumerMerge.
  Variable cap : nat.
  Variable kp : bool.
  Variable completing nonfinal : istate -> bool.
  Notation crun := (crun cap kp completing nonfinal).

  Theorem cons_merge id es s0 rst nf f :
    fresh id s0 ->
    Merge [CResp id rst] (map CPart (nf ++ [f])) (filter (mentions id) es) ->
    Forall (fun p => nonfinal (cp_st p) = true) nf -> nonfinal (cp_st f) = false ->
    (parts_before id es <= cap)%nat ->
    let s' := crun s0 es in
    aget id (c_pend s') = None /\
    done_of id s' =
      [if completing rst
       then mkCR rst rst true (if kp then own_parts id (before_resp id es) else [])
       else mkCR (cp_st f) rst false (nf ++ [f])].
  Proof.
    intros Hfr Hm Hnf Hf Hc.
    destruct (merge_single _ _ _ Hm) as (a & b & Eab & Ef).
    destruct (filter_split _ _ _ _ _ Ef) as (pre & post & Ees & Fa & Fb).
    apply map_eq_app in Eab as (m1 & m2 & Em & Ea & Eb). subst a b.
    destruct (filter_parts id pre m1 Fa) as [Ho1 Hn1].
    destruct (filter_parts id post m2 Fb) as [Ho2 Hn2].
    subst es. unfold parts_before in Hc. rewrite before_resp_split in * by assumption.
    apply cons_complete; auto. now rewrite Ho1, Ho2.
  Qed.
End ConsumerMerge.

Lemma tx_legal_wait sts :
  tx_legal Wait sts = true -> exists f, final f = true /\ sts = [Wait; Start; f].
Proof.
  destruct sts as [|a [|b [|c [|d l]]]]; simpl; try discriminate.
  - destruct a; discriminate.
  - destruct a, b; discriminate.
  - destruct a; try discriminate; destruct b; try discriminate. intros H. exists c. auto.
  - destruct a; try discriminate; destruct b; discriminate.
Qed.
