(* Model of the BICEPS invocation-state machinery of sdc11073 (property C09).  Definitions only;
   proofs are in Proofs.v.

   Provider side (src/sdc11073/provider):
     porttypes/porttypebase.py  ServiceWithOperations._handle_operation_request
     providerimpl.py            SdcProvider.generate_transaction_id / handle_operation_request
     sco.py                     ScoOperationsRegistry.handle_operation_request, _OperationsWorker.run
     porttypes/setserviceimpl.py SetService.notify_operation (one OperationInvokedReport per call,
                                one report part)
   Consumer side (src/sdc11073/consumer/operations.py):
     OperationsManager.call_operation (the part under _transactions_lock, after the post returned)
     OperationsManager.on_operation_invoked_report (one step per report part)

   The handler of an operation is an input of the model ([outcome]: the state it returns or the fact
   that it raises, and by how much it moved the MDIB version); the model describes what the protocol
   machinery makes of it. *)
From Coq Require Import List ZArith Bool.
Import ListNotations.
Open Scope Z_scope.

(* ------------------------------------------------------------------ invocation states and errors *)
Inductive istate := Wait | Start | Cnclld | CnclldMan | Fin | FinMod | Fail.
Definition st_code (s : istate) : Z :=
  match s with Wait => 0 | Start => 1 | Cnclld => 2 | CnclldMan => 3 | Fin => 4 | FinMod => 5 | Fail => 6 end.
Definition st_eqb (a b : istate) : bool := st_code a =? st_code b.
Definition final (s : istate) : bool := match s with Wait | Start => false | _ => true end.
Definition all_states : list istate := [Wait; Start; Cnclld; CnclldMan; Fin; FinMod; Fail].

Inductive ierr := ENone | Unspec | Unkn | Inv | Oth.
Definition err_code (e : ierr) : Z :=
  match e with ENone => 0 | Unspec => 1 | Unkn => 2 | Inv => 3 | Oth => 4 end.

(* InvocationInfo: TransactionId, InvocationState, InvocationError, "has an InvocationErrorMessage" *)
Record info := mkInfo { i_id : Z; i_st : istate; i_err : ierr; i_msg : bool }.
(* OperationInvokedReportPart: InvocationInfo, OperationHandleRef (index of the operation),
   "OperationTarget present" *)
Record part := mkPart { p_info : info; p_op : Z; p_tgt : bool }.

(* a table State -> State read from the source (Gen_Consts); a missing row yields the absurd [Wait] *)
Fixpoint tbl_get (t : list (istate * istate)) (s : istate) : istate :=
  match t with
  | [] => Wait
  | (a, b) :: r => if st_eqb a s then b else tbl_get r s
  end.
Definition in_states (l : list istate) (s : istate) : bool := existsb (st_eqb s) l.

(* the legal words of the property statement: Wait, Start, then exactly one final state -- or
   directly one final state *)
Definition legal_word (l : list istate) : bool :=
  match l with
  | [Wait; Start; f] => final f
  | [f] => final f
  | _ => false
  end.
(* the same state reported twice in a row (response and its duplicate in the report) counts once *)
Fixpoint collapse (l : list istate) : list istate :=
  match l with
  | a :: ((b :: _) as r) => if st_eqb a b then collapse r else a :: collapse r
  | _ => l
  end.

(* ------------------------------------------------------------------ provider *)
Inductive outcome := Returns (st : istate) | Raises.
Record req := mkReq {
  r_known : bool;      (* get_operation_by_handle found an operation *)
  r_direct : bool;     (* operation.delayed_processing == False *)
  r_out : outcome;     (* what the handler does when it is executed *)
  r_dv : Z;            (* by how much the handler moves MdibVersion *)
  r_op : Z             (* which operation (OperationHandleRef of the report parts) *)
}.

Record pstate := mkP {
  p_next : Z;                      (* SdcProvider._transaction_id *)
  p_queue : list (Z * req);        (* _OperationsWorker._operations_queue, oldest first *)
  p_cur : option (Z * req);        (* the operation the worker has taken and not finished *)
  p_mv : Z;                        (* MdibVersion *)
  p_execd : list Z;                (* ghost: transactions whose handler was executed *)
  p_hist : list (Z * req)          (* ghost: every request with the id it was given *)
}.
Definition pinit (n mv : Z) : pstate := mkP n [] None mv [] [].
Definition quiescent (s : pstate) : bool :=
  match p_queue s, p_cur s with [], None => true | _, _ => false end.

(* EvReq: one request handled by _handle_operation_request (atomic up to the enqueue);
   EvTake: the worker takes the oldest queued operation and reports Wait and Start;
   EvFinish: the worker executes the handler and reports the final state. *)
Inductive pevent := EvReq (r : req) | EvTake | EvFinish.
(* OResp id None = the request ended in a SOAP fault (queue.Full); id is not visible to the consumer *)
Inductive pout := OResp (id : Z) (r : option info) | OPart (p : part).

Definition final_part (id : Z) (r : req) : part :=
  match r_out r with
  | Returns st => mkPart (mkInfo id st ENone false) (r_op r) true
  | Raises => mkPart (mkInfo id Fail Oth true) (r_op r) false
  end.
Definition progress_part (id : Z) (r : req) (st : istate) : part :=
  mkPart (mkInfo id st ENone false) (r_op r) false.

Section Provider.
  Variable qcap : nat.                       (* queue.Queue(qcap) *)
  Variable dresp : istate -> istate.         (* direct processing: state of the response as a
                                                function of the state the handler returned *)
  Variable rresp : istate.                   (* direct processing: state of the response when the
                                                handler raised *)
  Variable lostwait : bool.                  (* false: a request that finds the queue full is refused (queue.Full
                                                escapes, SOAP fault, no state); true: it is answered Wait although
                                                nothing was enqueued *)

  Definition pstep (s : pstate) (e : pevent) : pstate * list pout :=
    match e with
    | EvReq r =>
        let id := p_next s + 1 in
        let hist := p_hist s ++ [(id, r)] in
        if negb (r_known r) then
          (mkP id (p_queue s) (p_cur s) (p_mv s) (p_execd s) hist,
           [OResp id (Some (mkInfo id Fail Inv true))])
        else if r_direct r then
          (mkP id (p_queue s) (p_cur s) (p_mv s + r_dv r) (p_execd s ++ [id]) hist,
           [OPart (final_part id r);
            OResp id (Some (mkInfo id (match r_out r with Returns st => dresp st | Raises => rresp end)
                                   ENone false))])
        else if (qcap <=? length (p_queue s))%nat then
          (mkP id (p_queue s) (p_cur s) (p_mv s) (p_execd s) hist,
           [OResp id (if lostwait then Some (mkInfo id Wait ENone false) else None)])
        else
          (mkP id (p_queue s ++ [(id, r)]) (p_cur s) (p_mv s) (p_execd s) hist,
           [OResp id (Some (mkInfo id Wait ENone false))])
    | EvTake =>
        match p_cur s, p_queue s with
        | None, (id, r) :: q =>
            (mkP (p_next s) q (Some (id, r)) (p_mv s) (p_execd s) (p_hist s),
             [OPart (progress_part id r Wait); OPart (progress_part id r Start)])
        | _, _ => (s, [])
        end
    | EvFinish =>
        match p_cur s with
        | Some (id, r) =>
            (mkP (p_next s) (p_queue s) None (p_mv s + r_dv r) (p_execd s ++ [id]) (p_hist s),
             [OPart (final_part id r)])
        | None => (s, [])
        end
    end.

  Fixpoint prun (s : pstate) (es : list pevent) : pstate * list pout :=
    match es with
    | [] => (s, [])
    | e :: r => let '(s1, o1) := pstep s e in
                let '(s2, o2) := prun s1 r in (s2, o1 ++ o2)
    end.

  (* what the correspondence compares: MdibVersion after every event *)
  Fixpoint pversions (s : pstate) (es : list pevent) : list Z :=
    match es with
    | [] => []
    | e :: r => let s1 := fst (pstep s e) in p_mv s1 :: pversions s1 r
    end.
End Provider.

(* the contract of ExecuteResult: a handler that returns, returns a final state *)
Definition out_ok (r : req) : Prop :=
  match r_out r with Returns st => final st = true | Raises => True end.
Definition reqs_ok (es : list pevent) : Prop :=
  Forall (fun e => match e with EvReq r => out_ok r | _ => True end) es.
(* the worker left alone: n rounds of "take the next operation, finish it" *)
Fixpoint drain (n : nat) : list pevent :=
  match n with O => [] | S k => EvTake :: EvFinish :: drain k end.
Definition outstanding (s : pstate) : nat :=
  (length (p_queue s) + match p_cur s with Some _ => 1 | None => 0 end)%nat.

(* projections of an output stream *)
Definition resp_of (id : Z) (o : list pout) : list (option info) :=
  flat_map (fun x => match x with OResp i r => if i =? id then [r] else [] | OPart _ => [] end) o.
Definition parts_of (id : Z) (o : list pout) : list part :=
  flat_map (fun x => match x with OPart p => if i_id (p_info p) =? id then [p] else [] | OResp _ _ => [] end) o.
Definition resp_ids (o : list pout) : list Z :=
  flat_map (fun x => match x with OResp i _ => [i] | OPart _ => [] end) o.
Definition part_states (l : list part) : list istate := map (fun p => i_st (p_info p)) l.
Fixpoint count_reqs (es : list pevent) : nat :=
  match es with [] => O | EvReq _ :: r => S (count_reqs r) | _ :: r => count_reqs r end.
Fixpoint zseq (start : Z) (n : nat) : list Z :=
  match n with O => [] | S k => start :: zseq (start + 1) k end.

(* the legal (response state, report states) pairs; the third shape is a request that is refused
   without executing anything (no operation registered for the handle): no report exists *)
Definition tx_legal (resp : istate) (reports : list istate) : bool :=
  match resp, reports with
  | Wait, [Wait; Start; f] => final f
  | f, [f'] => final f && st_eqb f f'
  | Fail, [] => true
  | _, _ => false
  end.
Fixpoint is_prefix (a b : list istate) : bool :=
  match a, b with
  | [], _ => true
  | x :: a', y :: b' => st_eqb x y && is_prefix a' b'
  | _, _ => false
  end.

(* ---- executable encodings for the correspondence *)
Definition enc_info (i : info) : list Z :=
  [i_id i; st_code (i_st i); err_code (i_err i); if i_msg i then 1 else 0].
Definition enc_part (p : part) : list Z :=
  enc_info (p_info p) ++ [p_op p; if p_tgt p then 1 else 0].
Definition enc_resps (o : list pout) : list (list Z) :=
  flat_map (fun x => match x with OResp _ None => [[0]] | OResp _ (Some i) => [1 :: enc_info i] | OPart _ => [] end) o.
Definition enc_parts (o : list pout) : list (list Z) :=
  flat_map (fun x => match x with OPart p => [enc_part p] | OResp _ _ => [] end) o.

(* every complete legal report sequence; a run that has not come to rest shows a prefix of one *)
Definition tx_candidates : list (list istate) :=
  [] :: map (fun f => [f]) all_states ++ map (fun f => [Wait; Start; f]) all_states.
Definition tx_legal_prefix (resp : istate) (sts : list istate) : bool :=
  existsb (fun full => tx_legal resp full && is_prefix sts full) tx_candidates.

(* boolean twin of the legal-sequence statement for one transaction of a run *)
Definition check_tx (o : list pout) (quiet : bool) (id : Z) : bool :=
  match resp_of id o with
  | [None] => match parts_of id o with [] => true | _ => false end
  | [Some i] =>
      let sts := part_states (parts_of id o) in
      (Z.eqb (i_id i) id) && forallb (fun p => Z.eqb (i_id (p_info p)) id) (parts_of id o) &&
      if quiet then tx_legal (i_st i) sts else tx_legal_prefix (i_st i) sts
  | _ => false
  end.

(* ------------------------------------------------------------------ consumer *)
(* a received report part: transaction id, state, and a tag that identifies the part *)
Record cpart := mkCP { cp_id : Z; cp_st : istate; cp_tag : Z }.
(* OperationResult: state of .InvocationInfo, state of .set_response, whether InvocationInfo is the
   response's (no report part selected), .report_parts *)
Record cres := mkCR { cr_st : istate; cr_resp : istate; cr_from_resp : bool; cr_parts : list cpart }.

Section Assoc.
  Context {V : Type}.
  Fixpoint aget (k : Z) (l : list (Z * V)) : option V :=
    match l with [] => None | (k', v) :: r => if k' =? k then Some v else aget k r end.
  (* dict assignment: an existing key keeps its position *)
  Fixpoint aset (k : Z) (v : V) (l : list (Z * V)) : list (Z * V) :=
    match l with
    | [] => [(k, v)]
    | (k', v') :: r => if k' =? k then (k, v) :: r else (k', v') :: aset k v r
    end.
  Fixpoint adel (k : Z) (l : list (Z * V)) : list (Z * V) :=
    match l with
    | [] => []
    | (k', v') :: r => if k' =? k then adel k r else (k', v') :: adel k r
    end.
End Assoc.

Record cstate := mkC {
  c_pend : list (Z * (istate * list cpart));   (* _transactions: set_response state, report_parts *)
  c_recent : list cpart;                       (* _last_operation_invoked_reports, oldest first *)
  c_done : list (Z * cres)                     (* log of Future.set_result calls *)
}.
Definition cinit : cstate := mkC [] [] [].

(* CResp: the locked part of call_operation, executed when the post has returned the response;
   CPart: one iteration of the loop in on_operation_invoked_report *)
Inductive cevent := CResp (id : Z) (st : istate) | CPart (p : cpart).

Definition lastn {A} (n : nat) (l : list A) : list A := skipn (length l - n) l.
Definition own (id : Z) (l : list cpart) : list cpart := filter (fun p => cp_id p =? id) l.

Section Consumer.
  Variable cap : nat.                      (* deque(maxlen=cap) *)
  Variable kp : bool.                      (* a response that completes the call keeps the parts that
                                              arrived before it (repaired code) / drops them (as found) *)
  Variable completing : istate -> bool.    (* response states that complete the call at once *)
  Variable nonfinal : istate -> bool.      (* OperationsManager.nonFinalOperationStates *)

  Definition cstep (s : cstate) (e : cevent) : cstate :=
    match e with
    | CResp id st =>
        let parts := own id (c_recent s) in
        if completing st then
          mkC (c_pend s) (c_recent s)
              (c_done s ++ [(id, mkCR st st true (if kp then parts else []))])
        else
          match filter (fun p => negb (nonfinal (cp_st p))) parts with
          | f :: _ => mkC (c_pend s) (c_recent s) (c_done s ++ [(id, mkCR (cp_st f) st false parts)])
          | [] => mkC (aset id (st, parts) (c_pend s)) (c_recent s) (c_done s)
          end
    | CPart p =>
        match aget (cp_id p) (c_pend s) with
        | Some (rst, ps) =>
            if nonfinal (cp_st p) then
              mkC (aset (cp_id p) (rst, ps ++ [p]) (c_pend s)) (c_recent s) (c_done s)
            else
              mkC (adel (cp_id p) (c_pend s)) (c_recent s)
                  (c_done s ++ [(cp_id p, mkCR (cp_st p) rst false (ps ++ [p]))])
        | None => mkC (c_pend s) (lastn cap (c_recent s ++ [p])) (c_done s)
        end
    end.

  Definition crun (s : cstate) (es : list cevent) : cstate := fold_left cstep es s.

  (* What one model step stands for: one critical section under _transactions_lock (the translator checks that
     every access to buffer and table happens with the lock held).  For contrast, a handler that decides
     "transaction unknown" inside the critical section but buffers the part after leaving it: the part is held
     by the notification thread (UDecide) and reaches the buffer in a later step (UFlush); a response may come
     in between. *)
  Inductive uevent := UResp (id : Z) (st : istate) | UDecide (p : cpart) | UFlush.
  Record ustate := mkU { u_c : cstate; u_held : list cpart }.
  Definition ustep (s : ustate) (e : uevent) : ustate :=
    match e with
    | UResp id st => mkU (cstep (u_c s) (CResp id st)) (u_held s)
    | UDecide p =>
        match aget (cp_id p) (c_pend (u_c s)) with
        | Some _ => mkU (cstep (u_c s) (CPart p)) (u_held s)
        | None => mkU (u_c s) (u_held s ++ [p])
        end
    | UFlush => mkU (mkC (c_pend (u_c s)) (lastn cap (c_recent (u_c s) ++ u_held s)) (c_done (u_c s))) []
    end.
  Definition urun (s : ustate) (es : list uevent) : ustate := fold_left ustep es s.
End Consumer.

Definition done_of (id : Z) (s : cstate) : list cres :=
  flat_map (fun x => if fst x =? id then [snd x] else []) (c_done s).
Definition own_parts (id : Z) (es : list cevent) : list cpart :=
  flat_map (fun e => match e with CPart p => if cp_id p =? id then [p] else [] | CResp _ _ => [] end) es.
Definition count_parts (es : list cevent) : nat :=
  length (flat_map (fun e => match e with CPart p => [p] | CResp _ _ => [] end) es).
Definition mentions (id : Z) (e : cevent) : bool :=
  match e with CResp i _ => i =? id | CPart p => cp_id p =? id end.
Definition is_resp (id : Z) (e : cevent) : bool :=
  match e with CResp i _ => i =? id | CPart _ => false end.
Definition noresp (id : Z) (es : list cevent) : bool := forallb (fun e => negb (is_resp id e)) es.
(* the events received before the response of [id], and the number of report parts (of any
   transaction) among them *)
Fixpoint before_resp (id : Z) (es : list cevent) : list cevent :=
  match es with
  | [] => []
  | e :: r => if is_resp id e then [] else e :: before_resp id r
  end.
Definition parts_before (id : Z) (es : list cevent) : nat := count_parts (before_resp id es).
Definition fresh (id : Z) (s : cstate) : Prop :=
  aget id (c_pend s) = None /\ own id (c_recent s) = [] /\ done_of id s = [].

(* interleavings *)
Inductive Merge {A} : list A -> list A -> list A -> Prop :=
| Merge_nil : Merge [] [] []
| Merge_l x a b c : Merge a b c -> Merge (x :: a) b (x :: c)
| Merge_r x a b c : Merge a b c -> Merge a (x :: b) (x :: c).

(* ---- executable encodings for the correspondence *)
Definition enc_cp (p : cpart) : Z := cp_tag p.
Definition enc_res (x : Z * cres) : list Z :=
  fst x :: st_code (cr_st (snd x)) :: st_code (cr_resp (snd x)) :: (if cr_from_resp (snd x) then 1 else 0)
        :: map enc_cp (cr_parts (snd x)).
Definition enc_pend (x : Z * (istate * list cpart)) : list Z :=
  fst x :: st_code (fst (snd x)) :: map enc_cp (snd (snd x)).
Definition enc_cstate (s : cstate) : list (list Z) * list (list Z) * list Z :=
  (map enc_res (c_done s), map enc_pend (c_pend s), map enc_cp (c_recent s)).
