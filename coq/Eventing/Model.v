(* C08 -- WS-Eventing subscription life-cycle on the provider side.
   Executable model of src/sdc11073/provider/subscriptionmgr_base.py (SubscriptionBase,
   ActionBasedSubscription, SubscriptionsManagerBase), subscriptionmgr.py / subscriptionmgr_async.py
   (send_notification_report) and pysoap/soapclientpool.py, as repaired by fixes/C08_*.diff.
   Definitions only; proofs are in Eventing/Proofs.v.

   Time is counted in ticks of 1/8 s (Gen_Consts.TICKS_PER_S): the virtual clock of the
   correspondence runs and all requested durations are multiples of 2^-3 s, hence exact both as
   xsd:duration decimal strings and as binary64, and [round(x, 2)] sees exact inputs. *)
From Coq Require Import ZArith List Bool String Ascii Lia ZifyBool.
From SDC Require Import Common.Corr Eventing.Gen_Consts.
Import ListNotations.
Open Scope Z_scope.

(* ------------------------------------------------------------------ strings: str.endswith *)
Fixpoint lprefix (a b : list ascii) : bool :=
  match a, b with
  | [], _ => true
  | x :: a', y :: b' => Ascii.eqb x y && lprefix a' b'
  | _ :: _, [] => false
  end.

(* [ends_with s suf]  =  Python  s.endswith(suf) *)
Definition ends_with (s suf : string) : bool :=
  lprefix (rev (list_ascii_of_string suf)) (rev (list_ascii_of_string s)).

(* ActionBasedSubscription.matches: any(f.endswith(action) for f in self.actions_filter) *)
Definition matches (filter : list string) (a : string) : bool :=
  existsb (fun f => ends_with f a) filter.

(* side condition discharged on the generated list: no action URI is a proper suffix of another *)
Definition suffix_free (l : list string) : bool :=
  forallb (fun a => forallb (fun f => implb (ends_with f a) (String.eqb f a)) l) l.

Definition act (i : nat) : string := nth i sdc_actions EmptyString.

(* ------------------------------------------------------------------ data *)
Record sub := mkSub {
  s_id : Z;                 (* canonical id: number of subscriptions accepted before this one *)
  s_filter : list string;   (* actions_filter = Filter.text.split() *)
  s_started : Z;            (* _started (monotonic clock, ticks) *)
  s_expire : Z;             (* _expire_seconds (ticks) *)
  s_errors : Z;             (* notify_errors *)
  s_closed : bool;          (* _is_closed *)
  s_unsub : option Z;       (* unsubscribed_at *)
  s_notify : Z;             (* netloc of NotifyTo (index of the subscriber endpoint) *)
  s_end : option Z          (* netloc of EndTo, if the Subscribe request had one *)
}.

Record cfg := mkCfg {
  c_maxd : Z;               (* max_subscription_duration of the manager, ticks *)
  c_maxerr : Z;             (* SubscriptionBase.MAX_NOTIFY_ERRORS *)
  c_grace : Z;              (* housekeeping removes an unsubscribed entry when now > unsubscribed_at + grace *)
  c_dialect : bool          (* the manager rejects a foreign Filter/@Dialect (sync managers do, async ones do not) *)
}.

Definition default_cfg : cfg :=
  mkCfg DEFAULT_MAX_SUBSCR_DURATION_TICKS MAX_NOTIFY_ERRORS HOUSEKEEPING_GRACE_TICKS true.

(* SoapClientPool: netloc -> (user subscriptions, state of the pooled SoapClient):
   0 = not connected (fresh, or the last connect attempt failed), 1 = connected,
   2 = closed after a connection error: SoapClient never reconnects, every later post fails at once.
   The async client (SoapClientAsync) has no such memory: its state stays 0. *)
Definition pool := list (Z * (list Z * Z)).

Record state := mkState {
  st_now : Z;
  st_next : Z;              (* number of subscriptions accepted so far *)
  st_table : list sub;      (* SubscriptionsManagerBase._subscriptions (a set; kept in order of insertion) *)
  st_pool : pool
}.

Definition init : state := mkState 0 0 [] [].

(* what happens to an exchange with a subscriber endpoint:
   OOk          answered 2xx, empty body (or a SOAP envelope)
   OHttp        answered with an HTTP error status (any body) or a SOAP fault     -> HTTPReturnCodeError
   ORefuse      the peer is down: connect refused / the established connection breaks while sending
   OConnTimeout the peer is unreachable: connect times out / no answer on the established connection
   OTimeout     the peer accepts the request and never answers (socket / asyncio timeout)
   OReset       the peer drops the connection instead of answering
   OGarbage     answered 2xx with a body that is not XML                          -> XMLSyntaxError *)
Inductive outcome := OOk | OHttp | ORefuse | OTimeout | OReset | OConnTimeout | OGarbage.
Inductive ident := Id (k : Z) | Bogus.

Record subreq := mkReq {
  q_schema_ok : bool;               (* request passes schema validation *)
  q_dialect_ok : bool;              (* Filter/@Dialect is the action dialect *)
  q_filter : option (list string);  (* None: no Filter element *)
  q_expires : option Z;             (* None: no Expires element *)
  q_notify : Z;
  q_end : option Z
}.

Inductive op :=
  | Subscribe (q : subreq)
  | Renew (i : ident) (e : option Z)
  | GetStatus (i : ident)
  | Unsubscribe (i : ident)
  | Advance (dt : Z)
  | Report (a : string) (outs : list outcome)       (* outs: what happens to an exchange with endpoint n *)
  | Housekeeping
  | Stop (send_end : bool) (outs : list outcome).

Inductive resp :=
  | RSub (k : Z) (cs : Z)      (* SubscribeResponse, Expires in centiseconds *)
  | RRenew (cs : Z)
  | RStat (cs : Z)
  | RUnsub
  | RFault
  | RNone.                      (* the op is not a request *)

(* a message handed to a subscriber-facing SOAP client (post_message_to called) *)
Inductive msg :=
  | Notify (k : Z) (a : string) (dest : Z)
  | End (k : Z) (dest : Z) (to_endto : bool).

(* ------------------------------------------------------------------ lifetime *)
Definition rem_ticks (s : sub) (now : Z) : Z := s_expire s - (now - s_started s).

(* round(e/8, 2) * 100 for an exact dyadic e/8: round-half-even of 25*e/2 *)
Definition round2 (e : Z) : Z :=
  let q := 25 * e in
  if Z.even q then q / 2
  else let f := (q - 1) / 2 in if Z.even f then f else f + 1.

(* remaining_seconds, in centiseconds *)
Definition rem_cs (s : sub) (now : Z) : Z := Z.max (round2 (rem_ticks s now)) 0.

Definition is_valid (c : cfg) (s : sub) (now : Z) : bool :=
  negb (s_closed s) && (0 <? rem_cs s now) && (s_errors s <? c_maxerr c).

Definition is_none {A} (o : option A) : bool := match o with None => true | Some _ => false end.

(* send_notification_report (sync, repaired) / async_send_notification_report go on iff *)
Definition deliverable (c : cfg) (s : sub) (now : Z) : bool :=
  is_valid c s now && is_none (s_unsub s).

(* SubscriptionBase.renew (repaired): `if expires is not None` *)
Definition grant (c : cfg) (req : option Z) : Z :=
  match req with Some d => Z.min d (c_maxd c) | None => c_maxd c end.

(* ------------------------------------------------------------------ soap client pool *)
Fixpoint pfind (n : Z) (p : pool) : option (list Z * Z) :=
  match p with
  | [] => None
  | (m, e) :: r => if m =? n then Some e else pfind n r
  end.

Fixpoint pset (n : Z) (e : list Z * Z) (p : pool) : pool :=
  match p with
  | [] => [(n, e)]
  | (m, e0) :: r => if m =? n then (m, e) :: r else (m, e0) :: pset n e r
  end.

Fixpoint pdel (n : Z) (p : pool) : pool :=
  match p with
  | [] => []
  | (m, e0) :: r => if m =? n then r else (m, e0) :: pdel n r
  end.

Definition zmem (u : Z) (l : list Z) : bool := existsb (Z.eqb u) l.

Fixpoint zremove1 (u : Z) (l : list Z) : list Z :=
  match l with
  | [] => []
  | x :: r => if x =? u then r else x :: zremove1 u r
  end.

(* get_soap_client(netloc, _, usr); returns the pool and the state of the client found/created *)
Definition pool_get (p : pool) (n u : Z) : pool * Z :=
  match pfind n p with
  | None => (pset n ([u], 0) p, 0)
  | Some (us, d) => (pset n (if zmem u us then us else (us ++ [u])%list, d) p, d)
  end.

(* the manager serves its receivers one by one without the table lock and uses SoapClient (sync) /
   holds the lock throughout and uses SoapClientAsync (async); the same switch as the Filter/@Dialect
   check: all are properties of the manager class *)
Definition c_sync (c : cfg) : bool := c_dialect c.

(* one exchange on a client in state d: (new state, delivered).  EVERY outcome but OOk is a failed delivery. *)
Definition exchange_state (sync : bool) (d : Z) (o : outcome) : Z * bool :=
  if negb sync then (d, match o with OOk => true | _ => false end)
  else if d =? 2 then (2, false)
  else match o with
       | OOk => (1, true)
       | OHttp | OGarbage => (1, false)
       | ORefuse | OConnTimeout => (if d =? 0 then 0 else 2, false)    (* connect() fails / the open connection breaks *)
       | OTimeout | OReset => (2, false)
       end.

Definition set_state (p : pool) (n d : Z) : pool :=
  match pfind n p with Some (us, _) => pset n (us, d) p | None => p end.

(* post_message_to on the pooled client of netloc n: (pool, success) *)
Definition post (c : cfg) (p : pool) (n u : Z) (o : outcome) : pool * bool :=
  let '(p1, d) := pool_get p n u in
  let '(d', ok) := exchange_state (c_sync c) d o in
  (set_state p1 n d', ok).

(* forget_usr(netloc, usr) *)
Definition forget (p : pool) (n u : Z) : pool :=
  match pfind n p with
  | None => p
  | Some (us, d) =>
      let us' := if zmem u us then zremove1 u us else us in
      match us' with
      | [] => pdel n p
      | _ => pset n (us', d) p
      end
  end.

Definition outcome_at (outs : list outcome) (n : Z) : outcome := nth (Z.to_nat n) outs OOk.

(* ------------------------------------------------------------------ operations *)
Definition set_errors (s : sub) (e : Z) : sub :=
  mkSub (s_id s) (s_filter s) (s_started s) (s_expire s) e (s_closed s) (s_unsub s) (s_notify s) (s_end s).
Definition set_grant (s : sub) (now e : Z) : sub :=
  mkSub (s_id s) (s_filter s) now e (s_errors s) (s_closed s) (s_unsub s) (s_notify s) (s_end s).
Definition set_unsub (s : sub) (now : Z) : sub :=
  mkSub (s_id s) (s_filter s) (s_started s) (s_expire s) (s_errors s) (s_closed s) (Some now) (s_notify s) (s_end s).

(* send_to_subscribers: every table entry whose filter matches is asked to send *)
Fixpoint send_all (c : cfg) (now : Z) (a : string) (outs : list outcome) (tbl : list sub) (p : pool)
  : list sub * pool * list msg :=
  match tbl with
  | [] => ([], p, [])
  | s :: r =>
      if matches (s_filter s) a && deliverable c s now then
        let '(p1, ok) := post c p (s_notify s) (s_id s) (outcome_at outs (s_notify s)) in
        let s' := if ok then set_errors s 0 else set_errors s (s_errors s + 1) in
        let '(r', p2, ms) := send_all c now a outs r p1 in
        (s' :: r', p2, Notify (s_id s) a (s_notify s) :: ms)
      else
        let '(r', p2, ms) := send_all c now a outs r p in
        (s :: r', p2, ms)
  end.

(* _do_housekeeping, one pass *)
Definition obsolete (c : cfg) (now : Z) (s : sub) : bool :=
  negb (is_valid c s now) ||
  match s_unsub s with Some u => u + c_grace c <? now | None => false end.

Fixpoint housekeep (c : cfg) (now : Z) (tbl : list sub) (p : pool) : list sub * pool :=
  match tbl with
  | [] => ([], p)
  | s :: r =>
      if obsolete c now s && negb (s_closed s) then housekeep c now r (forget p (s_notify s) (s_id s))
      else let '(r', p') := housekeep c now r p in (s :: r', p')
  end.

(* SubscriptionEnd goes to EndTo if the Subscribe request had one, else to NotifyTo *)
Definition end_dest (s : sub) : Z * bool :=
  match s_end s with Some a => (a, true) | None => (s_notify s, false) end.

(* _end_all_subscriptions(send_subscription_end=True): the messages handed to clients *)
Fixpoint end_msgs (c : cfg) (now : Z) (tbl : list sub) : list msg :=
  match tbl with
  | [] => []
  | s :: r =>
      if is_none (s_unsub s) && is_valid c s now
      then End (s_id s) (fst (end_dest s)) (snd (end_dest s)) :: end_msgs c now r
      else end_msgs c now r
  end.

Fixpoint tfind (k : Z) (tbl : list sub) : option sub :=
  match tbl with
  | [] => None
  | s :: r => if s_id s =? k then Some s else tfind k r
  end.

Fixpoint tset (s' : sub) (tbl : list sub) : list sub :=
  match tbl with
  | [] => []
  | s :: r => if s_id s =? s_id s' then s' :: r else s :: tset s' r
  end.

(* _get_subscription_for_request (repaired): an unsubscribed entry is no longer known *)
Definition lookup (st : state) (i : ident) : option sub :=
  match i with
  | Bogus => None
  | Id k => match tfind k (st_table st) with
            | Some s => if is_none (s_unsub s) then Some s else None
            | None => None
            end
  end.

Definition accepts (c : cfg) (q : subreq) : bool :=
  q_schema_ok q && (q_dialect_ok q || negb (c_dialect c)) && negb (is_none (q_filter q)).

Definition new_sub (c : cfg) (st : state) (q : subreq) : sub :=
  mkSub (st_next st) (match q_filter q with Some f => f | None => [] end) (st_now st)
        (grant c (q_expires q)) 0 false None (q_notify q) (q_end q).

Definition step (c : cfg) (st : state) (o : op) : state * (resp * list msg) :=
  match o with
  | Subscribe q =>
      if accepts c q then
        let s := new_sub c st q in
        (mkState (st_now st) (st_next st + 1) (st_table st ++ [s])%list (st_pool st),
         (RSub (s_id s) (rem_cs s (st_now st)), []))
      else (st, (RFault, []))
  | Renew i e =>
      match lookup st i with
      | Some s => let s' := set_grant s (st_now st) (grant c e) in
                  (mkState (st_now st) (st_next st) (tset s' (st_table st)) (st_pool st),
                   (RRenew (rem_cs s' (st_now st)), []))
      | None => (st, (RFault, []))
      end
  | GetStatus i =>
      match lookup st i with
      | Some s => (st, (RStat (rem_cs s (st_now st)), []))
      | None => (st, (RFault, []))
      end
  | Unsubscribe i =>
      match lookup st i with
      | Some s => (mkState (st_now st) (st_next st) (tset (set_unsub s (st_now st)) (st_table st)) (st_pool st),
                   (RUnsub, []))
      | None => (st, (RFault, []))
      end
  | Advance dt => (mkState (st_now st + Z.max 0 dt) (st_next st) (st_table st) (st_pool st), (RNone, []))
  | Report a outs =>
      let '(t', p', ms) := send_all c (st_now st) a outs (st_table st) (st_pool st) in
      (mkState (st_now st) (st_next st) t' p', (RNone, ms))
  | Housekeeping =>
      let '(t', p') := housekeep c (st_now st) (st_table st) (st_pool st) in
      (mkState (st_now st) (st_next st) t' p', (RNone, []))
  | Stop send_end _ =>
      (* SdcProvider.stop_all: end all subscriptions, clear the table, close all pooled clients *)
      (mkState (st_now st) (st_next st) [] [],
       (RNone, if send_end then end_msgs c (st_now st) (st_table st) else []))
  end.

Fixpoint run (c : cfg) (st : state) (ops : list op) : state * list (resp * list msg) :=
  match ops with
  | [] => (st, [])
  | o :: r => let '(st1, ob) := step c st o in
              let '(st2, obs) := run c st1 r in (st2, ob :: obs)
  end.

Definition final (c : cfg) (ops : list op) : state := fst (run c init ops).
Definition outputs (c : cfg) (ops : list op) : list (resp * list msg) := snd (run c init ops).

(* ------------------------------------------------------------------ observation for the correspondence *)
(* table entry: (id, remaining cs, notify_errors, unsubscribed?, closed?, is_valid) *)
Definition sub_view (c : cfg) (now : Z) (s : sub) : Z * Z * Z * bool * bool * bool :=
  (s_id s, rem_cs s now, s_errors s, negb (is_none (s_unsub s)), s_closed s, is_valid c s now).

Fixpoint zinsert (x : Z) (l : list Z) : list Z :=
  match l with
  | [] => [x]
  | y :: r => if x <=? y then x :: l else y :: zinsert x r
  end.
Definition zsort (l : list Z) : list Z := fold_right zinsert [] l.

Definition pool_view (nsinks : nat) (p : pool) : list (option (list Z * Z)) :=
  map (fun n => match pfind (Z.of_nat n) p with
                | Some (us, d) => Some (zsort us, d)
                | None => None
                end) (seq 0 nsinks).

Definition obs := (resp * list msg * list (Z * Z * Z * bool * bool * bool) * list (option (list Z * Z)))%type.

Fixpoint run_obs (c : cfg) (nsinks : nat) (st : state) (ops : list op) : list obs :=
  match ops with
  | [] => []
  | o :: r => let '(st1, (rs, ms)) := step c st o in
              (rs, ms, map (sub_view c (st_now st1)) (st_table st1), pool_view nsinks (st_pool st1))
              :: run_obs c nsinks st1 r
  end.

Definition run_case (x : cfg * nat * list op) : list obs :=
  let '(c, n, ops) := x in run_obs c n init ops.

Definition resp_eqb (a b : resp) : bool :=
  match a, b with
  | RSub k x, RSub k' y => (k =? k') && (x =? y)
  | RRenew x, RRenew y => x =? y
  | RStat x, RStat y => x =? y
  | RUnsub, RUnsub => true
  | RFault, RFault => true
  | RNone, RNone => true
  | _, _ => false
  end.

Definition msg_eqb (a b : msg) : bool :=
  match a, b with
  | Notify k x d, Notify k' y d' => (k =? k') && String.eqb x y && (d =? d')
  | End k d e, End k' d' e' => (k =? k') && (d =? d') && Bool.eqb e e'
  | _, _ => false
  end.

Definition view_eqb (a b : Z * Z * Z * bool * bool * bool) : bool :=
  let '(i, r, e, u, cl, v) := a in let '(i', r', e', u', cl', v') := b in
  (i =? i') && (r =? r') && (e =? e') && Bool.eqb u u' && Bool.eqb cl cl' && Bool.eqb v v'.

Definition obs_eqb (a b : obs) : bool :=
  let '(r, ms, t, p) := a in let '(r', ms', t', p') := b in
  resp_eqb r r' && list_eqb msg_eqb ms ms' && list_eqb view_eqb t t' &&
  list_eqb (option_eqb (prod_eqb zl_eqb Z.eqb)) p p'.

Definition trace_eqb : list obs -> list obs -> bool := list_eqb obs_eqb.

(* ------------------------------------------------------------------ boolean twin of the property
   (evaluated by the harness on generated op lists when a theorem stops compiling) *)
Definition live_b (c : cfg) (s : sub) (now : Z) : bool :=
  negb (s_closed s) && (now - s_started s <? s_expire s) && is_none (s_unsub s) && (s_errors s <? c_maxerr c).

Definition expected_notifies (c : cfg) (st : state) (a : string) : list msg :=
  map (fun s => Notify (s_id s) a (s_notify s))
      (filter (fun s => live_b c s (st_now st) && matches (s_filter s) a) (st_table st)).

Definition expected_ends (c : cfg) (st : state) : list msg :=
  map (fun s => End (s_id s) (fst (end_dest s)) (snd (end_dest s)))
      (filter (fun s => live_b c s (st_now st)) (st_table st)).

Fixpoint check_C08 (c : cfg) (st : state) (ops : list op) : bool :=
  match ops with
  | [] => true
  | o :: r =>
      let '(st1, (rs, ms)) := step c st o in
      (match o with
       | Report a _ => list_eqb msg_eqb ms (expected_notifies c st a)
       | Stop true _ => list_eqb msg_eqb ms (expected_ends c st)
       | Subscribe q => match rs, q_expires q with
                        | RSub _ cs, Some d => (cs <=? Z.max 0 (round2 d)) && (cs <=? Z.max 0 (round2 (c_maxd c))) | _, _ => true end
       | Renew (Id _) (Some d) => match rs with RRenew cs => (cs <=? Z.max 0 (round2 d)) && (cs <=? Z.max 0 (round2 (c_maxd c))) | _ => true end
       | _ => match ms with [] => true | _ => false end
       end) && check_C08 c st1 r
  end.

Definition check_case (x : cfg * nat * list op) : bool := let '(c, _, ops) := x in check_C08 c init ops.
