(* C08 -- proofs about the subscription life-cycle model (Eventing/Model.v). *)
From Coq Require Import ZArith List Bool String Ascii Lia ZifyBool.
From SDC Require Import Common.Corr Eventing.Gen_Consts Eventing.Model.
Import ListNotations.
Open Scope Z_scope.
Open Scope list_scope.

(* ================================================================== A. action filters *)
Lemma lprefix_refl : forall a, lprefix a a = true.
Proof. induction a as [|x a IH]; simpl; [reflexivity|]. now rewrite Ascii.eqb_refl, IH. Qed.

Lemma ends_with_refl : forall s, ends_with s s = true.
Proof. intros s. unfold ends_with. apply lprefix_refl. Qed.

Lemma matches_In : forall f a, In a f -> matches f a = true.
Proof.
  intros f a H. unfold matches. apply existsb_exists. exists a. split; [exact H|apply ends_with_refl].
Qed.

Lemma suffix_free_spec : forall l, suffix_free l = true ->
  forall a f, In a l -> In f l -> ends_with f a = true -> f = a.
Proof.
  intros l H a f Ha Hf E. unfold suffix_free in H.
  rewrite forallb_forall in H. specialize (H a Ha). rewrite forallb_forall in H. specialize (H f Hf).
  rewrite E in H. simpl in H. now apply String.eqb_eq.
Qed.

Lemma filter_is_membership_gen : forall l, suffix_free l = true ->
  forall f a, incl f l -> In a l -> (matches f a = true <-> In a f).
Proof.
  intros l SF f a Hf Ha. split.
  - unfold matches. rewrite existsb_exists. intros [x [Hx E]].
    assert (x = a) by (eapply suffix_free_spec; eauto). now subst.
  - apply matches_In.
Qed.

Lemma sdc_actions_suffix_free : suffix_free sdc_actions = true.
Proof. vm_compute. reflexivity. Qed.

(* ================================================================== B. rounding / validity *)
Lemma round2_bounds : forall e, 25 * e - 1 <= 2 * round2 e <= 25 * e + 1.
Proof.
  intros e. unfold round2. set (q := 25 * e).
  pose proof (Zmod_even q) as Hq. pose proof (Z_div_mod_eq_full q 2) as Dq.
  destruct (Z.even q).
  - lia.
  - set (f := (q - 1) / 2).
    pose proof (Z_div_mod_eq_full (q - 1) 2) as Df. fold f in Df.
    assert ((q - 1) mod 2 = 0) as M.
    { replace (q - 1) with (q + (-1) * 2 + 1) by lia. rewrite <- Zplus_mod_idemp_l.
      rewrite Z_mod_plus_full. rewrite Hq. reflexivity. }
    destruct (Z.even f); lia.
Qed.

Lemma round2_pos : forall e, 0 < e -> 0 < round2 e.
Proof. intros e H. pose proof (round2_bounds e). lia. Qed.

Lemma round2_nonpos : forall e, e <= 0 -> round2 e <= 0.
Proof. intros e H. pose proof (round2_bounds e). lia. Qed.

Lemma round2_mono : forall a b, a <= b -> round2 a <= round2 b.
Proof.
  intros a b H. destruct (Z.eq_dec a b) as [->|N]; [lia|].
  pose proof (round2_bounds a). pose proof (round2_bounds b). lia.
Qed.

Lemma rem_cs_pos : forall s now, (0 <? rem_cs s now) = true <-> 0 < rem_ticks s now.
Proof.
  intros s now. unfold rem_cs. split; intros H.
  - destruct (Z_lt_le_dec 0 (rem_ticks s now)) as [L|L]; [exact L|].
    pose proof (round2_nonpos _ L). lia.
  - pose proof (round2_pos _ H). lia.
Qed.

(* the property's notion of a live subscription: no booleans, no rounding *)
Definition live (c : cfg) (s : sub) (now : Z) : Prop :=
  s_closed s = false /\ now - s_started s < s_expire s /\ s_unsub s = None /\ s_errors s < c_maxerr c.

Lemma is_valid_spec : forall c s now,
  is_valid c s now = true <-> s_closed s = false /\ now - s_started s < s_expire s /\ s_errors s < c_maxerr c.
Proof.
  intros c s now. unfold is_valid.
  rewrite !andb_true_iff, rem_cs_pos, negb_true_iff, Z.ltb_lt. unfold rem_ticks. intuition lia.
Qed.

Lemma is_none_true {A} : forall o : option A, is_none o = true <-> o = None.
Proof. intros [x|]; simpl; split; intros H; try discriminate; reflexivity. Qed.

Lemma deliverable_live : forall c s now, deliverable c s now = true <-> live c s now.
Proof.
  intros c s now. unfold deliverable, live. rewrite andb_true_iff, is_valid_spec, is_none_true. intuition.
Qed.

Lemma live_b_live : forall c s now, live_b c s now = true <-> live c s now.
Proof.
  intros c s now. unfold live_b, live.
  rewrite !andb_true_iff, negb_true_iff, is_none_true, !Z.ltb_lt. intuition.
Qed.

Lemma live_b_deliverable : forall c s now, live_b c s now = deliverable c s now.
Proof.
  intros. apply eq_true_iff_eq. rewrite live_b_live, deliverable_live. tauto.
Qed.

(* ================================================================== C. send_to_subscribers *)
Definition msgs_of (r : state * (resp * list msg)) : list msg := snd (snd r).
Definition resp_of (r : state * (resp * list msg)) : resp := fst (snd r).

Lemma send_all_msgs : forall c now a outs tbl p,
  snd (send_all c now a outs tbl p) =
  map (fun s => Notify (s_id s) a (s_notify s))
      (filter (fun s => matches (s_filter s) a && deliverable c s now) tbl).
Proof.
  intros c now a outs tbl. induction tbl as [|s r IH]; intros p; simpl; [reflexivity|].
  destruct (matches (s_filter s) a && deliverable c s now).
  - destruct (post c p (s_notify s) (s_id s) (outcome_at outs (s_notify s))) as [p1 ok].
    specialize (IH p1). destruct (send_all c now a outs r p1) as [[r' p2] ms]. simpl in *. now rewrite IH.
  - specialize (IH p). destruct (send_all c now a outs r p) as [[r' p2] ms]. simpl in *. exact IH.
Qed.

(* what send_all does to the table: only notify_errors of the addressed entries change *)
Definition same_static (s s' : sub) : Prop :=
  s_id s' = s_id s /\ s_filter s' = s_filter s /\ s_notify s' = s_notify s /\ s_end s' = s_end s.

Definition same_but_errors (s s' : sub) : Prop :=
  same_static s s' /\ s_started s' = s_started s /\ s_expire s' = s_expire s /\
  s_closed s' = s_closed s /\ s_unsub s' = s_unsub s.

Lemma same_but_errors_refl : forall s, same_but_errors s s.
Proof. intros s. repeat split. Qed.

Lemma set_errors_same : forall s e, same_but_errors s (set_errors s e).
Proof. intros s e. repeat split. Qed.

Lemma send_all_table : forall c now a outs tbl p,
  Forall2 same_but_errors tbl (fst (fst (send_all c now a outs tbl p))).
Proof.
  intros c now a outs tbl. induction tbl as [|s r IH]; intros p; simpl; [constructor|].
  destruct (matches (s_filter s) a && deliverable c s now).
  - destruct (post c p (s_notify s) (s_id s) (outcome_at outs (s_notify s))) as [p1 ok].
    specialize (IH p1). destruct (send_all c now a outs r p1) as [[r' p2] ms]. simpl in *.
    constructor; [destruct ok; apply set_errors_same|exact IH].
  - specialize (IH p). destruct (send_all c now a outs r p) as [[r' p2] ms]. simpl in *.
    constructor; [apply same_but_errors_refl|exact IH].
Qed.

Lemma Forall2_map_eq {A B} (R : A -> A -> Prop) (f : A -> B) :
  (forall x y, R x y -> f y = f x) -> forall l l', Forall2 R l l' -> map f l' = map f l.
Proof. intros H l l' F. induction F; simpl; [reflexivity|]. now rewrite IHF, (H _ _ H0). Qed.

Lemma Forall2_In_r {A} (R : A -> A -> Prop) : forall l l' y,
  Forall2 R l l' -> In y l' -> exists x, In x l /\ R x y.
Proof.
  intros l l' y F. induction F; simpl; intros H'; [contradiction|].
  destruct H' as [->|H']; [exists x; auto|]. destruct (IHF H') as [x0 [? ?]]. exists x0; auto.
Qed.

Lemma Forall2_In_l {A} (R : A -> A -> Prop) : forall l l' x,
  Forall2 R l l' -> In x l -> exists y, In y l' /\ R x y.
Proof.
  intros l l' x0 F. induction F; simpl; intros H'; [contradiction|].
  destruct H' as [->|H']; [exists y; auto|]. destruct (IHF H') as [y0 [? ?]]. exists y0; auto.
Qed.

(* ================================================================== D. housekeeping *)
Lemma housekeep_table : forall c now tbl p,
  fst (housekeep c now tbl p) = filter (fun s => negb (obsolete c now s && negb (s_closed s))) tbl.
Proof.
  intros c now tbl. induction tbl as [|s r IH]; intros p; simpl; [reflexivity|].
  destruct (obsolete c now s && negb (s_closed s)); simpl.
  - apply IH.
  - specialize (IH p). destruct (housekeep c now r p) as [r' p']. simpl in *. now rewrite IH.
Qed.

Lemma live_not_obsolete : forall c s now, 0 <= c_grace c -> live c s now -> obsolete c now s = false.
Proof.
  intros c s now G L. unfold obsolete.
  assert (is_valid c s now = true) as V.
  { apply is_valid_spec. destruct L as [? [? [? ?]]]. auto. }
  rewrite V. destruct L as [_ [_ [U _]]]. rewrite U. reflexivity.
Qed.

(* ================================================================== E. lookup *)
Lemma tfind_Some : forall k tbl s, tfind k tbl = Some s -> In s tbl /\ s_id s = k.
Proof.
  intros k tbl. induction tbl as [|x r IH]; simpl; intros s H; [discriminate|].
  destruct (s_id x =? k) eqn:E.
  - inversion H; subst. split; [now left|lia].
  - destruct (IH _ H) as [? ?]. split; [now right|assumption].
Qed.

Lemma tfind_None : forall k tbl, tfind k tbl = None -> forall s, In s tbl -> s_id s <> k.
Proof.
  intros k tbl. induction tbl as [|x r IH]; simpl; intros H s Hs; [contradiction|].
  destruct (s_id x =? k) eqn:E; [discriminate|].
  destruct Hs as [->|Hs]; [lia|]. now apply IH.
Qed.

Lemma tfind_NoDup : forall tbl s, NoDup (map s_id tbl) -> In s tbl -> tfind (s_id s) tbl = Some s.
Proof.
  induction tbl as [|x r IH]; simpl; intros s ND Hs; [contradiction|].
  inversion ND as [|? ? NI ND']; subst.
  destruct Hs as [->|Hs].
  - now rewrite Z.eqb_refl.
  - destruct (s_id x =? s_id s) eqn:E.
    + exfalso. apply NI. apply Z.eqb_eq in E. rewrite E. now apply in_map.
    + now apply IH.
Qed.

Lemma tset_ids : forall s' tbl, map s_id (tset s' tbl) = map s_id tbl.
Proof.
  intros s' tbl. induction tbl as [|x r IH]; simpl; [reflexivity|].
  destruct (s_id x =? s_id s') eqn:E; simpl; [f_equal; lia|now rewrite IH].
Qed.

Lemma tset_In : forall s' tbl y, In y (tset s' tbl) -> y = s' \/ In y tbl.
Proof.
  intros s' tbl. induction tbl as [|x r IH]; simpl; intros y H; [contradiction|].
  destruct (s_id x =? s_id s').
  - destruct H as [<-|H]; auto.
  - destruct H as [<-|H]; auto. destruct (IH _ H); auto.
Qed.

Lemma tset_In_other : forall s' tbl y, In y tbl -> s_id y <> s_id s' -> In y (tset s' tbl).
Proof.
  intros s' tbl. induction tbl as [|x r IH]; simpl; intros y H N; [contradiction|].
  destruct (s_id x =? s_id s') eqn:E.
  - destruct H as [->|H]; [lia|now right].
  - destruct H as [->|H]; [now left|right; now apply IH].
Qed.

Lemma tset_In_new : forall s' tbl, (exists x, In x tbl /\ s_id x = s_id s') -> In s' (tset s' tbl).
Proof.
  intros s' tbl. induction tbl as [|x r IH]; simpl; intros [y [Hy E]]; [contradiction|].
  destruct (s_id x =? s_id s') eqn:E'; [now left|].
  destruct Hy as [->|Hy]; [lia|]. right. apply IH. eauto.
Qed.

Definition known (st : state) (i : ident) : Prop :=
  exists k s, i = Id k /\ In s (st_table st) /\ s_id s = k /\ s_unsub s = None.

Lemma lookup_Some : forall st i s, lookup st i = Some s ->
  exists k, i = Id k /\ In s (st_table st) /\ s_id s = k /\ s_unsub s = None.
Proof.
  intros st [k|] s; simpl; [|discriminate].
  destruct (tfind k (st_table st)) as [x|] eqn:E; [|discriminate].
  destruct (s_unsub x) eqn:U; simpl; [discriminate|]. intros H; inversion H; subst.
  destruct (tfind_Some _ _ _ E) as [? <-]. exists (s_id s). auto.
Qed.

Lemma lookup_unknown : forall st i, ~ known st i -> lookup st i = None.
Proof.
  intros st i NK. destruct (lookup st i) as [s|] eqn:E; [|reflexivity].
  exfalso. apply NK. destruct (lookup_Some _ _ _ E) as [k [? [? [? ?]]]]. exists k, s. auto.
Qed.

Lemma lookup_known : forall st i, NoDup (map s_id (st_table st)) -> known st i ->
  exists s, lookup st i = Some s.
Proof.
  intros st i ND [k [s [-> [Hs [Hk U]]]]]. exists s. simpl. subst k.
  rewrite (tfind_NoDup _ _ ND Hs). now rewrite U.
Qed.

(* ================================================================== F. invariant of reachable states *)
Definition wf_sub (c : cfg) (st : state) (s : sub) : Prop :=
  0 <= s_id s < st_next st /\ s_closed s = false /\ s_started s <= st_now st /\ s_expire s <= c_maxd c.

Definition Inv (c : cfg) (st : state) : Prop :=
  NoDup (map s_id (st_table st)) /\ Forall (wf_sub c st) (st_table st) /\ 0 <= st_next st.

Lemma grant_le_max : forall c e, grant c e <= c_maxd c.
Proof. intros c [d|]; simpl; lia. Qed.

Lemma grant_le_req : forall c d, grant c (Some d) <= d.
Proof. intros; simpl; lia. Qed.

Lemma NoDup_app_snoc {A} : forall (l : list A) x, NoDup l -> ~ In x l -> NoDup (l ++ [x]).
Proof.
  induction l as [|y l IH]; simpl; intros x ND NI; [constructor; [auto|constructor]|].
  inversion ND; subst. constructor.
  - rewrite in_app_iff. simpl. intros [H|[H|[]]]; [contradiction|subst; apply NI; now left].
  - apply IH; [assumption|]. intros H; apply NI; now right.
Qed.

Lemma NoDup_map_filter {A B} (f : A -> B) (g : A -> bool) : forall l,
  NoDup (map f l) -> NoDup (map f (filter g l)).
Proof.
  induction l as [|x l IH]; simpl; intros ND; [constructor|].
  inversion ND; subst. destruct (g x); simpl; [|auto].
  constructor; [|auto]. intros H. apply H1. apply in_map_iff in H as [y [E Hy]].
  apply filter_In in Hy as [Hy _]. rewrite <- E. now apply in_map.
Qed.

Lemma Forall_filter {A} (P : A -> Prop) (g : A -> bool) : forall l, Forall P l -> Forall P (filter g l).
Proof.
  intros l F. rewrite Forall_forall in *. intros x H. apply filter_In in H as [H _]. auto.
Qed.

Lemma Inv_init : forall c, Inv c init.
Proof. intros c. repeat split; simpl; try constructor; lia. Qed.

Lemma Forall_wf_weaken : forall c st st' l,
  st_next st <= st_next st' -> st_now st <= st_now st' ->
  Forall (wf_sub c st) l -> Forall (wf_sub c st') l.
Proof.
  intros c st st' l Hn Ht F. eapply Forall_impl; [|exact F].
  intros s [? [? [? ?]]]. repeat split; try assumption; lia.
Qed.

Lemma Inv_step : forall c st o, Inv c st -> Inv c (fst (step c st o)).
Proof.
  intros c st o [ND [F N]]. destruct o as [q|i e|i|i|dt|a outs| |se outs]; simpl.
  - (* Subscribe *)
    destruct (accepts c q); simpl; [|repeat split; assumption].
    repeat split; simpl; try lia.
    + rewrite map_app. simpl. apply NoDup_app_snoc; [exact ND|].
      intros H. apply in_map_iff in H as [x [Hx Hin]].
      rewrite Forall_forall in F. destruct (F _ Hin) as [? _]. lia.
    + apply Forall_app. split.
      * eapply Forall_wf_weaken; [| |exact F]; simpl; lia.
      * constructor; [|constructor]. repeat split; simpl; try lia. apply grant_le_max.
  - (* Renew *)
    destruct (lookup st i) as [s|] eqn:L; simpl; [|repeat split; assumption].
    destruct (lookup_Some _ _ _ L) as [k [_ [Hs [_ _]]]].
    repeat split; simpl; try assumption.
    + now rewrite tset_ids.
    + rewrite Forall_forall in *. intros y Hy. apply tset_In in Hy as [->|Hy]; [|now apply F].
      destruct (F _ Hs) as [? [? [? ?]]]. repeat split; simpl; try assumption; try lia. apply grant_le_max.
  - (* GetStatus *)
    destruct (lookup st i); simpl; repeat split; assumption.
  - (* Unsubscribe *)
    destruct (lookup st i) as [s|] eqn:L; simpl; [|repeat split; assumption].
    destruct (lookup_Some _ _ _ L) as [k [_ [Hs [_ _]]]].
    repeat split; simpl; try assumption.
    + now rewrite tset_ids.
    + rewrite Forall_forall in *. intros y Hy. apply tset_In in Hy as [->|Hy]; [|now apply F].
      destruct (F _ Hs) as [[? ?] [? [? ?]]]. repeat split; simpl; assumption.
  - (* Advance *)
    repeat split; simpl; try assumption.
    eapply Forall_wf_weaken; [| |exact F]; simpl; lia.
  - (* Report *)
    pose proof (send_all_table c (st_now st) a outs (st_table st) (st_pool st)) as T.
    destruct (send_all c (st_now st) a outs (st_table st) (st_pool st)) as [[t' p'] ms]. simpl in *.
    repeat split; simpl; try assumption.
    + rewrite (Forall2_map_eq same_but_errors s_id) with (l := st_table st); [exact ND| |exact T].
      intros x y [[? _] _]. assumption.
    + rewrite Forall_forall in *. intros y Hy.
      destruct (Forall2_In_r _ _ _ _ T Hy) as [x [Hx [[Hid _] [Hs [He [Hc _]]]]]].
      destruct (F _ Hx) as [? [? [? ?]]]. unfold wf_sub. rewrite Hid, Hs, He, Hc. auto.
  - (* Housekeeping *)
    pose proof (housekeep_table c (st_now st) (st_table st) (st_pool st)) as T.
    destruct (housekeep c (st_now st) (st_table st) (st_pool st)) as [t' p']. simpl in *. subst t'.
    repeat split; simpl; try assumption.
    + apply NoDup_map_filter. exact ND.
    + apply Forall_filter. exact F.
  - (* Stop *)
    repeat split; simpl; try constructor; assumption.
Qed.

(* ================================================================== G. runs and reachable states *)
Lemma run_fst_app : forall c ops1 ops2 st,
  fst (run c st (ops1 ++ ops2)) = fst (run c (fst (run c st ops1)) ops2).
Proof.
  intros c ops1. induction ops1 as [|o r IH]; intros ops2 st; simpl; [reflexivity|].
  destruct (step c st o) as [st1 ob]. specialize (IH ops2 st1).
  destruct (run c st1 (r ++ ops2)) as [sa oa]. destruct (run c st1 r) as [sb ob'].
  simpl in *. exact IH.
Qed.

Lemma final_snoc : forall c ops o, final c (ops ++ [o]) = fst (step c (final c ops) o).
Proof.
  intros c ops o. unfold final. rewrite run_fst_app. simpl.
  destruct (step c (fst (run c init ops)) o) as [st1 ob]. reflexivity.
Qed.

Lemma Inv_run : forall c ops st, Inv c st -> Inv c (fst (run c st ops)).
Proof.
  intros c ops. induction ops as [|o r IH]; intros st I; simpl; [exact I|].
  pose proof (Inv_step c st o I) as I1. destruct (step c st o) as [st1 ob]. simpl in I1.
  specialize (IH st1 I1). destruct (run c st1 r) as [st2 obs]. exact IH.
Qed.

Lemma Inv_final : forall c ops, Inv c (final c ops).
Proof. intros c ops. apply Inv_run. apply Inv_init. Qed.

(* ================================================================== H. delivery *)
Lemma delivery_iff : forall c st a outs k b dest,
  In (Notify k b dest) (msgs_of (step c st (Report a outs))) <->
  b = a /\ exists s, In s (st_table st) /\ s_id s = k /\ dest = s_notify s /\
                     live c s (st_now st) /\ matches (s_filter s) a = true.
Proof.
  intros c st a outs k b dest. unfold msgs_of. simpl.
  pose proof (send_all_msgs c (st_now st) a outs (st_table st) (st_pool st)) as M.
  destruct (send_all c (st_now st) a outs (st_table st) (st_pool st)) as [[t' p'] ms]. simpl in *. subst ms.
  rewrite in_map_iff. split.
  - intros [s [E Hs]]. apply filter_In in Hs as [Hs B]. apply andb_true_iff in B as [B1 B2].
    inversion E; subst. split; [reflexivity|]. exists s. rewrite <- deliverable_live. auto.
  - intros [-> [s [Hs [<- [-> [L Mt]]]]]]. exists s. split; [reflexivity|].
    apply filter_In. split; [exact Hs|]. rewrite Mt. simpl. now apply deliverable_live.
Qed.

Lemma report_hands_no_end : forall c st a outs k d e,
  ~ In (End k d e) (msgs_of (step c st (Report a outs))).
Proof.
  intros c st a outs k d e. unfold msgs_of. simpl.
  pose proof (send_all_msgs c (st_now st) a outs (st_table st) (st_pool st)) as M.
  destruct (send_all c (st_now st) a outs (st_table st) (st_pool st)) as [[t' p'] ms]. simpl in *. subst ms.
  rewrite in_map_iff. intros [s [E _]]. discriminate.
Qed.

Lemma only_report_and_stop_send : forall c st o,
  match o with Report _ _ | Stop _ _ => True | _ => msgs_of (step c st o) = [] end.
Proof.
  intros c st o. unfold msgs_of. destruct o as [q|i e|i|i|dt|a outs| |se outs]; simpl; auto.
  - destruct (accepts c q); reflexivity.
  - destruct (lookup st i); reflexivity.
  - destruct (lookup st i); reflexivity.
  - destruct (lookup st i); reflexivity.
  - destruct (housekeep c (st_now st) (st_table st) (st_pool st)). reflexivity.
Qed.

(* every table entry stems from an accepted Subscribe request (its static part never changes) *)
Lemma same_static_refl : forall s, same_static s s.
Proof. intros s. repeat split. Qed.

Lemma same_static_trans : forall a b d, same_static a b -> same_static b d -> same_static a d.
Proof. intros a b d [? [? [? ?]]] [? [? [? ?]]]. repeat split; congruence. Qed.

Lemma step_table_origin : forall c st o s', In s' (st_table (fst (step c st o))) ->
  (exists s, In s (st_table st) /\ same_static s s') \/
  (exists q, o = Subscribe q /\ accepts c q = true /\ s' = new_sub c st q).
Proof.
  intros c st o s'. destruct o as [q|i e|i|i|dt|a outs| |se outs]; simpl.
  - destruct (accepts c q) eqn:A; simpl.
    + rewrite in_app_iff. simpl. intros [H|[<-|[]]].
      * left. exists s'. split; [exact H|apply same_static_refl].
      * right. exists q. auto.
    + intros H. left. exists s'. split; [exact H|apply same_static_refl].
  - destruct (lookup st i) as [s|] eqn:L; simpl; intros H.
    + destruct (lookup_Some _ _ _ L) as [k [_ [Hs _]]].
      apply tset_In in H as [->|H]; left; [exists s; split; [exact Hs|repeat split]|
                                           exists s'; split; [exact H|apply same_static_refl]].
    + left. exists s'. split; [exact H|apply same_static_refl].
  - destruct (lookup st i); simpl; intros H; left; exists s'; (split; [exact H|apply same_static_refl]).
  - destruct (lookup st i) as [s|] eqn:L; simpl; intros H.
    + destruct (lookup_Some _ _ _ L) as [k [_ [Hs _]]].
      apply tset_In in H as [->|H]; left; [exists s; split; [exact Hs|repeat split]|
                                           exists s'; split; [exact H|apply same_static_refl]].
    + left. exists s'. split; [exact H|apply same_static_refl].
  - intros H. left. exists s'. split; [exact H|apply same_static_refl].
  - pose proof (send_all_table c (st_now st) a outs (st_table st) (st_pool st)) as T.
    destruct (send_all c (st_now st) a outs (st_table st) (st_pool st)) as [[t' p'] ms]. simpl in *.
    intros H. destruct (Forall2_In_r _ _ _ _ T H) as [x [Hx [S _]]]. left. exists x. auto.
  - pose proof (housekeep_table c (st_now st) (st_table st) (st_pool st)) as T.
    destruct (housekeep c (st_now st) (st_table st) (st_pool st)) as [t' p']. simpl in *. subst t'.
    intros H. apply filter_In in H as [H _]. left. exists s'. split; [exact H|apply same_static_refl].
  - intros [].
Qed.

Lemma table_accepted : forall c ops s, In s (st_table (final c ops)) ->
  exists pre q post cs,
    ops = pre ++ Subscribe q :: post /\ accepts c q = true /\
    same_static (new_sub c (final c pre) q) s /\
    resp_of (step c (final c pre) (Subscribe q)) = RSub (s_id s) cs.
Proof.
  intros c ops. induction ops as [|o ops IH] using rev_ind; intros s H.
  - simpl in H. contradiction.
  - rewrite final_snoc in H. apply step_table_origin in H as [[s0 [H0 S]]|[q [-> [A ->]]]].
    + destruct (IH _ H0) as [pre [q [post [cs [E [A [S0 R]]]]]]].
      exists pre, q, (post ++ [o]), cs. repeat split.
      * rewrite E. rewrite <- app_assoc. reflexivity.
      * exact A.
      * destruct (same_static_trans _ _ _ S0 S) as [? [? [? ?]]]. assumption.
      * destruct (same_static_trans _ _ _ S0 S) as [? [? [? ?]]]. assumption.
      * destruct (same_static_trans _ _ _ S0 S) as [? [? [? ?]]]. assumption.
      * destruct (same_static_trans _ _ _ S0 S) as [? [? [? ?]]]. assumption.
      * destruct S as [Sid _]. rewrite Sid. exact R.
    + exists ops, q, [], (rem_cs (new_sub c (final c ops) q) (st_now (final c ops))). repeat split.
      * exact A.
      * unfold resp_of. simpl. rewrite A. reflexivity.
Qed.

(* ================================================================== I. granted expiry, GetStatus / Renew *)
Lemma rem_cs_le_grant : forall s now, s_started s <= now -> rem_cs s now <= Z.max (round2 (s_expire s)) 0.
Proof.
  intros s now H. unfold rem_cs, rem_ticks.
  pose proof (round2_mono (s_expire s - (now - s_started s)) (s_expire s)). lia.
Qed.

Lemma subscribe_granted : forall c st q k cs,
  resp_of (step c st (Subscribe q)) = RSub k cs ->
  exists s, In s (st_table (fst (step c st (Subscribe q)))) /\ s_id s = k /\ k = st_next st /\
    s_started s = st_now st /\ s_expire s = grant c (q_expires q) /\
    s_expire s <= c_maxd c /\ (forall d, q_expires q = Some d -> s_expire s <= d) /\
    (q_expires q = None -> s_expire s = c_maxd c) /\
    cs = Z.max (round2 (s_expire s)) 0 /\
    cs <= Z.max (round2 (c_maxd c)) 0 /\ (forall d, q_expires q = Some d -> cs <= Z.max (round2 d) 0).
Proof.
  intros c st q k cs. unfold resp_of. simpl. destruct (accepts c q); simpl; [|discriminate].
  intros H. inversion H; subst. exists (new_sub c st q). simpl.
  assert (rem_cs (new_sub c st q) (st_now st) = Z.max (round2 (grant c (q_expires q))) 0) as E.
  { unfold rem_cs, rem_ticks. simpl. f_equal. f_equal. lia. }
  rewrite E. repeat split.
  - apply in_app_iff. right. now left.
  - apply grant_le_max.
  - intros d ->. apply grant_le_req.
  - intros ->. reflexivity.
  - pose proof (round2_mono _ _ (grant_le_max c (q_expires q))). lia.
  - intros d ->. pose proof (round2_mono _ _ (grant_le_req c d)). lia.
Qed.

Lemma renew_granted : forall c st i e cs,
  NoDup (map s_id (st_table st)) ->
  resp_of (step c st (Renew i e)) = RRenew cs ->
  exists k s0 s, i = Id k /\ In s0 (st_table st) /\ s_id s0 = k /\ s_unsub s0 = None /\
    In s (st_table (fst (step c st (Renew i e)))) /\ same_static s0 s /\
    s_started s = st_now st /\ s_expire s = grant c e /\
    s_expire s <= c_maxd c /\ (forall d, e = Some d -> s_expire s <= d) /\
    (e = None -> s_expire s = c_maxd c) /\
    cs = Z.max (round2 (s_expire s)) 0 /\
    cs <= Z.max (round2 (c_maxd c)) 0 /\ (forall d, e = Some d -> cs <= Z.max (round2 d) 0).
Proof.
  intros c st i e cs ND. unfold resp_of. simpl. destruct (lookup st i) as [s0|] eqn:L; simpl; [|discriminate].
  intros H. inversion H; subst. clear H.
  destruct (lookup_Some _ _ _ L) as [k [-> [Hs [Hk U]]]].
  exists k, s0, (set_grant s0 (st_now st) (grant c e)). simpl.
  assert (rem_cs (set_grant s0 (st_now st) (grant c e)) (st_now st) = Z.max (round2 (grant c e)) 0) as E.
  { unfold rem_cs, rem_ticks. simpl. f_equal. f_equal. lia. }
  rewrite E. repeat split; try assumption.
  - apply tset_In_new. exists s0. split; [exact Hs|reflexivity].
  - apply grant_le_max.
  - intros d ->. apply grant_le_req.
  - intros ->. reflexivity.
  - pose proof (round2_mono _ _ (grant_le_max c e)). lia.
  - intros d ->. pose proof (round2_mono _ _ (grant_le_req c d)). lia.
Qed.

Lemma status_consistent : forall c st i cs,
  resp_of (step c st (GetStatus i)) = RStat cs ->
  fst (step c st (GetStatus i)) = st /\
  exists k s, i = Id k /\ In s (st_table st) /\ s_id s = k /\ s_unsub s = None /\
    cs = Z.max (round2 (s_expire s - (st_now st - s_started s))) 0.
Proof.
  intros c st i cs. unfold resp_of. simpl. destruct (lookup st i) as [s|] eqn:L; simpl; [|discriminate].
  intros H. inversion H; subst. split; [reflexivity|].
  destruct (lookup_Some _ _ _ L) as [k [-> [Hs [Hk U]]]]. exists k, s. repeat split; assumption.
Qed.

(* started / expire of an entry change only by a successful Renew naming it *)
Lemma grant_stable : forall c st o s s',
  Inv c st ->
  In s (st_table st) -> In s' (st_table (fst (step c st o))) -> s_id s' = s_id s ->
  (s_started s' = s_started s /\ s_expire s' = s_expire s) \/
  (exists e cs, o = Renew (Id (s_id s)) e /\ resp_of (step c st o) = RRenew cs).
Proof.
  intros c st o s s' [ND [F N]] Hs Hs' Hid.
  assert (forall x, In x (st_table st) -> s_id x = s_id s -> x = s) as U.
  { intros x Hx E. pose proof (tfind_NoDup _ _ ND Hx) as F1. pose proof (tfind_NoDup _ _ ND Hs) as F2.
    rewrite E in F1. congruence. }
  rewrite Forall_forall in F.
  destruct o as [q|i e|i|i|dt|a outs| |se outs]; simpl in *.
  - destruct (accepts c q) eqn:A; simpl in *.
    + apply in_app_iff in Hs' as [H|[<-|[]]]; [left; rewrite (U _ H Hid); auto|].
      exfalso. simpl in Hid. destruct (F _ Hs) as [[? ?] _]. lia.
    + left. rewrite (U _ Hs' Hid). auto.
  - destruct (lookup st i) as [s0|] eqn:L; simpl in *.
    + destruct (lookup_Some _ _ _ L) as [k [-> [Hs0 [Hk _]]]].
      apply tset_In in Hs' as [->|H].
      * simpl in Hid. right. exists e, (rem_cs (set_grant s0 (st_now st) (grant c e)) (st_now st)).
        split; [subst k; now rewrite Hid|]. reflexivity.
      * left. rewrite (U _ H Hid). auto.
    + left. rewrite (U _ Hs' Hid). auto.
  - destruct (lookup st i); simpl in *; left; rewrite (U _ Hs' Hid); auto.
  - destruct (lookup st i) as [s0|] eqn:L; simpl in *.
    + destruct (lookup_Some _ _ _ L) as [k [_ [Hs0 _]]].
      apply tset_In in Hs' as [->|H].
      * simpl in Hid. left. rewrite (U _ Hs0 Hid). auto.
      * left. rewrite (U _ H Hid). auto.
    + left. rewrite (U _ Hs' Hid). auto.
  - left. rewrite (U _ Hs' Hid). auto.
  - pose proof (send_all_table c (st_now st) a outs (st_table st) (st_pool st)) as T.
    destruct (send_all c (st_now st) a outs (st_table st) (st_pool st)) as [[t' p'] ms]. simpl in *.
    destruct (Forall2_In_r _ _ _ _ T Hs') as [x [Hx [[Sid _] [Hst [Hex _]]]]].
    left. rewrite Hst, Hex. rewrite (U x Hx); [auto|congruence].
  - pose proof (housekeep_table c (st_now st) (st_table st) (st_pool st)) as T.
    destruct (housekeep c (st_now st) (st_table st) (st_pool st)) as [t' p']. simpl in *. subst t'.
    apply filter_In in Hs' as [H _]. left. rewrite (U _ H Hid). auto.
  - contradiction.
Qed.

(* ================================================================== J. unknown subscriptions *)
Lemma unknown_fault_noop : forall c st i, ~ known st i ->
  (forall e, step c st (Renew i e) = (st, (RFault, []))) /\
  step c st (GetStatus i) = (st, (RFault, [])) /\
  step c st (Unsubscribe i) = (st, (RFault, [])).
Proof.
  intros c st i NK. pose proof (lookup_unknown _ _ NK) as L. simpl. rewrite L. auto.
Qed.

Lemma known_served : forall c st i, NoDup (map s_id (st_table st)) -> known st i ->
  (forall e, exists cs, resp_of (step c st (Renew i e)) = RRenew cs) /\
  (exists cs, resp_of (step c st (GetStatus i)) = RStat cs) /\
  resp_of (step c st (Unsubscribe i)) = RUnsub.
Proof.
  intros c st i ND K. destruct (lookup_known _ _ ND K) as [s L]. unfold resp_of. simpl. rewrite L. simpl.
  repeat split; eauto.
Qed.

Lemma tset_In_strong : forall s' tbl y, NoDup (map s_id tbl) ->
  In y (tset s' tbl) -> y = s' \/ (In y tbl /\ s_id y <> s_id s').
Proof.
  intros s' tbl. induction tbl as [|x r IH]; simpl; intros y ND H; [contradiction|].
  inversion ND as [|? ? NI ND']; subst.
  destruct (s_id x =? s_id s') eqn:E.
  - destruct H as [<-|H]; [now left|]. right. split; [now right|].
    intros C. apply NI. apply Z.eqb_eq in E. rewrite E, <- C. now apply in_map.
  - destruct H as [<-|H]; [right; split; [now left|lia]|].
    destruct (IH _ ND' H) as [->|[? ?]]; [now left|right; split; [now right|assumption]].
Qed.

Lemma unsubscribed_unknown : forall c st i,
  NoDup (map s_id (st_table st)) ->
  resp_of (step c st (Unsubscribe i)) = RUnsub -> ~ known (fst (step c st (Unsubscribe i))) i.
Proof.
  intros c st i ND. unfold resp_of. simpl. destruct (lookup st i) as [s|] eqn:L; simpl; [|discriminate].
  intros _ [k [x [E [Hx [Hk U]]]]]. subst i.
  destruct (lookup_Some _ _ _ L) as [k' [E' [Hs [Hk2 _]]]]. inversion E'; subst k'.
  apply tset_In_strong in Hx as [->|[Hx N]]; [simpl in U; discriminate| |exact ND].
  simpl in N. congruence.
Qed.

(* an id that is not known stays unknown for ever: ids are never reused, unsubscribed_at is never reset *)
Lemma unknown_step : forall c st o k, Inv c st -> k < st_next st -> ~ known st (Id k) ->
  ~ known (fst (step c st o)) (Id k).
Proof.
  intros c st o k [ND [F N]] Hk NK [k' [s' [E [Hs' [Hid U]]]]]. inversion E; subst. clear E.
  apply NK. rewrite Forall_forall in F.
  destruct o as [q|i e|i|i|dt|a outs| |se outs]; simpl in *.
  - destruct (accepts c q); simpl in *; [|exists (s_id s'), s'; auto].
    apply in_app_iff in Hs' as [H|[<-|[]]]; [exists (s_id s'), s'; auto|]. simpl in *. lia.
  - destruct (lookup st i) as [s0|] eqn:L; simpl in *; [|exists (s_id s'), s'; auto].
    destruct (lookup_Some _ _ _ L) as [k0 [_ [Hs0 [Hk0 U0]]]].
    apply tset_In in Hs' as [->|H]; [|exists (s_id s'), s'; auto]. simpl in *. exists (s_id s0), s0. auto.
  - destruct (lookup st i); simpl in *; exists (s_id s'), s'; auto.
  - destruct (lookup st i) as [s0|] eqn:L; simpl in *; [|exists (s_id s'), s'; auto].
    apply tset_In in Hs' as [->|H]; [simpl in U; discriminate|exists (s_id s'), s'; auto].
  - exists (s_id s'), s'; auto.
  - pose proof (send_all_table c (st_now st) a outs (st_table st) (st_pool st)) as T.
    destruct (send_all c (st_now st) a outs (st_table st) (st_pool st)) as [[t' p'] ms]. simpl in *.
    destruct (Forall2_In_r _ _ _ _ T Hs') as [x [Hx [[Sid _] [_ [_ [_ Hu]]]]]].
    exists (s_id s'), x. repeat split; congruence.
  - pose proof (housekeep_table c (st_now st) (st_table st) (st_pool st)) as T.
    destruct (housekeep c (st_now st) (st_table st) (st_pool st)) as [t' p']. simpl in *. subst t'.
    apply filter_In in Hs' as [H _]. exists (s_id s'), s'; auto.
  - contradiction.
Qed.

Lemma next_mono_step : forall c st o, st_next st <= st_next (fst (step c st o)).
Proof.
  intros c st o. destruct o as [q|i e|i|i|dt|a outs| |se outs]; simpl; try lia.
  - destruct (accepts c q); simpl; lia.
  - destruct (lookup st i); simpl; lia.
  - destruct (lookup st i); simpl; lia.
  - destruct (lookup st i); simpl; lia.
  - destruct (send_all c (st_now st) a outs (st_table st) (st_pool st)) as [[t' p'] ms]. simpl. lia.
  - destruct (housekeep c (st_now st) (st_table st) (st_pool st)) as [t' p']. simpl. lia.
Qed.

Lemma unknown_forever : forall c ops st k, Inv c st -> k < st_next st -> ~ known st (Id k) ->
  ~ known (fst (run c st ops)) (Id k).
Proof.
  intros c ops. induction ops as [|o r IH]; intros st k I Hk NK; simpl; [exact NK|].
  pose proof (Inv_step c st o I) as I1. pose proof (unknown_step c st o k I Hk NK) as NK1.
  pose proof (next_mono_step c st o) as M.
  destruct (step c st o) as [st1 ob]. simpl in *.
  assert (k < st_next st1) as Hk1 by lia.
  specialize (IH st1 k I1 Hk1 NK1). destruct (run c st1 r) as [st2 obs]. exact IH.
Qed.

(* ================================================================== K. provider shutdown *)
Definition msg_eq_dec : forall a b : msg, {a = b} + {a <> b}.
Proof. decide equality; try apply Z.eq_dec; try apply string_dec; try apply bool_dec. Defined.

Definition end_of (s : sub) : msg := End (s_id s) (fst (end_dest s)) (snd (end_dest s)).

Lemma end_msgs_eq : forall c now tbl,
  end_msgs c now tbl = map end_of (filter (fun s => is_none (s_unsub s) && is_valid c s now) tbl).
Proof.
  intros c now tbl. induction tbl as [|s r IH]; simpl; [reflexivity|].
  destruct (is_none (s_unsub s) && is_valid c s now); simpl; now rewrite IH.
Qed.

Lemma end_filter_live : forall c now s,
  is_none (s_unsub s) && is_valid c s now = true <-> live c s now.
Proof.
  intros c now s. rewrite andb_comm. apply deliverable_live.
Qed.

Lemma count_occ_map_unique : forall (l : list sub) s,
  NoDup (map s_id l) -> In s l -> count_occ msg_eq_dec (map end_of l) (end_of s) = 1%nat.
Proof.
  induction l as [|x r IH]; intros s ND H; [contradiction|].
  cbn [map] in *. inversion ND as [|? ? NI ND']; subst.
  destruct (msg_eq_dec (end_of x) (end_of s)) as [E|NE].
  - rewrite (count_occ_cons_eq msg_eq_dec _ E). f_equal. apply count_occ_not_In.
    intros C. apply in_map_iff in C as [y [Ey Hy]].
    apply NI. unfold end_of in E, Ey. inversion E. inversion Ey.
    replace (s_id x) with (s_id y) by congruence. now apply in_map.
  - rewrite (count_occ_cons_neq msg_eq_dec _ NE).
    destruct H as [->|H]; [contradiction|]. now apply IH.
Qed.

Lemma stop_exactly_one_end : forall c st outs,
  NoDup (map s_id (st_table st)) ->
  let ms := msgs_of (step c st (Stop true outs)) in
  (forall s, In s (st_table st) -> live c s (st_now st) ->
     count_occ msg_eq_dec ms (End (s_id s) (fst (end_dest s)) (snd (end_dest s))) = 1%nat /\
     (forall d e, In (End (s_id s) d e) ms -> (d, e) = end_dest s)) /\
  (forall k d e, In (End k d e) ms ->
     exists s, In s (st_table st) /\ s_id s = k /\ live c s (st_now st) /\ (d, e) = end_dest s) /\
  (forall k a d, ~ In (Notify k a d) ms) /\
  msgs_of (step c st (Stop false outs)) = [] /\
  st_table (fst (step c st (Stop true outs))) = [] /\ st_table (fst (step c st (Stop false outs))) = [].
Proof.
  intros c st outs ND ms. unfold ms, msgs_of. simpl. rewrite end_msgs_eq.
  set (fl := filter (fun s => is_none (s_unsub s) && is_valid c s (st_now st)) (st_table st)).
  assert (forall k d e, In (End k d e) (map end_of fl) ->
          exists s, In s (st_table st) /\ s_id s = k /\ live c s (st_now st) /\ (d, e) = end_dest s) as Hex.
  { intros k d e H. apply in_map_iff in H as [s [E Hs]]. apply filter_In in Hs as [Hs B].
    exists s. unfold end_of in E. inversion E; subst.
    split; [assumption|split; [reflexivity|split; [now apply end_filter_live|now destruct (end_dest s)]]]. }
  split; [|split; [exact Hex|split; [|repeat split]]].
  - intros s Hs L. split.
    + apply count_occ_map_unique with (l := fl) (s := s).
      * apply NoDup_map_filter. exact ND.
      * apply filter_In. split; [assumption|]. now apply end_filter_live.
    + intros d e Hin. destruct (Hex _ _ _ Hin) as [s' [Hs' [Hid [_ Hd]]]].
      pose proof (tfind_NoDup _ _ ND Hs') as F1. pose proof (tfind_NoDup _ _ ND Hs) as F2.
      rewrite Hid in F1. rewrite F1 in F2. inversion F2; subst. exact Hd.
  - intros k a d H. apply in_map_iff in H as [s [E _]]. discriminate.
Qed.

Lemma end_dest_spec : forall s,
  (forall a, s_end s = Some a -> end_dest s = (a, true)) /\
  (s_end s = None -> end_dest s = (s_notify s, false)).
Proof. intros s. unfold end_dest. split; [intros a ->|intros ->]; reflexivity. Qed.

(* ================================================================== L. housekeeping *)
Lemma housekeeping_exact : forall c st,
  Forall (fun s => s_closed s = false) (st_table st) ->
  st_table (fst (step c st Housekeeping)) = filter (fun s => negb (obsolete c (st_now st) s)) (st_table st).
Proof.
  intros c st F. simpl.
  pose proof (housekeep_table c (st_now st) (st_table st) (st_pool st)) as T.
  destruct (housekeep c (st_now st) (st_table st) (st_pool st)) as [t' p']. simpl in *. subst t'.
  apply filter_ext_in. intros s Hs. rewrite Forall_forall in F. rewrite (F _ Hs). simpl.
  now rewrite andb_true_r.
Qed.

Lemma housekeeping_keeps_live : forall c st s,
  0 <= c_grace c -> In s (st_table st) -> live c s (st_now st) ->
  In s (st_table (fst (step c st Housekeeping))).
Proof.
  intros c st s G Hs L. simpl.
  pose proof (housekeep_table c (st_now st) (st_table st) (st_pool st)) as T.
  destruct (housekeep c (st_now st) (st_table st) (st_pool st)) as [t' p']. simpl in *. subst t'.
  apply filter_In. split; [exact Hs|]. rewrite (live_not_obsolete c s _ G L). reflexivity.
Qed.

(* ================================================================== M. a fresh subscription is live *)
Lemma fresh_subscription_live : forall c st q,
  0 < c_maxerr c -> 0 < c_maxd c -> accepts c q = true ->
  (forall d, q_expires q = Some d -> 0 < d) ->
  live c (new_sub c st q) (st_now st).
Proof.
  intros c st q He Hd A Hq. unfold live, new_sub. simpl. repeat split; try lia.
  destruct (q_expires q) as [d|]; simpl; [specialize (Hq d eq_refl)|]; lia.
Qed.

Lemma default_cfg_wf : 0 < c_maxerr default_cfg /\ 0 < c_maxd default_cfg /\ 0 <= c_grace default_cfg.
Proof. vm_compute. repeat split; congruence. Qed.

(* ================================================================== N. the boolean twin never fails *)
Lemma msg_eqb_refl : forall m, msg_eqb m m = true.
Proof.
  intros [k a d|k d e]; simpl; rewrite ?Z.eqb_refl, ?String.eqb_refl; simpl; [reflexivity|].
  now destruct e.
Qed.

Lemma filter_ext_b {A} (f g : A -> bool) : (forall x, f x = g x) -> forall l, filter f l = filter g l.
Proof. intros H l. induction l as [|x l IH]; simpl; [reflexivity|]. now rewrite H, IH. Qed.

Lemma check_C08_holds : forall c ops st, check_C08 c st ops = true.
Proof.
  intros c ops. induction ops as [|o r IH]; intros st; simpl; [reflexivity|].
  destruct (step c st o) as [st1 [rs ms]] eqn:S. rewrite IH, andb_true_r.
  destruct o as [q|i e|i|i|dt|a outs| |se outs]; simpl in S.
  - pose proof (subscribe_granted c st q) as G. unfold resp_of in G. simpl in G.
    destruct (accepts c q); inversion S; subst; [|reflexivity].
    destruct (q_expires q) as [d|] eqn:Q; [|reflexivity].
    destruct (G _ _ eq_refl) as [s [_ [_ [_ [_ [_ [_ [_ [_ [_ [H1 H2]]]]]]]]]]].
    specialize (H2 d eq_refl). lia.
  - destruct (lookup st i) as [s|] eqn:L; inversion S; subst.
    + destruct i as [k|]; [|reflexivity]. destruct e as [d|]; [|reflexivity].
      assert (rem_cs (set_grant s (st_now st) (grant c (Some d))) (st_now st) =
              Z.max (round2 (grant c (Some d))) 0) as E.
      { unfold rem_cs, rem_ticks. simpl. f_equal. f_equal. lia. }
      rewrite E. pose proof (round2_mono _ _ (grant_le_max c (Some d))).
      pose proof (round2_mono _ _ (grant_le_req c d)). lia.
    + destruct i as [k|]; [|reflexivity]. destruct e; reflexivity.
  - destruct (lookup st i); inversion S; subst; reflexivity.
  - destruct (lookup st i); inversion S; subst; reflexivity.
  - inversion S; subst; reflexivity.
  - pose proof (send_all_msgs c (st_now st) a outs (st_table st) (st_pool st)) as M.
    destruct (send_all c (st_now st) a outs (st_table st) (st_pool st)) as [[t' p'] ms']. simpl in M.
    inversion S; subst. unfold expected_notifies.
    rewrite (filter_ext_b (fun s => live_b c s (st_now st) && matches (s_filter s) a)
                          (fun s => matches (s_filter s) a && deliverable c s (st_now st))).
    + apply list_eqb_refl. apply msg_eqb_refl.
    + intros x. rewrite live_b_deliverable. apply andb_comm.
  - destruct (housekeep c (st_now st) (st_table st) (st_pool st)) as [t' p']. inversion S; subst. reflexivity.
  - inversion S; subst. destruct se; [|reflexivity].
    rewrite end_msgs_eq. unfold expected_ends.
    rewrite (filter_ext_b (fun s => live_b c s (st_now st))
                          (fun s => is_none (s_unsub s) && is_valid c s (st_now st))).
    + apply list_eqb_refl. apply msg_eqb_refl.
    + intros x. rewrite live_b_deliverable. unfold deliverable. apply andb_comm.
Qed.

Lemma remaining_le_grant : forall c ops s,
  In s (st_table (final c ops)) ->
  rem_cs s (st_now (final c ops)) <= Z.max (round2 (s_expire s)) 0 /\ s_expire s <= c_maxd c.
Proof.
  intros c ops s H. destruct (Inv_final c ops) as [_ [F _]].
  rewrite Forall_forall in F. destruct (F s H) as [_ [_ [Hs He]]].
  split; [apply rem_cs_le_grant; exact Hs|exact He].
Qed.
(* entries leave the table only through housekeeping or shutdown *)
Lemma step_keeps_entries : forall c st o s,
  NoDup (map s_id (st_table st)) -> In s (st_table st) ->
  match o with
  | Housekeeping | Stop _ _ => True
  | _ => exists s', In s' (st_table (fst (step c st o))) /\ same_static s s'
  end.
Proof.
  intros c st o s ND Hs.
  assert (forall x, In x (st_table st) -> s_id x = s_id s -> x = s) as U.
  { intros x Hx E. pose proof (tfind_NoDup _ _ ND Hx) as F1. pose proof (tfind_NoDup _ _ ND Hs) as F2.
    rewrite E in F1. congruence. }
  destruct o as [q|i e|i|i|dt|a outs| |se outs]; simpl; auto.
  - destruct (accepts c q); simpl; exists s; (split; [|apply same_static_refl]);
      [apply in_app_iff; now left|exact Hs].
  - destruct (lookup st i) as [s0|] eqn:L; simpl; [|exists s; split; [exact Hs|apply same_static_refl]].
    destruct (lookup_Some _ _ _ L) as [k [_ [Hs0 _]]].
    destruct (Z.eq_dec (s_id s) (s_id s0)) as [E|N].
    + exists (set_grant s0 (st_now st) (grant c e)). split.
      * apply tset_In_new. exists s0. split; [exact Hs0|reflexivity].
      * rewrite (U s0 Hs0 (eq_sym E)). repeat split.
    + exists s. split; [apply tset_In_other; [exact Hs|exact N]|apply same_static_refl].
  - destruct (lookup st i); simpl; exists s; (split; [exact Hs|apply same_static_refl]).
  - destruct (lookup st i) as [s0|] eqn:L; simpl; [|exists s; split; [exact Hs|apply same_static_refl]].
    destruct (lookup_Some _ _ _ L) as [k [_ [Hs0 _]]].
    destruct (Z.eq_dec (s_id s) (s_id s0)) as [E|N].
    + exists (set_unsub s0 (st_now st)). split.
      * apply tset_In_new. exists s0. split; [exact Hs0|reflexivity].
      * rewrite (U s0 Hs0 (eq_sym E)). repeat split.
    + exists s. split; [apply tset_In_other; [exact Hs|exact N]|apply same_static_refl].
  - exists s. split; [exact Hs|apply same_static_refl].
  - pose proof (send_all_table c (st_now st) a outs (st_table st) (st_pool st)) as T.
    destruct (send_all c (st_now st) a outs (st_table st) (st_pool st)) as [[t' p'] ms]. simpl in *.
    destruct (Forall2_In_l _ _ _ _ T Hs) as [y [Hy [S _]]]. exists y. auto.
Qed.

(* ================================================================== P. every failure kind is a failed delivery *)
Lemma exchange_state_fail : forall sync d o, o <> OOk -> snd (exchange_state sync d o) = false.
Proof.
  intros sync d o H. unfold exchange_state. destruct sync; simpl.
  - destruct (d =? 2); [reflexivity|]. destruct o; try reflexivity. congruence.
  - destruct o; try reflexivity. congruence.
Qed.

Lemma exchange_state_ok : forall sync d o, snd (exchange_state sync d o) = true -> o = OOk.
Proof.
  intros sync d o H. destruct o; try reflexivity;
    rewrite exchange_state_fail in H by discriminate; discriminate.
Qed.

Lemma post_fail : forall c p n u o, o <> OOk -> snd (post c p n u o) = false.
Proof.
  intros c p n u o H. unfold post. destruct (pool_get p n u) as [p1 d].
  pose proof (exchange_state_fail (c_sync c) d o H) as E.
  destruct (exchange_state (c_sync c) d o) as [d' ok]. simpl in *. exact E.
Qed.

Lemma send_all_counts : forall c now a outs tbl p,
  Forall2 (fun s s' => matches (s_filter s) a && deliverable c s now = true ->
                       outcome_at outs (s_notify s) <> OOk -> s' = set_errors s (s_errors s + 1))
          tbl (fst (fst (send_all c now a outs tbl p))).
Proof.
  intros c now a outs tbl. induction tbl as [|s r IH]; intros p; simpl; [constructor|].
  destruct (matches (s_filter s) a && deliverable c s now) eqn:B.
  - pose proof (post_fail c p (s_notify s) (s_id s) (outcome_at outs (s_notify s))) as PF.
    destruct (post c p (s_notify s) (s_id s) (outcome_at outs (s_notify s))) as [p1 ok].
    specialize (IH p1). destruct (send_all c now a outs r p1) as [[r' p2] ms]. simpl in *.
    constructor; [|exact IH]. intros _ H. rewrite (PF H). reflexivity.
  - specialize (IH p). destruct (send_all c now a outs r p) as [[r' p2] ms]. simpl in *.
    constructor; [|exact IH]. intros C. rewrite B in C. discriminate.
Qed.

Lemma failure_counts : forall c st a outs s,
  In s (st_table st) -> live c s (st_now st) -> matches (s_filter s) a = true ->
  outcome_at outs (s_notify s) <> OOk ->
  In (set_errors s (s_errors s + 1)) (st_table (fst (step c st (Report a outs)))).
Proof.
  intros c st a outs s Hs L M O. simpl.
  pose proof (send_all_counts c (st_now st) a outs (st_table st) (st_pool st)) as T.
  destruct (send_all c (st_now st) a outs (st_table st) (st_pool st)) as [[t' p'] ms]. simpl in *.
  destruct (Forall2_In_l _ _ _ _ T Hs) as [y [Hy R]].
  rewrite <- R; [exact Hy| |exact O]. rewrite M. simpl. now apply deliverable_live.
Qed.

(* ... and after c_maxerr of them in a row nothing is delivered any more *)
Lemma over_limit_not_live : forall c s now, c_maxerr c <= s_errors s -> ~ live c s now.
Proof. intros c s now H [_ [_ [_ L]]]. lia. Qed.
