(* C08 -- the fan-out of one report, fine-grained.
   Eventing/Model.v treats send_to_subscribers as one atomic step ([Report]).  The synchronous manager
   (subscriptionmgr_base.py send_to_subscribers + subscriptionmgr.py send_notification_report) is not
   atomic: it builds the receiver list once (_get_subscriptions_for_action, under the table lock) and then
   serves one receiver after the other with blocking HTTP posts, WITHOUT the table lock; HTTP server
   threads (Subscribe / Renew / GetStatus / Unsubscribe), the housekeeping thread, the clock and other
   report senders run meanwhile.  This file models the fan-out as a sequence of per-receiver sends with
   management operations interleaved while a delivery is in progress:

     serve receiver k:   look at k's CURRENT state (is_valid, unsubscribed_at)  -- send time
                         fetch the pooled client (registers k as a user), hand the message to it
                         ... operations of other threads ...                     -- [inter]
                         the exchange ends (outcome), notify_errors of k is updated

   The asynchronous manager holds the table lock for the whole fan-out: operations that need the lock
   wait until it is over ([deferred]); only lock-free changes (the clock) happen meanwhile.
   Definitions only; proofs are in Eventing/FanOutProofs.v. *)
From Coq Require Import ZArith List Bool String Lia ZifyBool.
From SDC Require Import Common.Corr Eventing.Gen_Consts Eventing.Model.
Import ListNotations.
Open Scope Z_scope.

Definition with_pool (st : state) (p : pool) : state := mkState (st_now st) (st_next st) (st_table st) p.

(* operations that do not need the subscription table's lock *)
Definition lock_free (o : op) : bool := match o with Advance _ => true | _ => false end.
Definition inflight (c : cfg) (o : op) : bool := c_sync c || lock_free o.

(* the exchange itself, on the pooled client of netloc n fetched before (post_message_to) *)
Definition exchange (c : cfg) (p : pool) (n : Z) (o : outcome) : pool * bool :=
  match pfind n p with
  | None => (p, false)
  | Some (us, d) => let '(d', ok) := exchange_state (c_sync c) d o in (set_state p n d', ok)
  end.

(* the exchange ends: pool (connection error) and notify_errors of the entry as it is NOW *)
Definition finish_send (c : cfg) (st : state) (k n : Z) (o : outcome) : state :=
  let '(p3, ok) := exchange c (st_pool st) n o in
  let t3 := match tfind k (st_table st) with
            | Some s' => tset (set_errors s' (if ok then 0 else s_errors s' + 1)) (st_table st)
            | None => st_table st
            end in
  mkState (st_now st) (st_next st) t3 p3.

(* run, watching whether the pool entry of netloc n disappears (housekeeping closed its last user):
   then the client in use is no longer the pooled one and what happens to it is invisible *)
Fixpoint run_watch (c : cfg) (n : Z) (st : state) (ops : list op) : state * list (resp * list msg) * bool :=
  match ops with
  | [] => (st, [], false)
  | o :: r => let '(st1, ob) := step c st o in
              let gone := is_none (pfind n (st_pool st1)) in
              let '(st2, obs, g) := run_watch c n st1 r in (st2, ob :: obs, gone || g)
  end.

(* one hand-off: the message and what the operations interleaved with its delivery answered *)
Definition hand := (msg * list (resp * list msg))%type.

Record visit := mkVisit {
  v_k : Z;                  (* the receiver served *)
  v_st : state;             (* the provider state at that moment (send time) *)
  v_hand : option hand      (* Some: a notification was handed to the subscriber's client *)
}.

(* recv: the receiver list (ids, in the order of the loop); inter: head = the operations interleaved with
   the next hand-off; deferred: operations waiting for the table lock *)
Fixpoint fan (c : cfg) (a : string) (outs : list outcome) (recv : list Z) (inter : list (list op))
             (st : state) (deferred : list op) : state * list visit * list op :=
  match recv with
  | [] => (st, [], deferred)
  | k :: r =>
      match tfind k (st_table st) with
      | Some s =>
          if deliverable c s (st_now st) then
            let n := s_notify s in
            let ops := hd [] inter in
            let st1 := with_pool st (fst (pool_get (st_pool st) n k)) in
            let '(st2, obs, orphan) := run_watch c n st1 (filter (inflight c) ops) in
            let st3 := if orphan then st2 else finish_send c st2 k n (outcome_at outs n) in
            let '(st4, vs, d) := fan c a outs r (tl inter) st3
                                     (deferred ++ filter (fun o => negb (inflight c o)) ops) in
            (st4, mkVisit k st (Some (Notify k a n, obs)) :: vs, d)
          else
            let '(st4, vs, d) := fan c a outs r inter st deferred in (st4, mkVisit k st None :: vs, d)
      | None =>                  (* dropped by housekeeping meanwhile: closed, never valid again *)
          let '(st4, vs, d) := fan c a outs r inter st deferred in (st4, mkVisit k st None :: vs, d)
      end
  end.

(* _get_subscriptions_for_action: the table entries matching the action, in the iteration order of the
   table (a Python set: [order] is that order, any list of ids) *)
Definition receivers (st : state) (a : string) (order : list Z) : list Z :=
  filter (fun k => match tfind k (st_table st) with Some s => matches (s_filter s) a | None => false end) order.

Definition hands_of (vs : list visit) : list hand :=
  flat_map (fun v => match v_hand v with Some h => [h] | None => [] end) vs.

Definition fan_visits (c : cfg) (st : state) (a : string) (outs : list outcome) (order : list Z)
                      (inter : list (list op)) : list visit :=
  snd (fst (fan c a outs (receivers st a order) inter st [])).

(* the whole fine-grained report: fan-out, then the operations that waited for the lock *)
Definition fan_step (c : cfg) (st : state) (a : string) (outs : list outcome) (order : list Z)
                    (inter : list (list op)) : state * (list hand * list (resp * list msg)) :=
  let '(st1, vs, d) := fan c a outs (receivers st a order) inter st [] in
  let '(st2, dobs) := run c st1 d in
  (st2, (hands_of vs, dobs)).

(* histories with fine-grained reports *)
Inductive xop :=
  | Plain (o : op)
  | Fan (a : string) (outs : list outcome) (order : list Z) (inter : list (list op)).

Definition xstep (c : cfg) (st : state) (x : xop) : state :=
  match x with
  | Plain o => fst (step c st o)
  | Fan a outs order inter => fst (fan_step c st a outs order inter)
  end.

Definition xfinal_from (c : cfg) (st : state) (xs : list xop) : state := fold_left (xstep c) xs st.
Definition xfinal (c : cfg) (xs : list xop) : state := xfinal_from c init xs.

(* ------------------------------------------------------------------ observation for the correspondence *)
Definition xobs := (obs * (list hand * list (resp * list msg)))%type.

Fixpoint xrun_obs (c : cfg) (nsinks : nat) (st : state) (xs : list xop) : list xobs :=
  match xs with
  | [] => []
  | Plain o :: r =>
      let '(st1, (rs, ms)) := step c st o in
      ((rs, ms, map (sub_view c (st_now st1)) (st_table st1), pool_view nsinks (st_pool st1)), ([], []))
      :: xrun_obs c nsinks st1 r
  | Fan a outs order inter :: r =>
      let '(st1, hd) := fan_step c st a outs order inter in
      ((RNone, [], map (sub_view c (st_now st1)) (st_table st1), pool_view nsinks (st_pool st1)), hd)
      :: xrun_obs c nsinks st1 r
  end.

Definition xrun_case (x : cfg * nat * list xop) : list xobs :=
  let '(c, n, xs) := x in xrun_obs c n init xs.

Definition rm_eqb : resp * list msg -> resp * list msg -> bool := prod_eqb resp_eqb (list_eqb msg_eqb).
Definition hand_eqb : hand -> hand -> bool := prod_eqb msg_eqb (list_eqb rm_eqb).
Definition xobs_eqb : xobs -> xobs -> bool :=
  prod_eqb obs_eqb (prod_eqb (list_eqb hand_eqb) (list_eqb rm_eqb)).
Definition xtrace_eqb : list xobs -> list xobs -> bool := list_eqb xobs_eqb.

(* ------------------------------------------------------------------ boolean twin of the fan-out theorem *)
Definition check_visit (c : cfg) (v : visit) : bool :=
  let alive := match tfind (v_k v) (st_table (v_st v)) with
               | Some s => live_b c s (st_now (v_st v))
               | None => false
               end in
  Bool.eqb (negb (is_none (v_hand v))) alive.

Fixpoint xcheck (c : cfg) (st : state) (xs : list xop) : bool :=
  match xs with
  | [] => true
  | Plain o :: r => check_C08 c st [o] && xcheck c (fst (step c st o)) r
  | Fan a outs order inter :: r =>
      forallb (check_visit c) (fan_visits c st a outs order inter) &&
      xcheck c (fst (fan_step c st a outs order inter)) r
  end.

Definition xcheck_case (x : cfg * nat * list xop) : bool := let '(c, _, xs) := x in xcheck c init xs.
