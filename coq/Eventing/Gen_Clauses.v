(* GENERATED on every run by harness/impl/gen_eventing_clauses.py from
   src/sdc11073/provider/subscriptionmgr.py, subscriptionmgr_base.py, subscriptionmgr_async.py -- do not edit.
   The except clauses of the code paths that hand a message to a subscriber:
   (function, exception classes, counts a notify error, marks a connection error, re-raises). *)
From Coq Require Import List String Bool.
Import ListNotations.
Open Scope string_scope.
Definition send_path_clauses : list (string * string * bool * bool * bool) := [
  ("BicepsSubscription.send_notification_report", "HTTPReturnCodeError", true, false, true);
  ("BicepsSubscription.send_notification_report", "Exception", true, true, true);
  ("SubscriptionsManagerBase._send_notification_report", "ConnectionRefusedError", false, false, false);
  ("SubscriptionsManagerBase._send_notification_report", "HTTPReturnCodeError", false, false, false);
  ("SubscriptionsManagerBase._send_notification_report", "NotConnected", false, false, false);
  ("SubscriptionsManagerBase._send_notification_report", "TimeoutError", false, false, false);
  ("SubscriptionsManagerBase._send_notification_report", "DocumentInvalid", false, false, true);
  ("SubscriptionsManagerBase._send_notification_report", "XMLSyntaxError", false, false, false);
  ("SubscriptionsManagerBase._send_notification_report", "Exception", false, false, true);
  ("SubscriptionBase.send_notification_end_message", "Exception", false, false, false);
  ("BicepsSubscriptionAsync.async_send_notification_report", "HTTPReturnCodeError", true, false, true);
  ("BicepsSubscriptionAsync.async_send_notification_report", "TimeoutError", true, true, true);
  ("BicepsSubscriptionAsync.async_send_notification_report", "Exception", true, true, true);
  ("BICEPSSubscriptionsManagerBaseAsync._async_send_notification_report", "HTTPReturnCodeError", false, false, false);
  ("BICEPSSubscriptionsManagerBaseAsync._async_send_notification_report", "TimeoutError | ClientConnectionError | ClientConnectorError | ServerConnectionError | TimeoutError", false, false, false);
  ("BICEPSSubscriptionsManagerBaseAsync._async_send_notification_report", "DocumentInvalid", false, false, true);
  ("BICEPSSubscriptionsManagerBaseAsync._async_send_notification_report", "Exception", false, false, true);
  ("BicepsSubscriptionAsync.async_send_notification_end_message", "ClientConnectorError", false, false, false);
  ("BicepsSubscriptionAsync.async_send_notification_end_message", "Exception", false, false, false)
].
