(* C08 -- proofs about the fine-grained fan-out (Eventing/FanOut.v). *)
From Coq Require Import ZArith List Bool String Lia ZifyBool.
From SDC Require Import Common.Corr Eventing.Gen_Consts Eventing.Model Eventing.Proofs Eventing.FanOut.
Import ListNotations.
Open Scope Z_scope.
Open Scope list_scope.

(* ================================================================== A. the pieces of one hand-off *)
Lemma run_watch_run : forall c n ops st,
  fst (fst (run_watch c n st ops)) = fst (run c st ops) /\
  snd (fst (run_watch c n st ops)) = snd (run c st ops).
Proof.
  intros c n ops. induction ops as [|o r IH]; intros st; simpl; [auto|].
  destruct (step c st o) as [st1 ob]. specialize (IH st1).
  destruct (run_watch c n st1 r) as [[st2 obs] g]. destruct (run c st1 r) as [st2' obs']. simpl in *.
  destruct IH as [-> ->]. auto.
Qed.

Lemma finish_send_next : forall c st k n o, st_next (finish_send c st k n o) = st_next st.
Proof. intros. unfold finish_send. destruct (exchange c (st_pool st) n o). reflexivity. Qed.

Lemma finish_send_now : forall c st k n o, st_now (finish_send c st k n o) = st_now st.
Proof. intros. unfold finish_send. destruct (exchange c (st_pool st) n o). reflexivity. Qed.

Lemma Inv_with_pool : forall c st p, Inv c st -> Inv c (with_pool st p).
Proof.
  intros c st p [ND [F N]]. split; [exact ND|]. split; [exact F|exact N].
Qed.

Lemma Inv_finish_send : forall c st k n o, Inv c st -> Inv c (finish_send c st k n o).
Proof.
  intros c st k n o [ND [F N]]. unfold finish_send.
  destruct (exchange c (st_pool st) n o) as [p3 ok].
  destruct (tfind k (st_table st)) as [s'|] eqn:T.
  - destruct (tfind_Some _ _ _ T) as [Hs' Hk].
    repeat split; simpl; try assumption.
    + now rewrite tset_ids.
    + rewrite Forall_forall in *. intros y Hy. apply tset_In in Hy as [->|Hy].
      * destruct (F _ Hs') as [[? ?] [? [? ?]]]. repeat split; simpl; assumption.
      * destruct (F _ Hy) as [[? ?] [? [? ?]]]. repeat split; simpl; assumption.
  - split; [exact ND|]. split; [exact F|exact N].
Qed.

Lemma unknown_finish_send : forall c st k n o j, ~ known st (Id j) -> ~ known (finish_send c st k n o) (Id j).
Proof.
  intros c st k n o j NK [k' [s [E [Hs [Hid U]]]]]. inversion E; subst k'. clear E. apply NK.
  unfold finish_send in Hs. destruct (exchange c (st_pool st) n o) as [p3 ok]. simpl in Hs.
  destruct (tfind k (st_table st)) as [s'|] eqn:T; [|exists j, s; auto].
  destruct (tfind_Some _ _ _ T) as [Hs' Hk].
  apply tset_In in Hs as [->|Hs]; [|exists j, s; auto].
  simpl in *. exists j, s'. auto.
Qed.

Lemma next_mono_run : forall c ops st, st_next st <= st_next (fst (run c st ops)).
Proof.
  intros c ops. induction ops as [|o r IH]; intros st; simpl; [lia|].
  pose proof (next_mono_step c st o) as M. destruct (step c st o) as [st1 ob]. simpl in M.
  specialize (IH st1). destruct (run c st1 r) as [st2 obs]. simpl in *. lia.
Qed.

(* ================================================================== B. what a fan-out preserves *)
Section FanPreserves.
  Variable c : cfg.
  Variable P : state -> Prop.
  Hypothesis P_pool : forall st p, P st -> P (with_pool st p).
  Hypothesis P_run : forall st ops, P st -> P (fst (run c st ops)).
  Hypothesis P_finish : forall st k n o, P st -> P (finish_send c st k n o).

  Lemma hand_preserves : forall st n k ops o st2 obs orphan,
    P st -> run_watch c n (with_pool st (fst (pool_get (st_pool st) n k))) ops = (st2, obs, orphan) ->
    P (if orphan then st2 else finish_send c st2 k n o).
  Proof.
    intros st n k ops o st2 obs orphan H RW.
    pose proof (run_watch_run c n ops (with_pool st (fst (pool_get (st_pool st) n k)))) as [E _].
    rewrite RW in E. simpl in E. subst st2.
    destruct orphan; [|apply P_finish]; apply P_run; apply P_pool; exact H.
  Qed.

  Lemma fan_preserves : forall a outs recv inter st d, P st ->
    P (fst (fst (fan c a outs recv inter st d))) /\
    Forall (fun v => P (v_st v)) (snd (fst (fan c a outs recv inter st d))).
  Proof.
    intros a outs recv. induction recv as [|k r IH]; intros inter st d H; simpl; [auto|].
    destruct (tfind k (st_table st)) as [s|] eqn:T.
    - destruct (deliverable c s (st_now st)).
      + destruct (run_watch c (s_notify s) (with_pool st (fst (pool_get (st_pool st) (s_notify s) k)))
                   (filter (inflight c) (hd [] inter))) as [[st2 obs] orphan] eqn:RW.
        pose proof (hand_preserves _ _ _ _ (outcome_at outs (s_notify s)) _ _ _ H RW) as H3.
        specialize (IH (tl inter) _ (d ++ filter (fun o => negb (inflight c o)) (hd [] inter)) H3).
        destruct (fan c a outs r (tl inter) _ _) as [[st4 vs] d']. simpl in *.
        destruct IH as [? ?]. split; [assumption|constructor; assumption].
      + specialize (IH inter st d H). destruct (fan c a outs r inter st d) as [[st4 vs] d']. simpl in *.
        destruct IH as [? ?]. split; [assumption|constructor; assumption].
    - specialize (IH inter st d H). destruct (fan c a outs r inter st d) as [[st4 vs] d']. simpl in *.
      destruct IH as [? ?]. split; [assumption|constructor; assumption].
  Qed.
End FanPreserves.

Lemma fan_Inv : forall c a outs recv inter st d, Inv c st ->
  Inv c (fst (fst (fan c a outs recv inter st d))) /\
  Forall (fun v => Inv c (v_st v)) (snd (fst (fan c a outs recv inter st d))).
Proof.
  intros c a outs recv inter st d. apply (fan_preserves c (Inv c)).
  - intros. now apply Inv_with_pool.
  - intros. now apply Inv_run.
  - intros. now apply Inv_finish_send.
Qed.

(* an id that is not known when the fan-out starts (or stops being known during it) is not known at
   any later send time of this fan-out, nor afterwards *)
Definition gone (c : cfg) (j : Z) (st : state) : Prop := Inv c st /\ j < st_next st /\ ~ known st (Id j).

Lemma fan_gone : forall c j a outs recv inter st d, gone c j st ->
  gone c j (fst (fst (fan c a outs recv inter st d))) /\
  Forall (fun v => gone c j (v_st v)) (snd (fst (fan c a outs recv inter st d))).
Proof.
  intros c j a outs recv inter st d. apply (fan_preserves c (gone c j)).
  - intros st0 p [I [L NK]]. split; [now apply Inv_with_pool|]. split; [exact L|exact NK].
  - intros st0 ops [I [L NK]]. split; [now apply Inv_run|]. split.
    + pose proof (next_mono_run c ops st0). lia.
    + now apply unknown_forever.
  - intros st0 k n o [I [L NK]]. split; [now apply Inv_finish_send|]. split.
    + now rewrite finish_send_next.
    + now apply unknown_finish_send.
Qed.

(* ================================================================== C. each receiver once, at its own send time *)
Lemma fan_keys : forall c a outs recv inter st d,
  map v_k (snd (fst (fan c a outs recv inter st d))) = recv.
Proof.
  intros c a outs recv. induction recv as [|k r IH]; intros inter st d; simpl; [reflexivity|].
  destruct (tfind k (st_table st)) as [s|].
  - destruct (deliverable c s (st_now st)).
    + destruct (run_watch c (s_notify s) _ _) as [[st2 obs] orphan].
      specialize (IH (tl inter) (if orphan then st2 else finish_send c st2 k (s_notify s) (outcome_at outs (s_notify s)))
                     (d ++ filter (fun o => negb (inflight c o)) (hd [] inter))).
      destruct (fan c a outs r (tl inter) _ _) as [[st4 vs] d']. simpl in *. now rewrite IH.
    + specialize (IH inter st d). destruct (fan c a outs r inter st d) as [[st4 vs] d']. simpl in *. now rewrite IH.
  - specialize (IH inter st d). destruct (fan c a outs r inter st d) as [[st4 vs] d']. simpl in *. now rewrite IH.
Qed.

Definition visit_ok (c : cfg) (a : string) (v : visit) : Prop :=
  match v_hand v with
  | Some (m, _) => exists s, In s (st_table (v_st v)) /\ s_id s = v_k v /\ live c s (st_now (v_st v)) /\
                             m = Notify (v_k v) a (s_notify s)
  | None => forall s, In s (st_table (v_st v)) -> s_id s = v_k v -> ~ live c s (st_now (v_st v))
  end.

Lemma first_visit_ok : forall c a st k,
  NoDup (map s_id (st_table st)) ->
  match tfind k (st_table st) with
  | Some s => if deliverable c s (st_now st)
              then forall obs, visit_ok c a (mkVisit k st (Some (Notify k a (s_notify s), obs)))
              else visit_ok c a (mkVisit k st None)
  | None => visit_ok c a (mkVisit k st None)
  end.
Proof.
  intros c a st k ND. destruct (tfind k (st_table st)) as [s|] eqn:T.
  - destruct (tfind_Some _ _ _ T) as [Hs Hk]. destruct (deliverable c s (st_now st)) eqn:D.
    + intros obs. unfold visit_ok. simpl. exists s.
      split; [exact Hs|]. split; [exact Hk|]. split; [now apply deliverable_live|reflexivity].
    + unfold visit_ok. simpl. intros s0 H0 E0 L.
      pose proof (tfind_NoDup _ _ ND H0) as T0. rewrite E0, T in T0. inversion T0; subst s0.
      apply deliverable_live in L. congruence.
  - unfold visit_ok. simpl. intros s0 H0 E0 _. exact (tfind_None _ _ T _ H0 E0).
Qed.

Lemma fan_visits_ok : forall c a outs recv inter st d, Inv c st ->
  Forall (visit_ok c a) (snd (fst (fan c a outs recv inter st d))).
Proof.
  intros c a outs recv. induction recv as [|k r IH]; intros inter st d I; simpl; [constructor|].
  pose proof (first_visit_ok c a st k (proj1 I)) as V.
  destruct (tfind k (st_table st)) as [s|] eqn:T.
  - destruct (deliverable c s (st_now st)).
    + destruct (run_watch c (s_notify s) (with_pool st (fst (pool_get (st_pool st) (s_notify s) k)))
                 (filter (inflight c) (hd [] inter))) as [[st2 obs] orphan] eqn:RW.
      assert (Inv c (if orphan then st2 else finish_send c st2 k (s_notify s) (outcome_at outs (s_notify s)))) as I3.
      { apply (hand_preserves c (Inv c)) with (st := st) (ops := filter (inflight c) (hd [] inter)) (obs := obs);
          [intros; now apply Inv_with_pool|intros; now apply Inv_run|intros; now apply Inv_finish_send|exact I|exact RW]. }
      specialize (IH (tl inter) _ (d ++ filter (fun o => negb (inflight c o)) (hd [] inter)) I3).
      destruct (fan c a outs r (tl inter) _ _) as [[st4 vs] d']. simpl in *. constructor; [apply V|exact IH].
    + specialize (IH inter st d I). destruct (fan c a outs r inter st d) as [[st4 vs] d']. simpl in *.
      constructor; assumption.
  - specialize (IH inter st d I). destruct (fan c a outs r inter st d) as [[st4 vs] d']. simpl in *.
    constructor; assumption.
Qed.

Lemma receivers_spec : forall st a order k, NoDup (map s_id (st_table st)) ->
  (In k (receivers st a order) <->
   In k order /\ exists s, In s (st_table st) /\ s_id s = k /\ matches (s_filter s) a = true).
Proof.
  intros st a order k ND. unfold receivers. rewrite filter_In. split.
  - intros [H B]. split; [exact H|]. destruct (tfind k (st_table st)) as [s|] eqn:T; [|discriminate].
    destruct (tfind_Some _ _ _ T) as [Hs Hk]. exists s. auto.
  - intros [H [s [Hs [Hk M]]]]. split; [exact H|]. subst k. now rewrite (tfind_NoDup _ _ ND Hs).
Qed.

(* a handed visit names a live, hence known, subscription *)
Lemma handed_known : forall c a v, visit_ok c a v -> (exists h, v_hand v = Some h) -> known (v_st v) (Id (v_k v)).
Proof.
  intros c a v V [[m obs] E]. unfold visit_ok in V. rewrite E in V.
  destruct V as [s [Hs [Hk [[_ [_ [U _]]] _]]]]. exists (v_k v), s. auto.
Qed.

(* ================================================================== D. an Unsubscribe interleaved with a delivery *)
Lemma run_unsub_unknown : forall c j ops st, Inv c st -> j < st_next st ->
  In (Unsubscribe (Id j)) ops -> ~ known (fst (run c st ops)) (Id j).
Proof.
  intros c j ops. induction ops as [|o r IH]; intros st I L H; simpl; [contradiction|].
  destruct H as [->|H].
  - assert (~ known (fst (step c st (Unsubscribe (Id j)))) (Id j)) as NK.
    { destruct (lookup st (Id j)) as [s|] eqn:Lk.
      - apply unsubscribed_unknown; [exact (proj1 I)|]. unfold resp_of. simpl. simpl in Lk. now rewrite Lk.
      - simpl. simpl in Lk. rewrite Lk. simpl. intros K.
        destruct (lookup_known _ _ (proj1 I) K) as [s Ls]. simpl in Ls. congruence. }
    pose proof (Inv_step c st (Unsubscribe (Id j)) I) as I1.
    pose proof (next_mono_step c st (Unsubscribe (Id j))) as M.
    destruct (step c st (Unsubscribe (Id j))) as [st1 ob]. simpl in *.
    pose proof (unknown_forever c r st1 j I1 ltac:(lia) NK) as F.
    destruct (run c st1 r) as [st2 obs]. exact F.
  - pose proof (Inv_step c st o I) as I1. pose proof (next_mono_step c st o) as M.
    destruct (step c st o) as [st1 ob]. simpl in *.
    specialize (IH st1 I1 ltac:(lia) H). destruct (run c st1 r) as [st2 obs]. exact IH.
Qed.

Lemma nth_tl {A} : forall n (l : list (list A)), nth (S n) l [] = nth n (tl l) [].
Proof. intros n [|x l]; simpl; [destruct n; reflexivity|reflexivity]. Qed.

Lemma filter_all_true {A} (f : A -> bool) : (forall x, f x = true) -> forall l, filter f l = l.
Proof. intros H l. induction l as [|x l IH]; simpl; [reflexivity|]. now rewrite H, IH. Qed.

Lemma fan_unsub_blocks : forall c j a outs recv inter st d pre v post,
  Inv c st -> c_sync c = true -> j < st_next st ->
  snd (fst (fan c a outs recv inter st d)) = pre ++ v :: post ->
  (exists h, v_hand v = Some h) ->
  In (Unsubscribe (Id j)) (nth (List.length (hands_of pre)) inter []) ->
  Forall (fun v' => v_k v' = j -> v_hand v' = None) post.
Proof.
  intros c j a outs recv. induction recv as [|k r IH]; intros inter st d pre v post I S L E Hv Hin; simpl in E.
  { destruct pre; discriminate. }
  assert (forall st3 inter3 d3 vs, Inv c st3 -> j < st_next st3 ->
            snd (fst (fan c a outs r inter3 st3 d3)) = vs -> gone c j st3 ->
            Forall (fun v' => v_k v' = j -> v_hand v' = None) vs) as Blocked.
  { intros st3 inter3 d3 vs I3 L3 Evs G.
    pose proof (proj2 (fan_gone c j a outs r inter3 st3 d3 G)) as FG.
    pose proof (fan_visits_ok c a outs r inter3 st3 d3 I3) as FV. rewrite Evs in FG, FV.
    rewrite Forall_forall in *. intros v' Hv' Ek.
    destruct (v_hand v') as [h|] eqn:Eh; [|reflexivity]. exfalso.
    destruct (FG _ Hv') as [_ [_ NK]]. apply NK. rewrite <- Ek.
    apply (handed_known c a); [now apply FV|eauto]. }
  destruct (tfind k (st_table st)) as [s|] eqn:T.
  - destruct (deliverable c s (st_now st)) eqn:D.
    + destruct (run_watch c (s_notify s) (with_pool st (fst (pool_get (st_pool st) (s_notify s) k)))
                 (filter (inflight c) (hd [] inter))) as [[st2 obs] orphan] eqn:RW.
      set (st1 := with_pool st (fst (pool_get (st_pool st) (s_notify s) k))) in *.
      set (st3 := if orphan then st2 else finish_send c st2 k (s_notify s) (outcome_at outs (s_notify s))) in *.
      assert (Inv c st1) as I1 by (now apply Inv_with_pool).
      pose proof (run_watch_run c (s_notify s) (filter (inflight c) (hd [] inter)) st1) as [E2 _].
      rewrite RW in E2. simpl in E2.
      assert (Inv c st2) as I2 by (rewrite E2; now apply Inv_run).
      assert (st_next st <= st_next st2) as M2.
      { rewrite E2. pose proof (next_mono_run c (filter (inflight c) (hd [] inter)) st1). simpl in *. lia. }
      assert (Inv c st3 /\ st_next st2 = st_next st3) as [I3 M3].
      { unfold st3. destruct orphan; [auto|]. split; [now apply Inv_finish_send|now rewrite finish_send_next]. }
      destruct (fan c a outs r (tl inter) st3 (d ++ filter (fun o => negb (inflight c o)) (hd [] inter)))
        as [[st4 vs] d'] eqn:FA. simpl in E.
      destruct pre as [|p0 pre'].
      * simpl in E. inversion E; subst v post. simpl in Hin.
        apply (Blocked st3 (tl inter) (d ++ filter (fun o => negb (inflight c o)) (hd [] inter)));
          [exact I3|lia|now rewrite FA|].
        split; [exact I3|]. split; [lia|].
        assert (~ known st2 (Id j)) as NK2.
        { rewrite E2. apply run_unsub_unknown; [exact I1|simpl; lia|].
          rewrite filter_all_true; [destruct inter; exact Hin|].
          intros x. unfold inflight. now rewrite S. }
        unfold st3. destruct orphan; [exact NK2|now apply unknown_finish_send].
      * simpl in E. inversion E as [[E0 E1]]. subst p0.
        apply (IH (tl inter) st3 (d ++ filter (fun o => negb (inflight c o)) (hd [] inter)) pre' v post);
          try assumption; [lia|now rewrite FA|].
        simpl in Hin. rewrite <- nth_tl. exact Hin.
    + destruct (fan c a outs r inter st d) as [[st4 vs] d'] eqn:FA. simpl in E.
      destruct pre as [|p0 pre'].
      * simpl in E. inversion E; subst v. destruct Hv as [h Hh]. discriminate.
      * simpl in E. inversion E as [[E0 E1]]. subst p0.
        apply (IH inter st d pre' v post); try assumption. now rewrite FA.
  - destruct (fan c a outs r inter st d) as [[st4 vs] d'] eqn:FA. simpl in E.
    destruct pre as [|p0 pre'].
    * simpl in E. inversion E; subst v. destruct Hv as [h Hh]. discriminate.
    * simpl in E. inversion E as [[E0 E1]]. subst p0.
      apply (IH inter st d pre' v post); try assumption. now rewrite FA.
Qed.

(* ================================================================== E. histories with fine-grained reports *)
Lemma Inv_fan_step : forall c st a outs order inter, Inv c st -> Inv c (fst (fan_step c st a outs order inter)).
Proof.
  intros c st a outs order inter I. unfold fan_step.
  pose proof (proj1 (fan_Inv c a outs (receivers st a order) inter st [] I)) as I1.
  destruct (fan c a outs (receivers st a order) inter st []) as [[st1 vs] d]. simpl in I1.
  pose proof (Inv_run c d st1 I1) as I2. destruct (run c st1 d) as [st2 dobs]. exact I2.
Qed.

Lemma Inv_xstep : forall c st x, Inv c st -> Inv c (xstep c st x).
Proof. intros c st [o|a outs order inter] I; simpl; [now apply Inv_step|now apply Inv_fan_step]. Qed.

Lemma Inv_xfinal_from : forall c xs st, Inv c st -> Inv c (xfinal_from c st xs).
Proof.
  intros c xs. induction xs as [|x r IH]; intros st I; simpl; [exact I|]. apply IH. now apply Inv_xstep.
Qed.

Lemma Inv_xfinal : forall c xs, Inv c (xfinal c xs).
Proof. intros. apply Inv_xfinal_from. apply Inv_init. Qed.

(* coarse histories are fine histories *)
Lemma xfinal_plain : forall c ops, xfinal c (map Plain ops) = final c ops.
Proof.
  intros c ops. unfold xfinal, final. generalize init.
  induction ops as [|o r IH]; intros st; simpl; [reflexivity|].
  rewrite IH. destruct (step c st o) as [st1 ob]. simpl. destruct (run c st1 r). reflexivity.
Qed.

(* ================================================================== F. the boolean twin never fails *)
Lemma check_visit_ok : forall c a v, NoDup (map s_id (st_table (v_st v))) -> visit_ok c a v -> check_visit c v = true.
Proof.
  intros c a v ND V. unfold check_visit, visit_ok in *.
  destruct (v_hand v) as [[m obs]|]; simpl.
  - destruct V as [s [Hs [Hk [L _]]]]. rewrite <- Hk, (tfind_NoDup _ _ ND Hs).
    apply live_b_live in L. now rewrite L.
  - destruct (tfind (v_k v) (st_table (v_st v))) as [s|] eqn:T; [|reflexivity].
    destruct (tfind_Some _ _ _ T) as [Hs Hk].
    destruct (live_b c s (st_now (v_st v))) eqn:B; [|reflexivity].
    exfalso. apply (V s Hs Hk). now apply live_b_live.
Qed.

Lemma xcheck_holds : forall c xs st, Inv c st -> xcheck c st xs = true.
Proof.
  intros c xs. induction xs as [|x r IH]; intros st I; [reflexivity|].
  destruct x as [o|a outs order inter].
  - change (check_C08 c st [o] && xcheck c (fst (step c st o)) r = true).
    rewrite check_C08_holds. simpl. apply IH. now apply Inv_step.
  - change (forallb (check_visit c) (fan_visits c st a outs order inter) &&
            xcheck c (fst (fan_step c st a outs order inter)) r = true).
    rewrite IH by (now apply Inv_fan_step). rewrite andb_true_r.
    apply forallb_forall. intros v Hv. unfold fan_visits in Hv.
    pose proof (fan_visits_ok c a outs (receivers st a order) inter st [] I) as FV.
    pose proof (proj2 (fan_Inv c a outs (receivers st a order) inter st [] I)) as FI.
    rewrite Forall_forall in FV, FI.
    apply (check_visit_ok c a); [exact (proj1 (FI _ Hv))|now apply FV].
Qed.

(* ================================================================== G. statements used by Props/C08.v *)
Lemma visit_ok_iff : forall c a v, NoDup (map s_id (st_table (v_st v))) -> visit_ok c a v ->
  ((exists h, v_hand v = Some h) <->
   exists s, In s (st_table (v_st v)) /\ s_id s = v_k v /\ live c s (st_now (v_st v))) /\
  (forall m obs, v_hand v = Some (m, obs) ->
   exists s, In s (st_table (v_st v)) /\ s_id s = v_k v /\ m = Notify (v_k v) a (s_notify s)).
Proof.
  intros c a v ND V. unfold visit_ok in V. destruct (v_hand v) as [[m obs]|].
  - destruct V as [s [Hs [Hk [L Em]]]]. split.
    + split; [intros _; exists s; auto|intros _; eauto].
    + intros m0 obs0 E. inversion E; subst. exists s. auto.
  - split.
    + split; [intros [h E]; discriminate|]. intros [s [Hs [Hk L]]]. exfalso. exact (V s Hs Hk L).
    + intros m0 obs0 E. discriminate.
Qed.

Lemma fan_visit_spec : forall c st a outs order inter v, Inv c st ->
  In v (fan_visits c st a outs order inter) ->
  ((exists h, v_hand v = Some h) <->
   exists s, In s (st_table (v_st v)) /\ s_id s = v_k v /\ live c s (st_now (v_st v))) /\
  (forall m obs, v_hand v = Some (m, obs) ->
   exists s, In s (st_table (v_st v)) /\ s_id s = v_k v /\ m = Notify (v_k v) a (s_notify s)).
Proof.
  intros c st a outs order inter v I Hv. unfold fan_visits in Hv.
  pose proof (fan_visits_ok c a outs (receivers st a order) inter st [] I) as FV.
  pose proof (proj2 (fan_Inv c a outs (receivers st a order) inter st [] I)) as FI.
  rewrite Forall_forall in FV, FI. apply visit_ok_iff; [exact (proj1 (FI _ Hv))|now apply FV].
Qed.

Lemma fan_step_gone : forall c st a outs order inter j, Inv c st -> j < st_next st -> ~ known st (Id j) ->
  (forall v, In v (fan_visits c st a outs order inter) ->
     ~ known (v_st v) (Id j) /\ (v_k v = j -> v_hand v = None)) /\
  ~ known (fst (fan_step c st a outs order inter)) (Id j).
Proof.
  intros c st a outs order inter j I L NK.
  assert (gone c j st) as G by (split; [exact I|split; [exact L|exact NK]]).
  pose proof (fan_gone c j a outs (receivers st a order) inter st [] G) as [G1 FG].
  pose proof (fan_visits_ok c a outs (receivers st a order) inter st [] I) as FV.
  rewrite Forall_forall in FG, FV. split.
  - intros v Hv. unfold fan_visits in Hv. destruct (FG _ Hv) as [_ [_ NKv]]. split; [exact NKv|].
    intros Ek. destruct (v_hand v) as [h|] eqn:Eh; [|reflexivity]. exfalso. apply NKv. rewrite <- Ek.
    apply (handed_known c a); [now apply FV|eauto].
  - unfold fan_step. destruct (fan c a outs (receivers st a order) inter st []) as [[st1 vs] d]. simpl in G1.
    destruct G1 as [I1 [L1 NK1]]. pose proof (unknown_forever c d st1 j I1 L1 NK1) as F.
    destruct (run c st1 d) as [st2 dobs]. exact F.
Qed.

(* ================================================================== H. the atomic report is a special case *)
Lemma pfind_pset_same : forall n e p, pfind n (pset n e p) = Some e.
Proof.
  intros n e p. induction p as [|[m e0] r IH]; simpl; [now rewrite Z.eqb_refl|].
  destruct (m =? n) eqn:E; simpl; rewrite E; [reflexivity|exact IH].
Qed.

Lemma post_split : forall c p n u o, post c p n u o = exchange c (fst (pool_get p n u)) n o.
Proof.
  intros c p n u o. unfold post, exchange, pool_get.
  destruct (pfind n p) as [[us d]|]; simpl; rewrite pfind_pset_same; reflexivity.
Qed.

Lemma tset_mid : forall s' s done r, NoDup (map s_id (done ++ s :: r)) -> s_id s' = s_id s ->
  tset s' (done ++ s :: r) = done ++ s' :: r.
Proof.
  intros s' s done r. induction done as [|x done IH]; simpl; intros ND E.
  - rewrite E, Z.eqb_refl. reflexivity.
  - inversion ND as [|? ? NI ND']; subst.
    assert (s_id x <> s_id s) as N.
    { intros C. apply NI. rewrite C. rewrite map_app. apply in_or_app. right. now left. }
    destruct (s_id x =? s_id s') eqn:B; [lia|]. now rewrite IH.
Qed.

Lemma tfind_mid : forall s done r, NoDup (map s_id (done ++ s :: r)) -> tfind (s_id s) (done ++ s :: r) = Some s.
Proof. intros s done r ND. apply tfind_NoDup; [exact ND|]. apply in_or_app. right. now left. Qed.

Lemma fan_plain : forall c a outs now next rest done p,
  NoDup (map s_id (done ++ rest)) ->
  let recv := map s_id (filter (fun s => matches (s_filter s) a) rest) in
  let F := fan c a outs recv [] (mkState now next (done ++ rest) p) [] in
  let S := send_all c now a outs rest p in
  fst (fst F) = mkState now next (done ++ fst (fst S)) (snd (fst S)) /\
  map fst (hands_of (snd (fst F))) = snd S /\ snd F = [].
Proof.
  intros c a outs now next rest. induction rest as [|s r IH]; intros done p ND; simpl.
  - auto.
  - assert (NoDup (map s_id ((done ++ [s]) ++ r))) as ND1 by (now rewrite <- app_assoc).
    destruct (matches (s_filter s) a) eqn:M; simpl.
    + rewrite (tfind_mid s done r ND). simpl.
      destruct (deliverable c s now) eqn:D; simpl.
      * rewrite post_split.
        unfold finish_send. simpl.
        destruct (exchange c (fst (pool_get p (s_notify s) (s_id s))) (s_notify s) (outcome_at outs (s_notify s)))
          as [p1 ok] eqn:X. simpl.
        rewrite (tfind_mid s done r ND).
        rewrite (tset_mid _ s done r ND) by reflexivity.
        set (s' := set_errors s (if ok then 0 else s_errors s + 1)).
        assert (NoDup (map s_id ((done ++ [s']) ++ r))) as ND2.
        { rewrite <- app_assoc. simpl. rewrite map_app in *. simpl in *. exact ND. }
        specialize (IH (done ++ [s']) p1 ND2). simpl in IH. rewrite <- app_assoc in IH. simpl in IH.
        destruct (fan c a outs (map s_id (filter (fun s0 => matches (s_filter s0) a) r)) []
                      (mkState now next (done ++ s' :: r) p1) []) as [[st4 vs] d].
        destruct (send_all c now a outs r p1) as [[r' p2] ms]. simpl in *.
        destruct IH as [E1 [E2 E3]]. subst. rewrite <- app_assoc. simpl.
        destruct ok; auto.
      * specialize (IH (done ++ [s]) p ND1). simpl in IH. rewrite <- app_assoc in IH. simpl in IH.
        destruct (fan c a outs (map s_id (filter (fun s0 => matches (s_filter s0) a) r)) []
                      (mkState now next (done ++ s :: r) p) []) as [[st4 vs] d].
        destruct (send_all c now a outs r p) as [[r' p2] ms]. simpl in *.
        destruct IH as [E1 [E2 E3]]. subst. rewrite <- app_assoc. simpl. auto.
    + specialize (IH (done ++ [s]) p ND1). simpl in IH. rewrite <- app_assoc in IH. simpl in IH.
      destruct (fan c a outs (map s_id (filter (fun s0 => matches (s_filter s0) a) r)) []
                    (mkState now next (done ++ s :: r) p) []) as [[st4 vs] d].
      destruct (send_all c now a outs r p) as [[r' p2] ms]. simpl in *.
      destruct IH as [E1 [E2 E3]]. subst. rewrite <- app_assoc. simpl. auto.
Qed.

Lemma receivers_table_order : forall st a, NoDup (map s_id (st_table st)) ->
  receivers st a (map s_id (st_table st)) =
  map s_id (filter (fun s => matches (s_filter s) a) (st_table st)).
Proof.
  intros st a ND. unfold receivers.
  assert (forall l, incl l (st_table st) ->
            filter (fun k => match tfind k (st_table st) with Some s => matches (s_filter s) a | None => false end)
                   (map s_id l) = map s_id (filter (fun s => matches (s_filter s) a) l)) as G.
  { induction l as [|x l IH]; intros I; simpl; [reflexivity|].
    rewrite (tfind_NoDup _ _ ND (I x (or_introl eq_refl))).
    rewrite IH by (intros y Hy; apply I; now right).
    destruct (matches (s_filter x) a); reflexivity. }
  apply G. apply incl_refl.
Qed.

(* with nothing interleaved and the receivers in table order, the fine-grained report IS the atomic one *)
Lemma fan_step_plain : forall c st a outs, NoDup (map s_id (st_table st)) ->
  fst (fan_step c st a outs (map s_id (st_table st)) []) = fst (step c st (Report a outs)) /\
  map fst (fst (snd (fan_step c st a outs (map s_id (st_table st)) []))) = msgs_of (step c st (Report a outs)) /\
  snd (snd (fan_step c st a outs (map s_id (st_table st)) [])) = [].
Proof.
  intros c st a outs ND. unfold fan_step, msgs_of. rewrite (receivers_table_order st a ND).
  destruct st as [now next tbl p]. simpl in *.
  pose proof (fan_plain c a outs now next tbl [] p ND) as H. simpl in H.
  destruct (fan c a outs (map s_id (filter (fun s => matches (s_filter s) a) tbl)) [] (mkState now next tbl p) [])
    as [[st1 vs] d].
  destruct (send_all c now a outs tbl p) as [[t' p'] ms]. simpl in *.
  destruct H as [E1 [E2 E3]]. subst. simpl. auto.
Qed.
