(* GENERATED on every run by harness/impl/gen_eventing_consts.py from
   src/sdc11073/xml_types/actions.py and src/sdc11073/provider/subscriptionmgr_base.py -- do not edit.
   Durations are in ticks of 1/8 s. *)
From Coq Require Import ZArith List String.
Import ListNotations.
Open Scope string_scope.
Definition sdc_actions : list string := [
  "http://standards.ieee.org/downloads/11073/11073-20701-2018/SetService/OperationInvokedReport";
  "http://standards.ieee.org/downloads/11073/11073-20701-2018/ContextService/EpisodicContextReport";
  "http://standards.ieee.org/downloads/11073/11073-20701-2018/StateEventService/EpisodicMetricReport";
  "http://standards.ieee.org/downloads/11073/11073-20701-2018/StateEventService/EpisodicOperationalStateReport";
  "http://standards.ieee.org/downloads/11073/11073-20701-2018/StateEventService/EpisodicAlertReport";
  "http://standards.ieee.org/downloads/11073/11073-20701-2018/StateEventService/EpisodicComponentReport";
  "http://standards.ieee.org/downloads/11073/11073-20701-2018/ContextService/PeriodicContextReport";
  "http://standards.ieee.org/downloads/11073/11073-20701-2018/StateEventService/PeriodicMetricReport";
  "http://standards.ieee.org/downloads/11073/11073-20701-2018/StateEventService/PeriodicOperationalStateReport";
  "http://standards.ieee.org/downloads/11073/11073-20701-2018/StateEventService/PeriodicAlertReport";
  "http://standards.ieee.org/downloads/11073/11073-20701-2018/StateEventService/PeriodicComponentReport";
  "http://standards.ieee.org/downloads/11073/11073-20701-2018/StateEventService/SystemErrorReport";
  "http://standards.ieee.org/downloads/11073/11073-20701-2018/WaveformService/WaveformStream";
  "http://standards.ieee.org/downloads/11073/11073-20701-2018/DescriptionEventService/DescriptionModificationReport";
  "http://standards.ieee.org/downloads/11073/11073-20701-2018/GetService/GetMdib";
  "http://standards.ieee.org/downloads/11073/11073-20701-2018/GetService/GetMdibResponse";
  "http://standards.ieee.org/downloads/11073/11073-20701-2018/GetService/GetMdState";
  "http://standards.ieee.org/downloads/11073/11073-20701-2018/GetService/GetMdStateResponse";
  "http://standards.ieee.org/downloads/11073/11073-20701-2018/GetService/GetMdDescription";
  "http://standards.ieee.org/downloads/11073/11073-20701-2018/GetService/GetMdDescriptionResponse";
  "http://standards.ieee.org/downloads/11073/11073-20701-2018/ContextService/GetContextStates";
  "http://standards.ieee.org/downloads/11073/11073-20701-2018/ContextService/GetContextStatesResponse";
  "http://standards.ieee.org/downloads/11073/11073-20701-2018/ContextService/GetContextStatesByIdentification";
  "http://standards.ieee.org/downloads/11073/11073-20701-2018/ContextService/GetContextStatesByIdentificationResponse";
  "http://standards.ieee.org/downloads/11073/11073-20701-2018/ContextService/GetContextStatesByFilter";
  "http://standards.ieee.org/downloads/11073/11073-20701-2018/ContextService/GetContextStatesByFilterResponse";
  "http://standards.ieee.org/downloads/11073/11073-20701-2018/ContextService/SetContextState";
  "http://standards.ieee.org/downloads/11073/11073-20701-2018/ContextService/SetContextStateResponse";
  "http://standards.ieee.org/downloads/11073/11073-20701-2018/LocalizationService/GetSupportedLanguages";
  "http://standards.ieee.org/downloads/11073/11073-20701-2018/LocalizationService/GetSupportedLanguagesResponse";
  "http://standards.ieee.org/downloads/11073/11073-20701-2018/LocalizationService/GetLocalizedText";
  "http://standards.ieee.org/downloads/11073/11073-20701-2018/LocalizationService/GetLocalizedTextResponse";
  "http://standards.ieee.org/downloads/11073/11073-20701-2018/SetService/Activate";
  "http://standards.ieee.org/downloads/11073/11073-20701-2018/SetService/ActivateResponse";
  "http://standards.ieee.org/downloads/11073/11073-20701-2018/SetService/SetString";
  "http://standards.ieee.org/downloads/11073/11073-20701-2018/SetService/SetStringResponse";
  "http://standards.ieee.org/downloads/11073/11073-20701-2018/SetService/SetValue";
  "http://standards.ieee.org/downloads/11073/11073-20701-2018/SetService/SetValueResponse";
  "http://standards.ieee.org/downloads/11073/11073-20701-2018/SetService/SetAlertState";
  "http://standards.ieee.org/downloads/11073/11073-20701-2018/SetService/SetAlertStateResponse";
  "http://standards.ieee.org/downloads/11073/11073-20701-2018/SetService/SetMetricState";
  "http://standards.ieee.org/downloads/11073/11073-20701-2018/SetService/SetMetricStateResponse";
  "http://standards.ieee.org/downloads/11073/11073-20701-2018/SetService/SetComponentState";
  "http://standards.ieee.org/downloads/11073/11073-20701-2018/SetService/SetComponentStateResponse";
  "http://standards.ieee.org/downloads/11073/11073-20701-2018/ContainmentTreeService/GetDescriptor";
  "http://standards.ieee.org/downloads/11073/11073-20701-2018/ContainmentTreeService/GetDescriptorResponse";
  "http://standards.ieee.org/downloads/11073/11073-20701-2018/ContainmentTreeService/GetContainmentTree";
  "http://standards.ieee.org/downloads/11073/11073-20701-2018/ContainmentTreeService/GetContainmentTreeResponse"
].
Open Scope Z_scope.
Definition TICKS_PER_S : Z := 8.
Definition MAX_NOTIFY_ERRORS : Z := (1).
Definition DEFAULT_MAX_SUBSCR_DURATION_TICKS : Z := (57600).
Definition HOUSEKEEPING_GRACE_TICKS : Z := (8).
Definition REMAINING_ROUND_DIGITS : Z := 2.
