(* GENERATED on every run by harness/impl/gen_multikey_tables.py from src/sdc11073/mdib/mdibbase.py. *)
From Coq Require Import List.
From SDC Require Import Multikey.Model.
Import ListNotations.
(* handle<-obj.Handle, parent_handle<-obj.parent_handle, NODETYPE<-obj.NODETYPE, condition_signaled<-obj.ConditionSignaled, source<-obj.Source *)
Definition descriptors_kinds : list ikind := [Unique true; Plain true; Plain true; Plain false; OneN false].
(* descriptor_handle<-obj.DescriptorHandle, NODETYPE<-obj.NODETYPE *)
Definition states_kinds : list ikind := [Unique true; Plain false].
(* descriptor_handle<-obj.DescriptorHandle, handle<-obj.Handle, NODETYPE<-obj.NODETYPE *)
Definition multistates_kinds : list ikind := [Plain true; Unique false; Plain false].
(* public mutating entry points driven by the op generator (model op <- methods): add <- add_object, add_object_no_lock; addm <- add_objects, add_objects_no_lock; remove <- remove_object, remove_object_no_lock; removem <- remove_objects, remove_objects_no_lock; update <- update_object, update_object_no_lock; updatem <- update_objects, update_objects_no_lock; clear <- clear; setver <- set_version *)
