(* Proofs about the MultiKeyLookup model: the table invariant is preserved by every operation, a
   lookup agrees with a scan of the stored objects, a rejected insert leaves the table as it was. *)
From Coq Require Import List ZArith Bool Lia Arith.
From SDC Require Import Multikey.Model.
Import ListNotations.
Open Scope Z_scope.

Notation cnt := (count_occ Z.eq_dec).

Definition ref_eqb (a b : ref) : bool := Nat.eqb (fst a) (fst b) && okey_eqb (snd a) (snd b).
Definition rcount (i : nat) (k : okey) (l : list ref) : nat := length (filter (ref_eqb (i, k)) l).

Lemma okey_eqb_eq a b : okey_eqb a b = true <-> a = b.
Proof.
  destruct a as [x|], b as [y|]; simpl; split; intros H; try discriminate; try reflexivity.
  - apply Z.eqb_eq in H. now subst.
  - injection H as ->. apply Z.eqb_refl.
Qed.

Lemma okey_eqb_refl a : okey_eqb a a = true.
Proof. now apply okey_eqb_eq. Qed.

Lemma rcount_app i k l1 l2 : rcount i k (l1 ++ l2) = (rcount i k l1 + rcount i k l2)%nat.
Proof. unfold rcount. now rewrite filter_app, app_length. Qed.

Lemma rcount_cons i k j k' l :
  rcount i k ((j, k') :: l) = ((if Nat.eqb i j && okey_eqb k k' then 1 else 0) + rcount i k l)%nat.
Proof. unfold rcount. cbn [filter]. unfold ref_eqb at 1. cbn [fst snd]. destruct (Nat.eqb i j && okey_eqb k k'); reflexivity. Qed.

Lemma rcount_map_pair_ne i j k ks : i <> j -> rcount i k (map (pair j) ks) = O.
Proof.
  intros H. induction ks as [|x r IH]; [reflexivity|]. cbn [map]. rewrite rcount_cons, IH.
  destruct (Nat.eqb_spec i j); [contradiction|reflexivity].
Qed.

Lemma rcount_map_pair_eq i k ks : rcount i k (map (pair i) ks) = okey_count k ks.
Proof.
  unfold okey_count. induction ks as [|x r IH]; [reflexivity|]. cbn [map filter]. rewrite rcount_cons, IH.
  rewrite Nat.eqb_refl. cbn [andb]. destruct (okey_eqb k x); reflexivity.
Qed.

(* ------------------------------------------------------------------ counting in index lists *)
Lemma cnt_app l1 l2 o : cnt (l1 ++ l2) o = (cnt l1 o + cnt l2 o)%nat.
Proof. apply count_occ_app. Qed.

Lemma cnt_single o o' : cnt [o] o' = if Z.eqb o o' then 1%nat else 0%nat.
Proof. cbn. destruct (Z.eq_dec o o'), (Z.eqb_spec o o'); congruence. Qed.

Lemma cnt_remove_first o l o' :
  cnt (remove_first o l) o' = if Z.eqb o o' then pred (cnt l o') else cnt l o'.
Proof.
  induction l as [|x r IH]; cbn [remove_first count_occ]; [destruct (Z.eqb o o'); reflexivity|].
  destruct (Z.eqb_spec o x) as [->|Hox].
  - destruct (Z.eq_dec x o') as [->|N]; [rewrite Z.eqb_refl; reflexivity|].
    destruct (Z.eqb_spec x o'); [contradiction|reflexivity].
  - cbn [count_occ]. rewrite IH. destruct (Z.eq_dec x o') as [->|N]; [|reflexivity].
    destruct (Z.eqb_spec o o'); [contradiction|reflexivity].
Qed.

Lemma cnt_ins ix k o k' o' :
  cnt (ins ix k o k') o' = (cnt (ix k') o' + if okey_eqb k k' && Z.eqb o o' then 1 else 0)%nat.
Proof.
  unfold ins. destruct (okey_eqb k k'); cbn [andb]; [|lia].
  rewrite cnt_app, cnt_single. reflexivity.
Qed.

Lemma cnt_rmk ix k o k' o' :
  cnt (rmk ix k o k') o' = (cnt (ix k') o' - if okey_eqb k k' && Z.eqb o o' then 1 else 0)%nat.
Proof.
  unfold rmk. destruct (okey_eqb k k'); cbn [andb]; [|lia].
  rewrite cnt_remove_first. destruct (Z.eqb o o'); lia.
Qed.

Lemma upd_same ixs i ix : upd ixs i ix i = ix.
Proof. unfold upd. now rewrite Nat.eqb_refl. Qed.
Lemma upd_other ixs i ix j : i <> j -> upd ixs i ix j = ixs j.
Proof. unfold upd. intros H. destruct (Nat.eqb_spec i j); [contradiction|reflexivity]. Qed.

Lemma cnt_ins_many ks : forall ixs i o j k o',
  cnt (ins_many ixs i ks o j k) o' =
  (cnt (ixs j k) o' + if Z.eqb o o' then rcount j k (map (pair i) ks) else 0)%nat.
Proof.
  induction ks as [|x r IH]; intros ixs i o j k o'; cbn [ins_many map].
  - unfold rcount. cbn. destruct (Z.eqb o o'); lia.
  - rewrite IH, rcount_cons.
    destruct (Nat.eqb_spec j i) as [->|Hji].
    + rewrite upd_same, cnt_ins. rewrite (Bool.andb_comm (okey_eqb x k)).
      replace (okey_eqb k x) with (okey_eqb x k).
      2:{ destruct (okey_eqb x k) eqn:E.
          - apply okey_eqb_eq in E. subst. symmetry. apply okey_eqb_refl.
          - destruct (okey_eqb k x) eqn:E2; [|reflexivity]. apply okey_eqb_eq in E2. subst.
            now rewrite okey_eqb_refl in E. }
      cbn [andb]. destruct (Z.eqb o o'), (okey_eqb x k); cbn [andb]; lia.
    + rewrite upd_other by congruence. cbn [andb]. destruct (Z.eqb o o'); lia.
Qed.

Lemma cnt_rm_refs rs : forall ixs o j k o',
  cnt (rm_refs ixs rs o j k) o' = (cnt (ixs j k) o' - if Z.eqb o o' then rcount j k rs else 0)%nat.
Proof.
  induction rs as [|[i x] r IH]; intros ixs o j k o'; cbn [rm_refs].
  - unfold rcount. cbn. destruct (Z.eqb o o'); lia.
  - rewrite IH, rcount_cons.
    destruct (Nat.eqb_spec j i) as [->|Hji].
    + rewrite upd_same, cnt_rmk.
      replace (okey_eqb k x) with (okey_eqb x k).
      2:{ destruct (okey_eqb x k) eqn:E.
          - apply okey_eqb_eq in E. subst. symmetry. apply okey_eqb_refl.
          - destruct (okey_eqb k x) eqn:E2; [|reflexivity]. apply okey_eqb_eq in E2. subst.
            now rewrite okey_eqb_refl in E. }
      cbn [andb]. destruct (Z.eqb o o'), (okey_eqb x k); cbn [andb]; lia.
    + rewrite upd_other by congruence. cbn [andb]. destruct (Z.eqb o o'); lia.
Qed.

(* ------------------------------------------------------------------ keys_of / spec_keys *)
Fixpoint all_refs (kinds : list ikind) (i : nat) (av : nat -> kval) : list ref :=
  match kinds with
  | [] => []
  | kd :: r => map (pair i) (spec_keys kd (av i)) ++ all_refs r (S i) av
  end.

Lemma keys_of_spec kd v p ks : keys_of kd v p = MkKeys ks -> spec_keys kd v = ks.
Proof.
  unfold spec_keys. destruct kd as [nk|nk|nk], v as [|k|l|]; cbn; try discriminate;
    try destruct nk; try discriminate; try (destruct (p _); try discriminate); auto;
    intros [= <-]; reflexivity.
Qed.

Lemma keys_of_skip kd v p : keys_of kd v p = MkSkip -> spec_keys kd v = [].
Proof.
  unfold spec_keys. destruct kd as [nk|nk|nk], v as [|k|l|]; cbn; try discriminate;
    try destruct nk; try discriminate; try (destruct (p _); try discriminate); auto.
Qed.

(* the loop of _mk_indices *)
Lemma mk_loop_spec kinds : forall i o av ixs acc ixs' acc' rej,
  mk_loop kinds i o av ixs acc = (ixs', acc', rej) ->
  exists d, acc' = acc ++ d /\
    (forall j k o', cnt (ixs' j k) o' = (cnt (ixs j k) o' + if Z.eqb o o' then rcount j k d else 0)%nat) /\
    (rej = false -> d = all_refs kinds i av).
Proof.
  induction kinds as [|kd r IH]; intros i o av ixs acc ixs' acc' rej H; cbn [mk_loop] in H.
  - injection H as <- <- <-. exists []. rewrite app_nil_r. repeat split.
    intros. unfold rcount. cbn. destruct (Z.eqb o o'); lia.
  - destruct (keys_of kd (av i) _) as [ks| |] eqn:K.
    + apply IH in H as (d & -> & Hc & Hr).
      exists (map (pair i) ks ++ d). rewrite app_assoc. repeat split.
      * intros j k o'. rewrite Hc, cnt_ins_many, rcount_app. destruct (Z.eqb o o'); lia.
      * intros E. cbn [all_refs]. rewrite (keys_of_spec _ _ _ _ K), (Hr E). reflexivity.
    + apply IH in H as (d & -> & Hc & Hr). exists d. repeat split; auto.
      intros E. cbn [all_refs]. rewrite (keys_of_skip _ _ _ K), (Hr E). reflexivity.
    + injection H as <- <- <-. exists []. rewrite app_nil_r. repeat split; try discriminate.
      intros. unfold rcount. cbn. destruct (Z.eqb o o'); lia.
Qed.

(* ------------------------------------------------------------------ the invariant *)
Section Inv.
  Variable kinds : list ikind.

  Record Inv (t : table) : Prop := {
    inv_nodup : NoDup (objs t);
    inv_refs_dom : forall o, refs t o = None <-> ~ In o (objs t);
    inv_refs_val : forall o l, refs t o = Some l -> l = all_refs kinds 0 (iattrs t o);
    inv_idx : forall i k o,
        cnt (idxs t i k) o = match refs t o with Some l => rcount i k l | None => O end
  }.

  Lemma mem_In o l : mem o l = true <-> In o l.
  Proof.
    unfold mem. rewrite existsb_exists. split.
    - intros (x & Hx & E). apply Z.eqb_eq in E. now subst.
    - intros H. exists o. split; [assumption|apply Z.eqb_refl].
  Qed.

  Lemma remove_first_notin o l : ~ In o l -> remove_first o l = l.
  Proof.
    induction l as [|x r IH]; intros H; [reflexivity|]. cbn [remove_first].
    destruct (Z.eqb_spec o x) as [->|Hne]; [exfalso; apply H; now left|].
    f_equal. apply IH. intros Hi. apply H. now right.
  Qed.

  Lemma In_remove_first o l x : NoDup l -> (In x (remove_first o l) <-> In x l /\ x <> o).
  Proof.
    induction l as [|y r IH]; intros Hnd; cbn [remove_first]; [tauto|].
    inversion Hnd as [|? ? Hy Hr]; subst.
    destruct (Z.eqb_spec o y) as [->|Hne].
    - split; [intros Hx; split; [now right|intros ->; contradiction]|].
      intros [[->|Hx] Hn]; [contradiction|assumption].
    - cbn [In]. rewrite (IH Hr). split.
      + intros [->|[Hx Hn]]; [split; [now left|congruence]|split; [now right|assumption]].
      + intros [[->|Hx] Hn]; [now left|right; split; assumption].
  Qed.

  Lemma NoDup_remove_first o l : NoDup l -> NoDup (remove_first o l).
  Proof.
    induction l as [|y r IH]; intros Hnd; cbn [remove_first]; [constructor|].
    inversion Hnd as [|? ? Hy Hr]; subst.
    destruct (Z.eqb o y); [assumption|]. constructor; [|now apply IH].
    intros Hi. apply (In_remove_first o r y Hr) in Hi. tauto.
  Qed.

  Lemma remove_first_app_last o l : ~ In o l -> remove_first o (l ++ [o]) = l.
  Proof.
    induction l as [|x r IH]; intros H; cbn [app remove_first].
    - now rewrite Z.eqb_refl.
    - destruct (Z.eqb_spec o x) as [->|Hne]; [exfalso; apply H; now left|].
      f_equal. apply IH. intros Hi. apply H. now right.
  Qed.

  Lemma oupd_same {A} (f : oid -> A) o v : oupd f o v o = v.
  Proof. unfold oupd. now rewrite Z.eqb_refl. Qed.
  Lemma oupd_other {A} (f : oid -> A) o v o' : o <> o' -> oupd f o v o' = f o'.
  Proof. unfold oupd. intros H. destruct (Z.eqb_spec o o'); [contradiction|reflexivity]. Qed.

  (* state in which _mk_indices is entered: the object is in _objects but not indexed *)
  Record Pre (t : table) (o : oid) : Prop := {
    pre_nodup : NoDup (objs t);
    pre_in : In o (objs t);
    pre_none : refs t o = None;
    pre_dom : forall o', o' <> o -> (refs t o' = None <-> ~ In o' (objs t));
    pre_val : forall o' l, refs t o' = Some l -> l = all_refs kinds 0 (iattrs t o');
    pre_idx : forall i k o',
        cnt (idxs t i k) o' = match refs t o' with Some l => rcount i k l | None => O end
  }.

  Lemma mk_indices_inv t o : Pre t o -> Inv (fst (mk_indices kinds t o)).
  Proof.
    intros P. unfold mk_indices.
    destruct (mk_loop kinds 0 o (attrs t o) (idxs t) []) as [[ixs acc] rej] eqn:L.
    apply mk_loop_spec in L as (d & Hacc & Hc & Hr). cbn [app] in Hacc. subst acc.
    destruct rej; cbn [fst].
    - (* rejected: rolled back, object gone *)
      constructor; cbn [objs refs idxs iattrs].
      + apply NoDup_remove_first, (pre_nodup _ _ P).
      + intros o'. destruct (Z.eq_dec o o') as [<-|Hne].
        * rewrite oupd_same. split; [|reflexivity]. intros _ Hi.
          apply (In_remove_first o _ o (pre_nodup _ _ P)) in Hi. tauto.
        * rewrite oupd_other by assumption. rewrite (pre_dom _ _ P o') by congruence.
          rewrite (In_remove_first o _ o' (pre_nodup _ _ P)). split; [tauto|].
          intros H Hi. apply H. split; [assumption|congruence].
      + intros o' l. destruct (Z.eq_dec o o') as [<-|Hne].
        * rewrite oupd_same. discriminate.
        * rewrite oupd_other by assumption. apply (pre_val _ _ P).
      + intros i k o'. rewrite cnt_rm_refs, Hc, (pre_idx _ _ P).
        destruct (Z.eqb_spec o o') as [<-|Hne].
        * rewrite oupd_same, (pre_none _ _ P). lia.
        * rewrite oupd_other by assumption. lia.
    - specialize (Hr eq_refl). subst d.
      constructor; cbn [objs refs idxs iattrs].
      + apply (pre_nodup _ _ P).
      + intros o'. destruct (Z.eq_dec o o') as [<-|Hne].
        * rewrite oupd_same. split; [discriminate|]. intros H. exfalso. apply H, (pre_in _ _ P).
        * rewrite oupd_other by assumption. apply (pre_dom _ _ P). congruence.
      + intros o' l. destruct (Z.eq_dec o o') as [<-|Hne].
        * rewrite !oupd_same. now intros [= <-].
        * rewrite !oupd_other by assumption. apply (pre_val _ _ P).
      + intros i k o'. rewrite Hc, (pre_idx _ _ P).
        destruct (Z.eqb_spec o o') as [<-|Hne].
        * rewrite oupd_same, (pre_none _ _ P). lia.
        * rewrite oupd_other by assumption. lia.
  Qed.

  Lemma NoDup_app_intro_last (l : list Z) o : NoDup l -> ~ In o l -> NoDup (l ++ [o]).
  Proof.
    induction l as [|x r IH]; intros Hnd Hni; cbn [app].
    - constructor; [intros []|constructor].
    - inversion Hnd as [|? ? Hx Hr]; subst. constructor.
      + rewrite in_app_iff. cbn [In]. intros [H|[->|[]]]; [contradiction|apply Hni; now left].
      + apply IH; [assumption|intros H; apply Hni; now right].
  Qed.

  Lemma add_inv t o : Inv t -> Inv (fst (add kinds t o)).
  Proof.
    intros I. unfold add. destruct (mem o (objs t)) eqn:M; [exact I|].
    assert (Hni : ~ In o (objs t)). { intros Hi. apply mem_In in Hi. congruence. }
    apply mk_indices_inv. constructor; cbn [objs refs idxs iattrs].
    - apply NoDup_app_intro_last; [apply (inv_nodup _ I)|assumption].
    - apply in_or_app. right. now left.
    - now apply (inv_refs_dom _ I).
    - intros o' Hne. rewrite (inv_refs_dom _ I). rewrite in_app_iff. cbn [In]. split; [|tauto].
      intros H [Hi|[->|[]]]; [contradiction|contradiction].
    - apply (inv_refs_val _ I).
    - apply (inv_idx _ I).
  Qed.

  Lemma rm_indices_pre t o : Inv t -> In o (objs t) -> Pre (rm_indices t o) o.
  Proof.
    intros I Hi. unfold rm_indices. destruct (refs t o) as [rs|] eqn:R.
    - constructor; cbn [objs refs idxs iattrs].
      + apply (inv_nodup _ I).
      + assumption.
      + apply oupd_same.
      + intros o' Hne. rewrite oupd_other by congruence. apply (inv_refs_dom _ I).
      + intros o' l. destruct (Z.eq_dec o o') as [<-|Hne].
        * rewrite oupd_same. discriminate.
        * rewrite oupd_other by assumption. apply (inv_refs_val _ I).
      + intros i k o'. rewrite cnt_rm_refs, (inv_idx _ I).
        destruct (Z.eqb_spec o o') as [<-|Hne].
        * rewrite oupd_same, R. lia.
        * rewrite oupd_other by assumption. lia.
    - exfalso. apply (inv_refs_dom _ I) in R. contradiction.
  Qed.

  Lemma update_inv t o : Inv t -> Inv (fst (update kinds t o)).
  Proof.
    intros I. unfold update. destruct (mem o (objs t)) eqn:M; [|exact I].
    apply mk_indices_inv, rm_indices_pre; [assumption|now apply mem_In].
  Qed.

  Lemma remove_inv t o : Inv t -> Inv (fst (remove t o)).
  Proof.
    intros I. unfold remove. destruct (refs t o) as [rs|] eqn:R; [|exact I].
    assert (Hi : In o (objs t)).
    { destruct (in_dec Z.eq_dec o (objs t)) as [H|H]; [assumption|].
      apply (inv_refs_dom _ I) in H. congruence. }
    pose proof (rm_indices_pre t o I Hi) as P. cbn [fst].
    constructor; cbn [objs refs idxs iattrs].
    - apply NoDup_remove_first, (pre_nodup _ _ P).
    - intros o'. destruct (Z.eq_dec o' o) as [->|Hne].
      + rewrite (pre_none _ _ P). split; [|reflexivity]. intros _ Hx.
        apply (In_remove_first o _ o (pre_nodup _ _ P)) in Hx. tauto.
      + rewrite (pre_dom _ _ P o' Hne), (In_remove_first o _ o' (pre_nodup _ _ P)). tauto.
    - apply (pre_val _ _ P).
    - apply (pre_idx _ _ P).
  Qed.

  Lemma empty_inv : Inv empty.
  Proof.
    constructor; cbn; try constructor; try tauto; try discriminate; try reflexivity.
  Qed.

  Lemma clear_inv t : Inv (clear t).
  Proof.
    constructor; cbn [clear objs refs idxs iattrs]; try constructor; try tauto; try discriminate;
      try reflexivity.
  Qed.

  (* the bulk entry points: loops over the single-object operations *)
  Lemma add_many_inv os : forall t, Inv t -> Inv (fst (add_many kinds t os)).
  Proof.
    induction os as [|o r IH]; intros t I; cbn [add_many]; [exact I|].
    pose proof (add_inv t o I) as I1. destruct (add kinds t o) as [t1 x]. cbn [fst] in I1.
    destruct x; [now apply IH|exact I1|exact I1].
  Qed.

  Lemma remove_many_inv os : forall t, Inv t -> Inv (fst (remove_many t os)).
  Proof.
    induction os as [|o r IH]; intros t I; cbn [remove_many]; [exact I|].
    apply IH. now apply remove_inv.
  Qed.

  Lemma update_many_inv os : forall t, Inv t -> Inv (fst (update_many kinds t os)).
  Proof.
    induction os as [|o r IH]; intros t I; cbn [update_many]; [exact I|].
    pose proof (update_inv t o I) as I1. destruct (update kinds t o) as [t1 x]. cbn [fst] in I1.
    destruct x; [now apply IH|exact I1|exact I1].
  Qed.

  Lemma step_inv t p : Inv t -> Inv (fst (step kinds t p)).
  Proof.
    intros I. destruct p as [o|o|o| |o i v|os|os|os]; cbn [step].
    - now apply add_inv.
    - now apply remove_inv.
    - now apply update_inv.
    - apply clear_inv.
    - cbn [fst]. destruct I as [I1 I2 I3 I4]. constructor; cbn [objs refs idxs iattrs]; assumption.
    - now apply add_many_inv.
    - now apply remove_many_inv.
    - now apply update_many_inv.
  Qed.

  Lemma run_fst t p r : fst (run kinds t (p :: r)) = fst (run kinds (fst (step kinds t p)) r).
  Proof.
    cbn [run]. destruct (step kinds t p) as [t1 x]. cbn [fst].
    destruct (run kinds t1 r) as [t2 xs]. reflexivity.
  Qed.

  Theorem run_inv ops : forall t, Inv t -> Inv (fst (run kinds t ops)).
  Proof.
    induction ops as [|p r IH]; intros t I; [exact I|].
    rewrite run_fst. apply IH. now apply step_inv.
  Qed.

  (* ---------------------------------------------------------------- lookup = scan *)
  Lemma rcount_all_refs_lt ks : forall i0 av i k,
    (i < i0)%nat -> rcount i k (all_refs ks i0 av) = O.
  Proof.
    induction ks as [|kd r IH]; intros i0 av i k H; cbn [all_refs]; [reflexivity|].
    rewrite rcount_app, rcount_map_pair_ne by lia. rewrite IH by lia. reflexivity.
  Qed.

  Lemma rcount_all_refs ks : forall i0 av i k,
    (i0 <= i < i0 + length ks)%nat ->
    rcount i k (all_refs ks i0 av) = okey_count k (spec_keys (nth (i - i0) ks (Plain true)) (av i)).
  Proof.
    induction ks as [|kd r IH]; intros i0 av i k H; cbn [all_refs length] in *; [lia|].
    rewrite rcount_app. destruct (Nat.eq_dec i i0) as [->|Hne].
    - rewrite rcount_map_pair_eq, rcount_all_refs_lt by lia. rewrite Nat.sub_diag. cbn [nth]. lia.
    - rewrite rcount_map_pair_ne by assumption. rewrite IH by lia.
      replace (i - i0)%nat with (S (i - S i0)) by lia. reflexivity.
  Qed.

  (* Every lookup returns, for every object, exactly the multiplicity a scan of the stored objects
     (with the attribute values of the last re-index) yields. *)
  Theorem lookup_is_scan t i k o :
    Inv t -> (i < length kinds)%nat ->
    cnt (lookup t i k) o = scan_mult kinds t (iattrs t) i k o.
  Proof.
    intros I Hi. unfold lookup, scan_mult. rewrite (inv_idx _ I).
    destruct (mem o (objs t)) eqn:M.
    - apply mem_In in M. destruct (refs t o) as [l|] eqn:R.
      + rewrite (inv_refs_val _ I _ _ R), rcount_all_refs by lia.
        now rewrite Nat.sub_0_r.
      + apply (inv_refs_dom _ I) in R. contradiction.
    - destruct (refs t o) as [l|] eqn:R; [|reflexivity].
      assert (In o (objs t)).
      { destruct (in_dec Z.eq_dec o (objs t)) as [H|H]; [assumption|].
        apply (inv_refs_dom _ I) in H. congruence. }
      apply mem_In in H. congruence.
  Qed.

  Definition reindexed (t : table) : Prop := forall o i, In o (objs t) -> iattrs t o i = attrs t o i.

  Corollary lookup_is_scan_current t i k o :
    Inv t -> reindexed t -> (i < length kinds)%nat ->
    cnt (lookup t i k) o = scan_mult kinds t (attrs t) i k o.
  Proof.
    intros I Hr Hi. rewrite (lookup_is_scan t i k o I Hi). unfold scan_mult.
    destruct (mem o (objs t)) eqn:M; [|reflexivity]. apply mem_In in M. now rewrite Hr.
  Qed.

  (* ---------------------------------------------------------------- rejected insert *)
  Definition same_table (a b : table) : Prop :=
    objs a = objs b /\ (forall o, refs a o = refs b o) /\
    (forall i k o, cnt (idxs a i k) o = cnt (idxs b i k) o) /\
    (forall o i, attrs a o i = attrs b o i) /\ (forall o i, iattrs a o i = iattrs b o i).

  Theorem rejected_insert_noop t o t' :
    Inv t -> add kinds t o = (t', RRejected) -> same_table t' t.
  Proof.
    intros I. unfold add. destruct (mem o (objs t)) eqn:M; [intros [= <-]; discriminate|].
    assert (Hni : ~ In o (objs t)). { intros Hi. apply mem_In in Hi. congruence. }
    unfold mk_indices. cbn [attrs idxs objs refs iattrs].
    destruct (mk_loop kinds 0 o (attrs t o) (idxs t) []) as [[ixs acc] rej] eqn:L.
    apply mk_loop_spec in L as (d & Hacc & Hc & _). cbn [app] in Hacc. subst acc.
    destruct rej; [|intros [= <-]; discriminate]. intros [= <-].
    unfold same_table. cbn [objs refs idxs attrs iattrs]. repeat split.
    - now apply remove_first_app_last.
    - intros o'. destruct (Z.eq_dec o o') as [<-|Hne].
      + rewrite oupd_same. symmetry. now apply (inv_refs_dom _ I).
      + now rewrite oupd_other.
    - intros i k o'. rewrite cnt_rm_refs, Hc. destruct (Z.eqb o o'); lia.
  Qed.

  (* ---------------------------------------------------------------- rejected bulk insert *)
  (* A bulk insert that is rejected has PREFIX semantics: the table is exactly the table after the
     (accepted) insertion of the elements before the offending one; the offending element and everything
     behind it left no trace. *)
  Theorem rejected_batch_is_prefix os : forall t t',
    Inv t -> add_many kinds t os = (t', RRejected) ->
    exists pre o post t1,
      os = pre ++ o :: post /\ add_many kinds t pre = (t1, ROk) /\
      (exists t1', add kinds t1 o = (t1', RRejected)) /\ same_table t' t1.
  Proof.
    induction os as [|o r IH]; intros t t' I H; cbn [add_many] in H; [discriminate|].
    pose proof (add_inv t o I) as I1. destruct (add kinds t o) as [t1 x] eqn:A. cbn [fst] in I1.
    destruct x.
    - destruct (IH t1 t' I1 H) as (pre & o' & post & t2 & -> & Hp & Hr & Hs).
      exists (o :: pre), o', post, t2. cbn [app add_many]. rewrite A.
      split; [reflexivity|split; [exact Hp|split; [exact Hr|exact Hs]]].
    - injection H as <-. exists [], o, r, t. cbn [app add_many].
      split; [reflexivity|split; [reflexivity|split; [exists t1; exact A|]]].
      exact (rejected_insert_noop t o t1 I A).
    - discriminate.
  Qed.

  (* an accepted bulk operation is the sequence of the single operations *)
  Lemma add_many_ok_is_run os : forall t t',
    add_many kinds t os = (t', ROk) -> fst (run kinds t (map Add os)) = t'.
  Proof.
    induction os as [|o r IH]; intros t t' H.
    - cbn in H. injection H as H. subst t'. reflexivity.
    - cbn [add_many] in H. cbn [map]. rewrite run_fst. cbn [step].
      destruct (add kinds t o) as [t1 x]. cbn [fst].
      destruct x.
      + now apply IH.
      + injection H as _ H. discriminate.
      + injection H as _ H. discriminate.
  Qed.

  Lemma remove_many_is_run os : forall t,
    fst (run kinds t (map Remove os)) = fst (remove_many t os).
  Proof.
    induction os as [|o r IH]; intros t; cbn [remove_many map]; [reflexivity|].
    rewrite run_fst. cbn [step]. apply IH.
  Qed.

  (* a bulk insert never reports "object not known" *)
  Lemma add_many_not_valueerror os : forall t t', add_many kinds t os <> (t', RValueError).
  Proof.
    induction os as [|o r IH]; intros t t' H; cbn [add_many] in H; [discriminate|].
    destruct (add kinds t o) as [t1 x] eqn:A. destruct x; [now apply IH in H|discriminate|].
    unfold add in A. destruct (mem o (objs t)); [discriminate|]. unfold mk_indices in A.
    destruct (mk_loop _ _ _ _ _ _) as [[ixs acc] rej]. destruct rej; discriminate.
  Qed.
End Inv.
