(* Executable model of sdc11073.multikey.MultiKeyLookup (the in-memory table with indices that backs
   the MDIB descriptor/state tables and the subscription table).  Definitions only.

   Objects are identities (Python: id(obj)); their indexed attributes live outside the table and can
   be changed by the application at any time ([SetAttr]); the table only learns about it on
   update_object.  [iattrs] is ghost state: the attribute values seen at the last (re)indexing. *)
From Coq Require Import List ZArith Bool.
Import ListNotations.
Open Scope Z_scope.

Definition oid := Z.
Definition okey := option Z.               (* dictionary key; None is Python's None *)

Definition okey_eqb (a b : okey) : bool :=
  match a, b with
  | None, None => true
  | Some x, Some y => Z.eqb x y
  | _, _ => false
  end.

(* value returned by an index' key function for an object *)
Inductive kval :=
| VNone                     (* None *)
| VOne (k : Z)              (* a scalar key *)
| VList (ks : list Z)       (* a list of keys *)
| VErr.                     (* the key function raises AttributeError / TypeError *)

Inductive ikind :=
| Plain (index_none : bool)      (* IndexDefinition *)
| Unique (index_none : bool)     (* UIndexDefinition *)
| OneN (index_none : bool).      (* IndexDefinition1n *)

Inductive mkres := MkKeys (ks : list okey) | MkSkip | MkReject.

(* IndexDefinition*.mk_keys as seen from _mk_indices: MkSkip = TypeError/AttributeError (caught there),
   MkReject = KeyError / ValueError (propagates). [present k] = "k in self". *)
Definition keys_of (kd : ikind) (v : kval) (present : okey -> bool) : mkres :=
  match kd, v with
  | _, VErr => MkSkip
  | Plain nk, VNone => if nk then MkKeys [None] else MkSkip
  | Plain _, VOne k => MkKeys [Some k]
  | Plain _, VList _ => MkSkip                      (* unhashable key: TypeError *)
  | Unique nk, VNone => if nk then (if present None then MkReject else MkKeys [None]) else MkSkip
  | Unique _, VOne k => if present (Some k) then MkReject else MkKeys [Some k]
  | Unique _, VList _ => MkReject                   (* ValueError: list of keys not allowed *)
  | OneN _, VNone => MkSkip                         (* None is not iterable / not indexed *)
  | OneN _, VOne _ => MkSkip                        (* int is not iterable *)
  | OneN _, VList ks => MkKeys (map Some ks)
  end.

Definition index := okey -> list oid.       (* dict: key -> list of objects; absent key = [] *)

Fixpoint remove_first (o : oid) (l : list oid) : list oid :=
  match l with
  | [] => []
  | x :: r => if Z.eqb o x then r else x :: remove_first o r
  end.

Definition ins (ix : index) (k : okey) (o : oid) : index :=
  fun k' => if okey_eqb k k' then ix k' ++ [o] else ix k'.
Definition rmk (ix : index) (k : okey) (o : oid) : index :=
  fun k' => if okey_eqb k k' then remove_first o (ix k') else ix k'.

Definition indices := nat -> index.
Definition upd (ixs : indices) (i : nat) (ix : index) : indices :=
  fun j => if Nat.eqb i j then ix else ixs j.

Definition ref := (nat * okey)%type.          (* _ObjRef(index_dict, key) *)

Fixpoint ins_many (ixs : indices) (i : nat) (ks : list okey) (o : oid) : indices :=
  match ks with
  | [] => ixs
  | k :: r => ins_many (upd ixs i (ins (ixs i) k o)) i r o
  end.

Fixpoint rm_refs (ixs : indices) (rs : list ref) (o : oid) : indices :=
  match rs with
  | [] => ixs
  | (i, k) :: r => rm_refs (upd ixs i (rmk (ixs i) k o)) r o
  end.

Definition is_nil {A} (l : list A) : bool := match l with [] => true | _ => false end.

(* the loop of _mk_indices; third component: an exception propagated *)
Fixpoint mk_loop (kinds : list ikind) (i : nat) (o : oid) (av : nat -> kval)
         (ixs : indices) (acc : list ref) : indices * list ref * bool :=
  match kinds with
  | [] => (ixs, acc, false)
  | kd :: r =>
      match keys_of kd (av i) (fun k => negb (is_nil (ixs i k))) with
      | MkSkip => mk_loop r (S i) o av ixs acc
      | MkReject => (ixs, acc, true)
      | MkKeys ks => mk_loop r (S i) o av (ins_many ixs i ks o) (acc ++ map (pair i) ks)
      end
  end.

Record table := mkTable {
  objs : list oid;                          (* _objects (a set; kept duplicate free) *)
  idxs : indices;                           (* _idx_defs, in definition order *)
  refs : oid -> option (list ref);          (* _object_ids *)
  attrs : oid -> nat -> kval;               (* current attribute values (application state) *)
  iattrs : oid -> nat -> kval               (* ghost: values at the last (re)indexing *)
}.

Definition oupd {A} (f : oid -> A) (o : oid) (v : A) : oid -> A :=
  fun o' => if Z.eqb o o' then v else f o'.

Definition mem (o : oid) (l : list oid) : bool := existsb (Z.eqb o) l.

Inductive result := ROk | RRejected | RValueError.

Section Ops.
  Variable kinds : list ikind.

  Definition empty : table :=
    mkTable [] (fun _ _ => []) (fun _ => None) (fun _ _ => VErr) (fun _ _ => VErr).

  (* _mk_indices with the roll-back of a rejected insert: all-or-nothing *)
  Definition mk_indices (t : table) (o : oid) : table * result :=
    let '(ixs, acc, rej) := mk_loop kinds 0 o (attrs t o) (idxs t) [] in
    if rej then
      (mkTable (remove_first o (objs t)) (rm_refs ixs acc o) (oupd (refs t) o None) (attrs t) (iattrs t),
       RRejected)
    else
      (mkTable (objs t) ixs (oupd (refs t) o (Some acc)) (attrs t) (oupd (iattrs t) o (attrs t o)), ROk).

  Definition rm_indices (t : table) (o : oid) : table :=
    match refs t o with
    | None => t
    | Some rs => mkTable (objs t) (rm_refs (idxs t) rs o) (oupd (refs t) o None) (attrs t) (iattrs t)
    end.

  Definition add (t : table) (o : oid) : table * result :=
    if mem o (objs t) then (t, ROk)
    else mk_indices (mkTable (objs t ++ [o]) (idxs t) (refs t) (attrs t) (iattrs t)) o.

  Definition remove (t : table) (o : oid) : table * result :=
    match refs t o with
    | None => (t, ROk)
    | Some _ =>
        let t1 := rm_indices t o in
        (mkTable (remove_first o (objs t1)) (idxs t1) (refs t1) (attrs t1) (iattrs t1), ROk)
    end.

  Definition update (t : table) (o : oid) : table * result :=
    if mem o (objs t) then mk_indices (rm_indices t o) o else (t, RValueError).

  Definition clear (t : table) : table :=
    mkTable [] (fun _ _ => []) (fun _ => None) (attrs t) (iattrs t).

  (* The bulk entry points add_objects(_no_lock) / remove_objects(_no_lock) / update_objects(_no_lock)
     (and DescriptorsLookup's apply_map variants) are plain loops over the single-object operation: an
     exception raised for one element propagates at once.  A rejected batch therefore is NOT all-or-nothing:
     it has PREFIX semantics -- the elements before the offending one stay stored and indexed, the offending
     one is rolled back by _mk_indices, the elements behind it are never looked at. *)
  Fixpoint add_many (t : table) (os : list oid) : table * result :=
    match os with
    | [] => (t, ROk)
    | o :: r => let '(t1, x) := add t o in
                match x with ROk => add_many t1 r | _ => (t1, x) end
    end.

  (* remove_objects: unknown objects (and None, an identity that is never stored) are skipped *)
  Fixpoint remove_many (t : table) (os : list oid) : table * result :=
    match os with
    | [] => (t, ROk)
    | o :: r => remove_many (fst (remove t o)) r
    end.

  (* update_objects: stops at the first unknown object (ValueError) or rejected re-index (KeyError) *)
  Fixpoint update_many (t : table) (os : list oid) : table * result :=
    match os with
    | [] => (t, ROk)
    | o :: r => let '(t1, x) := update t o in
                match x with ROk => update_many t1 r | _ => (t1, x) end
    end.

  Inductive op :=
  | Add (o : oid) | Remove (o : oid) | Update (o : oid) | Clear
  | SetAttr (o : oid) (i : nat) (v : kval)
  | AddMany (os : list oid) | RemoveMany (os : list oid) | UpdateMany (os : list oid).

  Definition step (t : table) (p : op) : table * result :=
    match p with
    | Add o => add t o
    | Remove o => remove t o
    | Update o => update t o
    | Clear => (clear t, ROk)
    | SetAttr o i v =>
        (mkTable (objs t) (idxs t) (refs t)
                 (fun o' j => if Z.eqb o o' && Nat.eqb i j then v else attrs t o' j) (iattrs t), ROk)
    | AddMany os => add_many t os
    | RemoveMany os => remove_many t os
    | UpdateMany os => update_many t os
    end.

  Fixpoint run (t : table) (ops : list op) : table * list result :=
    match ops with
    | [] => (t, [])
    | p :: r => let '(t1, x) := step t p in let '(t2, xs) := run t1 r in (t2, x :: xs)
    end.

  Definition lookup (t : table) (i : nat) (k : okey) : list oid := idxs t i k.

  (* what a linear scan of the stored objects would return for key k of index i (as multiplicities) *)
  Definition spec_keys (kd : ikind) (v : kval) : list okey :=
    match keys_of kd v (fun _ => false) with MkKeys ks => ks | _ => [] end.
  Definition okey_count (k : okey) (l : list okey) : nat := length (filter (okey_eqb k) l).
  Definition scan_mult (t : table) (av : oid -> nat -> kval) (i : nat) (k : okey) (o : oid) : nat :=
    if mem o (objs t) then okey_count k (spec_keys (nth i kinds (Plain true)) (av o i)) else O.

  (* observation used by the correspondence check: objects (sorted by the harness), every index at
     every key of a finite universe, and the per-object reference lists *)
  Definition result_code (r : result) : Z := match r with ROk => 0 | RRejected => 1 | RValueError => 2 end.
  Definition okey_code (k : okey) : Z := match k with None => -1 | Some z => z end.
  Definition obs := (list Z * Z * list (list (list Z)) * list (list (Z * Z)))%type.
  Definition observe (t : table) (keys : list okey) (os : list oid) : obs :=
    (filter (fun o => mem o (objs t)) os,
     Z.of_nat (length (objs t)),
     map (fun i => map (fun k => idxs t i k) keys) (seq 0 (length kinds)),
     map (fun o => match refs t o with
                   | None => [(-2, -2)]
                   | Some rs => map (fun r => (Z.of_nat (fst r), okey_code (snd r))) rs
                   end) os).

  Fixpoint run_obs (t : table) (keys : list okey) (os : list oid) (ops : list op) : list (Z * obs) :=
    match ops with
    | [] => []
    | p :: r =>
        let '(t1, x) := step t p in
        match p with
        | SetAttr _ _ _ => run_obs t1 keys os r      (* application state only: the table is not observed again *)
        | _ => (result_code x, observe t1 keys os) :: run_obs t1 keys os r
        end
    end.
End Ops.

From SDC Require Import Common.Corr.
Definition obs_eqb (a b : obs) : bool :=
  let '(o1, n1, i1, r1) := a in
  let '(o2, n2, i2, r2) := b in
  zl_eqb o1 o2 && Z.eqb n1 n2 && list_eqb zll_eqb i1 i2 &&
  list_eqb (list_eqb (prod_eqb Z.eqb Z.eqb)) r1 r2.
Definition trace_eqb := list_eqb (prod_eqb Z.eqb obs_eqb).
(* one correspondence case: index kinds, key universe, object universe, operations *)
Definition run_case (c : list ikind * list okey * list oid * list op) : list (Z * obs) :=
  let '(kinds, keys, os, ops) := c in run_obs kinds (empty) keys os ops.
