(* Model of sdc11073.location.SdcLocation (scope_string, from_scope_string, __contains__,
   _scope_string_matches, _service_matches, filter_services_inside), of
   LocationContextStateContainer.update_from_sdc_location / _loc_extension_segment and of the location
   branch of sdc11073.provider.scopesfactory.mk_scopes / _query_from_location_state.
   Strings are UTF-8 byte lists (Location/Quote.v).  Definitions only. *)
From Coq Require Import List NArith Bool.
From SDC Require Import Location.Quote.
Import ListNotations.
Open Scope N_scope.

(* constants read from the source on every run (Location/Gen_Loc.v) *)
Record consts := mkConsts {
  c_scheme : bytes;            (* SdcLocation.scheme *)
  c_elements : list bytes;     (* SdcLocation.url_elements, hierarchy order *)
  c_default_root : bytes;      (* default of SdcLocation.__init__(root=...) *)
  c_ident_root : bytes;        (* InstanceIdentifier root written by update_from_sdc_location *)
  c_pub_scheme : bytes;        (* scheme literal used by mk_scopes for LocationContextDescriptor *)
  c_unk : bytes                (* BICEPS_URI_UNK *)
}.

Record loc := mkLoc { l_root : bytes; l_vals : list (option bytes) }.   (* values in c_elements order *)

Inductive perr := ESchemeErr | EValueErr.
Inductive outcome (A : Type) := Ret (a : A) | Raise.     (* Raise: a ValueError leaves the function *)
Arguments Ret {A} a.
Arguments Raise {A}.

Record ident := mkIdent { i_root : option bytes; i_ext : option bytes }.
Record lstate := mkState { s_idents : list ident; s_detail : list (option bytes) }.
Definition service := option (list bytes).                (* Service.scopes: None or ScopesType.text *)

Definition val_or_empty (v : option bytes) : bytes := match v with Some x => x | None => [] end.

(* query_dict of scope_string: url_name -> value for truthy values only *)
Fixpoint present (names : list bytes) (vals : list (option bytes)) : list (bytes * bytes) :=
  match names, vals with
  | n :: ns, v :: vs =>
      (match val_or_empty v with [] => [] | x => [(n, x)] end) ++ present ns vs
  | _, _ => []
  end.

(* query_dict of _query_from_location_state: every value that is not None (including '') *)
Fixpoint state_query_dict (names : list bytes) (detail : list (option bytes)) : list (bytes * bytes) :=
  match names, detail with
  | n :: ns, v :: vs =>
      (match v with Some x => [(n, x)] | None => [] end) ++ state_query_dict ns vs
  | _, _ => []
  end.

(* my_attr is None or my_attr == other_attr *)
Definition elem_ok (my other : option bytes) : bool :=
  match my with
  | None => true
  | Some m => match other with Some o => bytes_eqb m o | None => false end
  end.

Definition slash5 : bytes := [47; 47; 47; 47; 47].

Section Loc.
  Variable K : consts.

  (* ------------------------------------------------------------ SdcLocation.scope_string *)
  Definition slash_q : bytes := quote [] [47].                     (* quote('/', safe='') *)
  Definition scope_string (l : loc) : bytes :=
    let idents := map (fun v => quote [] (val_or_empty v)) (l_vals l) in
    let locseg := join slash_q idents in
    let query := urlencode (quote_plus []) (present (c_elements K) (l_vals l)) in
    let path := 47 :: quote [47] (l_root l) ++ 47 :: locseg in
    urlunparse_nonetloc (c_scheme K) path query.

  (* ------------------------------------------------------------ SdcLocation.from_scope_string *)
  Definition from_scope (split : bytes -> sres) (s : bytes) : loc + perr :=
    match split s with
    | SplitErr => inr EValueErr
    | SplitOk sch _ path q _ =>
        if bytes_eqb (map lower sch) (c_scheme K) then
          match split_on 47 path with
          | [_; r; _] =>
              let qd := parse_qsl q in
              inl (mkLoc (unquote r) (map (fun n => dict_get n qd) (c_elements K)))
          | _ => inr EValueErr                                     (* dummy, root, _ = path.split('/') *)
          end
        else inr ESchemeErr
    end.

  (* ------------------------------------------------------------ SdcLocation.__contains__ *)
  Definition contains (self other : loc) : bool :=
    bytes_eqb (l_root self) (l_root other) &&
    forallb (fun p => elem_ok (fst p) (snd p)) (combine (l_vals self) (l_vals other)).

  (* ------------------------------------------------------------ _scope_string_matches etc.
     fixed = false: the code as it is (only UrlSchemeError is caught);
     fixed = true : the proposed repair (ValueError of the parser also means "not inside"). *)
  Definition scope_matches (fixed : bool) (split : bytes -> sres) (self : loc) (s : bytes) : outcome bool :=
    match from_scope split s with
    | inl o => Ret (contains self o)
    | inr ESchemeErr => Ret false
    | inr EValueErr => if fixed then Ret false else Raise
    end.

  (* any(generator): stops at the first True, an exception ends the evaluation *)
  Fixpoint any_scope (fixed : bool) (split : bytes -> sres) (self : loc) (scopes : list bytes) : outcome bool :=
    match scopes with
    | [] => Ret false
    | s :: r =>
        match scope_matches fixed split self s with
        | Raise => Raise
        | Ret true => Ret true
        | Ret false => any_scope fixed split self r
        end
    end.

  Definition service_matches (fixed : bool) (split : bytes -> sres) (self : loc) (sv : service) : outcome bool :=
    match sv with
    | None => Ret false
    | Some scopes => any_scope fixed split self scopes
    end.

  Fixpoint filter_inside (fixed : bool) (split : bytes -> sres) (self : loc) (svs : list service)
    : outcome (list service) :=
    match svs with
    | [] => Ret []
    | sv :: r =>
        match service_matches fixed split self sv with
        | Raise => Raise
        | Ret b =>
            match filter_inside fixed split self r with
            | Raise => Raise
            | Ret l => Ret (if b then sv :: l else l)
            end
        end
    end.

  (* ------------------------------------------------------------ update_from_sdc_location *)
  Definition loc_extension (l : loc) : bytes :=
    join [47] (map (fun v => quote [] (val_or_empty v)) (l_vals l)).
  Definition state_of (l : loc) : outcome lstate :=
    let ext := loc_extension l in
    if bytes_eqb ext slash5 then Raise
    else Ret (mkState [mkIdent (Some (c_ident_root K)) (Some ext)] (l_vals l)).

  (* ------------------------------------------------------------ mk_scopes, location branch *)
  Definition published_scope (st : lstate) (i : ident) : bytes :=
    let ii := 47 :: quote [] (match i_root i with Some r => r | None => c_unk K end) ++
              (match i_ext i with
               | Some e => if nonempty e then 47 :: quote [] e else []
               | None => []
               end) in
    let uri := c_pub_scheme K ++ 58 :: ii in
    let q := urlencode (quote []) (state_query_dict (c_elements K) (s_detail st)) in
    if nonempty q then uri ++ 63 :: q else uri.
  Definition published_scopes (st : lstate) : list bytes := map (published_scope st) (s_idents st).

  (* the scope a provider publishes for location l (None: update_from_sdc_location raises) *)
  Definition published_of (l : loc) : option bytes :=
    match state_of l with
    | Ret st => match published_scopes st with [s] => Some s | _ => None end
    | Raise => None
    end.
End Loc.

(* ---------------------------------------------------------------- side conditions on the constants *)
Fixpoint nodupb (l : list bytes) : bool :=
  match l with
  | [] => true
  | x :: r => negb (existsb (bytes_eqb x) r) && nodupb r
  end.
Definition name_ok (n : bytes) : bool := nonempty n && forallb always_safe n.
Definition scheme_ok (s : bytes) : bool :=
  match s with
  | c0 :: _ => is_alpha c0 && forallb scheme_char s && bytes_eqb (map lower s) s
  | [] => false
  end.
Definition root_ok (r : bytes) : bool := nonempty r && negb (mem 47 r) && forallb is_byteb r.
Definition consts_ok (K : consts) : bool :=
  scheme_ok (c_scheme K) && bytes_eqb (c_pub_scheme K) (c_scheme K) &&
  Nat.eqb (length (c_elements K)) 6 && forallb name_ok (c_elements K) && nodupb (c_elements K) &&
  root_ok (c_default_root K) && root_ok (c_ident_root K).

(* ---------------------------------------------------------------- helpers for the correspondence *)
Definition opt_bytes_eqb (a b : option bytes) : bool :=
  match a, b with
  | None, None => true
  | Some x, Some y => bytes_eqb x y
  | _, _ => false
  end.
Fixpoint lopt_eqb (a b : list (option bytes)) : bool :=
  match a, b with
  | [], [] => true
  | x :: a', y :: b' => opt_bytes_eqb x y && lopt_eqb a' b'
  | _, _ => false
  end.
Definition loc_eqb (a b : loc) : bool := bytes_eqb (l_root a) (l_root b) && lopt_eqb (l_vals a) (l_vals b).

(* urlsplit with the verdict of the unmodelled checks looked up per URL (list of URLs on which Python's
   ipaddress / NFKC check raised) *)
Definition split_tbl (badl : list bytes) (s : bytes) : sres := urlsplit (existsb (bytes_eqb s) badl) s.

(* canonical parse result: 0 = UrlSchemeError, 1 = ValueError, Some loc otherwise *)
Definition parse_res := (option loc * N)%type.
Definition canon_parse (r : loc + perr) : parse_res :=
  match r with
  | inl l => (Some l, 2)
  | inr ESchemeErr => (None, 0)
  | inr EValueErr => (None, 1)
  end.
Definition parse_res_eqb (a b : parse_res) : bool :=
  (snd a =? snd b) &&
  match fst a, fst b with
  | Some x, Some y => loc_eqb x y
  | None, None => true
  | _, _ => false
  end.

(* ---------------------------------------------------------------- runners used by harness/props/c16.py *)
Definition out_to_opt {A} (o : outcome A) : option A := match o with Ret a => Some a | Raise => None end.

Definition run_roundtrip (K : consts) (l : loc) : bytes * parse_res :=
  let s := scope_string K l in (s, canon_parse (from_scope K (split_tbl []) s)).

(* ovr_root / ovr_ext: the harness may overwrite Identification[0].Root / .Extension (as
   tests/test_scopesfactory.py does) before mk_scopes runs.  Result: None when
   update_from_sdc_location raises, else the published scopes and, per probe location and scope,
   the verdict of _scope_string_matches (None = ValueError escaped). *)
Definition override {A} (o : option A) (x : A) : A := match o with Some y => y | None => x end.
Definition run_published (K : consts) (fixed : bool) (badl : list bytes) (l : loc)
    (ovr_root ovr_ext : option (option bytes)) (probes : list loc)
  : option (list bytes * list (list (option bool))) :=
  match state_of K l with
  | Raise => None
  | Ret st =>
      let st' := mkState (map (fun i => mkIdent (override ovr_root (i_root i)) (override ovr_ext (i_ext i)))
                              (s_idents st)) (s_detail st) in
      let pubs := published_scopes K st' in
      Some (pubs, map (fun p => map (fun s => out_to_opt (scope_matches K fixed (split_tbl badl) p s)) pubs) probes)
  end.

Definition run_foreign (K : consts) (fixed : bool) (badl : list bytes) (self : loc) (svs : list service)
  : option (list service) := out_to_opt (filter_inside K fixed (split_tbl badl) self svs).

Definition run_parse (K : consts) (badl : list bytes) (s : bytes) : parse_res :=
  canon_parse (from_scope K (split_tbl badl) s).

Definition service_eqb (a b : service) : bool :=
  match a, b with
  | None, None => true
  | Some x, Some y => (fix go (p q : list bytes) := match p, q with
                                                   | [], [] => true
                                                   | u :: p', v :: q' => bytes_eqb u v && go p' q'
                                                   | _, _ => false
                                                   end) x y
  | _, _ => false
  end.
