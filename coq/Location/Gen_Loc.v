(* GENERATED on every run by harness/impl/gen_location_consts.py from src/sdc11073/location.py,
   provider/scopesfactory.py and mdib/statecontainers.py -- do not edit. *)
From Coq Require Import List NArith.
From SDC Require Import Location.Quote Location.Loc.
Import ListNotations.
Open Scope N_scope.
Definition loc_consts : consts := mkConsts
  [115; 100; 99; 46; 99; 116; 120; 116; 46; 108; 111; 99]
  [[102; 97; 99]; [98; 108; 100; 110; 103]; [102; 108; 114]; [112; 111; 99]; [114; 109]; [98; 101; 100]]
  [115; 100; 99; 46; 99; 116; 120; 116; 46; 108; 111; 99; 46; 100; 101; 116; 97; 105; 108]
  [115; 100; 99; 46; 99; 116; 120; 116; 46; 108; 111; 99; 46; 100; 101; 116; 97; 105; 108]
  [115; 100; 99; 46; 99; 116; 120; 116; 46; 108; 111; 99]
  [98; 105; 99; 101; 112; 115; 46; 117; 114; 105; 46; 117; 110; 107].
