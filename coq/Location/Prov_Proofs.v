(* Proofs about the provider-side path (Location/Prov.v) and about services with several scopes. *)
From Coq Require Import List NArith Bool Lia.
From SDC Require Import Location.Quote Location.Loc Location.Proofs Location.Prov.
Import ListNotations.
Open Scope N_scope.

(* the named-field copy followed by the named-field read is the identity on six elements *)
Lemma detail_vals_assign : forall d l, length (l_vals l) = 6%nat -> detail_vals (assign_detail d l) = l_vals l.
Proof.
  intros d [r vals] H. unfold detail_vals, assign_detail, attr. simpl in *.
  do 6 (destruct vals as [|? vals]; [simpl in H; discriminate|]).
  destruct vals; [reflexivity|simpl in H; discriminate].
Qed.

Lemma existsb_false_Forall : forall (A : Type) (f : A -> bool) l, Forall (fun x => f x = false) l -> existsb f l = false.
Proof. induction 1; simpl; auto. rewrite H. exact IHForall. Qed.

Section ProvProofs.
  Variable K : consts.
  Hypothesis HK : consts_ok K = true.

  Lemma wf_len6 : forall l, wf_loc K l -> length (l_vals l) = 6%nat.
  Proof. intros l [H _]. destruct (consts_inv K HK) as (_ & _ & H6 & _). congruence. Qed.

  (* update_from_sdc_location does not depend on the state it is applied to: LocationDetail present or
     None, whatever Identifications were there *)
  Lemma update_independent : forall st st' l, update_from_loc K st l = update_from_loc K st' l.
  Proof. reflexivity. Qed.

  Theorem provider_path : forall st l st', length (l_vals l) = 6%nat ->
    update_from_loc K st l = Ret st' ->
    exists s, published_of K l = Some s /\ mk_loc_scopes K st' = Ret [s] /\
              exists d, p_detail st' = Some d /\ detail_vals d = l_vals l.
  Proof.
    intros st l st' H6 H. unfold update_from_loc in H.
    destruct (bytes_eqb (loc_extension l) slash5) eqn:E; [discriminate|].
    inversion H; subst; clear H.
    unfold mk_loc_scopes. cbn [p_idents p_detail]. rewrite (detail_vals_assign _ l H6).
    unfold published_of, state_of. rewrite E.
    unfold published_scopes. cbn [s_idents map].
    eexists; split; [reflexivity|]. split; [reflexivity|].
    eexists; split; [reflexivity|]. now apply detail_vals_assign.
  Qed.

  Theorem provider_defined : forall st l v, wf_loc K l -> In (Some v) (l_vals l) -> v <> [] ->
    exists st', update_from_loc K st l = Ret st'.
  Proof.
    intros st l v Hwf Hin Hv. destruct (published_defined K l v Hwf Hin Hv) as [s Hs].
    unfold update_from_loc. unfold published_of, state_of in Hs.
    destruct (bytes_eqb (loc_extension l) slash5); [discriminate|eauto].
  Qed.

  (* additional identifications before / after the fallback identifier: one more scope each, the
     location's own scope stays in the list at the corresponding position *)
  Theorem provider_extra_idents : forall st l st' pre post, length (l_vals l) = 6%nat ->
    update_from_loc K st l = Ret st' ->
    exists s o1 o2, published_of K l = Some s /\ length o1 = length pre /\ length o2 = length post /\
      mk_loc_scopes K (mkPState (pre ++ p_idents st' ++ post) (p_detail st')) = Ret (o1 ++ s :: o2).
  Proof.
    intros st l st' pre post H6 H. unfold update_from_loc in H.
    destruct (bytes_eqb (loc_extension l) slash5) eqn:E; [discriminate|].
    inversion H; subst; clear H. cbn [p_idents p_detail].
    unfold mk_loc_scopes. cbn [p_idents p_detail]. rewrite (detail_vals_assign _ l H6).
    destruct (pre ++ [mkIdent (Some (c_ident_root K)) (Some (loc_extension l))] ++ post) eqn:Ei.
    { destruct pre; discriminate. }
    rewrite <- Ei. unfold published_scopes. cbn [s_idents]. rewrite !map_app. cbn [map].
    unfold published_of, state_of. rewrite E. unfold published_scopes. cbn [s_idents map].
    eexists. eexists. eexists. split; [reflexivity|]. split; [|split; [|reflexivity]]; now rewrite map_length.
  Qed.

  (* ------------------------------------------------------------ a service with several scopes *)
  Lemma scope_matches_inside : forall split self s,
    scope_matches K true split self s = Ret (scope_inside K split self s).
  Proof. intros. unfold scope_matches, scope_inside. destruct (from_scope K split s) as [o|[|]]; reflexivity. Qed.

  Lemma service_matches_spec : forall split self sv,
    service_matches K true split self sv = Ret (service_inside K split self sv).
  Proof.
    intros split self [scopes|]; simpl; auto. induction scopes as [|s t IH]; simpl; auto.
    rewrite scope_matches_inside. destruct (scope_inside K split self s); simpl; auto.
  Qed.

  (* inside iff SOME scope is inside, at whatever position, whatever the other scopes are *)
  Theorem service_any : forall split self scopes,
    service_matches K true split self (Some scopes) = Ret true <->
    exists s, In s scopes /\ scope_matches K true split self s = Ret true.
  Proof.
    intros split self scopes. rewrite service_matches_spec. cbn [service_inside]. split.
    - intro H. injection H as H1. apply existsb_exists in H1 as [s [Hi Hs]].
      exists s. split; auto. rewrite scope_matches_inside. now rewrite Hs.
    - intros [s [Hi Hs]]. rewrite scope_matches_inside in Hs. injection Hs as H1.
      f_equal. apply existsb_exists. eauto.
  Qed.

  Theorem service_none : forall split self scopes,
    service_matches K true split self (Some scopes) = Ret false <->
    forall s, In s scopes -> scope_matches K true split self s = Ret false.
  Proof.
    intros split self scopes. rewrite service_matches_spec. cbn [service_inside]. split.
    - intros H s Hi. injection H as H1. rewrite scope_matches_inside. f_equal.
      destruct (scope_inside K split self s) eqn:E; auto.
      rewrite <- H1. symmetry. apply existsb_exists. eauto.
    - intros H. f_equal. apply existsb_false_Forall. apply Forall_forall. intros s Hi.
      specialize (H s Hi). rewrite scope_matches_inside in H. now injection H.
  Qed.

  (* ------------------------------------------------------------ end to end *)
  Theorem provider_readback : forall bad st l st',
    wf_loc K l -> nonempty_fields l -> update_from_loc K st l = Ret st' ->
    exists s, mk_loc_scopes K st' = Ret [s] /\
              from_scope K (urlsplit bad) s = inl (mkLoc (c_ident_root K) (l_vals l)).
  Proof.
    intros bad st l st' Hwf Hne H.
    destruct (provider_path st l st' (wf_len6 l Hwf) H) as (s & Hp & Hm & _).
    exists s. split; auto. rewrite (published_parse K HK bad l s Hwf Hp). now rewrite (norm_id _ Hne).
  Qed.

  Theorem provider_service_inside : forall bad st l st' pre post others l',
    wf_loc K l -> nonempty_fields l -> update_from_loc K st l = Ret st' ->
    l_root l' = c_ident_root K -> Forall2 elem_enclosed (l_vals l') (l_vals l) ->
    exists scopes, mk_loc_scopes K (mkPState (pre ++ p_idents st' ++ post) (p_detail st')) = Ret scopes /\
      service_matches K true (urlsplit bad) l' (Some (scopes ++ others)) = Ret true.
  Proof.
    intros bad st l st' pre post others l' Hwf Hne H Hr Hv.
    destruct (provider_extra_idents st l st' pre post (wf_len6 l Hwf) H) as (s & o1 & o2 & Hp & _ & _ & Hm).
    exists (o1 ++ s :: o2). split; auto. apply service_any. exists s. split.
    - apply in_or_app. left. apply in_or_app. right. left. reflexivity.
    - exact (published_inside K HK bad true l l' s Hwf Hne Hp Hr Hv).
  Qed.

  Theorem provider_service_not_inside : forall bad st l st' others l' i v x,
    wf_loc K l -> update_from_loc K st l = Ret st' ->
    nth_error (l_vals l') i = Some (Some v) -> nth_error (l_vals l) i = Some x -> x <> Some v ->
    Forall (fun o => scope_inside K (urlsplit bad) l' o = false) others ->
    exists s, mk_loc_scopes K st' = Ret [s] /\
      service_matches K true (urlsplit bad) l' (Some ([s] ++ others)) = Ret false.
  Proof.
    intros bad st l st' others l' i v x Hwf H H1 H2 Hx Ho.
    destruct (provider_path st l st' (wf_len6 l Hwf) H) as (s & Hp & Hm & _).
    exists s. split; auto. rewrite service_matches_spec. f_equal. cbn [service_inside app existsb].
    pose proof (published_not_inside K HK bad true l l' s i v x Hwf Hp H1 H2 Hx) as Hn.
    rewrite scope_matches_inside in Hn. injection Hn as Hn1. rewrite Hn1. cbn [orb].
    now apply existsb_false_Forall.
  Qed.
End ProvProofs.
