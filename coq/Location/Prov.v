(* Provider-side path of C16 as the statement describes it:
     SdcLocation -> LocationContextStateContainer.update_from_sdc_location (state in ANY initial
     condition: LocationDetail present / None, any Identification list) -> mk_scopes (one location
     scope per pm:Identification) -> Service -> SdcLocation.from_scope_string / filter_services_inside.
   The state-container step is a record copy with NAMED fields: [detail] has the field (and
   constructor) order of pm_types.LocationDetail.__init__ (poc, room, bed, facility, building, floor);
   the SdcLocation attributes are positions in url_elements (fac, bldng, flr, poc, rm, bed), an order
   the translator checks on every run.  Definitions only. *)
From Coq Require Import List NArith Bool.
From SDC Require Import Location.Quote Location.Loc.
Import ListNotations.
Open Scope N_scope.

Record detail := mkDetail { d_poc : option bytes; d_room : option bytes; d_bed : option bytes;
                            d_fac : option bytes; d_bldng : option bytes; d_flr : option bytes }.
Record pstate := mkPState { p_idents : list ident; p_detail : option detail }.

Definition empty_detail : detail := mkDetail None None None None None None.   (* pm_types.LocationDetail() *)

(* sdc_location.<attr>: position of the attribute in url_elements *)
Definition attr (l : loc) (i : nat) : option bytes := nth i (l_vals l) None.

(* the six assignments  self.LocationDetail.<Field> = sdc_location.<attr>  (every field is overwritten) *)
Definition assign_detail (d : detail) (l : loc) : detail :=
  {| d_poc := attr l 3; d_room := attr l 4; d_bed := attr l 5;
     d_fac := attr l 0; d_bldng := attr l 1; d_flr := attr l 2 |}.

(* the order in which _query_from_location_state reads the fields = url_elements order *)
Definition detail_vals (d : detail) : list (option bytes) :=
  [d_fac d; d_bldng d; d_flr d; d_poc d; d_room d; d_bed d].

Definition insert_at {A} (n : nat) (x : A) (l : list A) : list A := firstn n l ++ x :: skipn n l.  (* list.insert *)

Section Prov.
  Variable K : consts.

  (* update_from_sdc_location: LocationDetail is created when None, filled field by field, the
     Identification list is REPLACED by the single fallback identifier; ValueError when no element is set *)
  Definition update_from_loc (st : pstate) (l : loc) : outcome pstate :=
    let d0 := match p_detail st with Some d => d | None => empty_detail end in
    let d := assign_detail d0 l in
    let ext := loc_extension l in
    if bytes_eqb ext slash5 then Raise
    else Ret (mkPState [mkIdent (Some (c_ident_root K)) (Some ext)] (Some d)).

  (* mk_scopes, location branch, on such a state: ValueError without Identification / LocationDetail *)
  Definition mk_loc_scopes (st : pstate) : outcome (list bytes) :=
    match p_idents st, p_detail st with
    | [], _ => Raise
    | _, None => Raise
    | ids, Some d => Ret (published_scopes K (mkState ids (detail_vals d)))
    end.

  Definition add_idents (extras : list (nat * ident)) (st : pstate) : pstate :=
    mkPState (fold_left (fun ids e => insert_at (fst e) (snd e) ids) extras (p_idents st)) (p_detail st).

  (* whole path.  st0: state before; prior: a location the state was updated with earlier; extras:
     identifications inserted after the update (position, identifier); others: the non-location scopes
     mk_scopes appends (taken from the implementation).  None = update_from_sdc_location raised.
     Result: LocationDetail fields in url_elements order, identifications, and (None = mk_scopes raised)
     published location scopes, their parse results, per probe location the verdict of
     filter_services_inside for the Service carrying ALL scopes. *)
  Definition run_provider (badl : list bytes) (st0 : pstate) (prior : option loc) (l : loc)
      (extras : list (nat * ident)) (others : list bytes) (probes : list loc)
    : option (list (option bytes) * list ident * option (list bytes * list parse_res * list (option bool))) :=
    let st1 := match prior with
               | Some p => match update_from_loc st0 p with Ret s => s | Raise => st0 end
               | None => st0
               end in
    match update_from_loc st1 l with
    | Raise => None
    | Ret st2 =>
        let st3 := add_idents extras st2 in
        Some (match p_detail st3 with Some d => detail_vals d | None => [] end, p_idents st3,
              match mk_loc_scopes st3 with
              | Raise => None
              | Ret pubs =>
                  Some (pubs, map (fun s => canon_parse (from_scope K (split_tbl badl) s)) pubs,
                        map (fun p => out_to_opt (service_matches K true (split_tbl badl) p (Some (pubs ++ others)))) probes)
              end)
    end.
End Prov.

Definition ident_eqb (a b : ident) : bool :=
  opt_bytes_eqb (i_root a) (i_root b) && opt_bytes_eqb (i_ext a) (i_ext b).
