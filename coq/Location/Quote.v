(* Byte-level model of the parts of urllib.parse (CPython 3.12) that sdc11073.location and
   sdc11073.provider.scopesfactory call: quote / quote_plus / unquote / urlencode / parse_qsl /
   urlsplit / urlunsplit.  A Python str is represented by its UTF-8 encoding (list of N < 256);
   UTF-8 encode/decode itself is trusted, urllib.parse is modelled (validated differentially by
   harness/props/c16.py), not verified.  Definitions only; proofs are in Location/Proofs.v. *)
From Coq Require Import List NArith Bool.
Import ListNotations.
Open Scope N_scope.

Definition bytes := list N.
Definition is_byte (b : N) : Prop := b < 256.
Definition is_bytes (s : bytes) : Prop := Forall is_byte s.
Definition is_byteb (b : N) : bool := b <? 256.

Fixpoint bytes_eqb (a b : bytes) : bool :=
  match a, b with
  | [], [] => true
  | x :: a', y :: b' => (x =? y) && bytes_eqb a' b'
  | _, _ => false
  end.

Definition mem (c : N) (s : bytes) : bool := existsb (N.eqb c) s.
Definition nonempty (s : bytes) : bool := match s with [] => false | _ => true end.

(* ---------------------------------------------------------------- character classes *)
Definition in_range (lo hi c : N) : bool := (lo <=? c) && (c <=? hi).
Definition is_upper c := in_range 65 90 c.
Definition is_lower c := in_range 97 122 c.
Definition is_alpha c := is_upper c || is_lower c.
Definition is_digit c := in_range 48 57 c.
(* _ALWAYS_SAFE = A-Z a-z 0-9 '_' '.' '-' '~' *)
Definition always_safe (c : N) : bool :=
  is_alpha c || is_digit c || (c =? 95) || (c =? 46) || (c =? 45) || (c =? 126).
(* scheme_chars = a-z A-Z 0-9 '+' '-' '.' *)
Definition scheme_char (c : N) : bool :=
  is_alpha c || is_digit c || (c =? 43) || (c =? 45) || (c =? 46).
Definition lower (c : N) : N := if is_upper c then c + 32 else c.

(* ---------------------------------------------------------------- quote *)
(* '%{:02X}'.format(b) *)
Definition hexdigit (n : N) : N := if n <? 10 then 48 + n else 55 + n.
(* _hextobyte keys: two characters out of '0123456789ABCDEFabcdef' *)
Definition hexval (c : N) : option N :=
  if in_range 48 57 c then Some (c - 48)
  else if in_range 65 70 c then Some (c - 55)
  else if in_range 97 102 c then Some (c - 87)
  else None.

(* _Quoter: safe = _ALWAYS_SAFE | {ASCII characters of the safe argument} *)
Definition is_safe (safe : bytes) (c : N) : bool := always_safe c || ((c <? 128) && mem c safe).
Definition quote_byte (safe : bytes) (c : N) : bytes :=
  if is_safe safe c then [c] else [37; hexdigit (c / 16); hexdigit (c mod 16)].
(* quote(string, safe): str is encoded to UTF-8 first (trusted), then quote_from_bytes *)
Definition quote (safe s : bytes) : bytes := flat_map (quote_byte safe) s.

Definition replace_byte (a b : N) (s : bytes) : bytes := map (fun c => if c =? a then b else c) s.

(* quote_plus(string, safe): if ' ' not in string: quote(string, safe)
   else quote(string, safe + ' ').replace(' ', '+') *)
Definition quote_plus (safe s : bytes) : bytes :=
  if mem 32 s then replace_byte 32 43 (quote (safe ++ [32]) s) else quote safe s.

(* ---------------------------------------------------------------- unquote *)
(* _unquote_impl: split at '%'; an item whose first two characters are hex digits yields that byte,
   any other item keeps its '%'.  Written as a left-to-right scan (equivalent: an item never
   contains '%', so the two characters looked at are never '%'). *)
Fixpoint unquote (s : bytes) : bytes :=
  match s with
  | [] => []
  | c :: r =>
      if c =? 37 then
        match r with
        | h :: r1 =>
            match r1 with
            | l :: r2 =>
                match hexval h, hexval l with
                | Some a, Some b => (16 * a + b) :: unquote r2
                | _, _ => 37 :: unquote r
                end
            | [] => 37 :: unquote r
            end
        | [] => [37]
        end
      else c :: unquote r
  end.

(* ---------------------------------------------------------------- split / join *)
(* s.split(sep) for a one-character separator: never the empty list *)
Fixpoint split_on (sep : N) (s : bytes) : list bytes :=
  match s with
  | [] => [[]]
  | c :: r =>
      if c =? sep then [] :: split_on sep r
      else match split_on sep r with
           | h :: t => (c :: h) :: t
           | [] => [[c]]
           end
  end.

(* s.split(sep, 1) / s.partition(sep): None when sep does not occur *)
Fixpoint split1 (sep : N) (s : bytes) : option (bytes * bytes) :=
  match s with
  | [] => None
  | c :: r =>
      if c =? sep then Some ([], r)
      else match split1 sep r with
           | Some (a, b) => Some (c :: a, b)
           | None => None
           end
  end.

Fixpoint join (sep : bytes) (parts : list bytes) : bytes :=
  match parts with
  | [] => []
  | [p] => p
  | p :: r => p ++ sep ++ join sep r
  end.

(* ---------------------------------------------------------------- urlencode / parse_qsl *)
(* urlencode(dict, quote_via=qv, safe=safe): '&'.join(qv(k) + '=' + qv(v)) *)
Definition urlencode (qv : bytes -> bytes) (q : list (bytes * bytes)) : bytes :=
  join [38] (map (fun kv => qv (fst kv) ++ 61 :: qv (snd kv)) q).

(* parse_qsl(qs) with the defaults keep_blank_values=False, strict_parsing=False, separator='&' *)
Definition qs_decode (s : bytes) : bytes := unquote (replace_byte 43 32 s).
Definition parse_field (f : bytes) : list (bytes * bytes) :=
  match f with
  | [] => []
  | _ => match split1 61 f with
         | None => []
         | Some (n, v) => if nonempty v then [(qs_decode n, qs_decode v)] else []
         end
  end.
Definition parse_qsl (qs : bytes) : list (bytes * bytes) :=
  match qs with
  | [] => []
  | _ => flat_map parse_field (split_on 38 qs)
  end.

(* dict(pairs).get(k): the last pair with that key wins *)
Fixpoint dict_get (k : bytes) (ps : list (bytes * bytes)) : option bytes :=
  match ps with
  | [] => None
  | (k', v) :: r =>
      match dict_get k r with
      | Some x => Some x
      | None => if bytes_eqb k k' then Some v else None
      end
  end.

(* ---------------------------------------------------------------- urlsplit (3.12.1) *)
Inductive sres :=
| SplitErr                                                   (* ValueError *)
| SplitOk (scheme netloc path query fragment : bytes).

(* url.lstrip(_WHATWG_C0_CONTROL_OR_SPACE): characters 0x00..0x20 *)
Fixpoint lstrip_c0 (s : bytes) : bytes :=
  match s with
  | c :: r => if c <=? 32 then lstrip_c0 r else s
  | [] => []
  end.
(* _UNSAFE_URL_BYTES_TO_REMOVE = '\t' '\r' '\n' *)
Definition remove_unsafe (s : bytes) : bytes :=
  filter (fun c => negb ((c =? 9) || (c =? 10) || (c =? 13))) s.

(* i = url.find(':'); if i > 0 and url[0] ascii alpha and all(c in scheme_chars for c in url[:i]) *)
Definition split_scheme (url : bytes) : bytes * bytes :=
  match split1 58 url with
  | Some (pre, post) =>
      match pre with
      | c0 :: _ => if is_alpha c0 && forallb scheme_char pre then (map lower pre, post) else ([], url)
      | [] => ([], url)
      end
  | None => ([], url)
  end.

(* _splitnetloc(url, 2) applied to the text after '//': up to the first of '/', '?', '#' *)
Fixpoint split_netloc (s : bytes) : bytes * bytes :=
  match s with
  | [] => ([], [])
  | c :: r =>
      if (c =? 47) || (c =? 63) || (c =? 35) then ([], s)
      else let '(a, b) := split_netloc r in (c :: a, b)
  end.

Definition starts_with2 (a b : N) (s : bytes) : bool :=
  match s with
  | x :: y :: _ => (x =? a) && (y =? b)
  | _ => false
  end.
Definition drop2 (s : bytes) : bytes := match s with _ :: _ :: r => r | _ => [] end.
Definition is_ascii (s : bytes) : bool := forallb (fun c => c <? 128) s.

(* [bad] abstracts the two checks that are not modelled: _check_bracketed_host (ipaddress module) and
   _checknetloc (NFKC normalisation).  It is consulted only where the code consults them: a netloc
   with both brackets, or a non-ASCII netloc.  bad = true means the check raises ValueError. *)
Definition urlsplit (bad : bool) (url0 : bytes) : sres :=
  let url1 := remove_unsafe (lstrip_c0 url0) in
  let '(sch, url2) := split_scheme url1 in
  let '(nl, url3) := if starts_with2 47 47 url2 then split_netloc (drop2 url2) else ([], url2) in
  let lb := mem 91 nl in
  let rb := mem 93 nl in
  if xorb lb rb then SplitErr                              (* "Invalid IPv6 URL" *)
  else if lb && rb && bad then SplitErr                    (* _check_bracketed_host *)
  else
    let '(url4, frag) := match split1 35 url3 with Some p => p | None => (url3, []) end in
    let '(path, q) := match split1 63 url4 with Some p => p | None => (url4, []) end in
    if negb (is_ascii nl) && bad then SplitErr             (* _checknetloc *)
    else SplitOk sch nl path q frag.

(* urlunparse(ParseResult(scheme, netloc=None, path, params=None, query, fragment=None)) for a scheme
   that is not in uses_netloc: scheme ':' path ['?' query] *)
Definition urlunparse_nonetloc (scheme path query : bytes) : bytes :=
  (match scheme with [] => [] | _ => scheme ++ [58] end) ++ path ++
  (match query with [] => [] | _ => 63 :: query end).
