(* Proofs about the location model (Location/Quote.v, Location/Loc.v). *)
From Coq Require Import List NArith PeanoNat Bool Lia ZifyBool.
From SDC Require Import Location.Quote Location.Loc.
Import ListNotations.
Open Scope N_scope.
Arguments N.eqb : simpl never.

(* ================================================================ generic list / byte helpers *)
Lemma bytes_eqb_refl : forall a, bytes_eqb a a = true.
Proof. induction a; simpl; auto. rewrite N.eqb_refl; auto. Qed.

Lemma bytes_eqb_eq : forall a b, bytes_eqb a b = true <-> a = b.
Proof.
  induction a as [|x a IH]; intros [|y b]; simpl; split; intros H; try discriminate; auto.
  - apply andb_prop in H as [H1 H2]. apply N.eqb_eq in H1. apply IH in H2. congruence.
  - inversion H; subst. rewrite N.eqb_refl. simpl. apply bytes_eqb_refl.
Qed.

Lemma bytes_eqb_neq : forall a b, bytes_eqb a b = false <-> a <> b.
Proof.
  intros a b. split.
  - intros H E. apply bytes_eqb_eq in E. congruence.
  - intros H. destruct (bytes_eqb a b) eqn:E; auto. apply bytes_eqb_eq in E. contradiction.
Qed.

Lemma mem_app : forall c a b, mem c (a ++ b) = mem c a || mem c b.
Proof. intros. unfold mem. apply existsb_app. Qed.

Lemma mem_false_forall : forall (P : N -> bool) c s, forallb P s = true -> P c = false -> mem c s = false.
Proof.
  intros P c s H Hc. induction s as [|x s IH]; simpl in *; auto.
  apply andb_prop in H as [H1 H2]. rewrite IH by auto.
  destruct (N.eqb_spec c x); subst; auto. congruence.
Qed.

Lemma forallb_impl : forall (P Q : N -> bool) s,
  (forall c, P c = true -> Q c = true) -> forallb P s = true -> forallb Q s = true.
Proof.
  intros P Q s H. induction s; simpl; auto. intros E. apply andb_prop in E as [E1 E2].
  rewrite H, IHs; auto.
Qed.

Lemma forallb_flat_map : forall (P : N -> bool) (f : N -> bytes) s,
  (forall c, In c s -> forallb P (f c) = true) -> forallb P (flat_map f s) = true.
Proof.
  intros P f s. induction s; simpl; intros H; auto.
  rewrite forallb_app, H, IHs; auto.
Qed.

Lemma split1_app : forall sep a b, mem sep a = false -> split1 sep (a ++ sep :: b) = Some (a, b).
Proof.
  intros sep a b. induction a as [|x a IH]; simpl; intros H.
  - now rewrite N.eqb_refl.
  - apply orb_false_elim in H as [H1 H2]. rewrite N.eqb_sym, H1, IH; auto.
Qed.

Lemma split1_none : forall sep a, mem sep a = false -> split1 sep a = None.
Proof.
  intros sep a. induction a as [|x a IH]; simpl; intros H; auto.
  apply orb_false_elim in H as [H1 H2]. rewrite N.eqb_sym, H1, IH; auto.
Qed.

Lemma split_on_nonnil : forall sep s, split_on sep s <> [].
Proof. intros sep s. destruct s; simpl; [congruence|]. destruct (_ =? _); [congruence|]. destruct (split_on sep s); congruence. Qed.

Lemma split_on_app : forall sep a b, mem sep a = false -> split_on sep (a ++ sep :: b) = a :: split_on sep b.
Proof.
  intros sep a b. induction a as [|x a IH]; simpl; intros H.
  - now rewrite N.eqb_refl.
  - apply orb_false_elim in H as [H1 H2]. rewrite N.eqb_sym, H1, IH; auto.
Qed.

Lemma split_on_none : forall sep a, mem sep a = false -> split_on sep a = [a].
Proof.
  intros sep a. induction a as [|x a IH]; simpl; intros H; auto.
  apply orb_false_elim in H as [H1 H2]. rewrite N.eqb_sym, H1, IH; auto.
Qed.

Lemma join_cons2 : forall sep p q r, join sep (p :: q :: r) = p ++ sep ++ join sep (q :: r).
Proof. reflexivity. Qed.

Lemma split_on_join : forall sep parts,
  parts <> [] -> Forall (fun p => mem sep p = false) parts -> split_on sep (join [sep] parts) = parts.
Proof.
  intros sep parts. induction parts as [|p r IH]; intros Hn Hf; [congruence|].
  inversion Hf; subst. destruct r as [|q r].
  - simpl. now apply split_on_none.
  - rewrite join_cons2. simpl app. rewrite split_on_app by auto. f_equal. apply IH; [congruence|auto].
Qed.

Lemma forallb_join : forall (P : N -> bool) sep parts,
  forallb P sep = true -> Forall (fun p => forallb P p = true) parts -> forallb P (join sep parts) = true.
Proof.
  intros P sep parts Hs. induction parts as [|p r IH]; intros Hf; simpl; auto.
  inversion Hf; subst. destruct r; auto.
  rewrite !forallb_app, H1, Hs. simpl. apply IH; auto.
Qed.

Lemma filter_id : forall (f : N -> bool) s, forallb f s = true -> filter f s = s.
Proof.
  intros f s. induction s; simpl; auto. intros H. apply andb_prop in H as [H1 H2]. rewrite H1, IHs; auto.
Qed.

(* ================================================================ quote / unquote *)
Lemma nibble_cases : forall n, n < 16 ->
  n = 0 \/ n = 1 \/ n = 2 \/ n = 3 \/ n = 4 \/ n = 5 \/ n = 6 \/ n = 7 \/
  n = 8 \/ n = 9 \/ n = 10 \/ n = 11 \/ n = 12 \/ n = 13 \/ n = 14 \/ n = 15.
Proof. intros n H. lia. Qed.

Ltac nibble n H := destruct (nibble_cases n H) as
  [?|[?|[?|[?|[?|[?|[?|[?|[?|[?|[?|[?|[?|[?|[?|?]]]]]]]]]]]]]]]; subst n.

Lemma hexval_hexdigit : forall n, n < 16 -> hexval (hexdigit n) = Some n.
Proof. intros n H. nibble n H; reflexivity. Qed.

(* value characters: what quote(.., safe='') and quote_plus(.., safe='') can emit *)
Definition pchar (c : N) : bool := always_safe c || (c =? 37) || (c =? 43).
Definition pathc (c : N) : bool := pchar c || (c =? 47).
Definition queryc (c : N) : bool := pchar c || (c =? 38) || (c =? 61).

Lemma hexdigit_safe : forall n, n < 16 -> always_safe (hexdigit n) = true.
Proof. intros n H. nibble n H; reflexivity. Qed.

Lemma always_safe_lt : forall c, always_safe c = true -> c < 128.
Proof. intros c. unfold always_safe, is_alpha, is_upper, is_lower, is_digit, in_range. lia. Qed.

Lemma always_safe_not : forall c, always_safe c = true ->
  c <> 37 /\ c <> 43 /\ c <> 32 /\ c <> 47 /\ c <> 38 /\ c <> 61 /\ c <> 58 /\ c <> 63 /\ c <> 35.
Proof. intros c. unfold always_safe, is_alpha, is_upper, is_lower, is_digit, in_range. lia. Qed.

Lemma byte_div : forall c, is_byte c -> c / 16 < 16.
Proof. intros c H. unfold is_byte in H. apply N.div_lt_upper_bound; lia. Qed.
Lemma byte_mod : forall c, c mod 16 < 16.
Proof. intros c. apply N.mod_lt. lia. Qed.

Lemma quote_cons : forall safe c s, quote safe (c :: s) = quote_byte safe c ++ quote safe s.
Proof. reflexivity. Qed.

Lemma unquote_quote_byte : forall safe c r,
  is_byte c -> mem 37 safe = false -> unquote (quote_byte safe c ++ r) = c :: unquote r.
Proof.
  intros safe c r Hb Hs. unfold quote_byte. destruct (is_safe safe c) eqn:E.
  - assert (c <> 37).
    { intros ->. unfold is_safe in E. rewrite Hs in E. vm_compute in E. discriminate. }
    simpl. destruct (N.eqb_spec c 37); [contradiction|reflexivity].
  - cbn [app unquote]. rewrite N.eqb_refl.
    rewrite (hexval_hexdigit _ (byte_div c Hb)), (hexval_hexdigit _ (byte_mod c)).
    f_equal. symmetry. apply N.div_mod'.
Qed.

Lemma unquote_quote_app : forall safe s t,
  is_bytes s -> mem 37 safe = false -> unquote (quote safe s ++ t) = s ++ unquote t.
Proof.
  intros safe s t Hs H37. induction Hs as [|c s Hc Hs IH]; simpl; auto.
  change (flat_map (quote_byte safe) s) with (quote safe s).
  rewrite <- app_assoc, unquote_quote_byte by auto. now rewrite IH.
Qed.

Lemma unquote_quote : forall safe s, is_bytes s -> mem 37 safe = false -> unquote (quote safe s) = s.
Proof.
  intros safe s Hs H. rewrite <- (app_nil_r (quote safe s)), unquote_quote_app by auto.
  simpl. apply app_nil_r.
Qed.

Lemma is_safe_nil : forall c, is_safe [] c = always_safe c.
Proof. intros c. unfold is_safe. simpl. now rewrite andb_false_r, orb_false_r. Qed.

Lemma quote_byte_pchar : forall c, is_byte c -> forallb pchar (quote_byte [] c) = true.
Proof.
  intros c Hb. unfold quote_byte. rewrite is_safe_nil. destruct (always_safe c) eqn:E; simpl.
  - unfold pchar. now rewrite E.
  - cbn [forallb]. unfold pchar. rewrite (hexdigit_safe _ (byte_div c Hb)), (hexdigit_safe _ (byte_mod c)). reflexivity.
Qed.

Lemma quote_pchar : forall s, is_bytes s -> forallb pchar (quote [] s) = true.
Proof.
  intros s Hs. apply forallb_flat_map. intros c Hc. apply quote_byte_pchar.
  eapply Forall_forall; eauto.
Qed.

Lemma quote_nil_iff : forall safe s, quote safe s = [] <-> s = [].
Proof.
  intros safe s. split; [|intros ->; reflexivity]. destruct s; auto. rewrite quote_cons.
  unfold quote_byte. destruct (is_safe safe n); simpl; discriminate.
Qed.

(* quote(root) with the default safe='/' *)
Lemma quote_slash_pathc : forall s, is_bytes s -> forallb pathc (quote [47] s) = true.
Proof.
  intros s Hs. apply forallb_flat_map. intros c Hc.
  assert (Hb : is_byte c) by (eapply Forall_forall; eauto).
  unfold quote_byte. destruct (is_safe [47] c) eqn:E; simpl.
  - unfold is_safe, mem in E. simpl in E. unfold pathc, pchar.
    destruct (always_safe c); simpl; auto. rewrite orb_false_r in E. simpl in E.
    apply andb_prop in E as [_ E]. rewrite E. now rewrite !orb_true_r.
  - cbn [forallb]. unfold pathc, pchar. rewrite (hexdigit_safe _ (byte_div c Hb)), (hexdigit_safe _ (byte_mod c)). reflexivity.
Qed.

Lemma hexdigit_not47 : forall n, hexdigit n <> 47.
Proof. intros n. unfold hexdigit. destruct (n <? 10); lia. Qed.

Lemma quote_slash_no47 : forall s, mem 47 s = false -> mem 47 (quote [47] s) = false.
Proof.
  induction s as [|c s IH]; simpl; intros H; auto.
  apply orb_false_elim in H as [H1 H2]. change (flat_map (quote_byte [47]) s) with (quote [47] s).
  rewrite mem_app, IH by auto. rewrite orb_false_r. unfold quote_byte.
  destruct (is_safe [47] c); simpl.
  - now rewrite H1.
  - assert (hexdigit (c / 16) <> 47 /\ hexdigit (c mod 16) <> 47) as [A B].
    { split; apply hexdigit_not47. }
    destruct (N.eqb_spec 47 (hexdigit (c / 16))); [congruence|].
    destruct (N.eqb_spec 47 (hexdigit (c mod 16))); [congruence|]. reflexivity.
Qed.

Lemma quote_first_not47 : forall safe s, nonempty s = true -> mem 47 s = false ->
  exists c t, quote safe s = c :: t /\ c <> 47.
Proof.
  intros safe [|c s] Hn H; [discriminate|]. simpl in H. apply orb_false_elim in H as [H1 _].
  rewrite quote_cons. unfold quote_byte. destruct (is_safe safe c).
  - exists c, (quote safe s). split; auto. intros ->. discriminate.
  - eexists _, _. split; [reflexivity|]. lia.
Qed.

(* ---------------------------------------------------------------- quote_plus / qs_decode *)
Definition qp_byte (c : N) : bytes := if c =? 32 then [43] else quote_byte [] c.

Lemma quote_byte_sp : forall c, quote_byte ([] ++ [32]) c = if c =? 32 then [32] else quote_byte [] c.
Proof.
  intros c. unfold quote_byte, is_safe, mem. simpl. destruct (N.eqb_spec c 32); subst; [reflexivity|].
  now rewrite !orb_false_r, andb_false_r.
Qed.

Lemma quote_byte_no : forall c x, is_byte c -> always_safe x = false -> x <> 37 -> mem x (quote_byte [] c) = false.
Proof.
  intros c x Hb Hx H37. unfold quote_byte. rewrite is_safe_nil. destruct (always_safe c) eqn:E; simpl.
  - destruct (N.eqb_spec x c); subst; [congruence|reflexivity].
  - pose proof (hexdigit_safe _ (byte_div c Hb)) as A. pose proof (hexdigit_safe _ (byte_mod c)) as B.
    destruct (N.eqb_spec x 37); [contradiction|].
    destruct (N.eqb_spec x (hexdigit (c / 16))); [congruence|].
    destruct (N.eqb_spec x (hexdigit (c mod 16))); [congruence|]. reflexivity.
Qed.

Lemma mem_flat_map_false : forall x (f : N -> bytes) s,
  (forall c, In c s -> mem x (f c) = false) -> mem x (flat_map f s) = false.
Proof.
  intros x f s. induction s; simpl; intros H; auto. rewrite mem_app, H, IHs; auto.
Qed.

Lemma quote_no : forall s x, is_bytes s -> always_safe x = false -> x <> 37 -> mem x (quote [] s) = false.
Proof.
  intros s x Hs Hx H. apply mem_flat_map_false. intros c Hc. apply quote_byte_no; auto.
  eapply Forall_forall; eauto.
Qed.

Lemma replace_byte_id : forall a b s, mem a s = false -> replace_byte a b s = s.
Proof.
  intros a b s. induction s as [|c s IH]; simpl; intros H; auto.
  apply orb_false_elim in H as [H1 H2]. rewrite N.eqb_sym, H1, IH; auto.
Qed.

Lemma replace_byte_flat_map : forall a b (f : N -> bytes) s,
  replace_byte a b (flat_map f s) = flat_map (fun c => replace_byte a b (f c)) s.
Proof.
  intros a b f s. induction s; simpl; auto. unfold replace_byte in *. now rewrite map_app, IHs.
Qed.

Lemma flat_map_ext_in : forall (f g : N -> bytes) s, (forall c, In c s -> f c = g c) -> flat_map f s = flat_map g s.
Proof. intros f g s. induction s; simpl; intros H; auto. rewrite H, IHs; auto. Qed.

Lemma quote_plus_char : forall s, is_bytes s -> quote_plus [] s = flat_map qp_byte s.
Proof.
  intros s Hs. unfold quote_plus. destruct (mem 32 s) eqn:E.
  - unfold quote. rewrite replace_byte_flat_map. apply flat_map_ext_in. intros c Hc.
    rewrite quote_byte_sp. unfold qp_byte. destruct (c =? 32); [reflexivity|].
    apply replace_byte_id. apply quote_byte_no; [eapply Forall_forall; eauto|reflexivity|lia].
  - apply flat_map_ext_in. intros c Hc. unfold qp_byte.
    destruct (N.eqb_spec c 32); auto. subst.
    assert (mem 32 s = true) by (apply existsb_exists; exists 32; split; auto). congruence.
Qed.

Lemma qs_decode_quote : forall s, is_bytes s -> qs_decode (quote [] s) = s.
Proof.
  intros s Hs. unfold qs_decode. rewrite replace_byte_id.
  - apply unquote_quote; auto.
  - apply quote_no; auto. lia.
Qed.

Lemma qs_decode_quote_plus : forall s, is_bytes s -> qs_decode (quote_plus [] s) = s.
Proof.
  intros s Hs. unfold qs_decode. rewrite quote_plus_char by auto. rewrite replace_byte_flat_map.
  rewrite (flat_map_ext_in _ (quote_byte ([] ++ [32])) s).
  - apply (unquote_quote ([] ++ [32])); auto.
  - intros c Hc. rewrite quote_byte_sp. unfold qp_byte. destruct (c =? 32); [reflexivity|].
    apply replace_byte_id. apply quote_byte_no; [eapply Forall_forall; eauto|reflexivity|lia].
Qed.

Lemma quote_plus_pchar : forall s, is_bytes s -> forallb pchar (quote_plus [] s) = true.
Proof.
  intros s Hs. rewrite quote_plus_char by auto. apply forallb_flat_map. intros c Hc. unfold qp_byte.
  destruct (c =? 32); [reflexivity|]. apply quote_byte_pchar. eapply Forall_forall; eauto.
Qed.

Lemma quote_plus_nil_iff : forall s, is_bytes s -> (quote_plus [] s = [] <-> s = []).
Proof.
  intros s Hs. rewrite quote_plus_char by auto. split; [|intros ->; reflexivity].
  destruct s; auto. simpl. unfold qp_byte, quote_byte. destruct (n =? 32); [discriminate|].
  destruct (is_safe [] n); discriminate.
Qed.

(* ================================================================ urlencode / parse_qsl *)
Definition enc_ok (enc : bytes -> bytes) : Prop :=
  forall v, is_bytes v -> forallb pchar (enc v) = true /\ qs_decode (enc v) = v /\ (enc v = [] <-> v = []).

Lemma enc_ok_quote : enc_ok (quote []).
Proof. intros v Hv. repeat split; try apply quote_nil_iff; auto using quote_pchar, qs_decode_quote. Qed.

Lemma enc_ok_quote_plus : enc_ok (quote_plus []).
Proof. intros v Hv. repeat split; try apply quote_plus_nil_iff; auto using quote_plus_pchar, qs_decode_quote_plus. Qed.

Lemma parse_qsl_alt : forall qs, parse_qsl qs = flat_map parse_field (split_on 38 qs).
Proof. destruct qs; reflexivity. Qed.

Lemma parse_field_alt : forall f, parse_field f =
  match split1 61 f with
  | None => []
  | Some (n, v) => if nonempty v then [(qs_decode n, qs_decode v)] else []
  end.
Proof. destruct f; reflexivity. Qed.

Lemma nonempty_iff : forall s, nonempty s = false <-> s = [].
Proof. destruct s; simpl; split; congruence. Qed.

Lemma parse_field_enc : forall enc k v, enc_ok enc -> is_bytes k -> is_bytes v ->
  parse_field (enc k ++ 61 :: enc v) = if nonempty v then [(k, v)] else [].
Proof.
  intros enc k v He Hk Hv. destruct (He k Hk) as (Pk & Dk & _). destruct (He v Hv) as (Pv & Dv & Nv).
  rewrite parse_field_alt, split1_app by (eapply mem_false_forall; eauto).
  destruct (nonempty v) eqn:E.
  - destruct (nonempty (enc v)) eqn:E2.
    + now rewrite Dk, Dv.
    + apply nonempty_iff in E2. apply Nv in E2. subst. discriminate.
  - apply nonempty_iff in E. subst. assert (enc [] = []) as -> by (apply Nv; auto). reflexivity.
Qed.

Definition pairs_bytes (ps : list (bytes * bytes)) : Prop :=
  Forall (fun kv => is_bytes (fst kv) /\ is_bytes (snd kv)) ps.

Lemma field_no38 : forall enc k v, enc_ok enc -> is_bytes k -> is_bytes v -> mem 38 (enc k ++ 61 :: enc v) = false.
Proof.
  intros enc k v He Hk Hv. destruct (He k Hk) as (Pk & _). destruct (He v Hv) as (Pv & _).
  rewrite mem_app. simpl. rewrite (mem_false_forall pchar 38 _ Pk), (mem_false_forall pchar 38 _ Pv); reflexivity.
Qed.

Lemma parse_qsl_urlencode : forall enc ps, enc_ok enc -> pairs_bytes ps ->
  parse_qsl (urlencode enc ps) = filter (fun kv => nonempty (snd kv)) ps.
Proof.
  intros enc ps He Hp. rewrite parse_qsl_alt. unfold urlencode.
  destruct ps as [|p0 ps0]; [reflexivity|].
  rewrite split_on_join.
  - induction Hp as [|[k v] r [Hk Hv] Hr IH]; [reflexivity|].
    cbn [map flat_map filter fst snd]. rewrite parse_field_enc by auto. rewrite IH.
    destruct (nonempty v); reflexivity.
  - simpl. congruence.
  - apply Forall_map. eapply Forall_impl; [|exact Hp]. intros [k v] [Hk Hv]. simpl. now apply field_no38.
Qed.

Lemma urlencode_queryc : forall enc ps, enc_ok enc -> pairs_bytes ps -> forallb queryc (urlencode enc ps) = true.
Proof.
  intros enc ps He Hp. unfold urlencode. apply forallb_join; [reflexivity|].
  apply Forall_map. eapply Forall_impl; [|exact Hp]. intros [k v] [Hk Hv]. simpl.
  destruct (He k Hk) as (Pk & _). destruct (He v Hv) as (Pv & _).
  rewrite forallb_app. simpl.
  rewrite (forallb_impl pchar queryc _) by (auto; intros c H; unfold queryc; now rewrite H).
  rewrite (forallb_impl pchar queryc (enc v)) by (auto; intros c H; unfold queryc; now rewrite H).
  reflexivity.
Qed.

(* ================================================================ dict lookups over the location elements *)
Definition norm (v : option bytes) : option bytes := match v with Some [] => None | x => x end.

Lemma dict_get_app : forall k a b,
  dict_get k (a ++ b) = match dict_get k b with Some x => Some x | None => dict_get k a end.
Proof.
  intros k a b. induction a as [|[k' v] a IH]; simpl.
  - destruct (dict_get k b); reflexivity.
  - rewrite IH. destruct (dict_get k b); reflexivity.
Qed.

Lemma dict_get_notin : forall k ps, (forall kv, In kv ps -> fst kv <> k) -> dict_get k ps = None.
Proof.
  intros k ps. induction ps as [|[k' v] r IH]; simpl; intros H; auto.
  rewrite IH by auto. assert (k' <> k) by (apply (H (k', v)); auto).
  destruct (bytes_eqb k k') eqn:E; auto. apply bytes_eqb_eq in E. congruence.
Qed.

Lemma present_keys : forall names vals kv, In kv (present names vals) -> In (fst kv) names.
Proof.
  induction names as [|n ns IH]; intros [|v vs] kv; simpl; try tauto.
  rewrite in_app_iff. intros [H|H].
  - destruct (val_or_empty v); simpl in H; [tauto|]. destruct H as [<-|[]]. auto.
  - right. eapply IH; eauto.
Qed.

Lemma nodupb_cons : forall n ns, nodupb (n :: ns) = true -> ~ In n ns /\ nodupb ns = true.
Proof.
  intros n ns H. simpl in H. apply andb_prop in H as [H1 H2]. split; auto.
  intros Hin. apply negb_true_iff in H1. assert (existsb (bytes_eqb n) ns = true); [|congruence].
  apply existsb_exists. exists n. split; auto. apply bytes_eqb_refl.
Qed.

Lemma dict_get_present : forall names vals, nodupb names = true -> length vals = length names ->
  map (fun n => dict_get n (present names vals)) names = map norm vals.
Proof.
  induction names as [|n ns IH]; intros [|v vs] Hn Hl; try discriminate; auto.
  apply nodupb_cons in Hn as [Hnot Hnd]. simpl in Hl. injection Hl as Hl.
  cbn [map present]. f_equal.
  - rewrite dict_get_app. rewrite dict_get_notin.
    + destruct v as [[|x xs]|]; simpl; auto. now rewrite bytes_eqb_refl.
    + intros kv Hin <-. apply Hnot. eapply present_keys; eauto.
  - rewrite <- IH by auto. apply map_ext_in. intros m Hm. rewrite dict_get_app.
    destruct (dict_get m (present ns vs)); auto.
    destruct (val_or_empty v); simpl; auto.
    destruct (bytes_eqb m n) eqn:E; auto. apply bytes_eqb_eq in E. subst. contradiction.
Qed.

Lemma present_of_state_dict : forall names vals,
  filter (fun kv => nonempty (snd kv)) (state_query_dict names vals) = present names vals.
Proof.
  induction names as [|n ns IH]; intros [|v vs]; simpl; auto.
  rewrite filter_app, IH. destruct v as [[|x xs]|]; reflexivity.
Qed.

Lemma present_filter_id : forall names vals,
  filter (fun kv => nonempty (snd kv)) (present names vals) = present names vals.
Proof.
  induction names as [|n ns IH]; intros [|v vs]; simpl; auto.
  rewrite filter_app, IH. destruct v as [[|x xs]|]; reflexivity.
Qed.

Definition opt_is_bytes (v : option bytes) : Prop := match v with Some x => is_bytes x | None => True end.

Lemma name_ok_bytes : forall n, name_ok n = true -> is_bytes n.
Proof.
  intros n H. unfold name_ok in H. apply andb_prop in H as [_ H].
  apply Forall_forall. intros c Hc. rewrite forallb_forall in H. apply H in Hc.
  apply always_safe_lt in Hc. unfold is_byte. lia.
Qed.

Lemma state_dict_bytes : forall names vals, forallb name_ok names = true -> Forall opt_is_bytes vals ->
  pairs_bytes (state_query_dict names vals).
Proof.
  induction names as [|n ns IH]; intros [|v vs] Hn Hv; simpl; try constructor.
  apply andb_prop in Hn as [Hn1 Hn2]. inversion Hv; subst.
  apply Forall_app. split; [|apply IH; auto].
  destruct v; constructor; auto. split; simpl; auto using name_ok_bytes.
Qed.

Lemma present_bytes : forall names vals, forallb name_ok names = true -> Forall opt_is_bytes vals ->
  pairs_bytes (present names vals).
Proof.
  induction names as [|n ns IH]; intros [|v vs] Hn Hv; simpl; try constructor.
  apply andb_prop in Hn as [Hn1 Hn2]. inversion Hv; subst.
  apply Forall_app. split; [|apply IH; auto].
  destruct v as [[|x xs]|]; simpl; constructor; auto. split; simpl; auto using name_ok_bytes.
Qed.

(* ================================================================ urlsplit of a well-formed scope text *)
Definition okc (c : N) : bool := negb ((c =? 9) || (c =? 10) || (c =? 13)).

Lemma scheme_char_okc : forall c, scheme_char c = true -> okc c = true.
Proof. intros c. unfold scheme_char, okc, is_alpha, is_upper, is_lower, is_digit, in_range. lia. Qed.
Lemma pchar_okc : forall c, pchar c = true -> okc c = true.
Proof. intros c. unfold pchar, okc, always_safe, is_alpha, is_upper, is_lower, is_digit, in_range. lia. Qed.
Lemma pathc_okc : forall c, pathc c = true -> okc c = true.
Proof. intros c. unfold pathc. intros H. apply orb_prop in H as [H|H]; [now apply pchar_okc|]. unfold okc. lia. Qed.
Lemma queryc_okc : forall c, queryc c = true -> okc c = true.
Proof.
  intros c. unfold queryc. intros H. apply orb_prop in H as [H|H]; [|unfold okc; lia].
  apply orb_prop in H as [H|H]; [now apply pchar_okc|unfold okc; lia].
Qed.

Definition optq (q : bytes) : bytes := match q with [] => [] | _ => 63 :: q end.

Lemma urlunparse_shape : forall sch path q, nonempty sch = true ->
  urlunparse_nonetloc sch path q = sch ++ 58 :: path ++ optq q.
Proof.
  intros [|c s] path q H; [discriminate|]. unfold urlunparse_nonetloc, optq.
  rewrite <- app_assoc. reflexivity.
Qed.

Lemma scheme_ok_inv : forall sch, scheme_ok sch = true ->
  exists c0 s, sch = c0 :: s /\ is_alpha c0 = true /\ forallb scheme_char sch = true /\ map lower sch = sch.
Proof.
  intros [|c0 s] H; [discriminate|]. unfold scheme_ok in H.
  apply andb_prop in H as [H H3]. apply andb_prop in H as [H1 H2].
  exists c0, s. repeat split; auto. now apply bytes_eqb_eq.
Qed.

Lemma split_scheme_ok : forall sch rest, scheme_ok sch = true -> split_scheme (sch ++ 58 :: rest) = (sch, rest).
Proof.
  intros sch rest H. destruct (scheme_ok_inv _ H) as (c0 & s & Es & Ha & Hsc & Hl).
  unfold split_scheme. rewrite split1_app by (eapply mem_false_forall; eauto).
  rewrite Hl, Hsc. subst sch. cbv beta iota. rewrite Ha. reflexivity.
Qed.

Lemma urlsplit_scope : forall bad sch path q c t,
  scheme_ok sch = true -> path = 47 :: c :: t -> c <> 47 ->
  forallb pathc path = true -> forallb queryc q = true ->
  urlsplit bad (urlunparse_nonetloc sch path q) = SplitOk sch [] path q [].
Proof.
  intros bad sch path q c t Hs Hp Hc Hpath Hq.
  destruct (scheme_ok_inv _ Hs) as (c0 & s & Es & Ha & Hsc & Hl).
  rewrite urlunparse_shape by (rewrite Es; reflexivity).
  unfold urlsplit.
  (* lstrip: the first character is a letter *)
  assert (L : lstrip_c0 (sch ++ 58 :: path ++ optq q) = sch ++ 58 :: path ++ optq q).
  { rewrite Es. simpl. assert (c0 <=? 32 = false) as ->; auto.
    unfold is_alpha, is_upper, is_lower, in_range in Ha. lia. }
  rewrite L.
  (* no tab / CR / LF anywhere *)
  assert (Hoq : forallb okc (optq q) = true).
  { destruct q as [|x q']; [reflexivity|]. unfold optq. change (okc 63 && forallb okc (x :: q') = true).
    rewrite (forallb_impl queryc okc (x :: q')); auto using queryc_okc. }
  assert (R : remove_unsafe (sch ++ 58 :: path ++ optq q) = sch ++ 58 :: path ++ optq q).
  { unfold remove_unsafe. change (fun c : N => negb ((c =? 9) || (c =? 10) || (c =? 13))) with okc.
    apply filter_id. rewrite forallb_app. cbn [forallb]. rewrite forallb_app.
    rewrite (forallb_impl scheme_char okc sch) by auto using scheme_char_okc.
    rewrite (forallb_impl pathc okc path) by auto using pathc_okc.
    rewrite Hoq. reflexivity. }
  rewrite R.
  (* scheme *)
  rewrite split_scheme_ok by auto.
  (* no authority *)
  assert (S2 : starts_with2 47 47 (path ++ optq q) = false).
  { rewrite Hp. cbn [app starts_with2]. destruct (N.eqb_spec c 47); [contradiction|]. apply andb_false_r. }
  rewrite S2. cbn [mem existsb xorb andb].
  (* no fragment *)
  assert (M35 : mem 35 (path ++ optq q) = false).
  { rewrite mem_app. rewrite (mem_false_forall pathc 35 path) by auto.
    destruct q as [|x q']; [reflexivity|]. unfold optq.
    change (mem 35 (63 :: x :: q')) with ((35 =? 63) || mem 35 (x :: q')).
    rewrite (mem_false_forall queryc 35 _ Hq) by reflexivity. reflexivity. }
  rewrite (split1_none 35 _ M35).
  (* query *)
  assert (M63 : mem 63 path = false) by (eapply mem_false_forall; eauto).
  destruct q as [|x q'].
  - unfold optq. rewrite app_nil_r. rewrite (split1_none 63 _ M63). reflexivity.
  - unfold optq. rewrite (split1_app 63 _ _ M63). reflexivity.
Qed.

(* ================================================================ from_scope of a well-formed scope text *)
Section WithConsts.
  Variable K : consts.
  Hypothesis HK : consts_ok K = true.

  Lemma consts_inv :
    scheme_ok (c_scheme K) = true /\ c_pub_scheme K = c_scheme K /\ length (c_elements K) = 6%nat /\
    forallb name_ok (c_elements K) = true /\ nodupb (c_elements K) = true /\
    root_ok (c_default_root K) = true /\ root_ok (c_ident_root K) = true.
  Proof.
    unfold consts_ok in HK. repeat (apply andb_prop in HK as [HK ?]).
    repeat split; auto. - now apply bytes_eqb_eq. - now apply Nat.eqb_eq.
  Qed.

  Lemma from_scope_shape : forall bad qroot seg q c t,
    qroot = c :: t -> c <> 47 -> mem 47 qroot = false -> mem 47 seg = false ->
    forallb pathc (47 :: qroot ++ 47 :: seg) = true -> forallb queryc q = true ->
    from_scope K (urlsplit bad) (urlunparse_nonetloc (c_scheme K) (47 :: qroot ++ 47 :: seg) q) =
    inl (mkLoc (unquote qroot) (map (fun n => dict_get n (parse_qsl q)) (c_elements K))).
  Proof.
    intros bad qroot seg q c t Eq Hc Mq Ms Hp Hq.
    destruct consts_inv as (Hs & _).
    unfold from_scope.
    rewrite (urlsplit_scope bad _ _ q c (t ++ 47 :: seg)); auto.
    - destruct (scheme_ok_inv _ Hs) as (_ & _ & _ & _ & _ & Hl). rewrite Hl, bytes_eqb_refl.
      change (split_on 47 (47 :: qroot ++ 47 :: seg)) with ([] :: split_on 47 (qroot ++ 47 :: seg)).
      rewrite split_on_app by auto. rewrite split_on_none by auto. reflexivity.
    - rewrite Eq. reflexivity.
  Qed.

  (* -------------------------------------------------------------- well-formed locations *)
  Definition wf_loc (l : loc) : Prop :=
    length (l_vals l) = length (c_elements K) /\ Forall opt_is_bytes (l_vals l).
  Definition nonempty_fields (l : loc) : Prop := Forall (fun v => v <> Some []) (l_vals l).

  Lemma norm_id : forall vals, Forall (fun v => v <> Some []) vals -> map norm vals = vals.
  Proof.
    induction 1 as [|v vs Hv _ IH]; simpl; auto. rewrite IH. f_equal.
    destruct v as [[|x xs]|]; auto. congruence.
  Qed.

  Lemma root_ok_inv : forall r, root_ok r = true -> nonempty r = true /\ mem 47 r = false /\ is_bytes r.
  Proof.
    intros r H. unfold root_ok in H. apply andb_prop in H as [H H3]. apply andb_prop in H as [H1 H2].
    repeat split; auto. - now apply negb_true_iff.
    - apply Forall_forall. intros c Hc. rewrite forallb_forall in H3. apply H3 in Hc. unfold is_byteb in Hc.
      unfold is_byte. lia.
  Qed.

  Lemma vals_quoted_pchar : forall vals, Forall opt_is_bytes vals ->
    Forall (fun p => forallb pchar p = true) (map (fun v => quote [] (val_or_empty v)) vals).
  Proof.
    intros vals H. apply Forall_map. eapply Forall_impl; [|exact H]. intros [x|] Hx; simpl; [now apply quote_pchar|reflexivity].
  Qed.

  Lemma pchar_pathc : forall s, forallb pchar s = true -> forallb pathc s = true.
  Proof. intros s. apply forallb_impl. intros c H. unfold pathc. now rewrite H. Qed.

  (* -------------------------------------------------------------- round trip *)
  Theorem roundtrip : forall bad l,
    wf_loc l -> nonempty_fields l -> root_ok (l_root l) = true ->
    from_scope K (urlsplit bad) (scope_string K l) = inl l.
  Proof.
    intros bad l [Hlen Hb] Hne Hr.
    destruct consts_inv as (Hs & _ & _ & Hnames & Hnd & _).
    destruct (root_ok_inv _ Hr) as (Rn & R47 & Rb).
    destruct (quote_first_not47 [47] _ Rn R47) as (c & t & Eq & Hc).
    unfold scope_string.
    set (seg := join slash_q (map (fun v => quote [] (val_or_empty v)) (l_vals l))).
    set (q := urlencode (quote_plus []) (present (c_elements K) (l_vals l))).
    assert (Pseg : forallb pchar seg = true).
    { apply forallb_join; [reflexivity|]. now apply vals_quoted_pchar. }
    assert (Pb : pairs_bytes (present (c_elements K) (l_vals l))) by (apply present_bytes; auto).
    rewrite (from_scope_shape bad _ seg q c t); auto.
    - rewrite unquote_quote by auto. unfold q.
      rewrite parse_qsl_urlencode by auto using enc_ok_quote_plus.
      rewrite present_filter_id, dict_get_present by auto. rewrite norm_id by auto.
      destruct l; reflexivity.
    - now apply quote_slash_no47.
    - eapply mem_false_forall; eauto.
    - cbn [forallb]. rewrite forallb_app. cbn [forallb].
      rewrite quote_slash_pathc by auto. rewrite pchar_pathc by auto. reflexivity.
    - apply urlencode_queryc; auto using enc_ok_quote_plus.
  Qed.

  (* -------------------------------------------------------------- the published scope parses to the (normalised) location *)
  Lemma quote_nil_no47 : forall s, is_bytes s -> mem 47 (quote [] s) = false.
  Proof. intros s H. eapply mem_false_forall; [apply quote_pchar; auto|reflexivity]. Qed.

  Lemma loc_extension_bytes : forall l, wf_loc l -> is_bytes (loc_extension l).
  Proof.
    intros l [_ Hb]. unfold loc_extension.
    assert (H : forallb is_byteb (join [47] (map (fun v => quote [] (val_or_empty v)) (l_vals l))) = true).
    { apply forallb_join; [reflexivity|]. apply Forall_map. eapply Forall_impl; [|exact Hb].
      intros v Hv. eapply forallb_impl; [|apply quote_pchar; destruct v; simpl; [exact Hv|constructor]].
      intros c Hc. unfold pchar in Hc. unfold is_byteb.
      destruct (always_safe c) eqn:E; [apply always_safe_lt in E; lia|]. simpl in Hc. lia. }
    apply Forall_forall. intros c Hc. rewrite forallb_forall in H. apply H in Hc. unfold is_byteb in Hc. unfold is_byte. lia.
  Qed.

  Lemma published_shape : forall l s, wf_loc l -> published_of K l = Some s ->
    loc_extension l <> [] /\
    s = urlunparse_nonetloc (c_scheme K)
          (47 :: quote [] (c_ident_root K) ++ 47 :: quote [] (loc_extension l))
          (urlencode (quote []) (state_query_dict (c_elements K) (l_vals l))).
  Proof.
    intros l s Hwf H. destruct consts_inv as (Hs & Hpub & _).
    unfold published_of, state_of in H. destruct (bytes_eqb (loc_extension l) slash5) eqn:E; [discriminate|].
    cbn [published_scopes s_idents map] in H. injection H as <-.
    assert (Hne : loc_extension l <> []).
    { unfold loc_extension. destruct Hwf as [Hlen _]. destruct consts_inv as (_ & _ & H6 & _).
      rewrite H6 in Hlen. destruct (l_vals l) as [|v0 [|v1 r]]; try discriminate.
      rewrite map_cons, map_cons, join_cons2. intros Habs. apply app_eq_nil in Habs as [_ Habs]. discriminate. }
    split; auto.
    unfold published_scope. cbn [i_root i_ext s_detail].
    destruct (loc_extension l) as [|e0 er] eqn:Ee; [congruence|]. cbn [nonempty].
    rewrite Hpub. rewrite urlunparse_shape by (destruct (scheme_ok_inv _ Hs) as (? & ? & -> & _); reflexivity).
    unfold optq. destruct (urlencode (quote []) (state_query_dict (c_elements K) (l_vals l))) eqn:Eq; cbn [nonempty].
    - now rewrite app_nil_r.
    - rewrite <- app_assoc. reflexivity.
  Qed.

  Theorem published_parse : forall bad l s, wf_loc l -> published_of K l = Some s ->
    from_scope K (urlsplit bad) s = inl (mkLoc (c_ident_root K) (map norm (l_vals l))).
  Proof.
    intros bad l s Hwf H. destruct (published_shape l s Hwf H) as [Hne ->].
    destruct consts_inv as (Hs & _ & _ & Hnames & Hnd & _ & Hir).
    destruct (root_ok_inv _ Hir) as (Rn & R47 & Rb).
    destruct (quote_first_not47 [] _ Rn R47) as (c & t & Eq & Hc).
    pose proof (loc_extension_bytes l Hwf) as Eb. destruct Hwf as [Hlen Hb].
    assert (Pb : pairs_bytes (state_query_dict (c_elements K) (l_vals l))) by (apply state_dict_bytes; auto).
    rewrite (from_scope_shape bad _ _ _ c t); auto using quote_nil_no47.
    - rewrite unquote_quote by auto.
      rewrite parse_qsl_urlencode by auto using enc_ok_quote.
      rewrite present_of_state_dict, dict_get_present by auto. reflexivity.
    - cbn [forallb]. rewrite forallb_app. cbn [forallb].
      rewrite !pchar_pathc by auto using quote_pchar. reflexivity.
    - apply urlencode_queryc; auto using enc_ok_quote.
  Qed.

  (* -------------------------------------------------------------- containment *)
  Definition elem_enclosed (my other : option bytes) : Prop := my = None \/ my = other.

  Lemma elem_ok_spec : forall my other, elem_ok my other = true <-> elem_enclosed my other.
  Proof.
    intros [m|] [o|]; unfold elem_enclosed; simpl; split; intros H; auto; try discriminate.
    - apply bytes_eqb_eq in H. subst; auto.
    - destruct H as [H|H]; [discriminate|]. injection H as ->. apply bytes_eqb_refl.
    - destruct H; discriminate.
  Qed.

  Lemma contains_spec : forall self other, length (l_vals self) = length (l_vals other) ->
    (contains self other = true <->
     l_root self = l_root other /\ Forall2 elem_enclosed (l_vals self) (l_vals other)).
  Proof.
    intros [r1 v1] [r2 v2]. unfold contains. simpl. intros Hl.
    rewrite andb_true_iff, bytes_eqb_eq.
    assert (forallb (fun p => elem_ok (fst p) (snd p)) (combine v1 v2) = true <-> Forall2 elem_enclosed v1 v2).
    { revert v2 Hl. induction v1 as [|a v1 IH]; intros [|b v2] Hl; try discriminate; simpl.
      - split; auto.
      - rewrite andb_true_iff, elem_ok_spec, IH by (simpl in Hl; congruence). split.
        + intros [? ?]; constructor; auto.
        + intros H; inversion H; auto. }
    tauto.
  Qed.

  Lemma contains_false_at : forall self other i v,
    nth_error (l_vals self) i = Some (Some v) -> (exists x, nth_error (l_vals other) i = Some x /\ x <> Some v) ->
    contains self other = false.
  Proof.
    intros [r1 v1] [r2 v2] i v. unfold contains. simpl. intros H1 (x & H2 & Hx).
    apply andb_false_iff. right. revert v2 i H1 H2. induction v1 as [|a v1 IH]; intros v2 [|i] H1 H2; simpl in *; try discriminate.
    - injection H1 as ->. destruct v2 as [|b v2]; [discriminate|]. injection H2 as ->. simpl.
      destruct x as [o|]; simpl; auto. destruct (bytes_eqb v o) eqn:E; auto. apply bytes_eqb_eq in E. congruence.
    - destruct v2 as [|b v2]; [discriminate|]. simpl. rewrite (IH v2 i); auto. apply andb_false_r.
  Qed.

  (* -------------------------------------------------------------- filtering is total once ValueError is caught *)
  Lemma scope_matches_total : forall split self s, exists b, scope_matches K true split self s = Ret b.
  Proof.
    intros split self s. unfold scope_matches. destruct (from_scope K split s) as [o|[|]]; eauto.
  Qed.

  Lemma any_scope_total : forall split self scopes, exists b, any_scope K true split self scopes = Ret b.
  Proof.
    intros split self scopes. induction scopes as [|s r IH]; simpl; eauto.
    destruct (scope_matches_total split self s) as [b ->]. destruct b; eauto.
  Qed.

  Lemma filter_total : forall split self svs, exists r, filter_inside K true split self svs = Ret r.
  Proof.
    intros split self svs. induction svs as [|sv r IH]; simpl; eauto.
    assert (exists b, service_matches K true split self sv = Ret b) as [b ->].
    { destruct sv; simpl; eauto using any_scope_total. }
    destruct IH as [l ->]. eauto.
  Qed.

  (* what the filter returns: exactly the services one of whose scopes parses to a location inside self *)
  Definition scope_inside (split : bytes -> sres) (self : loc) (s : bytes) : bool :=
    match from_scope K split s with inl o => contains self o | inr _ => false end.
  Definition service_inside (split : bytes -> sres) (self : loc) (sv : service) : bool :=
    match sv with None => false | Some scopes => existsb (scope_inside split self) scopes end.

  Lemma filter_spec : forall split self svs,
    filter_inside K true split self svs = Ret (filter (service_inside split self) svs).
  Proof.
    intros split self svs. induction svs as [|sv r IH]; simpl; auto.
    assert (service_matches K true split self sv = Ret (service_inside split self sv)) as ->.
    { destruct sv as [scopes|]; simpl; auto. induction scopes as [|s t IHs]; simpl; auto.
      unfold scope_matches, scope_inside at 1. destruct (from_scope K split s) as [o|[|]]; simpl; auto.
      destruct (contains self o); simpl; auto. }
    rewrite IH. destruct (service_inside split self sv); reflexivity.
  Qed.
End WithConsts.

(* ================================================================ inside / not inside *)
Section Inside.
  Variable K : consts.
  Hypothesis HK : consts_ok K = true.

  Lemma Forall2_len : forall (A B : Type) (R : A -> B -> Prop) l1 l2, Forall2 R l1 l2 -> length l1 = length l2.
  Proof. induction 1; simpl; auto. Qed.

  Lemma norm_enclosed : forall a b, b <> Some [] -> elem_enclosed a b -> elem_enclosed a (norm b).
  Proof. intros a [[|x xs]|] Hb H; simpl; auto. congruence. Qed.

  Lemma norm_neq : forall x v, x <> Some v -> norm x <> Some v.
  Proof. intros [[|y ys]|] v H; simpl; congruence. Qed.

  Lemma published_inside : forall bad fixed l l' s,
    wf_loc K l -> nonempty_fields l -> published_of K l = Some s ->
    l_root l' = c_ident_root K -> Forall2 elem_enclosed (l_vals l') (l_vals l) ->
    scope_matches K fixed (urlsplit bad) l' s = Ret true.
  Proof.
    intros bad fixed l l' s Hwf Hne Hp Hr Hv. unfold scope_matches.
    rewrite (published_parse K HK bad l s Hwf Hp). f_equal.
    apply contains_spec; simpl.
    - rewrite map_length. eapply Forall2_len; eauto.
    - split; auto. rewrite (norm_id _ Hne). exact Hv.
  Qed.

  Lemma published_not_inside : forall bad fixed l l' s i v x,
    wf_loc K l -> published_of K l = Some s ->
    nth_error (l_vals l') i = Some (Some v) -> nth_error (l_vals l) i = Some x -> x <> Some v ->
    scope_matches K fixed (urlsplit bad) l' s = Ret false.
  Proof.
    intros bad fixed l l' s i v x Hwf Hp H1 H2 Hx. unfold scope_matches.
    rewrite (published_parse K HK bad l s Hwf Hp). f_equal.
    apply (contains_false_at l' _ i v H1). simpl. exists (norm x). split.
    - now apply map_nth_error.
    - now apply norm_neq.
  Qed.

  Lemma published_not_inside_root : forall bad fixed l l' s,
    wf_loc K l -> published_of K l = Some s -> l_root l' <> c_ident_root K ->
    scope_matches K fixed (urlsplit bad) l' s = Ret false.
  Proof.
    intros bad fixed l l' s Hwf Hp Hr. unfold scope_matches.
    rewrite (published_parse K HK bad l s Hwf Hp). f_equal. unfold contains. simpl.
    apply andb_false_iff. left. now apply bytes_eqb_neq.
  Qed.

  Lemma scope_string_inside : forall bad fixed l l',
    wf_loc K l -> nonempty_fields l -> root_ok (l_root l) = true ->
    l_root l' = l_root l -> Forall2 elem_enclosed (l_vals l') (l_vals l) ->
    scope_matches K fixed (urlsplit bad) l' (scope_string K l) = Ret true.
  Proof.
    intros bad fixed l l' Hwf Hne Hro Hr Hv. unfold scope_matches.
    rewrite (roundtrip K HK bad l Hwf Hne Hro). f_equal.
    apply contains_spec; auto. eapply Forall2_len; eauto.
  Qed.

  Lemma scope_string_not_inside : forall bad fixed l l' i v x,
    wf_loc K l -> nonempty_fields l -> root_ok (l_root l) = true ->
    nth_error (l_vals l') i = Some (Some v) -> nth_error (l_vals l) i = Some x -> x <> Some v ->
    scope_matches K fixed (urlsplit bad) l' (scope_string K l) = Ret false.
  Proof.
    intros bad fixed l l' i v x Hwf Hne Hro H1 H2 Hx. unfold scope_matches.
    rewrite (roundtrip K HK bad l Hwf Hne Hro). f_equal.
    apply (contains_false_at l' l i v H1). eauto.
  Qed.

  (* update_from_sdc_location accepts every location with at least one non-empty element *)
  Lemma published_defined : forall l v,
    wf_loc K l -> In (Some v) (l_vals l) -> v <> [] -> exists s, published_of K l = Some s.
  Proof.
    intros l v Hwf Hin Hv. unfold published_of, state_of.
    destruct (bytes_eqb (loc_extension l) slash5) eqn:E; [|eexists; reflexivity].
    exfalso. apply bytes_eqb_eq in E. unfold loc_extension in E.
    destruct Hwf as [Hlen Hb].
    assert (Hparts : Forall (fun p => mem 47 p = false) (map (fun v => quote [] (val_or_empty v)) (l_vals l))).
    { apply Forall_map. eapply Forall_impl; [|exact Hb]. intros [x|] Hx; simpl; [|reflexivity].
      now apply quote_nil_no47. }
    assert (Hnn : map (fun v => quote [] (val_or_empty v)) (l_vals l) <> []).
    { destruct (l_vals l); [destruct Hin|discriminate]. }
    pose proof (split_on_join 47 _ Hnn Hparts) as S. rewrite E in S.
    assert (In (quote [] v) (split_on 47 slash5)).
    { rewrite S. apply (in_map (fun v => quote [] (val_or_empty v)) _ (Some v)). exact Hin. }
    assert (quote [] v = []).
    { vm_compute in H. repeat (destruct H as [H|H]; [now symmetry|]). destruct H. }
    apply quote_nil_iff in H0. contradiction.
  Qed.
End Inside.
