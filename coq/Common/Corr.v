(* Generic machinery of the correspondence check: the harness writes a cases file holding
   pairs (input, output observed on the implementation); [mism] returns the indices on which the
   model's executable definition disagrees.  Definitions only. *)
From Coq Require Import List NArith ZArith Bool String Ascii.
Import ListNotations.

Section Mism.
  Context {A B : Type} (eqb : B -> B -> bool) (f : A -> B).
  Fixpoint mism_aux (i : N) (cs : list (A * B)) : list N :=
    match cs with
    | [] => []
    | (a, b) :: r =>
        if eqb (f a) b then mism_aux (N.succ i) r else i :: mism_aux (N.succ i) r
    end.
  Definition mism (cs : list (A * B)) : list N := mism_aux 0%N cs.
End Mism.

Fixpoint list_eqb {A} (eqb : A -> A -> bool) (l1 l2 : list A) : bool :=
  match l1, l2 with
  | [], [] => true
  | x :: r1, y :: r2 => eqb x y && list_eqb eqb r1 r2
  | _, _ => false
  end.

Definition option_eqb {A} (eqb : A -> A -> bool) (o1 o2 : option A) : bool :=
  match o1, o2 with
  | None, None => true
  | Some x, Some y => eqb x y
  | _, _ => false
  end.

Definition prod_eqb {A B} (ea : A -> A -> bool) (eb : B -> B -> bool) (p q : A * B) : bool :=
  ea (fst p) (fst q) && eb (snd p) (snd q).

Definition sum_eqb {A B} (ea : A -> A -> bool) (eb : B -> B -> bool) (p q : A + B) : bool :=
  match p, q with
  | inl x, inl y => ea x y
  | inr x, inr y => eb x y
  | _, _ => false
  end.

Definition zl_eqb := list_eqb Z.eqb.
Definition zll_eqb := list_eqb zl_eqb.
Definition nl_eqb := list_eqb N.eqb.

Lemma list_eqb_refl {A} (eqb : A -> A -> bool) :
  (forall x, eqb x x = true) -> forall l, list_eqb eqb l l = true.
Proof. intros H l; induction l as [|x l IH]; simpl; [reflexivity|]. now rewrite H, IH. Qed.

Lemma list_eqb_eq {A} (eqb : A -> A -> bool) :
  (forall x y, eqb x y = true -> x = y) -> forall l1 l2, list_eqb eqb l1 l2 = true -> l1 = l2.
Proof.
  intros H l1; induction l1 as [|x l1 IH]; intros [|y l2]; simpl; try discriminate; auto.
  intros E. apply andb_prop in E as [E1 E2]. f_equal; auto.
Qed.
