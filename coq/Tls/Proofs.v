(* Proofs about the TLS decision model (property C19). *)
From Coq Require Import List ZArith Bool Lia.
From SDC Require Import Tls.Model.
Import ListNotations.

(* ------------------------------------------------------------------ twin <-> proposition *)
Lemma role_eqb_eq : forall a b, role_eqb a b = true <-> a = b.
Proof. intros [] []; simpl; split; intros; congruence. Qed.

Lemma ctx_eqb_eq : forall a b, ctx_eqb a b = true <-> a = b.
Proof. intros [] []; simpl; split; intros; congruence. Qed.

Lemma octx_is_eq : forall o c, octx_is o c = true <-> o = Some c.
Proof.
  intros [x|] c; simpl.
  - rewrite ctx_eqb_eq. split; intros; congruence.
  - split; intros; congruence.
Qed.

Lemma is_https_eq : forall s, is_https s = true <-> s = Https.
Proof. intros []; simpl; split; intros; congruence. Qed.

Lemma hs_ok_eq : forall o, hs_ok o = true <-> o = HsOk.
Proof. intros []; simpl; split; intros; congruence. Qed.

Lemma secure_b_iff : forall r e, secure_b r e = true <-> secure r e.
Proof.
  intros r e; destruct e as [k b a | r' c h | r' https c | r' ctls stls o | c ss]; simpl.
  - rewrite orb_true_iff, negb_true_iff, is_https_eq. split.
    + intros [H|H] E; [subst; destruct r; discriminate | exact H].
    + intros H. destruct (role_eqb b r) eqn:E; [right; apply H; now apply role_eqb_eq | now left].
  - rewrite orb_true_iff, negb_true_iff, octx_is_eq. split.
    + intros [H|H] E; [subst; destruct r; discriminate | exact H].
    + intros H. destruct (role_eqb r' r) eqn:E; [right; apply H; now apply role_eqb_eq | now left].
  - rewrite orb_true_iff, negb_true_iff, andb_true_iff, octx_is_eq. split.
    + intros [H|H] E; [subst; destruct r; discriminate | exact H].
    + intros H. destruct (role_eqb r' r) eqn:E; [right; apply H; now apply role_eqb_eq | now left].
  - rewrite orb_true_iff, negb_true_iff, andb_true_iff, orb_true_iff, negb_true_iff. split.
    + intros [H|[H1 H2]] E; [subst; destruct r; discriminate |].
      split; [exact H1|]. intros Eo; subst o. destruct H2 as [H2|H2]; [discriminate | exact H2].
    + intros H. destruct (role_eqb r' r) eqn:E; [right | now left].
      apply role_eqb_eq in E. destruct (H E) as [H1 H2]. split; [exact H1|].
      destruct o; simpl; auto.
  - rewrite orb_true_iff, negb_true_iff, andb_true_iff, ctx_eqb_eq. split.
    + intros [H|H] E; [subst; destruct c; discriminate | exact H].
    + intros H. destruct (role_eqb (owner_of c) r) eqn:E; [right; apply H; now apply role_eqb_eq | now left].
Qed.

Lemma forallb_secure : forall r l, forallb (secure_b r) l = true <-> Forall (secure r) l.
Proof.
  intros r l. rewrite forallb_forall, Forall_forall.
  split; intros H x Hx; apply secure_b_iff; auto.
Qed.

(* ------------------------------------------------------------------ provider *)
Lemma contact_secure_P : forall pc h stls,
  p_tls pc = true -> forallb (secure_b RP) (contact RP (p_client_ctx pc) h stls) = true.
Proof. intros pc h stls H. unfold contact, p_client_ctx. rewrite H. destruct stls; reflexivity. Qed.

Lemma pstep_secure : forall pc st i,
  p_tls pc = true -> forallb (secure_b RP) (snd (pstep pc st i)) = true.
Proof.
  intros pc st i H.
  destruct i as [| | f | f | f | f n e | f | k stls | k stls]; cbn [pstep snd].
  all: try (unfold p_xaddr, p_base, urlschema; rewrite H; reflexivity).
  - (* PStart *) rewrite forallb_app. unfold p_start, p_server_ctx, p_xaddr, p_base, urlschema. rewrite H.
    destruct (p_srv pc); reflexivity.
  - (* PRequest *) reflexivity.
  - (* PNotify *) destruct (nth_error st k); cbn [snd]; [apply contact_secure_P; exact H | reflexivity].
  - (* PEnd *) destruct (nth_error st k) as [s|]; cbn [snd]; [|reflexivity].
    rewrite forallb_app, contact_secure_P by exact H.
    unfold p_client_ctx, p_base, urlschema. rewrite H. destruct stls; reflexivity.
Qed.

Lemma prun_secure_b : forall pc ins st,
  p_tls pc = true -> forallb (secure_b RP) (prun pc st ins) = true.
Proof.
  intros pc ins; induction ins as [|i r IH]; intros st H; simpl; [reflexivity|].
  pose proof (pstep_secure pc st i H) as Hs.
  destruct (pstep pc st i) as [st' ev]; simpl in *.
  rewrite forallb_app, Hs, IH by exact H. reflexivity.
Qed.

Lemma provider_https_only : forall pc st ins,
  p_tls pc = true -> Forall (secure RP) (prun pc st ins).
Proof. intros. apply forallb_secure. now apply prun_secure_b. Qed.

(* the listening socket of an own server is wrapped with the server context; every address is https *)
Lemma provider_own_server_tls : forall pc, p_tls pc = true -> p_srv pc = Own -> p_listen_tls pc = true.
Proof. intros pc H1 H2. unfold p_listen_tls, p_start, p_server_ctx. rewrite H1, H2. reflexivity. Qed.

(* ------------------------------------------------------------------ consumer *)
(* invariant of an enforced consumer: is_ssl_connection stays True, the sink (when started) is https *)
Definition cinv (st : cstate) : Prop :=
  isc st = Some true /\ (forall s, sink st = Some s -> s = Https).

Definition sink_ok (fixed : bool) (cc : cconf) : Prop := fixed = true \/ c_srv cc <> Shared Http.

Lemma contact_secure_C : forall h stls,
  forallb (secure_b RC) (contact RC (c_client_ctx (Some true)) h stls) = true.
Proof. intros h stls. destruct stls; reflexivity. Qed.

Lemma start_sink_secure : forall fixed cc ev s,
  sink_ok fixed cc -> c_start_sink fixed cc (Some true) = (ev, inl s) ->
  s = Https /\ forallb (secure_b RC) ev = true.
Proof.
  intros fixed cc ev s Hok. unfold c_start_sink. destruct (c_srv cc) as [|sc] eqn:E; simpl.
  - intros H; inversion H; subst. split; reflexivity.
  - destruct sc; simpl.
    + destruct fixed; simpl; intros H; inversion H; subst.
      destruct Hok as [Hf|Hn]; [discriminate | exfalso; apply Hn; exact E].
    + rewrite andb_false_r. intros H; inversion H; subst. split; reflexivity.
Qed.

Lemma start_sink_err_secure : forall fixed cc ev e,
  c_start_sink fixed cc (Some true) = (ev, inr e) -> ev = [].
Proof.
  intros fixed cc ev e. unfold c_start_sink. destruct (c_srv cc) as [|sc]; simpl.
  - intros H; inversion H.
  - destruct (fixed && true && negb (is_https sc)); intros H; inversion H; reflexivity.
Qed.

Lemma flat_map_contact_secure : forall stls l,
  forallb (secure_b RC) (flat_map (fun a => contact RC (c_client_ctx (Some true)) (a_host a) stls) l) = true.
Proof.
  intros stls l; induction l as [|a l IH]; [reflexivity|].
  cbn [flat_map]. rewrite forallb_app, contact_secure_C, IH. reflexivity.
Qed.

Lemma c_start_secure : forall fixed cc x stls hosted st' ev err,
  sink_ok fixed cc -> c_start fixed cc (Some true) x stls hosted = (st', ev, err) ->
  cinv st' /\ forallb (secure_b RC) ev = true.
Proof.
  intros fixed cc x stls hosted st' ev err Hok Hstep. unfold c_start in Hstep.
  destruct stls; simpl in Hstep.
  - (* TLS port: connected *)
    destruct (c_start_sink fixed cc (Some true)) as [ev3 [sc|e]] eqn:E; inversion Hstep; subst; clear Hstep.
    + destruct (start_sink_secure _ _ _ _ Hok E) as [-> Hev3].
      split; [split; [reflexivity | simpl; intros s H; now inversion H]|].
      cbn [app forallb]. rewrite forallb_app, flat_map_contact_secure, Hev3. reflexivity.
    + apply start_sink_err_secure in E; subst ev3.
      split; [split; [reflexivity | simpl; intros s H; discriminate]|].
      cbn [app forallb]. rewrite forallb_app, flat_map_contact_secure. reflexivity.
  - (* plaintext port: ssl.SSLError, nothing else happens *)
    inversion Hstep; subst. split; [split; [reflexivity | simpl; intros s H; discriminate] | reflexivity].
Qed.

Lemma cstep_secure : forall fixed cc st i st' ev err,
  sink_ok fixed cc -> cinv st -> cstep fixed cc st i = (st', ev, err) ->
  cinv st' /\ forallb (secure_b RC) ev = true.
Proof.
  intros fixed cc st i st' ev err Hok [Hi Hs] Hstep.
  destruct st as [i0 run sk]; simpl in Hi, Hs; subst i0.
  destruct i as [x stls hosted | a stls | a stls | a stls | | x stls hosted]; simpl in Hstep.
  - (* CStart *)
    destruct run; [inversion Hstep; subst; split; [split; auto | reflexivity]|].
    exact (c_start_secure _ _ _ _ _ _ _ _ Hok Hstep).
  - (* CRequest *)
    destruct run; inversion Hstep; subst; (split; [split; auto|]); [apply contact_secure_C | reflexivity].
  - (* CSubscribe *)
    destruct run; [|inversion Hstep; subst; split; [split; auto | reflexivity]].
    destruct sk as [sc|]; [|inversion Hstep; subst; split; [split; auto | reflexivity]].
    inversion Hstep; subst; clear Hstep. split; [split; auto|].
    rewrite (Hs sc eq_refl). destruct stls; reflexivity.
  - (* CProbe *)
    destruct run; inversion Hstep; subst; (split; [split; auto|]); [apply contact_secure_C | reflexivity].
  - (* CStop: is_ssl_connection survives *)
    inversion Hstep; subst. split; [split; [reflexivity | simpl; intros s H; discriminate] | reflexivity].
  - (* CRestart: stop, then start with the surviving is_ssl_connection *)
    exact (c_start_secure _ _ _ _ _ _ _ _ Hok Hstep).
Qed.

Lemma crun_secure_b : forall fixed cc ins st,
  sink_ok fixed cc -> cinv st -> forallb (secure_b RC) (crun fixed cc st ins) = true.
Proof.
  intros fixed cc ins; induction ins as [|i r IH]; intros st Hok Hinv; simpl; [reflexivity|].
  destruct (cstep fixed cc st i) as [[st' ev] err] eqn:E.
  destruct (cstep_secure _ _ _ _ _ _ _ Hok Hinv E) as [Hinv' Hev].
  rewrite forallb_app, Hev, IH by assumption. reflexivity.
Qed.

Lemma cfinal_inv : forall fixed cc ins st,
  sink_ok fixed cc -> cinv st -> cinv (cfinal fixed cc st ins).
Proof.
  intros fixed cc ins; induction ins as [|i r IH]; intros st Hok Hinv; simpl; [exact Hinv|].
  destruct (cstep fixed cc st i) as [[st' ev] err] eqn:E. cbn [fst].
  apply IH; [exact Hok|]. exact (proj1 (cstep_secure _ _ _ _ _ _ _ Hok Hinv E)).
Qed.

Lemma cinv_init : cinv (c_init (Some true)).
Proof. split; [reflexivity | simpl; intros s H; discriminate]. Qed.

Lemma consumer_enforced_never_plain : forall fixed cc i ins,
  c_mode cc = CEnforced -> c_ctor (c_mode cc) = Some i -> sink_ok fixed cc ->
  Forall (secure RC) (crun fixed cc (c_init i) ins).
Proof.
  intros fixed cc i ins Hm Hc Hok. rewrite Hm in Hc. simpl in Hc. inversion Hc; subst i.
  apply forallb_secure. apply crun_secure_b; [exact Hok | apply cinv_init].
Qed.

(* enforced stays enforced: is_ssl_connection is True after every history, whatever stop / start / restart it holds *)
Lemma consumer_enforced_stays_enforced : forall fixed cc i ins,
  c_mode cc = CEnforced -> c_ctor (c_mode cc) = Some i -> sink_ok fixed cc ->
  isc (cfinal fixed cc (c_init i) ins) = Some true.
Proof.
  intros fixed cc i ins Hm Hc Hok. rewrite Hm in Hc. simpl in Hc. inversion Hc; subst i.
  exact (proj1 (cfinal_inv fixed cc ins _ Hok cinv_init)).
Qed.

(* the code as found: an enforced consumer on a plaintext shared server advertises http NotifyTo / EndTo *)
Definition witness_cc : cconf := mkcconf CEnforced (Shared Http) false.
Definition witness_ins : list cin :=
  [CStart (mkaddr Https HIp) true [mkaddr Https HIp]; CSubscribe (mkaddr Https HIp) true].

Lemma consumer_shared_plain_sink_refuted :
  exists cc ins, c_mode cc = CEnforced /\
    In (Adv KNotifyTo RC (mkaddr Http HIp)) (crun false cc (c_init (Some true)) ins) /\
    ~ Forall (secure RC) (crun false cc (c_init (Some true)) ins).
Proof.
  exists witness_cc, witness_ins. split; [reflexivity|]. split.
  - vm_compute. tauto.
  - intros H. apply forallb_secure in H. vm_compute in H. discriminate.
Qed.

(* check_ twins agree with the statements *)
Lemma check_C19_provider_iff : forall pc ins,
  check_C19_provider pc ins = true <-> Forall (secure RP) (prun pc [] ins).
Proof. intros. apply forallb_secure. Qed.

Lemma check_C19_consumer_iff : forall fixed cc ins i,
  c_ctor (c_mode cc) = Some i ->
  (check_C19_consumer fixed cc ins = true <-> Forall (secure RC) (crun fixed cc (c_init i) ins)).
Proof. intros fixed cc ins i H. unfold check_C19_consumer. rewrite H. apply forallb_secure. Qed.

(* ------------------------------------------------------------------ certloader *)
Lemma ca_requires_peer_cert : forall cy pw c s,
  mk_ssl_contexts CaGiven cy pw = CtxOk c s ->
  requires_peer_cert c /\ requires_peer_cert s /\
  for_client c = true /\ for_client s = false /\ own_cert c = true /\ own_cert s = true.
Proof.
  intros cy pw c s H. destruct cy, pw; simpl in H; inversion H; subst; clear H;
    unfold requires_peer_cert; simpl; repeat split; reflexivity.
Qed.

(* a NAMED CA file - present or not - never yields a context that skips peer verification *)
Lemma named_ca_verifies_or_raises : forall ca cy pw,
  ca <> CaNone -> named_ca_ok (mk_ssl_contexts ca cy pw).
Proof.
  intros ca cy pw Hn. destruct ca; [exfalso; apply Hn; reflexivity | |];
    destruct cy, pw; simpl; unfold requires_peer_cert; simpl; auto.
Qed.

Lemma named_ca_missing_raises : forall cy pw, mk_ssl_contexts CaMissing cy pw = CtxNotFound.
Proof. intros [] pw; reflexivity. Qed.

Lemma requires_peer_cert_b_iff : forall c, requires_peer_cert_b c = true <-> requires_peer_cert c.
Proof.
  intros c. unfold requires_peer_cert_b, requires_peer_cert.
  destruct (verify c); split; intros H; try discriminate; try (destruct H; discriminate); auto.
  destruct H; assumption.
Qed.

(* the whole (finite) space of arguments (3 CA cases x 3 cyphers cases x password fits or not = 18): a named CA
   file gives verifying contexts or an error, a missing file always an error; the client context never checks the
   host name; without a CA file the server context lets anonymous clients in *)
Definition all_ctx_args : list (cafile * cyfile * bool) :=
  flat_map (fun ca => flat_map (fun cy => [(ca, cy, true); (ca, cy, false)]) [CyNone; CyGiven; CyMissing])
           [CaNone; CaGiven; CaMissing].

Definition ctx_args_ok (p : cafile * cyfile * bool) : bool :=
  let '(ca, cy, pw) := p in
  match mk_ssl_contexts ca cy pw, ca with
  | CtxOk _ _, CaMissing => false
  | CtxOk c s, CaGiven => requires_peer_cert_b c && requires_peer_cert_b s && negb (check_hostname c)
                          && negb (accepts_anonymous_client s)
  | CtxOk c s, CaNone => negb (requires_peer_cert_b c) && accepts_anonymous_client s && negb (check_hostname c)
  | CtxNotFound, _ => match ca, cy with CaMissing, _ | _, CyMissing => true | _, _ => false end
  | CtxSslError, _ => negb pw
  end.

Lemma ctx_sweep : forallb ctx_args_ok all_ctx_args = true.
Proof. vm_compute. reflexivity. Qed.

(* ------------------------------------------------------------------ the scenario runner of the correspondence *)
(* events of one party are not judged when the other party's statement is evaluated *)
Lemma by_role_other_secure : forall r r' e, r <> r' -> by_role r e = true -> secure_b r' e = true.
Proof.
  intros r r' e Hn H.
  assert (F : forall x, role_eqb x r = true -> role_eqb x r' = false).
  { intros x Hx. apply role_eqb_eq in Hx; subst. destruct r, r'; try reflexivity; exfalso; apply Hn; reflexivity. }
  destruct e; simpl in *; rewrite (F _ H); reflexivity.
Qed.

Lemma forallb_impl : forall (P Q : event -> bool) l,
  (forall e, P e = true -> Q e = true) -> forallb P l = true -> forallb Q l = true.
Proof.
  intros P Q l H; induction l as [|x l IH]; simpl; [reflexivity|].
  rewrite !andb_true_iff. intros [H1 H2]. split; auto.
Qed.

Lemma contact_by_role : forall r ctx h stls, forallb (by_role r) (contact r ctx h stls) = true.
Proof. intros [] [c|] h stls; reflexivity. Qed.

Lemma pstep_by_role : forall pc st i, forallb (by_role RP) (snd (pstep pc st i)) = true.
Proof.
  intros pc st i. destruct i as [| | f | f | f | f n e | f | k stls | k stls]; cbn [pstep snd]; try reflexivity.
  - rewrite forallb_app. unfold p_start, p_server_ctx.
    destruct (p_srv pc); [destruct (p_tls pc)|]; reflexivity.
  - destruct (nth_error st k); cbn [snd]; [apply contact_by_role | reflexivity].
  - destruct (nth_error st k); cbn [snd]; [|reflexivity].
    rewrite forallb_app, contact_by_role. destruct (handshake _ _); reflexivity.
Qed.

Lemma flat_map_contact_by_role : forall ctx stls (l : list addr),
  forallb (by_role RC) (flat_map (fun a => contact RC ctx (a_host a) stls) l) = true.
Proof.
  intros ctx stls l; induction l as [|a l IH]; [reflexivity|].
  cbn [flat_map]. rewrite forallb_app, contact_by_role, IH. reflexivity.
Qed.

Lemma c_connect_by_role : forall i h stls, forallb (by_role RC) (fst (c_connect i h stls)) = true.
Proof.
  intros [b|] h stls; unfold c_connect.
  - cbn [fst]. apply contact_by_role.
  - destruct (handshake true stls); cbn [fst]; try apply contact_by_role.
Qed.

Lemma c_start_sink_by_role : forall fixed cc i, forallb (by_role RC) (fst (c_start_sink fixed cc i)) = true.
Proof.
  intros fixed cc i. unfold c_start_sink. destruct (c_srv cc) as [|s].
  - destruct (isc_true i); reflexivity.
  - destruct (fixed && isc_true i && negb (is_https s)); reflexivity.
Qed.

Lemma c_start_by_role : forall fixed cc i x stls hosted,
  forallb (by_role RC) (snd (fst (c_start fixed cc i x stls hosted))) = true.
Proof.
  intros fixed cc i x stls hosted. unfold c_start.
  pose proof (c_connect_by_role i (a_host x) stls) as H1.
  destruct (c_connect i (a_host x) stls) as [ev1 [i'|e]]; cbn [fst snd] in *; [|exact H1].
  pose proof (c_start_sink_by_role fixed cc i') as H3.
  destruct (c_start_sink fixed cc i') as [ev3 [sc|e]]; cbn [fst snd] in *;
    rewrite !forallb_app, H1, H3, flat_map_contact_by_role; reflexivity.
Qed.

Lemma cstep_by_role : forall fixed cc st i,
  forallb (by_role RC) (snd (fst (cstep fixed cc st i))) = true.
Proof.
  intros fixed cc st i. destruct i as [x stls hosted | a stls | a stls | a stls | | x stls hosted]; cbn [cstep].
  - destruct (running st); [reflexivity | apply c_start_by_role].
  - destruct (running st); cbn [fst snd]; [apply contact_by_role | reflexivity].
  - destruct (running st); [|reflexivity]. destruct (sink st); [|reflexivity]. cbn [fst snd].
    rewrite forallb_app, contact_by_role. destruct (handshake _ _); reflexivity.
  - destruct (running st); cbn [fst snd]; [apply contact_by_role | reflexivity].
  - reflexivity.
  - apply c_start_by_role.
Qed.

(* folds: a predicate that holds for the events of every step holds for the accumulated events *)
Lemma pfold_all : forall (Q : event -> bool) pc,
  (forall st i, forallb Q (snd (pstep pc st i)) = true) ->
  forall l st ev, forallb Q ev = true -> forallb Q (snd (pfold pc l (st, ev))) = true.
Proof.
  intros Q pc H l; induction l as [|i l IH]; intros st ev Hev; [exact Hev|].
  unfold pfold in *. cbn [fold_left]. pose proof (H st i) as Hs.
  destruct (pstep pc st i) as [st' e]. apply IH. rewrite forallb_app, Hev. exact Hs.
Qed.

Lemma cfold_all : forall (Q : event -> bool) (I : cstate -> Prop) fixed cc,
  (forall st i, I st -> I (fst (fst (cstep fixed cc st i))) /\
                        forallb Q (snd (fst (cstep fixed cc st i))) = true) ->
  forall l st ev, I st -> forallb Q ev = true ->
    I (fst (cfold fixed cc l (st, ev))) /\ forallb Q (snd (cfold fixed cc l (st, ev))) = true.
Proof.
  intros Q I fixed cc H l; induction l as [|i l IH]; intros st ev Hi Hev; [split; assumption|].
  unfold cfold in *. cbn [fold_left]. destruct (H st i Hi) as [Hi' Hs].
  destruct (cstep fixed cc st i) as [[st' e] err]. cbn [fst snd] in *.
  apply IH; [exact Hi'|]. rewrite forallb_app, Hev. exact Hs.
Qed.

Section Scenario.
  Variables (Q : event -> bool) (I : cstate -> Prop) (c : scase).
  Hypothesis HP : forall st i, forallb Q (snd (pstep (s_pc c) st i)) = true.
  Hypothesis HC : forall st i, I st ->
    I (fst (fst (cstep (s_fixed c) (s_cc c) st i))) /\
    forallb Q (snd (fst (cstep (s_fixed c) (s_cc c) st i))) = true.

  Lemma both_all : forall s pi ci, I (snd s) ->
    I (snd (fst (both (s_pc c) (s_fixed c) (s_cc c) s pi ci))) /\
    forallb Q (snd (both (s_pc c) (s_fixed c) (s_cc c) s pi ci)) = true.
  Proof.
    intros s pi ci Hi. unfold both. cbn [fst snd].
    destruct (cfold_all Q I _ _ HC ci (snd s) [] Hi eq_refl) as [Hi' Hc].
    split; [exact Hi'|]. rewrite forallb_app, Hc. apply pfold_all; [exact HP | reflexivity].
  Qed.

  Lemma op_step_all : forall s ptls o, I (snd s) ->
    I (snd (fst (op_step c s ptls o))) /\ forallb Q (snd (op_step c s ptls o)) = true.
  Proof.
    intros s ptls o Hi. unfold op_step.
    destruct o; try (apply both_all; exact Hi); split; try exact Hi; reflexivity.
  Qed.

  Lemma start_step_all : forall again s ptls, I (snd s) ->
    I (snd (fst (fst (start_step c again s ptls)))) /\ forallb Q (snd (fst (start_step c again s ptls))) = true.
  Proof.
    intros again s ptls Hi. unfold start_step.
    set (inp := if again then CRestart _ _ _ else CStart _ _ _).
    destruct (HC (snd s) inp Hi) as [Hi1 H1].
    destruct (cstep (s_fixed c) (s_cc c) (snd s) inp) as [[cs1 ev1] err]. cbn [fst snd] in Hi1, H1.
    set (p1 := if match err with Some ESsl | Some ENotConnected => false | _ => true end
               then pfold (s_pc c) [PGetMetadata (lib_pf (x_given c)); PHostedMetadata (lib_pf (p_base (s_pc c)))] (fst s, [])
               else (fst s, [])).
    assert (Hp1 : forallb Q (snd p1) = true).
    { unfold p1. destruct (match err with Some ESsl | Some ENotConnected => false | _ => true end);
        [apply pfold_all; [exact HP | reflexivity] | reflexivity]. }
    set (r2 := if running cs1 then op_step c (fst p1, cs1) ptls OResubscribe else ((fst p1, cs1), [])).
    assert (Hr2 : I (snd (fst r2)) /\ forallb Q (snd r2) = true).
    { unfold r2. destruct (running cs1); [apply op_step_all; exact Hi1 | split; [exact Hi1 | reflexivity]]. }
    destruct Hr2 as [Hi2 H2]. cbn [fst snd].
    split; [exact Hi2|]. rewrite !forallb_app, H1, Hp1, H2. reflexivity.
  Qed.

  Definition acc_ok (a : sacc) : Prop := I (snd (fst (fst a))) /\ forallb Q (fst (snd a)) = true.

  Lemma sys_step_all : forall a o, acc_ok a -> acc_ok (sys_step c a o).
  Proof.
    intros [[s ptls] [evs codes]] o [Hi Hev]. cbn [fst snd] in Hi, Hev. unfold sys_step.
    destruct o;
      try (destruct (running (snd s)); [|split; cbn [fst snd]; assumption];
           match goal with |- context [op_step c s ptls ?o] => destruct (op_step_all s ptls o Hi) as [Hi' He] end;
           split; cbn [fst snd];
           [exact Hi' | rewrite forallb_app, Hev; exact He]).
    - (* OStart *)
      destruct (running (snd s)); [split; cbn [fst snd]; assumption|].
      destruct (start_step_all false s ptls Hi) as [Hi' He].
      destruct (start_step c false s ptls) as [[s' ev] code]. cbn [fst snd] in *.
      split; cbn [fst snd]; [exact Hi' | rewrite forallb_app, Hev; exact He].
    - (* ORestart *)
      set (r := if running (snd s) then op_step c s ptls OUnsubscribe else (s, [])).
      assert (Hr : I (snd (fst r)) /\ forallb Q (snd r) = true).
      { unfold r. destruct (running (snd s)); [apply op_step_all; exact Hi | split; [exact Hi | reflexivity]]. }
      destruct Hr as [Hir Her].
      destruct (start_step_all true (fst r) ptls Hir) as [Hi' He].
      destruct (start_step c true (fst r) ptls) as [[s' ev] code]. cbn [fst snd] in *.
      split; cbn [fst snd]; [exact Hi' | rewrite !forallb_app, Hev, Her; exact He].
    - (* OPeerFlip *)
      split; cbn [fst snd]; assumption.
  Qed.

  Lemma sfold_all : forall l a, acc_ok a -> acc_ok (sfold c l a).
  Proof.
    induction l as [|o l IH]; intros a Ha; [exact Ha|].
    unfold sfold in *. cbn [fold_left]. apply IH. apply sys_step_all. exact Ha.
  Qed.

  Lemma run_events_all :
    (forall i0, (match s_x c with XBad => None | _ => c_ctor (c_mode (s_cc c)) end) = Some i0 -> I (c_init i0)) ->
    forallb Q (snd (run_events c)) = true.
  Proof.
    intros Hinit. unfold run_events.
    pose proof (pfold_all Q _ HP [PStart; PPublish] [] [] eq_refl) as H0.
    destruct (match s_x c with XBad => None | _ => c_ctor (c_mode (s_cc c)) end) as [i0|]; [|exact H0].
    specialize (Hinit i0 eq_refl).
    set (p0 := pfold (s_pc c) [PStart; PPublish] ([], [])) in *.
    set (r3 := sfold c (OStart :: s_ops c) (fst p0, c_init i0, p_listen_tls (s_pc c), (snd p0, []))).
    assert (Hr3 : acc_ok r3) by (apply sfold_all; split; [exact Hinit | exact H0]).
    destruct Hr3 as [Hi3 H3]. clearbody r3.
    cbn [snd]. rewrite forallb_app, H3. cbn [andb].
    destruct (running (snd (fst (fst r3))) && s_provider_first c); [apply both_all; exact Hi3|].
    destruct (running (snd (fst (fst r3)))); [apply both_all; exact Hi3 | reflexivity].
  Qed.
End Scenario.

(* the scenario that is compared with the real provider and consumer: its events respect C19 for a TLS provider *)
Lemma scenario_provider_secure : forall c,
  p_tls (s_pc c) = true -> Forall (secure RP) (snd (run_events c)).
Proof.
  intros c H. apply forallb_secure.
  apply (run_events_all (secure_b RP) (fun _ => True) c).
  - intros st i. apply pstep_secure. exact H.
  - intros st i _. split; [exact I|].
    apply (forallb_impl (by_role RC)); [intros e; apply by_role_other_secure; discriminate | apply cstep_by_role].
  - intros; exact I.
Qed.

(* ... and for an enforced consumer *)
Lemma scenario_consumer_secure : forall c,
  c_mode (s_cc c) = CEnforced -> sink_ok (s_fixed c) (s_cc c) -> Forall (secure RC) (snd (run_events c)).
Proof.
  intros c Hm Hok. apply forallb_secure.
  apply (run_events_all (secure_b RC) cinv c).
  - intros st i.
    apply (forallb_impl (by_role RP)); [intros e; apply by_role_other_secure; discriminate | apply pstep_by_role].
  - intros st i Hinv.
    destruct (cstep (s_fixed c) (s_cc c) st i) as [[st' ev] err] eqn:E. cbn [fst snd].
    exact (cstep_secure _ _ _ _ _ _ _ Hok Hinv E).
  - intros i0 H. rewrite Hm in H. destruct (s_x c); inversion H; apply cinv_init.
Qed.
