(* Proofs about the TLS decision model (property C19). *)
From Coq Require Import List ZArith Bool Lia.
From SDC Require Import Tls.Model.
Import ListNotations.

(* ------------------------------------------------------------------ twin <-> proposition *)
Lemma role_eqb_eq : forall a b, role_eqb a b = true <-> a = b.
Proof. intros [] []; simpl; split; intros; congruence. Qed.

Lemma ctx_eqb_eq : forall a b, ctx_eqb a b = true <-> a = b.
Proof. intros [] []; simpl; split; intros; congruence. Qed.

Lemma octx_is_eq : forall o c, octx_is o c = true <-> o = Some c.
Proof.
  intros [x|] c; simpl.
  - rewrite ctx_eqb_eq. split; intros; congruence.
  - split; intros; congruence.
Qed.

Lemma is_https_eq : forall s, is_https s = true <-> s = Https.
Proof. intros []; simpl; split; intros; congruence. Qed.

Lemma hs_ok_eq : forall o, hs_ok o = true <-> o = HsOk.
Proof. intros []; simpl; split; intros; congruence. Qed.

Lemma secure_b_iff : forall r e, secure_b r e = true <-> secure r e.
Proof.
  intros r e; destruct e as [k b a | r' c h | r' https c | r' ctls stls o | c ss]; simpl.
  - rewrite orb_true_iff, negb_true_iff, is_https_eq. split.
    + intros [H|H] E; [subst; destruct r; discriminate | exact H].
    + intros H. destruct (role_eqb b r) eqn:E; [right; apply H; now apply role_eqb_eq | now left].
  - rewrite orb_true_iff, negb_true_iff, octx_is_eq. split.
    + intros [H|H] E; [subst; destruct r; discriminate | exact H].
    + intros H. destruct (role_eqb r' r) eqn:E; [right; apply H; now apply role_eqb_eq | now left].
  - rewrite orb_true_iff, negb_true_iff, andb_true_iff, octx_is_eq. split.
    + intros [H|H] E; [subst; destruct r; discriminate | exact H].
    + intros H. destruct (role_eqb r' r) eqn:E; [right; apply H; now apply role_eqb_eq | now left].
  - rewrite orb_true_iff, negb_true_iff, andb_true_iff, orb_true_iff, negb_true_iff. split.
    + intros [H|[H1 H2]] E; [subst; destruct r; discriminate |].
      split; [exact H1|]. intros Eo; subst o. destruct H2 as [H2|H2]; [discriminate | exact H2].
    + intros H. destruct (role_eqb r' r) eqn:E; [right | now left].
      apply role_eqb_eq in E. destruct (H E) as [H1 H2]. split; [exact H1|].
      destruct o; simpl; auto.
  - rewrite orb_true_iff, negb_true_iff, andb_true_iff, ctx_eqb_eq. split.
    + intros [H|H] E; [subst; destruct c; discriminate | exact H].
    + intros H. destruct (role_eqb (owner_of c) r) eqn:E; [right; apply H; now apply role_eqb_eq | now left].
Qed.

Lemma forallb_secure : forall r l, forallb (secure_b r) l = true <-> Forall (secure r) l.
Proof.
  intros r l. rewrite forallb_forall, Forall_forall.
  split; intros H x Hx; apply secure_b_iff; auto.
Qed.

(* ------------------------------------------------------------------ provider *)
Lemma contact_secure_P : forall pc h stls,
  p_tls pc = true -> forallb (secure_b RP) (contact RP (p_client_ctx pc) h stls) = true.
Proof. intros pc h stls H. unfold contact, p_client_ctx. rewrite H. destruct stls; reflexivity. Qed.

Lemma pstep_secure : forall pc st i,
  p_tls pc = true -> forallb (secure_b RP) (snd (pstep pc st i)) = true.
Proof.
  intros pc st i H.
  destruct i as [| | | | | n e | | k stls | k stls]; cbn [pstep snd].
  all: try (unfold p_xaddr, p_base, urlschema; rewrite H; reflexivity).
  - (* PStart *) rewrite forallb_app. unfold p_start, p_server_ctx, p_xaddr, p_base, urlschema. rewrite H.
    destruct (p_srv pc); reflexivity.
  - (* PRequest *) reflexivity.
  - (* PNotify *) destruct (nth_error st k); cbn [snd]; [apply contact_secure_P; exact H | reflexivity].
  - (* PEnd *) destruct (nth_error st k) as [s|]; cbn [snd]; [|reflexivity].
    rewrite forallb_app, contact_secure_P by exact H.
    unfold p_client_ctx, p_base, urlschema. rewrite H. destruct stls; reflexivity.
Qed.

Lemma prun_secure_b : forall pc ins st,
  p_tls pc = true -> forallb (secure_b RP) (prun pc st ins) = true.
Proof.
  intros pc ins; induction ins as [|i r IH]; intros st H; simpl; [reflexivity|].
  pose proof (pstep_secure pc st i H) as Hs.
  destruct (pstep pc st i) as [st' ev]; simpl in *.
  rewrite forallb_app, Hs, IH by exact H. reflexivity.
Qed.

Lemma provider_https_only : forall pc st ins,
  p_tls pc = true -> Forall (secure RP) (prun pc st ins).
Proof. intros. apply forallb_secure. now apply prun_secure_b. Qed.

(* the listening socket of an own server is wrapped with the server context; every address is https *)
Lemma provider_own_server_tls : forall pc, p_tls pc = true -> p_srv pc = Own -> p_listen_tls pc = true.
Proof. intros pc H1 H2. unfold p_listen_tls, p_start, p_server_ctx. rewrite H1, H2. reflexivity. Qed.

(* ------------------------------------------------------------------ consumer *)
(* invariant of an enforced consumer: is_ssl_connection stays True, the sink (when started) is https *)
Definition cinv (st : cstate) : Prop :=
  isc st = Some true /\ (forall s, sink st = Some s -> s = Https).

Definition sink_ok (fixed : bool) (cc : cconf) : Prop := fixed = true \/ c_srv cc <> Shared Http.

Lemma contact_secure_C : forall h stls,
  forallb (secure_b RC) (contact RC (c_client_ctx (Some true)) h stls) = true.
Proof. intros h stls. destruct stls; reflexivity. Qed.

Lemma start_sink_secure : forall fixed cc ev s,
  sink_ok fixed cc -> c_start_sink fixed cc (Some true) = (ev, inl s) ->
  s = Https /\ forallb (secure_b RC) ev = true.
Proof.
  intros fixed cc ev s Hok. unfold c_start_sink. destruct (c_srv cc) as [|sc] eqn:E; simpl.
  - intros H; inversion H; subst. split; reflexivity.
  - destruct sc; simpl.
    + destruct fixed; simpl; intros H; inversion H; subst.
      destruct Hok as [Hf|Hn]; [discriminate | exfalso; apply Hn; exact E].
    + rewrite andb_false_r. intros H; inversion H; subst. split; reflexivity.
Qed.

Lemma start_sink_err_secure : forall fixed cc ev e,
  c_start_sink fixed cc (Some true) = (ev, inr e) -> ev = [].
Proof.
  intros fixed cc ev e. unfold c_start_sink. destruct (c_srv cc) as [|sc]; simpl.
  - intros H; inversion H.
  - destruct (fixed && true && negb (is_https sc)); intros H; inversion H; reflexivity.
Qed.

Lemma flat_map_contact_secure : forall stls l,
  forallb (secure_b RC) (flat_map (fun a => contact RC (c_client_ctx (Some true)) (a_host a) stls) l) = true.
Proof.
  intros stls l; induction l as [|a l IH]; [reflexivity|].
  cbn [flat_map]. rewrite forallb_app, contact_secure_C, IH. reflexivity.
Qed.

Lemma cstep_secure : forall fixed cc st i st' ev err,
  sink_ok fixed cc -> cinv st -> cstep fixed cc st i = (st', ev, err) ->
  cinv st' /\ forallb (secure_b RC) ev = true.
Proof.
  intros fixed cc st i st' ev err Hok [Hi Hs] Hstep.
  destruct st as [i0 run sk]; simpl in Hi, Hs; subst i0.
  destruct i as [x stls hosted | a stls | a stls | a stls |]; simpl in Hstep.
  - (* CStart *)
    destruct run; [inversion Hstep; subst; split; [split; auto | reflexivity]|].
    destruct stls; simpl in Hstep.
    + (* TLS port: connected *)
      destruct (c_start_sink fixed cc (Some true)) as [ev3 [sc|e]] eqn:E; inversion Hstep; subst; clear Hstep.
      * destruct (start_sink_secure _ _ _ _ Hok E) as [-> Hev3].
        split; [split; [reflexivity | simpl; intros s H; now inversion H]|].
        cbn [app forallb]. rewrite forallb_app, flat_map_contact_secure, Hev3. reflexivity.
      * apply start_sink_err_secure in E; subst ev3.
        split; [split; [reflexivity | simpl; intros s H; discriminate]|].
        cbn [app forallb]. rewrite forallb_app, flat_map_contact_secure. reflexivity.
    + (* plaintext port: ssl.SSLError, nothing else happens *)
      inversion Hstep; subst. split; [split; auto | reflexivity].
  - (* CRequest *)
    destruct run; inversion Hstep; subst; (split; [split; auto|]); [apply contact_secure_C | reflexivity].
  - (* CSubscribe *)
    destruct run; [|inversion Hstep; subst; split; [split; auto | reflexivity]].
    destruct sk as [sc|]; [|inversion Hstep; subst; split; [split; auto | reflexivity]].
    inversion Hstep; subst; clear Hstep. split; [split; auto|].
    rewrite (Hs sc eq_refl). destruct stls; reflexivity.
  - (* CProbe *)
    destruct run; inversion Hstep; subst; (split; [split; auto|]); [apply contact_secure_C | reflexivity].
  - (* CStop *)
    inversion Hstep; subst. split; [split; [reflexivity | simpl; intros s H; discriminate] | reflexivity].
Qed.

Lemma crun_secure_b : forall fixed cc ins st,
  sink_ok fixed cc -> cinv st -> forallb (secure_b RC) (crun fixed cc st ins) = true.
Proof.
  intros fixed cc ins; induction ins as [|i r IH]; intros st Hok Hinv; simpl; [reflexivity|].
  destruct (cstep fixed cc st i) as [[st' ev] err] eqn:E.
  destruct (cstep_secure _ _ _ _ _ _ _ Hok Hinv E) as [Hinv' Hev].
  rewrite forallb_app, Hev, IH by assumption. reflexivity.
Qed.

Lemma cinv_init : cinv (c_init (Some true)).
Proof. split; [reflexivity | simpl; intros s H; discriminate]. Qed.

Lemma consumer_enforced_never_plain : forall fixed cc i ins,
  c_mode cc = CEnforced -> c_ctor (c_mode cc) = Some i -> sink_ok fixed cc ->
  Forall (secure RC) (crun fixed cc (c_init i) ins).
Proof.
  intros fixed cc i ins Hm Hc Hok. rewrite Hm in Hc. simpl in Hc. inversion Hc; subst i.
  apply forallb_secure. apply crun_secure_b; [exact Hok | apply cinv_init].
Qed.

(* the code as found: an enforced consumer on a plaintext shared server advertises http NotifyTo / EndTo *)
Definition witness_cc : cconf := mkcconf CEnforced (Shared Http) false.
Definition witness_ins : list cin :=
  [CStart (mkaddr Https HIp) true [mkaddr Https HIp]; CSubscribe (mkaddr Https HIp) true].

Lemma consumer_shared_plain_sink_refuted :
  exists cc ins, c_mode cc = CEnforced /\
    In (Adv KNotifyTo RC (mkaddr Http HIp)) (crun false cc (c_init (Some true)) ins) /\
    ~ Forall (secure RC) (crun false cc (c_init (Some true)) ins).
Proof.
  exists witness_cc, witness_ins. split; [reflexivity|]. split.
  - vm_compute. tauto.
  - intros H. apply forallb_secure in H. vm_compute in H. discriminate.
Qed.

(* check_ twins agree with the statements *)
Lemma check_C19_provider_iff : forall pc ins,
  check_C19_provider pc ins = true <-> Forall (secure RP) (prun pc [] ins).
Proof. intros. apply forallb_secure. Qed.

Lemma check_C19_consumer_iff : forall fixed cc ins i,
  c_ctor (c_mode cc) = Some i ->
  (check_C19_consumer fixed cc ins = true <-> Forall (secure RC) (crun fixed cc (c_init i) ins)).
Proof. intros fixed cc ins i H. unfold check_C19_consumer. rewrite H. apply forallb_secure. Qed.

(* ------------------------------------------------------------------ certloader *)
Lemma ca_requires_peer_cert : forall cy c s,
  mk_ssl_contexts CaGiven cy = Some (c, s) ->
  requires_peer_cert c /\ requires_peer_cert s /\
  for_client c = true /\ for_client s = false /\ own_cert c = true /\ own_cert s = true.
Proof.
  intros cy c s H. destruct cy; simpl in H; inversion H; subst; clear H;
    unfold requires_peer_cert; simpl; repeat split; reflexivity.
Qed.

Lemma requires_peer_cert_b_iff : forall c, requires_peer_cert_b c = true <-> requires_peer_cert c.
Proof.
  intros c. unfold requires_peer_cert_b, requires_peer_cert.
  destruct (verify c); split; intros H; try discriminate; try (destruct H; discriminate); auto.
  destruct H; assumption.
Qed.

(* the whole (finite) space of arguments: contexts exist unless the CA file is missing; the client context never
   checks the host name; without a CA file the server context does not ask for a client certificate *)
Definition all_ctx_args : list (cafile * bool) :=
  [(CaNone, false); (CaNone, true); (CaGiven, false); (CaGiven, true); (CaMissing, false); (CaMissing, true)].

Definition ctx_args_ok (p : cafile * bool) : bool :=
  match mk_ssl_contexts (fst p) (snd p), fst p with
  | None, CaMissing => true
  | Some (c, s), CaGiven => requires_peer_cert_b c && requires_peer_cert_b s && negb (check_hostname c)
  | Some (c, s), CaNone => negb (requires_peer_cert_b c) && negb (requires_peer_cert_b s) && negb (check_hostname c)
  | _, _ => false
  end.

Lemma ctx_sweep : forallb ctx_args_ok all_ctx_args = true.
Proof. vm_compute. reflexivity. Qed.
