(* Executable model of the TLS decision logic of sdc11073 (property C19).  Definitions only.

   What is modelled (file / function of /repo/src/sdc11073 in brackets):
     - url scheme of the provider derived from the presence of the TLS container
       [provider/providerimpl.py SdcProvider.__init__ (_urlschema), get_xaddrs, _start_services (base_urls)]
     - addresses built from base_urls [provider/dpwshostedservice.py mk_dpws_hosted_instance, _on_get_metadata;
       provider/subscriptionmgr_base.py _mk_subscribe_response_message, send_notification_end_message]
     - context handed to every SOAP client of the provider [providerimpl._mk_soap_client via pysoap/soapclientpool.py]
     - consumer connection policy [consumer/consumerimpl.py SdcConsumer.__init__ (is_ssl_connection), _connect,
       get_soap_client, _mk_soap_client, _start_event_sink, base_url; consumer/subscription.py NotifyTo / EndTo]
     - kind of connection built from the ssl_context argument [pysoap/soapclient.py SoapClient._mk_http_connection]
     - listening socket wrapped / base_url scheme of an own HTTP server [httpserver/httpserverimpl.py
       HttpServerThreadBase.run]
     - flags of the contexts built by certloader.mk_ssl_contexts
   What is NOT modelled: the TLS handshake.  It is abstracted by [handshake]: a TLS client meeting a plaintext port
   gets ssl.SSLError on connect, a plaintext client meeting a TLS port has its first request reset, equal kinds
   succeed.  The TLS-ness of the peer's port is an INPUT of every step (chosen by the environment).

   [fixed] selects the behaviour of SdcConsumer._start_event_sink for an application-supplied (shared) HTTP server:
     fixed = false : the code as found - the shared server is used whatever its scheme (NotifyTo/EndTo take over an
                     http scheme even when the consumer enforces TLS)
     fixed = true  : repaired code (fixes/C19_shared_sink_scheme.diff) - a consumer whose provider connection is TLS
                     refuses a shared server whose base_url is not https *)
From Coq Require Import List ZArith Bool.
Import ListNotations.
Open Scope Z_scope.

Inductive scheme := Http | Https.
Inductive hostk := HIp | HAlt | HOther.              (* numerical address | alternative_hostname | a netloc that only
                                                        a peer brought up (proxy, NAT, foreign stack) *)
Inductive role := RP | RC.                           (* provider | consumer *)
Inductive ctxid := PClient | PServer | CClient | CServer.   (* the four SSLContext objects of the two containers *)
Inductive cmode := CNone | COptional | CEnforced | CEnforcedNoCtx.
  (* ssl_context_container=None | container, force_ssl_connect=False | container, force_ssl_connect=True |
     no container but force_ssl_connect=True (rejected by the constructor) *)
Inductive srv := Own | Shared (s : scheme).          (* own HttpServerThreadBase | shared_http_server=... *)
Inductive akind := KXaddr | KWsdXaddr | KBaseUrl | KProbeXaddr | KHosted | KWsdl | KSubMgr | KSubMgrEnd
                 | KNotifyTo | KEndTo.
Inductive hs := HsOk | HsSslError | HsReset.

Record addr := mkaddr { a_scheme : scheme; a_host : hostk }.

Inductive event :=
| Adv (k : akind) (by_ : role) (a : addr)            (* address placed in a message / handed to discovery *)
| Create (r : role) (ctx : option ctxid) (h : hostk) (* SOAP client constructed with this ssl_context argument *)
| Conn (r : role) (https : bool) (ctx : option ctxid)  (* connection object built by _mk_http_connection *)
| Attempt (r : role) (ctls stls : bool) (o : hs)     (* connection opened: client kind, port kind, outcome *)
| Wrap (ctx : ctxid) (server_side : bool).           (* own HTTP server wrapped its listening socket *)

Definition is_https (s : scheme) : bool := match s with Https => true | Http => false end.
Definition flip (s : scheme) : scheme := match s with Https => Http | Http => Https end.

(* environment: outcome of opening a connection *)
Definition handshake (ctls stls : bool) : hs :=
  if ctls then (if stls then HsOk else HsSslError) else (if stls then HsReset else HsOk).

(* pysoap/soapclient.py SoapClient._mk_http_connection: HTTPSConnection(context=ssl_context) iff ssl_context is
   not None *)
Definition mk_http_connection (r : role) (ctx : option ctxid) : event :=
  match ctx with Some c => Conn r true (Some c) | None => Conn r false None end.
Definition conn_tls (ctx : option ctxid) : bool := match ctx with Some _ => true | None => false end.

(* one use of a SOAP client for host [h] against a port of kind [stls] *)
Definition contact (r : role) (ctx : option ctxid) (h : hostk) (stls : bool) : list event :=
  [Create r ctx h; mk_http_connection r ctx; Attempt r (conn_tls ctx) stls (handshake (conn_tls ctx) stls)].

(* httpserver/httpserverimpl.py HttpServerThreadBase.run: wrap_socket(server_side=True) and 'https' base_url iff
   an ssl context was given *)
Definition httpd_run (ctx : option ctxid) : list event * scheme :=
  match ctx with Some c => ([Wrap c true], Https) | None => ([], Http) end.

(* ------------------------------------------------------------------ provider *)
Record pconf := mkpconf { p_tls : bool; p_srv : srv; p_alt : bool }.

Definition urlschema (pc : pconf) : scheme := if p_tls pc then Https else Http.
Definition p_client_ctx (pc : pconf) : option ctxid := if p_tls pc then Some PClient else None.
Definition p_server_ctx (pc : pconf) : option ctxid := if p_tls pc then Some PServer else None.
Definition p_xaddr (pc : pconf) : addr := mkaddr (urlschema pc) (if p_alt pc then HAlt else HIp).
Definition p_base (pc : pconf) : addr := mkaddr (urlschema pc) HIp.

(* _start_services: the shared server is taken as it is; an own server gets the server context *)
Definition p_start (pc : pconf) : list event * bool (* port is TLS *) :=
  match p_srv pc with
  | Own => let (ev, s) := httpd_run (p_server_ctx pc) in (ev, is_https s)
  | Shared s => ([], is_https s)
  end.
Definition p_listen_tls (pc : pconf) : bool := snd (p_start pc).

Record psub := mkpsub { notify_to : addr; end_to : option addr }.

(* the address-like fields of a request that the PEER chooses: wsa:To (None = absent / not a transport address),
   whether its path is the path of the called service, wsa:ReplyTo, wsa:From, the netloc in the Host header, an URL
   inside reference parameters.  The schemes are compared case-insensitively (HtTp = Http).  Nothing ties them to
   the transport that was really used; the provider reads them (header_info_block, http_header) - the model, like
   the code, lets none of them into an address that the provider advertises. *)
Record peerf := mkpeerf { pf_to : option addr; pf_to_is_service_path : bool; pf_reply_to : option addr;
                          pf_from : option addr; pf_host : hostk; pf_refparam : option addr }.

(* what the library's own consumer sends: wsa:To = the address it contacts, nothing else *)
Definition lib_pf (a : addr) : peerf := mkpeerf (Some a) true None None (a_host a) None.

Inductive pin :=
| PStart                                   (* start_all: own / shared server; get_xaddrs, base_urls *)
| PPublish                                 (* publish(): x_addrs handed to WS-Discovery *)
| PProbe (f : peerf)                       (* directed Probe -> ProbeMatches/XAddrs *)
| PGetMetadata (f : peerf)                 (* TransferGet on the device: hosted endpoint references *)
| PHostedMetadata (f : peerf)              (* GetMetadata on a hosted service: endpoint reference + wsdl location *)
| PSubscribe (f : peerf) (n : addr) (e : option addr)
                                           (* Subscribe: NotifyTo / EndTo are chosen by the peer - any scheme *)
| PRequest (f : peerf)                     (* any other request: Renew, GetStatus, Unsubscribe, Get.., Set.. *)
| PNotify (i : nat) (peer_tls : bool)      (* a report for subscription i; the sink's port is TLS or not *)
| PEnd (i : nat) (peer_tls : bool).        (* SubscriptionEnd for subscription i *)

Definition pstep (pc : pconf) (st : list psub) (i : pin) : list psub * list event :=
  match i with
  | PStart => (st, fst (p_start pc) ++ [Adv KXaddr RP (p_xaddr pc); Adv KBaseUrl RP (p_base pc)])
  | PPublish => (st, [Adv KWsdXaddr RP (p_xaddr pc)])
  | PProbe _ => (st, [Adv KProbeXaddr RP (p_xaddr pc)])
  | PGetMetadata _ => (st, [Adv KHosted RP (p_base pc)])
  | PHostedMetadata _ =>      (* the wsdl location is looked up by the Host header among base_urls, default base_urls[0] *)
      (st, [Adv KHosted RP (p_base pc); Adv KWsdl RP (p_base pc)])
  | PSubscribe _ n e =>       (* manager address = base_urls[0] scheme + netloc + consumed path, never wsa:To *)
      (st ++ [mkpsub n e], [Adv KSubMgr RP (p_base pc)])
  | PRequest _ => (st, [])
  | PNotify k stls =>
      match nth_error st k with
      | Some s => (st, contact RP (p_client_ctx pc) (a_host (notify_to s)) stls)   (* scheme of NotifyTo is ignored *)
      | None => (st, [])
      end
  | PEnd k stls =>
      match nth_error st k with
      | Some s =>
          let target := match end_to s with Some a => a | None => notify_to s end in
          let ctx := p_client_ctx pc in
          (st, contact RP ctx (a_host target) stls ++
               match handshake (conn_tls ctx) stls with HsOk => [Adv KSubMgrEnd RP (p_base pc)] | _ => [] end)
      | None => (st, [])
      end
  end.

Fixpoint prun (pc : pconf) (st : list psub) (ins : list pin) : list event :=
  match ins with
  | [] => []
  | i :: r => let (st', ev) := pstep pc st i in ev ++ prun pc st' r
  end.

(* ------------------------------------------------------------------ consumer *)
Record cconf := mkcconf { c_mode : cmode; c_srv : srv; c_alt : bool }.

Inductive cerr := ESsl | ENotConnected | EUsage.

(* SdcConsumer.__init__: None = ValueError *)
Definition c_ctor (m : cmode) : option (option bool) :=
  match m with
  | CEnforcedNoCtx => None
  | CEnforced => Some (Some true)
  | CNone => Some (Some false)
  | COptional => Some None
  end.

Record cstate := mkcstate { isc : option bool; running : bool; sink : option scheme }.

Definition use_ssl (i : option bool) : bool := match i with Some false => false | _ => true end.
(* _mk_soap_client: client_context if use_ssl else None (use_ssl without a container is unreachable: the
   constructor maps "no container" to is_ssl_connection = False) *)
Definition c_client_ctx (i : option bool) : option ctxid := if use_ssl i then Some CClient else None.
Definition isc_true (i : option bool) : bool := match i with Some true => true | _ => false end.

(* _connect *)
Definition c_connect (i : option bool) (h : hostk) (stls : bool) : list event * (option bool + cerr) :=
  match i with
  | Some b =>
      (contact RC (c_client_ctx i) h stls,
       match handshake b stls with HsOk => inl i | HsSslError => inr ESsl | HsReset => inr ENotConnected end)
  | None =>
      match handshake true stls with
      | HsSslError =>     (* except ssl.SSLError: forget the client, is_ssl_connection = False, connect again *)
          (contact RC (c_client_ctx None) h stls ++ contact RC (c_client_ctx (Some false)) h stls,
           match handshake false stls with HsOk => inl (Some false) | HsSslError => inr ESsl
                                      | HsReset => inr ENotConnected end)
      | _ => (contact RC (c_client_ctx None) h stls, inl (Some true))
      end
  end.

(* _start_event_sink + base_url *)
Definition c_start_sink (fixed : bool) (cc : cconf) (i : option bool) : list event * (scheme + cerr) :=
  match c_srv cc with
  | Own => let (ev, s) := httpd_run (if isc_true i then Some CServer else None) in (ev, inl s)
  | Shared s => if fixed && isc_true i && negb (is_https s) then ([], inr EUsage) else ([], inl s)
  end.
Definition c_host (cc : cconf) : hostk := if c_alt cc then HAlt else HIp.
Definition c_listen_tls (cc : cconf) (i : option bool) : bool :=
  match c_srv cc with Own => isc_true i | Shared s => is_https s end.

Inductive cin :=
| CStart (x : addr) (peer_tls : bool) (hosted : list addr)
    (* start_all for device address x; the hosted endpoint references are whatever the peer answered *)
| CRequest (a : addr) (peer_tls : bool)
    (* a request to an address taken from a received message (hosted service, subscription manager): GetMdib,
       operation invocation, Renew, GetStatus, Unsubscribe *)
| CSubscribe (a : addr) (peer_tls : bool)   (* Subscribe at hosted service a: places NotifyTo / EndTo *)
| CProbe (x : addr) (peer_tls : bool)
| CStop                                     (* stop_all (the Unsubscribe requests are separate CRequest inputs) *)
| CRestart (x : addr) (peer_tls : bool) (hosted : list addr).
    (* restart(): stop_all followed by start_all with the saved parameters; the peer found at the device address
       may be of a different kind than at the first start *)

(* stop_all: threads, SOAP clients and the event sink go away.  is_ssl_connection is NOT touched: it is the only
   memory of force_ssl_connect=True (the constructor argument is not stored), so an enforced consumer stays
   enforced across stop / start. *)
Definition c_stop (st : cstate) : cstate := mkcstate (isc st) false None.

(* start_all on a stopped consumer whose is_ssl_connection is i *)
Definition c_start (fixed : bool) (cc : cconf) (i : option bool) (x : addr) (stls : bool) (hosted : list addr)
  : cstate * list event * option cerr :=
  let (ev1, r) := c_connect i (a_host x) stls in
  match r with
  | inr e => (mkcstate i false None, ev1, Some e)     (* is_ssl_connection keeps its value on failure paths *)
  | inl i' =>
      let ev2 := flat_map (fun a => contact RC (c_client_ctx i') (a_host a) stls) hosted in
      let (ev3, s) := c_start_sink fixed cc i' in
      match s with
      | inr e => (mkcstate i' false None, ev1 ++ ev2 ++ ev3, Some e)
      | inl sc => (mkcstate i' true (Some sc), ev1 ++ ev2 ++ ev3, None)
      end
  end.

Definition cstep (fixed : bool) (cc : cconf) (st : cstate) (i : cin) : cstate * list event * option cerr :=
  match i with
  | CStart x stls hosted =>
      if running st then (st, [], None) else c_start fixed cc (isc st) x stls hosted
  | CRestart x stls hosted => c_start fixed cc (isc (c_stop st)) x stls hosted
  | CRequest a stls =>
      if running st then (st, contact RC (c_client_ctx (isc st)) (a_host a) stls, None) else (st, [], None)
  | CProbe a stls =>
      if running st then (st, contact RC (c_client_ctx (isc st)) (a_host a) stls, None) else (st, [], None)
  | CSubscribe a stls =>
      match running st, sink st with
      | true, Some sc =>
          (st, contact RC (c_client_ctx (isc st)) (a_host a) stls ++
               match handshake (use_ssl (isc st)) stls with
               | HsOk => [Adv KNotifyTo RC (mkaddr sc (c_host cc)); Adv KEndTo RC (mkaddr sc (c_host cc))]
               | _ => []
               end, None)
      | _, _ => (st, [], None)
      end
  | CStop => (c_stop st, [], None)
  end.

Fixpoint crun (fixed : bool) (cc : cconf) (st : cstate) (ins : list cin) : list event :=
  match ins with
  | [] => []
  | i :: r => let '(st', ev, _) := cstep fixed cc st i in ev ++ crun fixed cc st' r
  end.

Definition c_init (i : option bool) : cstate := mkcstate i false None.

(* consumer state after a history *)
Fixpoint cfinal (fixed : bool) (cc : cconf) (st : cstate) (ins : list cin) : cstate :=
  match ins with
  | [] => st
  | i :: r => cfinal fixed cc (fst (fst (cstep fixed cc st i))) r
  end.

(* ------------------------------------------------------------------ the property on events (boolean twins) *)
Definition ctx_eqb (a b : ctxid) : bool :=
  match a, b with
  | PClient, PClient | PServer, PServer | CClient, CClient | CServer, CServer => true
  | _, _ => false
  end.
Definition octx_is (o : option ctxid) (c : ctxid) : bool :=
  match o with Some x => ctx_eqb x c | None => false end.
Definition role_eqb (a b : role) : bool := match a, b with RP, RP | RC, RC => true | _, _ => false end.
Definition hs_ok (o : hs) : bool := match o with HsOk => true | _ => false end.

Definition client_ctx_of (r : role) : ctxid := match r with RP => PClient | RC => CClient end.
Definition server_ctx_of (r : role) : ctxid := match r with RP => PServer | RC => CServer end.
Definition owner_of (c : ctxid) : role := match c with PClient | PServer => RP | CClient | CServer => RC end.

(* an event of party [r] respects C19: advertised addresses are https, every client is built with r's CLIENT
   context and opens an HTTPSConnection with it, no exchange succeeds with a plaintext port, an own server wraps
   its socket with r's SERVER context.  Events of the other party are not judged. *)
Definition secure_b (r : role) (e : event) : bool :=
  match e with
  | Adv _ by_ a => negb (role_eqb by_ r) || is_https (a_scheme a)
  | Create r' ctx _ => negb (role_eqb r' r) || octx_is ctx (client_ctx_of r)
  | Conn r' https ctx => negb (role_eqb r' r) || (https && octx_is ctx (client_ctx_of r))
  | Attempt r' ctls stls o => negb (role_eqb r' r) || (ctls && (negb (hs_ok o) || stls))
  | Wrap c ss => negb (role_eqb (owner_of c) r) || (ctx_eqb c (server_ctx_of r) && ss)
  end.

(* the party an event belongs to *)
Definition by_role (r : role) (e : event) : bool :=
  match e with
  | Adv _ b _ => role_eqb b r
  | Create r' _ _ | Conn r' _ _ | Attempt r' _ _ _ => role_eqb r' r
  | Wrap c _ => role_eqb (owner_of c) r
  end.

(* the same statement as a proposition (Proofs.v: secure_b r e = true <-> secure r e) *)
Definition secure (r : role) (e : event) : Prop :=
  match e with
  | Adv _ by_ a => by_ = r -> a_scheme a = Https
  | Create r' ctx _ => r' = r -> ctx = Some (client_ctx_of r)
  | Conn r' https ctx => r' = r -> https = true /\ ctx = Some (client_ctx_of r)
  | Attempt r' ctls stls o => r' = r -> ctls = true /\ (o = HsOk -> stls = true)
  | Wrap c ss => owner_of c = r -> c = server_ctx_of r /\ ss = true
  end.

Definition check_C19_provider (pc : pconf) (ins : list pin) : bool := forallb (secure_b RP) (prun pc [] ins).
Definition check_C19_consumer (fixed : bool) (cc : cconf) (ins : list cin) : bool :=
  match c_ctor (c_mode cc) with
  | Some i => forallb (secure_b RC) (crun fixed cc (c_init i) ins)
  | None => true
  end.

(* ------------------------------------------------------------------ certloader.mk_ssl_contexts *)
Inductive vmode := CertNone | CertOptional | CertRequired.
Record sslctx := mksslctx { for_client : bool; verify : vmode; check_hostname : bool; ca_loaded : bool;
                            own_cert : bool; ciphers_set : bool }.
(* ssl.SSLContext(PROTOCOL_TLS_CLIENT) / ssl.SSLContext(PROTOCOL_TLS_SERVER) as created by Python's ssl module *)
Definition new_ctx (client : bool) : sslctx :=
  mksslctx client (if client then CertRequired else CertNone) client false false false.

Inductive cafile := CaNone | CaGiven | CaMissing.
Definition set_check_hostname (b : bool) (c : sslctx) :=
  mksslctx (for_client c) (verify c) b (ca_loaded c) (own_cert c) (ciphers_set c).
Definition load_cert_chain (c : sslctx) :=
  mksslctx (for_client c) (verify c) (check_hostname c) (ca_loaded c) true (ciphers_set c).
Definition set_ciphers (c : sslctx) :=
  mksslctx (for_client c) (verify c) (check_hostname c) (ca_loaded c) (own_cert c) true.
Definition set_verify (v : vmode) (c : sslctx) :=
  mksslctx (for_client c) v (check_hostname c) (ca_loaded c) (own_cert c) (ciphers_set c).
Definition load_verify_locations (c : sslctx) :=
  mksslctx (for_client c) (verify c) (check_hostname c) true (own_cert c) (ciphers_set c).
Definition when {A} (b : bool) (f : A -> A) (x : A) : A := if b then f x else x.

(* argument space of mk_ssl_contexts / mk_ssl_contexts_from_folder (the key and certificate files exist in every case
   considered):
     CA file      not named | named and present | NAMED BUT MISSING
     cyphers      none | given (file present) | cyphers file named but missing (folder loader only)
     password     fits the key (or the key is not encrypted and none is given) | wrong
   Order in the code: the cyphers file is read first (FileNotFoundError), then key / certificate / CA paths are checked
   (FileNotFoundError for a named CA file that does not exist - it is never treated as "not named"), then
   load_cert_chain (ssl.SSLError for a wrong password). *)
Inductive cyfile := CyNone | CyGiven | CyMissing.
Inductive sslres := CtxOk (client server : sslctx) | CtxNotFound | CtxSslError.

Definition mk_ssl_contexts (ca : cafile) (cy : cyfile) (pw_ok : bool) : sslres :=
  match cy, ca with
  | CyMissing, _ => CtxNotFound
  | _, CaMissing => CtxNotFound
  | _, _ =>
      if negb pw_ok then CtxSslError else
      let has_ca := match ca with CaGiven => true | _ => false end in
      let cyphers := match cy with CyGiven => true | _ => false end in
      let client :=
        when has_ca load_verify_locations (when has_ca (set_verify CertRequired)
          (when cyphers set_ciphers (load_cert_chain (set_check_hostname false (new_ctx true))))) in
      let server :=
        when has_ca load_verify_locations (when has_ca (set_verify CertRequired)
          (when cyphers set_ciphers (load_cert_chain (new_ctx false)))) in
      CtxOk client server
  end.

Definition requires_peer_cert_b (c : sslctx) : bool :=
  match verify c with CertRequired => ca_loaded c | _ => false end.
Definition requires_peer_cert (c : sslctx) : Prop := verify c = CertRequired /\ ca_loaded c = true.

(* the caller NAMED a CA file: either both contexts require and verify the peer certificate, or the call raised *)
Definition named_ca_ok (r : sslres) : Prop :=
  match r with CtxOk c s => requires_peer_cert c /\ requires_peer_cert s | _ => True end.
Definition named_ca_ok_b (r : sslres) : bool :=
  match r with CtxOk c s => requires_peer_cert_b c && requires_peer_cert_b s | _ => true end.
(* handshake abstraction: a server context lets a client WITHOUT certificate in iff it does not require one *)
Definition accepts_anonymous_client (s : sslctx) : bool := negb (requires_peer_cert_b s).

(* ------------------------------------------------------------------ correspondence: codes and scenario runner *)
Definition zb (b : bool) : Z := if b then 1 else 0.
Definition code_scheme (s : scheme) : Z := match s with Http => 0 | Https => 1 end.
Definition code_host (h : hostk) : Z := match h with HIp => 0 | HAlt => 1 | HOther => 2 end.
Definition code_role (r : role) : Z := match r with RP => 0 | RC => 1 end.
Definition code_ctx (c : option ctxid) : Z :=
  match c with None => 0 | Some PClient => 1 | Some PServer => 2 | Some CClient => 3 | Some CServer => 4 end.
Definition code_kind (k : akind) : Z :=
  match k with KXaddr => 0 | KWsdXaddr => 1 | KBaseUrl => 2 | KProbeXaddr => 3 | KHosted => 4 | KWsdl => 5
             | KSubMgr => 6 | KSubMgrEnd => 7 | KNotifyTo => 8 | KEndTo => 9 end.
Definition code_hs (o : hs) : Z := match o with HsOk => 0 | HsSslError => 1 | HsReset => 2 end.

Definition code_event (e : event) : Z :=
  match e with
  | Adv k r a => 100000 + code_kind k * 1000 + code_role r * 100 + code_scheme (a_scheme a) * 10 + code_host (a_host a)
  | Create r c h => 200000 + code_role r * 100 + code_ctx c * 10 + code_host h
  | Conn r https c => 300000 + code_role r * 100 + zb https * 10 + code_ctx c
  | Attempt r c s o => 400000 + code_role r * 1000 + zb c * 100 + zb s * 10 + code_hs o
  | Wrap c ss => 500000 + code_ctx (Some c) * 10 + zb ss
  end.

Definition subset_b (l1 l2 : list Z) : bool := forallb (fun x => existsb (Z.eqb x) l2) l1.
Definition set_eqb (l1 l2 : list Z) : bool := subset_b l1 l2 && subset_b l2 l1.
Fixpoint zlist_eqb (l1 l2 : list Z) : bool :=
  match l1, l2 with
  | [], [] => true
  | x :: r1, y :: r2 => Z.eqb x y && zlist_eqb r1 r2
  | _, _ => false
  end.

(* scenario operations of the harness *)
Inductive sop := OProbe | OGetMdib | OOperate | ONotify | ORenew | OGetStatus | OUnsubscribe | OResubscribe
               | OStop | OStart | ORestart   (* consumer life cycle: stop_all(unsubscribe) / start_all again / restart() *)
               | OPeerFlip.                  (* the peer answering at the provider address changes kind (TLS <-> plaintext);
                                                only generated while the consumer is stopped *)

(* device address handed to the consumer: as advertised | with the opposite scheme | not http(s) at all *)
Inductive xkind := XSame | XFlip | XBad.

Record scase := mkscase { s_fixed : bool; s_pc : pconf; s_cc : cconf; s_x : xkind; s_ops : list sop;
                          s_provider_first : bool }.

Definition n_hosted : nat := 4.        (* only the SET of events is compared, so the number does not matter *)

Definition x_given (c : scase) : addr :=
  let a := p_xaddr (s_pc c) in
  mkaddr (match s_x c with XFlip => flip (a_scheme a) | _ => a_scheme a end) (a_host a).

Definition sys := (list psub * cstate)%type.

Definition pfold (pc : pconf) (l : list pin) (acc : list psub * list event) : list psub * list event :=
  fold_left (fun acc i => let '(st, ev) := acc in let '(st', e) := pstep pc st i in (st', ev ++ e)) l acc.
Definition cfold (fixed : bool) (cc : cconf) (l : list cin) (acc : cstate * list event) : cstate * list event :=
  fold_left (fun acc i => let '(st, ev) := acc in let '(st', e, _) := cstep fixed cc st i in (st', ev ++ e)) l acc.

Definition both (pc : pconf) (fixed : bool) (cc : cconf) (s : sys) (pi : list pin) (ci : list cin)
  : sys * list event :=
  let cr := cfold fixed cc ci (snd s, []) in
  let pr := pfold pc pi (fst s, []) in
  ((fst pr, fst cr), snd cr ++ snd pr).

(* one scenario operation of a running consumer: what the consumer does and what the (honest) provider does in
   reaction; the provider only sees a request when the consumer's connection got through.  ptls = kind of the port
   found at the provider address *)
Definition op_step (c : scase) (s : sys) (ptls : bool) (o : sop) : sys * list event :=
  let pc := s_pc c in let cc := s_cc c in let fx := s_fixed c in
  let cs := snd s in
  let ctls := c_listen_tls cc (isc cs) in
  let through := hs_ok (handshake (use_ssl (isc cs)) ptls) in
  let sinkaddr := mkaddr (match sink cs with Some sc => sc | None => Http end) (c_host cc) in
  match o with
  | OProbe => both pc fx cc s (if through then [PProbe (lib_pf (x_given c))] else []) [CProbe (x_given c) ptls]
  | OGetMdib => both pc fx cc s (if through then [PRequest (lib_pf (p_base pc))] else []) [CRequest (p_base pc) ptls]
  | OOperate => both pc fx cc s (if through then [PRequest (lib_pf (p_base pc)); PNotify 0 ctls] else []) [CRequest (p_base pc) ptls]
  | ONotify => both pc fx cc s [PNotify 0 ctls] []
  | ORenew | OGetStatus | OUnsubscribe =>
      both pc fx cc s (if through then [PRequest (lib_pf (p_base pc))] else []) [CRequest (p_base pc) ptls]
  | OResubscribe =>
      both pc fx cc s (if through then [PSubscribe (lib_pf (p_base pc)) sinkaddr (Some sinkaddr)] else []) [CSubscribe (p_base pc) ptls]
  | OStop =>       (* stop_all(unsubscribe=True) *)
      both pc fx cc s (if through then [PRequest (lib_pf (p_base pc))] else []) [CRequest (p_base pc) ptls; CStop]
  | OStart | ORestart | OPeerFlip => (s, [])
  end.

Definition start_code (e : option cerr) : Z :=
  match e with None => 0 | Some ESsl => 1 | Some ENotConnected => 2 | Some EUsage => 3 end.
Definition isc_code (i : option bool) : Z := match i with None => 0 | Some false => 1 | Some true => 2 end.

(* start_all (again = false: on a stopped consumer; again = true: restart()) with the provider's reactions: metadata
   answers once the connection got through, then one Subscribe per hosted service *)
Definition start_step (c : scase) (again : bool) (s : sys) (ptls : bool) : sys * list event * Z :=
  let pc := s_pc c in let cc := s_cc c in let fx := s_fixed c in
  let hosted := repeat (p_base pc) n_hosted in
  let '(cs1, ev1, err) := cstep fx cc (snd s) (if again then CRestart (x_given c) ptls hosted
                                               else CStart (x_given c) ptls hosted) in
  let connected := match err with Some ESsl | Some ENotConnected => false | _ => true end in
  let p1 := if connected then pfold pc [PGetMetadata (lib_pf (x_given c)); PHostedMetadata (lib_pf (p_base pc))] (fst s, []) else (fst s, []) in
  let r2 := if running cs1 then op_step c (fst p1, cs1) ptls OResubscribe else ((fst p1, cs1), []) in
  (fst r2, ev1 ++ snd p1 ++ snd r2, start_code err).

(* scenario state: provider + consumer, kind of the port at the provider address; accumulated events and the
   outcome codes of all start attempts *)
Definition sacc := ((sys * bool) * (list event * list Z))%type.

Definition sys_step (c : scase) (acc : sacc) (o : sop) : sacc :=
  let '((s, ptls), (evs, codes)) := acc in
  let run := running (snd s) in
  match o with
  | OPeerFlip => ((s, negb ptls), (evs, codes))
  | OStart =>
      if run then acc else
      let '(s', ev, code) := start_step c false s ptls in ((s', ptls), (evs ++ ev, codes ++ [code]))
  | ORestart =>    (* stop_all() with unsubscribe, then start_all *)
      let r := if run then op_step c s ptls OUnsubscribe else (s, []) in
      let '(s', ev, code) := start_step c true (fst r) ptls in
      ((s', ptls), (evs ++ snd r ++ ev, codes ++ [code]))
  | _ =>
      if run then let r := op_step c s ptls o in ((fst r, ptls), (evs ++ snd r, codes)) else acc
  end.

Definition sfold (c : scase) (l : list sop) (acc : sacc) : sacc := fold_left (sys_step c) l acc.

(* None = the constructor raised ValueError; otherwise the start codes, the final consumer state and the final
   port kind; and all events of the scenario *)
Definition run_events (c : scase) : option (list Z * cstate) * list event :=
  let pc := s_pc c in let cc := s_cc c in let fx := s_fixed c in
  let p0 := pfold pc [PStart; PPublish] ([], []) in
  (* SdcConsumer.__init__ raises ValueError for an address that does not start with 'http' and for
     force_ssl_connect without a container *)
  match (match s_x c with XBad => None | _ => c_ctor (c_mode cc) end) with
  | None => (None, snd p0)
  | Some i0 =>
      let r3 := sfold c (OStart :: s_ops c) (((fst p0, c_init i0), p_listen_tls pc), (snd p0, [])) in
      let s3 := fst (fst r3) in let ptls := snd (fst r3) in
      let cs3 := snd s3 in
      let ev4 := if running cs3 && s_provider_first c
                 then snd (both pc fx cc s3 [PEnd 0 (c_listen_tls cc (isc cs3))] [])
                 else if running cs3
                 then snd (both pc fx cc s3 [] [CRequest (p_base pc) ptls])      (* unsubscribe_all *)
                 else [] in
      (Some (snd (snd r3), cs3), fst (snd r3) ++ ev4)
  end.

(* statuses [ctor; is_ssl_connection; provider port TLS at the beginning; sink port TLS (2 = not running at the end);
   provider events secure; consumer events secure] ++ outcome of every start attempt, and the event codes *)
Definition run_case (c : scase) : list Z * list Z :=
  let cc := s_cc c in
  let ptls := p_listen_tls (s_pc c) in
  let '(r, evs) := run_events c in
  (match r with
   | None => [1; 3; zb ptls; 2; zb (forallb (secure_b RP) evs); 1]
   | Some (codes, cs3) =>
       [0; isc_code (isc cs3); zb ptls;
        if running cs3 then zb (c_listen_tls cc (isc cs3)) else 2;
        zb (forallb (secure_b RP) evs); zb (forallb (secure_b RC) evs)] ++ codes
   end, map code_event evs).

Definition trace_eqb (a b : list Z * list Z) : bool :=
  zlist_eqb (fst a) (fst b) && set_eqb (snd a) (snd b).

(* certloader correspondence: [status; client flags...; server flags...] *)
Definition code_vmode (v : vmode) : Z := match v with CertNone => 0 | CertOptional => 1 | CertRequired => 2 end.
Definition code_sslctx (c : sslctx) : list Z :=
  [zb (for_client c); code_vmode (verify c); zb (check_hostname c); zb (ca_loaded c)].
(* [status (0 ok | 1 FileNotFoundError | 2 ssl.SSLError); client flags; server flags; an anonymous TLS client is let in] *)
Definition run_ctx (ca : cafile) (cy : cyfile) (pw_ok : bool) : list Z :=
  match mk_ssl_contexts ca cy pw_ok with
  | CtxNotFound => [1]
  | CtxSslError => [2]
  | CtxOk c s => 0 :: code_sslctx c ++ code_sslctx s ++ [zb (accepts_anonymous_client s)]
  end.
Definition run_defaults (_ : unit) : list Z := 0 :: code_sslctx (new_ctx true) ++ code_sslctx (new_ctx false).

(* a foreign (hand-built) peer talks to the provider: every answered request with its peer-chosen fields, then a
   report and, unless unsubscribed, SubscriptionEnd for the peer's sink *)
Record fcase := mkfcase { f_pc : pconf; f_sink_tls : bool;
                          f_get : option peerf; f_hosted : option peerf; f_probe : option peerf;
                          f_sub : option (peerf * addr * option addr);
                          f_later : list peerf;          (* GetStatus / Renew / Unsubscribe that were answered *)
                          f_end : bool }.                (* the subscription is alive when the provider stops *)

Definition opt_in {A} (f : A -> pin) (o : option A) : list pin := match o with Some x => [f x] | None => [] end.

Definition foreign_inputs (c : fcase) : list pin :=
  [PStart; PPublish] ++ opt_in PGetMetadata (f_get c) ++ opt_in PHostedMetadata (f_hosted c)
  ++ opt_in PProbe (f_probe c)
  ++ match f_sub c with
     | Some (f, n, e) => [PSubscribe f n e] ++ map PRequest (f_later c) ++ [PNotify 0 (f_sink_tls c)]
                         ++ (if f_end c then [PEnd 0 (f_sink_tls c)] else [])
     | None => []
     end.

Definition run_foreign (c : fcase) : list Z * list Z :=
  let evs := prun (f_pc c) [] (foreign_inputs c) in
  ([zb (p_listen_tls (f_pc c)); zb (forallb (secure_b RP) evs)], map code_event evs).

(* one entry point for all correspondence streams (a single Coq evaluation per check run) *)
Inductive anycase :=
| AWorld (c : scase)
| AForeign (c : fcase)
| ADefaults
| ACtx (ca : cafile) (cy : cyfile) (pw_ok : bool)
| AClient (ctx : option ctxid).

Definition run_any (a : anycase) : list Z * list Z :=
  match a with
  | AWorld c => run_case c
  | AForeign c => run_foreign c
  | ADefaults => (run_defaults tt, [])
  | ACtx ca cy pw => (run_ctx ca cy pw, [])
  | AClient c => ([code_event (mk_http_connection RP c)], [])
  end.
