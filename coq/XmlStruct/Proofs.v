(* XmlStruct -- proofs: every property kind reads back what it wrote, writes to different slots do not interfere,
   hence a class with pairwise different slots round-trips; lifted to nested values by induction on the depth. *)
From Coq Require Import List ZArith NArith Bool Lia.
From SDC Require Import XmlStruct.Model.
Import ListNotations.

(* ------------------------------------------------------------------ association lists *)
Lemma get_set_assoc_eq n x l : get_assoc n (set_assoc n x l) = Some x.
Proof.
  induction l as [|[m v] r IH]; simpl; [now rewrite N.eqb_refl|].
  destruct (N.eqb m n) eqn:E; simpl; rewrite E; auto.
Qed.

Lemma get_set_assoc_ne n m x l : n <> m -> get_assoc n (set_assoc m x l) = get_assoc n l.
Proof.
  intros Hn. induction l as [|[k v] r IH]; simpl.
  - destruct (N.eqb m n) eqn:E; auto. apply N.eqb_eq in E. congruence.
  - destruct (N.eqb k m) eqn:E; simpl.
    + apply N.eqb_eq in E. subst k. destruct (N.eqb m n) eqn:E2; auto. apply N.eqb_eq in E2. congruence.
    + destruct (N.eqb k n); auto.
Qed.

Lemma get_del_assoc_eq n l : get_assoc n (del_assoc n l) = None.
Proof. induction l as [|[m v] r IH]; simpl; auto. destruct (N.eqb m n) eqn:E; simpl; [|rewrite E]; auto. Qed.

Lemma get_del_assoc_ne n m l : n <> m -> get_assoc n (del_assoc m l) = get_assoc n l.
Proof.
  intros Hn. induction l as [|[k v] r IH]; simpl; auto.
  destruct (N.eqb k m) eqn:E; simpl.
  - apply N.eqb_eq in E. subst k. destruct (N.eqb m n) eqn:E2; auto. apply N.eqb_eq in E2. congruence.
  - destruct (N.eqb k n); auto.
Qed.

(* ------------------------------------------------------------------ the view of one slot *)
Inductive sview := VwAttr (x : option txt) | VwKids (k : list tree) | VwText (x : option txt) | VwNone.

Definition view (s : slot) (t : tree) : sview :=
  match s with
  | SAttr n => VwAttr (get_attr n t)
  | SElem n => VwKids (kids_named n t)
  | SText => VwText (t_text t)
  | SSelf => VwNone
  end.

Definition distinct (a b : slot) : Prop := slot_eqb a b = false.

Lemma distinct_sym a b : distinct a b -> distinct b a.
Proof.
  unfold distinct. destruct a, b; simpl; auto; rewrite N.eqb_sym; auto.
Qed.

(* filters *)
Lemma filter_app_named n (l1 l2 : list tree) : filter (is_named n) (l1 ++ l2) = filter (is_named n) l1 ++ filter (is_named n) l2.
Proof. apply filter_app. Qed.

Lemma named_other n m k : is_named m k = true -> n <> m -> is_named n k = false.
Proof. unfold is_named. intros E Hn. apply N.eqb_eq in E. apply N.eqb_neq. congruence. Qed.

Lemma filter_del_first_ne n m l : n <> m -> filter (is_named n) (del_first_l m l) = filter (is_named n) l.
Proof.
  intros Hn. induction l as [|k r IH]; simpl; auto.
  destruct (is_named m k) eqn:E; simpl.
  - now rewrite (named_other n m k E Hn).
  - now rewrite IH.
Qed.

Lemma filter_del_all_ne n m l : n <> m ->
  filter (is_named n) (filter (fun k => negb (is_named m k)) l) = filter (is_named n) l.
Proof.
  intros Hn. induction l as [|k r IH]; simpl; auto.
  destruct (is_named m k) eqn:E; simpl.
  - now rewrite (named_other n m k E Hn).
  - now rewrite IH.
Qed.

Lemma filter_del_all_eq n l : filter (is_named n) (filter (fun k => negb (is_named n k)) l) = [].
Proof. induction l as [|k r IH]; simpl; auto. destruct (is_named n k) eqn:E; simpl; auto. now rewrite E. Qed.

Definition keeps_tag (f : tree -> tree) : Prop := forall k, t_tag (f k) = t_tag k.

Lemma filter_upd_first_ne n m f l : n <> m -> keeps_tag f ->
  filter (is_named n) (upd_first_l m f l) = filter (is_named n) l.
Proof.
  intros Hn Kf. induction l as [|k r IH]; simpl.
  - unfold is_named. rewrite Kf. simpl. destruct (N.eqb m n) eqn:E; auto. apply N.eqb_eq in E. congruence.
  - destruct (is_named m k) eqn:E; simpl.
    + unfold is_named in *. rewrite Kf. apply N.eqb_eq in E. rewrite E.
      destruct (N.eqb m n) eqn:E2; auto. apply N.eqb_eq in E2. congruence.
    + now rewrite IH.
Qed.

Lemma filter_upd_first_free n f l : filter (is_named n) l = [] -> keeps_tag f ->
  filter (is_named n) (upd_first_l n f l) = [f (Node n [] None [])].
Proof.
  intros Hf Kf. induction l as [|k r IH]; simpl.
  - unfold is_named. rewrite Kf. simpl. now rewrite N.eqb_refl.
  - simpl in Hf. destruct (is_named n k) eqn:E; [discriminate|]. simpl. rewrite E. auto.
Qed.

Lemma keeps_set_text x : keeps_tag (set_text x).
Proof. intros [g a y k]; reflexivity. Qed.
Lemma keeps_set_kids (g : tree -> list tree) : keeps_tag (fun k => set_kids (g k) k).
Proof. intros [t a y k]; reflexivity. Qed.

(* ------------------------------------------------------------------ primitive operations and views *)
Ltac dtree t := destruct t as [?g ?a ?x ?k].

Lemma view_set_attr s n x t : distinct s (SAttr n) -> view s (set_attr n x t) = view s t.
Proof.
  dtree t. destruct s as [m|m| |]; unfold distinct; simpl; intros D; auto; try discriminate.
  unfold get_attr; simpl. f_equal. apply get_set_assoc_ne. apply N.eqb_neq; auto.
Qed.

Lemma view_del_attr s n t : distinct s (SAttr n) -> view s (del_attr n t) = view s t.
Proof.
  dtree t. destruct s as [m|m| |]; unfold distinct; simpl; intros D; auto; try discriminate.
  unfold get_attr; simpl. f_equal. apply get_del_assoc_ne. apply N.eqb_neq; auto.
Qed.

Lemma view_set_text s x t : distinct s SText -> view s (set_text x t) = view s t.
Proof. dtree t. destruct s; unfold distinct; simpl; intros D; auto; discriminate. Qed.

Lemma view_add_kid s k t : distinct s (SElem (t_tag k)) -> view s (add_kid k t) = view s t.
Proof.
  dtree t. destruct s as [m|m| |]; unfold distinct; simpl; intros D; auto; try discriminate.
  unfold kids_named; simpl. rewrite filter_app. simpl. unfold is_named at 2. rewrite N.eqb_sym, D. now rewrite app_nil_r.
Qed.

Lemma view_del_first s n t : distinct s (SElem n) -> view s (del_first n t) = view s t.
Proof.
  dtree t. destruct s as [m|m| |]; unfold distinct; simpl; intros D; auto; try discriminate.
  unfold kids_named; simpl. f_equal. apply filter_del_first_ne. apply N.eqb_neq; auto.
Qed.

Lemma view_del_all s n t : distinct s (SElem n) -> view s (del_all n t) = view s t.
Proof.
  dtree t. destruct s as [m|m| |]; unfold distinct; simpl; intros D; auto; try discriminate.
  unfold kids_named; simpl. f_equal. apply filter_del_all_ne. apply N.eqb_neq; auto.
Qed.

Lemma view_upd_or_add s n f t : distinct s (SElem n) -> keeps_tag f -> view s (upd_or_add n f t) = view s t.
Proof.
  dtree t. destruct s as [m|m| |]; unfold distinct; simpl; intros D Kf; auto; try discriminate.
  unfold kids_named; simpl. f_equal. apply filter_upd_first_ne; auto. apply N.eqb_neq; auto.
Qed.
Section Frame.
  Variable encf : val -> name -> option tree.
  Variable decf : N -> tree -> option val.
  Hypothesis enc_tag : forall v n k, encf v n = Some k -> t_tag k = n.

  Lemma enc_kid_tag p n v k : enc_kid encf p n v = Some k -> t_tag k = n.
  Proof.
    unfold enc_kid. destruct v; try discriminate. destruct (encf (VStruct cid fs) n) as [k0|] eqn:E; try discriminate.
    intros H. injection H as <-. apply enc_tag in E. destruct (N.eqb cid (p_vcls p)); auto.
  Qed.

  Lemma view_enc_kids s p n : distinct s (SElem n) -> forall vs t t',
    enc_kids encf p n vs t = Some t' -> view s t' = view s t.
  Proof.
    intros D. induction vs as [|v r IH]; simpl; intros t t' H.
    - now injection H as <-.
    - destruct (enc_kid encf p n v) as [k|] eqn:E; try discriminate.
      rewrite (IH _ _ H). apply view_add_kid. now rewrite (enc_kid_tag _ _ _ _ E).
  Qed.

  Lemma view_fold_text s n : distinct s (SElem n) -> forall l t,
    view s (fold_left (fun t a => add_kid (Node n [] (atom_txt a) []) t) l t) = view s t.
  Proof.
    intros D. induction l as [|a r IH]; simpl; intros t; auto.
    rewrite IH. apply view_add_kid. simpl. auto.
  Qed.

  (* writing one property leaves the view of every other slot untouched *)
  Lemma write_frame s q v t t' : distinct s (slot_of q) -> write_prop encf q v t = Some t' -> view s t' = view s t.
  Proof.
    unfold slot_of, write_prop.
    destruct (p_kind q) eqn:K, (p_name q) as [n|] eqn:Nm; simpl; intros D H; try discriminate.
    - destruct v; try discriminate.
      + destruct (p_opt q); try discriminate. injection H as <-. now apply view_del_attr.
      + injection H as <-. now apply view_set_attr.
    - injection H as <-. now apply view_set_attr.
    - destruct v as [| |l| | | |]; try discriminate.
      + destruct (p_opt q); try discriminate. injection H as <-. now apply view_del_attr.
      + destruct l; [destruct (p_opt q)|]; injection H as <-; auto using view_del_attr, view_set_attr.
    - destruct v; try discriminate.
      + destruct (negb (p_opt q) && p_minlen q); try discriminate.
        destruct (p_opt q); injection H as <-; auto using view_del_first, view_upd_or_add, keeps_set_text.
      + injection H as <-. auto using view_upd_or_add, keeps_set_text.
    - destruct v; try discriminate.
      + destruct (negb (p_opt q) && p_minlen q); try discriminate. injection H as <-. now apply view_set_text.
      + injection H as <-. now apply view_set_text.
    - destruct v; try discriminate.
      + destruct (p_opt q); try discriminate. injection H as <-. now apply view_del_first.
      + injection H as <-. auto using view_upd_or_add, keeps_set_text.
    - destruct v; try discriminate; injection H as <-; now apply view_set_text.
    - destruct v; try discriminate.
      + destruct (p_opt q); try discriminate. injection H as <-. now apply view_del_first.
      + injection H as <-. auto using view_upd_or_add, keeps_set_text.
    - destruct v; try discriminate; injection H as <-; now apply view_set_text.
    - destruct v as [| |l| | | |]; try discriminate.
      + now injection H as <-.
      + destruct l; injection H as <-; auto. rewrite view_fold_text by auto.
        rewrite view_add_kid by (simpl; auto). now apply view_del_all.
    - assert (G : forall k, enc_kid encf q n v = Some k -> Some (add_kid k (del_first n t)) = Some t' -> view s t' = view s t).
      { intros k E H'. injection H' as <-. rewrite view_add_kid by (now rewrite (enc_kid_tag _ _ _ _ E)).
        now apply view_del_first. }
      destruct v; try (destruct (enc_kid encf q n _) eqn:E; [eapply G; eauto|discriminate]).
      destruct (p_opt q); try discriminate. now injection H as <-.
    - destruct v; try discriminate.
      + injection H as <-. now apply view_del_all.
      + rewrite (view_enc_kids s q n D _ _ _ H). now apply view_del_all.
    - destruct (is_empty_val v || struct_all_empty v); [now injection H as <-|].
      destruct (enc_kid encf q n v) as [k|] eqn:E; try discriminate. injection H as <-.
      rewrite view_add_kid by (now rewrite (enc_kid_tag _ _ _ _ E)). now apply view_del_first.
    - destruct v as [| | | | |ts|]; try discriminate.
      + now injection H as <-.
      + destruct ts; injection H as <-; auto using view_upd_or_add, keeps_set_kids.
    - destruct v as [| | | | |ts|]; try discriminate.
      + destruct (p_opt q); try discriminate. injection H as <-. now apply view_del_first.
      + injection H as <-. auto using view_upd_or_add, keeps_set_kids.
    - destruct v as [| | | | |ts|]; try discriminate.
      + destruct (p_opt q); injection H as <-; auto using view_del_first.
      + destruct ts; [destruct (p_opt q)|]; injection H as <-; auto using view_del_first, view_upd_or_add, keeps_set_kids.
  Qed.

  (* what a property reads depends on the view of its own slot only *)
  Lemma read_view p t t' : view (slot_of p) t = view (slot_of p) t' -> read_prop decf p t = read_prop decf p t'.
  Proof.
    unfold slot_of, read_prop, find_kid.
    destruct (p_kind p) eqn:K, (p_name p) as [n|] eqn:Nm; simpl; intros V; auto;
      try (injection V as V; rewrite ?V; reflexivity).
  Qed.

  Lemma read_member_view p t t' : view (slot_of p) t = view (slot_of p) t' -> read_member decf p t = read_member decf p t'.
  Proof. intros V. unfold read_member. now rewrite (read_view p t t' V). Qed.

  Lemma write_all_frame s : forall ps fs t t',
    Forall (fun q => distinct s (slot_of q)) ps -> write_all encf ps fs t = Some t' -> view s t' = view s t.
  Proof.
    induction ps as [|q ps IH]; intros [|f fs] t t' F H; simpl in H; try discriminate.
    - now injection H as <-.
    - destruct (write_prop encf q f t) as [t1|] eqn:E; try discriminate.
      inversion F; subst. rewrite (IH _ _ _ H3 H). eapply write_frame; eauto.
  Qed.
End Frame.
Definition vempty (s : slot) : sview :=
  match s with SAttr _ => VwAttr None | SElem _ => VwKids [] | SText => VwText None | SSelf => VwNone end.
Definition free (s : slot) (t : tree) : Prop := view s t = vempty s.

Lemma free_attr n t : free (SAttr n) t -> get_attr n t = None.
Proof. unfold free; simpl. congruence. Qed.
Lemma free_elem n t : free (SElem n) t -> kids_named n t = [].
Proof. unfold free; simpl. congruence. Qed.
Lemma free_text t : free SText t -> t_text t = None.
Proof. unfold free; simpl. congruence. Qed.

Lemma get_set_attr n x t : get_attr n (set_attr n x t) = Some x.
Proof. destruct t; unfold get_attr; simpl. apply get_set_assoc_eq. Qed.
Lemma get_del_attr n t : get_attr n (del_attr n t) = None.
Proof. destruct t; unfold get_attr; simpl. apply get_del_assoc_eq. Qed.

Lemma del_first_free n l : filter (is_named n) l = [] -> del_first_l n l = l.
Proof.
  induction l as [|k r IH]; simpl; auto. destruct (is_named n k) eqn:E; [discriminate|]. intros H. now rewrite IH.
Qed.

Lemma kids_del_first_free n t : kids_named n t = [] -> kids_named n (del_first n t) = [].
Proof. destruct t; unfold kids_named; simpl. intros H. now rewrite del_first_free. Qed.

Lemma del_first_id n t : kids_named n t = [] -> del_first n t = t.
Proof. destruct t; unfold kids_named, del_first, set_kids; simpl. intros H. now rewrite del_first_free. Qed.

Lemma kids_upd_free n f t : kids_named n t = [] -> keeps_tag f -> kids_named n (upd_or_add n f t) = [f (Node n [] None [])].
Proof. destruct t; unfold kids_named; simpl. apply filter_upd_first_free. Qed.

Lemma kids_add n k t : t_tag k = n -> kids_named n (add_kid k t) = kids_named n t ++ [k].
Proof.
  destruct t; unfold kids_named; simpl. intros E. rewrite filter_app. simpl. unfold is_named at 2.
  now rewrite E, N.eqb_refl.
Qed.

Lemma kids_del_all n t : kids_named n (del_all n t) = [].
Proof. destruct t; unfold kids_named; simpl. apply filter_del_all_eq. Qed.

Lemma kids_fold_text n : forall l t,
  kids_named n (fold_left (fun t a => add_kid (Node n [] (atom_txt a) []) t) l t)
  = kids_named n t ++ map (fun a => Node n [] (atom_txt a) []) l.
Proof.
  induction l as [|a r IH]; simpl; intros t; [now rewrite app_nil_r|].
  rewrite IH, kids_add by reflexivity. now rewrite <- app_assoc.
Qed.

Lemma atom_txt_back a : match atom_txt a with Some [b] => b | _ => EMPTY end = a.
Proof. unfold atom_txt. destruct (Z.eqb a EMPTY) eqn:E; auto. now apply Z.eqb_eq in E. Qed.

(* the values of a member that are in normal form (read back exactly as written) *)
Definition valid_field_gen (ok : val -> Prop) (p : prop) (f : val) : Prop :=
  match p_kind p, p_name p with
  | KAttr, Some _ => (exists a, f = VAtom a) \/ (f = VNone /\ p_opt p = true)
  | KCurTs, Some _ => f = VAtom 1
  | KAttrList, Some _ => exists l, f = VWords l
  | KText, Some _ => (exists a, f = VAtom a /\ (a <> EMPTY \/ p_conv p = CStr)) \/
                     (f = VNone /\ p_opt p = true /\ p_hasdef p = false)
  | KText, None => (exists a, f = VAtom a /\ (a <> EMPTY \/ p_conv p = CStr)) \/
                   (f = VNone /\ (p_conv p = CNum \/ p_conv p = CQName) /\ (p_opt p = true \/ p_minlen p = false))
  | KTextList, Some _ => exists l, f = VWords l
  | KTextList, None => exists l, f = VWords l
  | KQNameList, Some _ => exists l, f = VWords l
  | KQNameList, None => exists l, f = VWords l
  | KElemTextList, Some _ => exists l, f = VWords l
  | KSub, Some _ => ok f \/ (f = VNone /\ p_opt p = true /\ p_hasdef p = false)
  | KSubList, Some _ => exists vs, f = VList vs /\ Forall ok vs
  | KSubNonEmpty, Some _ => ok f /\ struct_all_empty f = false
  | KExt, Some _ => exists ts, f = VOpaque ts
  | KAny, Some _ => (exists ts, f = VOpaque ts) \/ (f = VNone /\ p_opt p = true)
  | KAnyList, Some _ => exists ts, f = VOpaque ts
  | _, _ => False
  end.


Lemma valid_field_mono (ok ok' : val -> Prop) p f : (forall v, ok v -> ok' v) ->
  valid_field_gen ok p f -> valid_field_gen ok' p f.
Proof.
  intros M. unfold valid_field_gen. destruct (p_kind p), (p_name p); auto.
  - intros [H|H]; auto.
  - intros (vs & -> & F). exists vs. split; auto. eapply Forall_impl; eauto.
  - intros [H E]; auto.
Qed.

Section ReadWrite.
  Variable encf : val -> name -> option tree.
  Variable decf : N -> tree -> option val.

  (* a nested value the surrounding class can rely on: it can be written under any tag, carries no xsi:type of
     its own, and is read back as itself - with or without an xsi:type attribute added by the parent *)
  Definition nested_ok (v : val) : Prop :=
    match v with
    | VStruct cid _ => forall n, exists k, encf v n = Some k /\ t_tag k = n /\ get_attr XSI k = None /\
                                           decf cid k = Some v /\ forall x, decf cid (set_attr XSI x k) = Some v
    | _ => False
    end.

  Definition valid_field := valid_field_gen nested_ok.

  Lemma scalar_back c a : a <> EMPTY \/ c = CStr -> scalar_of_text c (atom_txt a) = Some (VAtom a).
  Proof.
    unfold atom_txt. destruct (Z.eqb a EMPTY) eqn:E; simpl; auto.
    apply Z.eqb_eq in E. intros [H| ->]; [congruence|]. now subst.
  Qed.

  Lemma words_back l : match words_txt l with Some x => x | None => [] end = l.
  Proof. destruct l; reflexivity. Qed.

  Lemma enc_kid_ok p n v : nested_ok v -> exists k, enc_kid encf p n v = Some k /\ t_tag k = n /\ dec_kid decf p k = Some v.
  Proof.
    destruct v as [| | | |cid fs| |]; simpl; try contradiction. intros H.
    destruct (H n) as (k & E & T & X & D & DX). unfold enc_kid. rewrite E.
    destruct (N.eqb cid (p_vcls p)) eqn:Ec.
    - exists k. repeat split; auto. unfold dec_kid. rewrite X. apply N.eqb_eq in Ec. now subst.
    - exists (set_attr XSI [Z.of_N cid] k). repeat split.
      + destruct k; simpl in *; auto.
      + unfold dec_kid. rewrite get_set_attr, N2Z.id. apply DX.
  Qed.

  Lemma enc_kids_ok p n : forall vs t, Forall nested_ok vs ->
    exists t', enc_kids encf p n vs t = Some t' /\
               exists ks, kids_named n t' = kids_named n t ++ ks /\ dec_kids decf p ks = Some vs.
  Proof.
    induction vs as [|v r IH]; intros t F; simpl.
    - exists t. split; auto. exists []. now rewrite app_nil_r.
    - inversion F; subst. destruct (enc_kid_ok p n v H1) as (k & E & T & D). rewrite E.
      destruct (IH (add_kid k t) H2) as (t' & E' & ks & K & Dk). exists t'. split; auto.
      exists (k :: ks). split.
      + rewrite K, kids_add by auto. now rewrite <- app_assoc.
      + simpl. now rewrite D, Dk.
  Qed.

  (* every property kind reads back the (valid) value it wrote into a node whose slot was empty *)
  Lemma read_write p f t : free (slot_of p) t -> valid_field p f ->
    exists t', write_prop encf p f t = Some t' /\ read_member decf p t' = Some f.
  Proof.
    unfold slot_of, valid_field, valid_field_gen, write_prop, read_member, update_value, read_prop, find_kid.
    destruct (p_kind p) eqn:K, (p_name p) as [n|] eqn:Nm; simpl; intros Fr V; try contradiction.
    - (* KAttr *) destruct V as [(a & ->)|(-> & ->)]; eexists; split; eauto.
      + now rewrite get_set_attr.
      + now rewrite get_del_attr.
    - (* KCurTs *) subst f. eexists; split; eauto. now rewrite get_set_attr.
    - (* KAttrList *) destruct V as (l & ->). destruct l as [|a l].
      + destruct (p_opt p); eexists; split; eauto; [now rewrite get_del_attr|now rewrite get_set_attr].
      + eexists; split; eauto. now rewrite get_set_attr.
    - (* KText, element *) apply free_elem in Fr. destruct V as [(a & -> & Ha)|(-> & Ho & Hd)].
      + eexists; split; eauto. rewrite kids_upd_free by auto using keeps_set_text. simpl. now rewrite scalar_back.
      + rewrite Ho. simpl. eexists; split; eauto. rewrite kids_del_first_free by auto. simpl. now rewrite Hd.
    - (* KText, own text *) destruct V as [(a & -> & Ha)|(-> & Hc & Hm)].
      + eexists; split; eauto. destruct t; simpl. now rewrite scalar_back.
      + assert (E : negb (p_opt p) && p_minlen p = false) by (destruct Hm as [-> | ->]; auto using andb_false_r).
        rewrite E. eexists; split; eauto. destruct t; simpl. destruct Hc as [-> | ->]; reflexivity.
    - (* KTextList, element *) apply free_elem in Fr. destruct V as (l & ->).
      eexists; split; eauto. rewrite kids_upd_free by auto using keeps_set_text. simpl. now rewrite words_back.
    - (* KTextList, own text *) destruct V as (l & ->). eexists; split; eauto. destruct t; simpl. now rewrite words_back.
    - (* KQNameList, element *) apply free_elem in Fr. destruct V as (l & ->).
      eexists; split; eauto. rewrite kids_upd_free by auto using keeps_set_text. simpl. destruct l; reflexivity.
    - (* KQNameList, own text *) destruct V as (l & ->). eexists; split; eauto. destruct t; simpl. destruct l; reflexivity.
    - (* KElemTextList *) apply free_elem in Fr. destruct V as (l & ->). destruct l as [|a l].
      + eexists; split; eauto. now rewrite Fr.
      + eexists; split; eauto. rewrite kids_fold_text, kids_del_all. simpl. f_equal. f_equal.
        f_equal; [apply atom_txt_back|]. rewrite map_map.
        transitivity (map (fun x : Z => x) l); [|apply map_id]. apply map_ext. intros b. simpl. apply atom_txt_back.
    - (* KSub *) apply free_elem in Fr. destruct V as [Hn|(-> & -> & Hd)].
      + destruct (enc_kid_ok p n f Hn) as (k & E & T & D).
        assert (Hv : match f with VNone => False | _ => True end) by (destruct f; simpl in Hn; auto).
        destruct f; try contradiction; rewrite E; eexists; split; eauto;
          rewrite kids_add, kids_del_first_free by auto; simpl; rewrite D; reflexivity.
      + eexists; split; eauto. rewrite Fr. simpl. unfold absent_struct. now rewrite Hd.
    - (* KSubList *) destruct V as (vs & -> & Fv).
      destruct (enc_kids_ok p n vs (del_all n t) Fv) as (t' & E & ks & Kk & D).
      exists t'. split; auto. rewrite Kk, kids_del_all. simpl. now rewrite D.
    - (* KSubNonEmpty *) apply free_elem in Fr. destruct V as (Hn & He).
      assert (Hv : is_empty_val f = false) by (destruct f; simpl in Hn; try contradiction; reflexivity).
      rewrite Hv, He. simpl. destruct (enc_kid_ok p n f Hn) as (k & E & T & D). rewrite E.
      eexists; split; eauto. rewrite kids_add, kids_del_first_free by auto. simpl. now rewrite D.
    - (* KExt *) apply free_elem in Fr. destruct V as (ts & ->). destruct ts as [|x ts].
      + eexists; split; eauto. now rewrite Fr.
      + eexists; split; eauto. rewrite kids_upd_free by auto using keeps_set_kids. reflexivity.
    - (* KAny *) apply free_elem in Fr. destruct V as [(ts & ->)|(-> & ->)].
      + eexists; split; eauto. rewrite kids_upd_free by auto using keeps_set_kids. reflexivity.
      + eexists; split; eauto. now rewrite kids_del_first_free.
    - (* KAnyList *) apply free_elem in Fr. destruct V as (ts & ->). destruct ts as [|x ts].
      + destruct (p_opt p); eexists; split; eauto; [now rewrite kids_del_first_free|now rewrite Fr].
      + eexists; split; eauto. rewrite kids_upd_free by auto using keeps_set_kids. reflexivity.
  Qed.
End ReadWrite.
Lemma free_transfer s t t' : view s t' = view s t -> free s t -> free s t'.
Proof. unfold free. congruence. Qed.

Lemma no_clash_cons s ss : no_clash (s :: ss) = true -> Forall (distinct s) ss /\ no_clash ss = true.
Proof.
  simpl. intros H. apply andb_prop in H as [H1 H2]. split; auto.
  apply negb_true_iff in H1. apply Forall_forall. intros x Hx. unfold distinct.
  destruct (slot_eqb s x) eqn:E; auto.
  assert (existsb (slot_eqb s) ss = true) by (apply existsb_exists; eauto). congruence.
Qed.

Lemma write_prop_tag encf p v t t' : write_prop encf p v t = Some t' -> t_tag t' = t_tag t.
Proof.
  assert (G : forall vs t t', enc_kids encf p (match p_name p with Some n => n | None => XSI end) vs t = Some t' -> t_tag t' = t_tag t).
  { induction vs as [|x r IH]; simpl; intros u u' H; [now injection H as <-|].
    destruct (enc_kid encf p _ x); try discriminate. rewrite (IH _ _ H). now destruct u. }
  assert (F : forall n l u, t_tag (fold_left (fun t a => add_kid (Node n [] (atom_txt a) []) t) l u) = t_tag u).
  { induction l as [|a r IH]; simpl; intros u; auto. rewrite IH. now destruct u. }
  unfold write_prop. destruct t as [g a x k].
  destruct (p_kind p), (p_name p) as [n|]; simpl in *; intros H;
    repeat match type of H with
           | None = Some _ => discriminate
           | Some _ = Some _ => injection H as <-
           | context [match ?v with _ => _ end] => destruct v eqn:?; simpl in *
           end; auto; try (rewrite F; reflexivity).
  - apply G in H. exact H.
Qed.

Lemma write_all_tag encf : forall ps fs t t', write_all encf ps fs t = Some t' -> t_tag t' = t_tag t.
Proof.
  induction ps as [|p ps IH]; intros [|f fs] t t' H; simpl in H; try discriminate.
  - now injection H as <-.
  - destruct (write_prop encf p f t) as [t1|] eqn:E; try discriminate.
    rewrite (IH _ _ _ H). eapply write_prop_tag; eauto.
Qed.

Lemma Forall2_impl' {A B} (P Q : A -> B -> Prop) : (forall a b, P a b -> Q a b) ->
  forall l l', Forall2 P l l' -> Forall2 Q l l'.
Proof. intros H l l' F; induction F; constructor; auto. Qed.

Section ClassRT.
  Variable encf : val -> name -> option tree.
  Variable decf : N -> tree -> option val.
  Hypothesis enc_tag : forall v n k, encf v n = Some k -> t_tag k = n.

  (* a class whose members occupy pairwise different slots reads back all of them *)
  Lemma class_rt : forall ps fs t, no_clash (map slot_of ps) = true ->
    Forall2 (valid_field encf decf) ps fs -> Forall (fun p => free (slot_of p) t) ps ->
    exists t', write_all encf ps fs t = Some t' /\ read_all decf ps t' = Some fs /\
               forall s, Forall (fun p => distinct s (slot_of p)) ps -> view s t' = view s t.
  Proof.
    induction ps as [|p ps IH]; intros fs t NC V Fr.
    - inversion V; subst. exists t. simpl. auto.
    - inversion V as [|? f ? fs' Vp Vr]; subst. inversion Fr as [|? ? Fp Frr]; subst.
      simpl in NC. apply no_clash_cons in NC as [Dp NC].
      destruct (read_write encf decf p f t Fp Vp) as (t1 & W & R).
      assert (Fr1 : Forall (fun q => free (slot_of q) t1) ps).
      { rewrite Forall_forall in *. intros q Hq. eapply free_transfer; [|apply Frr; auto].
        eapply write_frame; eauto. apply distinct_sym. apply Dp. apply in_map. auto. }
      destruct (IH fs' t1 NC Vr Fr1) as (t' & W' & R' & Vw).
      exists t'. simpl. rewrite W. split; auto. split.
      + rewrite R'. rewrite (read_member_view decf p t' t1), R; auto.
        apply Vw. rewrite Forall_forall in *. intros q Hq. apply Dp. apply in_map. auto.
      + intros s Fs. inversion Fs; subst. rewrite Vw by auto. eapply write_frame; eauto.
  Qed.
End ClassRT.

(* ------------------------------------------------------------------ nested values: induction on the depth *)
Section Depth.
  Variable classes : list cls.

  Definition wf_slots (c : cls) : Prop :=
    no_clash (map slot_of (c_props c)) = true /\ forallb not_xsi (c_props c) = true /\
    forallb not_self (c_props c) = true.

  Hypothesis Hwf : forall c, In c classes -> wf_slots c.

  Lemma lookup_in_spec l cid c : lookup_in l cid = Some c -> In c l /\ c_id c = cid.
  Proof.
    induction l as [|x r IH]; simpl; try discriminate.
    destruct (N.eqb (c_id x) cid) eqn:E.
    - intros H. injection H as <-. apply N.eqb_eq in E. auto.
    - intros H. destruct (IH H). auto.
  Qed.

  (* a value all of whose members are in normal form, down to depth n *)
  Fixpoint valid (n : nat) (v : val) : Prop :=
    match n with
    | O => False
    | S n' => match v with
              | VStruct cid fs => exists c, lookup classes cid = Some c /\
                                            Forall2 (valid_field_gen (valid n')) (c_props c) fs
              | _ => False
              end
    end.

  Lemma enc_keeps_tag n : forall v tag k, enc classes n v tag = Some k -> t_tag k = tag.
  Proof.
    destruct n; simpl; intros v tag k H; try discriminate.
    destruct v; try discriminate. destruct (lookup classes cid); try discriminate.
    apply write_all_tag in H. exact H.
  Qed.

  Lemma xsi_distinct p : not_xsi p = true -> not_self p = true -> distinct (slot_of p) (SAttr XSI).
  Proof.
    unfold not_xsi, not_self, distinct. destruct (slot_of p); simpl; try discriminate; auto.
    intros H _. apply negb_true_iff in H. exact H.
  Qed.

  Theorem roundtrip n : forall v, valid n v -> nested_ok (enc classes n) (dec classes n) v.
  Proof.
    induction n as [|n IH]; intros v Hv; [destruct Hv|].
    destruct v as [| | | |cid fs| |]; try (now destruct Hv). destruct Hv as (c & Lc & Vf).
    destruct (lookup_in_spec _ _ _ Lc) as [Hin Hid]. destruct (Hwf c Hin) as (NC & NX & NS).
    assert (Vf' : Forall2 (valid_field (enc classes n) (dec classes n)) (c_props c) fs).
    { eapply Forall2_impl'; [|exact Vf]. intros p f. apply valid_field_mono. exact IH. }
    intros tag.
    assert (Fr : Forall (fun p => free (slot_of p) (Node tag [] None [])) (c_props c)).
    { apply Forall_forall. intros p _. unfold free. destruct (slot_of p); reflexivity. }
    destruct (class_rt (enc classes n) (dec classes n) (enc_keeps_tag n) (c_props c) fs _ NC Vf' Fr)
      as (t' & W & R & Vw).
    assert (DX : Forall (fun p => distinct (SAttr XSI) (slot_of p)) (c_props c)).
    { apply Forall_forall. intros p Hp. apply distinct_sym. rewrite forallb_forall in NX, NS. apply xsi_distinct; auto. }
    exists t'. simpl. rewrite Lc. split; [exact W|]. split; [apply write_all_tag in W; exact W|].
    split; [specialize (Vw (SAttr XSI) DX); unfold view in Vw; injection Vw as Vw; exact Vw|].
    split; [now rewrite R|].
    intros x. assert (E : read_all (dec classes n) (c_props c) (set_attr XSI x t') = read_all (dec classes n) (c_props c) t').
    { clear - NX NS. induction (c_props c) as [|p ps IHp]; simpl; auto.
      simpl in NX, NS. apply andb_prop in NX as [X1 X2]. apply andb_prop in NS as [S1 S2].
      rewrite IHp by auto. rewrite (read_member_view (dec classes n) p (set_attr XSI x t') t'); auto.
      apply view_set_attr. apply xsi_distinct; auto. }
    now rewrite E, R.
  Qed.

  (* as_etree_node / mk_node followed by from_node is the identity on values in normal form *)
  Corollary class_roundtrip n cid fs tag : valid n (VStruct cid fs) ->
    exists t, enc classes n (VStruct cid fs) tag = Some t /\ dec classes n cid t = Some (VStruct cid fs).
  Proof.
    intros V. destruct (roundtrip n _ V tag) as (k & E & _ & _ & D & _). eauto.
  Qed.
End Depth.
(* ------------------------------------------------------------------ absent members *)
(* what a member reads as when its attribute / element is not in the XML *)
Definition absent_value (p : prop) : val :=
  match p_kind p with
  | KAttr | KCurTs | KAny => VNone
  | KAttrList | KElemTextList | KTextList | KQNameList => VWords []
  | KText | KSub | KSubNonEmpty => if p_hasdef p then VDflt else VNone
  | KSubList => VList []
  | KExt | KAnyList => VOpaque []
  end.

Lemma read_absent decf p n t : p_name p = Some n -> free (slot_of p) t ->
  read_member decf p t = Some (absent_value p).
Proof.
  unfold slot_of, read_member, update_value, read_prop, find_kid, absent_value, absent_struct.
  intros -> Fr. destruct (p_kind p); simpl in *;
    try (apply free_attr in Fr; rewrite Fr; reflexivity);
    try (apply free_elem in Fr; rewrite Fr; reflexivity).
Qed.

(* ------------------------------------------------------------------ the computed check implies the hypothesis *)
Lemma wf_class_slots c : wf_class c = true -> wf_slots c.
Proof.
  unfold wf_class, wf_slots. intros H. repeat (apply andb_prop in H as [H ?]). auto.
Qed.

Lemma wf_filter (l : list cls) : forall c, In c (filter wf_class l) -> wf_slots c.
Proof. intros c H. apply filter_In in H as [_ H]. now apply wf_class_slots. Qed.

(* writing the value that was read yields the same XML again *)
Lemma second_write_identical classes (Hwf : forall c, In c classes -> wf_slots c) n cid fs tag t :
  valid classes n (VStruct cid fs) -> enc classes n (VStruct cid fs) tag = Some t ->
  exists v, dec classes n cid t = Some v /\ enc classes n v tag = Some t.
Proof.
  intros V E. destruct (class_roundtrip classes Hwf n cid fs tag V) as (t' & E' & D).
  assert (t' = t) by congruence. subst t'. eauto.
Qed.

(* ------------------------------------------------------------------ a small concrete schema (non-vacuity, refutations) *)
Open Scope N_scope.
(* class 1 "CodedValue": Extension, list of class-2 elements (name 11), attribute Code (mandatory), attribute list
   class 2 "LocalizedText": own text, attribute Lang;  class 3 derives class 2 by an extra attribute (xsi:type)
   class 4 "State": attribute, defaulted sub-element of class 1 (name 13), text-element list, current-time attribute *)
Definition demo_classes : list cls :=
  [ mkCls 1 [mkProp KExt (Some 10) COther true false false 0 false;
             mkProp KSubList (Some 11) COther true false false 2 false;
             mkProp KAttr (Some 20) CStr false false false 0 false;
             mkProp KAttrList (Some 21) COther true false false 0 false] [10; 11];
    mkCls 2 [mkProp KText None CStr false false false 0 false; mkProp KAttr (Some 22) CStr true false false 0 false] [];
    mkCls 3 [mkProp KText None CStr false false false 0 false; mkProp KAttr (Some 22) CStr true false false 0 false;
             mkProp KAttr (Some 23) CNum true false false 0 false] [];
    mkCls 4 [mkProp KAttr (Some 24) CStr false false false 0 false;
             mkProp KSub (Some 13) COther false true true 1 false;
             mkProp KElemTextList (Some 14) COther true false false 0 false;
             mkProp KCurTs (Some 25) CNum true false false 0 false] [13; 14] ].

Definition demo_value : val :=
  VStruct 4 [VAtom 7;
             VStruct 1 [VOpaque [Node 99 [(1, [5%Z])] (Some [6%Z]) []];
                        VList [VStruct 2 [VAtom 30; VNone]; VStruct 3 [VAtom EMPTY; VAtom 31; VAtom 32]];
                        VAtom 8; VWords [40%Z; 41%Z]];
             VWords [50%Z; EMPTY; 51%Z];
             VAtom 1].

Lemma demo_wf : forallb wf_class demo_classes = true.
Proof. reflexivity. Qed.

Lemma demo_roundtrip :
  exists t, enc demo_classes 3 demo_value 100 = Some t /\ dec demo_classes 3 4 t = Some demo_value /\
            t = Node 100 [(24, [7%Z]); (25, [1%Z])] None
                  [Node 13 [(20, [8%Z]); (21, [40%Z; 41%Z])] None
                     [Node 10 [] None [Node 99 [(1, [5%Z])] (Some [6%Z]) []];
                      Node 11 [] (Some [30%Z]) [];
                      Node 11 [(22, [31%Z]); (23, [32%Z]); (XSI, [3%Z])] None []];
                   Node 14 [] (Some [50%Z]) []; Node 14 [] None []; Node 14 [] (Some [51%Z]) []].
Proof. eexists. split; [reflexivity|]. split; reflexivity. Qed.

(* an absent defaulted sub-element reads as the declared default, an absent list as the empty list *)
Lemma demo_absent :
  dec demo_classes 3 4 (Node 100 [(24, [7%Z])] None []) = Some (VStruct 4 [VAtom 7; VDflt; VWords []; VNone]).
Proof. reflexivity. Qed.

(* WITHOUT the well-formedness condition the statement is false: two members bound to the same element name
   (pm_types.ClinicalInfo.Type / .Code before the repair) -- the value written is not the value read *)
Definition clash_classes : list cls :=
  [ mkCls 1 [mkProp KSub (Some 16) COther true false false 2 false; mkProp KSub (Some 16) COther true false false 2 false] [];
    mkCls 2 [mkProp KAttr (Some 20) CStr false false false 0 false] [] ].

Lemma duplicate_slot_refuted :
  wf_class (mkCls 1 [mkProp KSub (Some 16) COther true false false 2 false;
                     mkProp KSub (Some 16) COther true false false 2 false] []) = false /\
  exists t, enc clash_classes 3 (VStruct 1 [VNone; VStruct 2 [VAtom 5]]) 100 = Some t /\
            dec clash_classes 3 1 t = Some (VStruct 1 [VStruct 2 [VAtom 5]; VStruct 2 [VAtom 5]]).
Proof. split; [reflexivity|]. eexists. split; reflexivity. Qed.
