(* XmlStruct -- instances with a history: what Model.v abstracts away.
   Model.v treats reading as a function of the node and writing as a function of the value.  The library works on
   OBJECTS: update_from_node assigns to an instance that already holds values, and the opaque members
   (ext:Extension content, wsa:ReferenceParameters / wsa:Metadata, any) are lists of lxml element objects that are
   shared between the Python value and the tree they were read from.  Two mechanisms decide whether the functional
   reading of Model.v is justified; both are modelled here with the alternative as a parameter:

   1. the STORE policy of property.update_from_node(instance, node)
        base class            : setattr(instance, name, get_py_value_from_node(...))          (always stores)
        _ElementListProperty  : stores [] when get_py_value_from_node returns None            (after the repair;
                                before it: `if value is not None: setattr(...)` = keeps the previous value)
   2. the ATTACH mode of update_xml_value for opaque members
        Copy : sub_node.extend(copy_node_wo_parent(x) for x in value)      (all three opaque kinds, after the repair)
        Move : sub_node.extend(value)        (lxml: an element has ONE parent - extend() re-parents it)
   3. the GET policy of descriptor.__get__ (what the application sees through attribute access)
        GetIfNone  : the implied value is returned only when NOTHING is stored (value is None)
        GetIfFalsy : `if not value` - a stored False / 0 / 0.0 / Decimal(0) / '' is replaced by the implied value
   Definitions only; proofs: XmlStruct/InstanceProofs.v. *)
From Coq Require Import List ZArith NArith Bool.
From SDC Require Import XmlStruct.Model.
Import ListNotations.

(* ---------------------------------------------------------------- 1. update_from_node on a populated instance *)
(* which descriptors skip the assignment when get_py_value_from_node returns None *)
Definition keep_policy := prop -> bool.

Definition keep_never : keep_policy := fun _ => false.                        (* the code as repaired *)
Definition is_list_kind (k : kind) : bool :=
  match k with KTextList | KQNameList | KElemTextList | KSubList | KAnyList => true | _ => false end.
Definition keep_lists : keep_policy := fun p => is_list_kind (p_kind p).      (* _ElementListProperty before the repair *)
Definition keep_always : keep_policy := fun _ => true.                        (* "do not overwrite with None" everywhere *)

(* what the constructor leaves in the slot (init_instance_data) *)
Definition init_val (p : prop) : val :=
  match p_kind p with
  | KTextList | KQNameList | KElemTextList => VWords []
  | KSubList => VList []
  | KAnyList => VOpaque []
  | KAttr | KText | KSub | KSubNonEmpty => if p_hasdef p then VDflt else VNone
  | KCurTs | KAttrList | KExt | KAny => VNone
  end.

Section Update.
  Variable keep : keep_policy.
  Variable decf : N -> tree -> option val.

  (* property.update_from_node(instance, node) where the member currently holds [old]; None = raises *)
  Definition update_member (p : prop) (old : val) (t : tree) : option val :=
    match read_prop decf p t with
    | Some VNone => Some (if keep p then old else update_value p VNone)
    | Some v => Some v
    | None => None
    end.

  (* XMLTypeBase / ContainerBase.update_from_node on an instance whose members hold [olds] *)
  Fixpoint update_all (ps : list prop) (olds : list val) (t : tree) : option (list val) :=
    match ps, olds with
    | [], [] => Some []
    | p :: ps', o :: olds' => match update_member p o t, update_all ps' olds' t with
                              | Some v, Some vs => Some (v :: vs)
                              | _, _ => None
                              end
    | _, _ => None
    end.
End Update.

(* instance.update_from_node(node) for an instance of class cid holding [olds]; nested values are always created
   by value_class.from_node, i.e. read into fresh instances *)
Definition dec_into (keep : keep_policy) (classes : list cls) (fuel : nat) (cid : N) (olds : list val) (t : tree)
  : option val :=
  match fuel with
  | O => None
  | S n => match lookup classes cid with
           | Some c => option_map (VStruct cid) (update_all keep (dec classes n) (c_props c) olds t)
           | None => None
           end
  end.

(* the policy of the implementation under test *)
Definition keep_impl : keep_policy := keep_never.

(* stream `update`: one descriptor, member pre-set to [old], update_from_node from tree t *)
Definition run_update (x : prop * list (val * tree) * val * tree) : option val :=
  let '(p, tab, old, t) := x in update_member keep_impl (assoc_dec tab) p old t.

Definition oval_eqb (a b : option val) : bool :=
  match a, b with None, None => true | Some x, Some y => val_eqb x y | _, _ => false end.

(* ---------------------------------------------------------------- 2. who owns an lxml element *)
Definition eid := N.
Record elem := mkElem { e_id : eid; e_body : tree }.
Inductive attach := Copy | Move.

(* one opaque member under test: the documents written / parsed so far (each: the element objects that are children
   of the member's container node), the member's Python value (references to element objects), a supply of
   identities *)
Record world := mkWorld { w_docs : list (list elem); w_val : list elem; w_next : eid }.

Inductive op :=
| ONew (bodies : list tree)     (* the application assigns new elements (no parent) *)
| OParse (bodies : list tree)   (* a document arrives from outside (etree.fromstring): new element objects *)
| ORead (d : nat)               (* value := get_py_value_from_node(document d) = container[:]  (the same objects) *)
| OWrite.                       (* update_xml_value into a new, empty node -> a new document *)

Fixpoint fresh (n : eid) (bodies : list tree) : list elem :=
  match bodies with
  | [] => []
  | b :: r => mkElem n b :: fresh (N.succ n) r
  end.

Definition has_id (ids : list eid) (e : elem) : bool := existsb (N.eqb (e_id e)) ids.
Definition detach (ids : list eid) (doc : list elem) : list elem := filter (fun e => negb (has_id ids e)) doc.

Definition step (m : attach) (w : world) (o : op) : world :=
  match o with
  | ONew bodies => mkWorld (w_docs w) (fresh (w_next w) bodies) (w_next w + N.of_nat (length bodies))%N
  | OParse bodies => mkWorld (w_docs w ++ [fresh (w_next w) bodies]) (w_val w)
                             (w_next w + N.of_nat (length bodies))%N
  | ORead d => mkWorld (w_docs w) (nth d (w_docs w) []) (w_next w)
  | OWrite =>
      match m with
      | Copy => mkWorld (w_docs w ++ [fresh (w_next w) (map e_body (w_val w))]) (w_val w)
                        (w_next w + N.of_nat (length (w_val w)))%N
      | Move => mkWorld (map (detach (map e_id (w_val w))) (w_docs w) ++ [w_val w]) (w_val w) (w_next w)
      end
  end.

(* what can be observed: the content of every document and of the value *)
Definition render (w : world) : list (list tree) * list tree := (map (map e_body) (w_docs w), map e_body (w_val w)).

Definition world0 : world := mkWorld [] [] 1%N.

Fixpoint run (m : attach) (w : world) (ops : list op) : list (list (list tree) * list tree) :=
  match ops with
  | [] => []
  | o :: r => let w' := step m w o in render w' :: run m w' r
  end.

Fixpoint exec (m : attach) (w : world) (ops : list op) : world :=
  match ops with
  | [] => w
  | o :: r => exec m (step m w o) r
  end.

(* the attach mode of the implementation under test (all opaque kinds) *)
Definition attach_impl : attach := Copy.

(* stream `own` *)
Definition run_own (ops : list op) : list (list (list tree) * list tree) := run attach_impl world0 ops.

Fixpoint tll_eqb (a b : list (list tree)) : bool :=
  match a, b with
  | [], [] => true
  | x :: ra, y :: rb => trees_eqb x y && tll_eqb ra rb
  | _, _ => false
  end.
Fixpoint obs_eqb (a b : list (list (list tree) * list tree)) : bool :=
  match a, b with
  | [], [] => true
  | (d1, v1) :: ra, (d2, v2) :: rb => tll_eqb d1 d2 && trees_eqb v1 v2 && obs_eqb ra rb
  | _, _ => false
  end.

(* ---------------------------------------------------------------- 3. attribute access: descriptor.__get__ *)
Inductive get_policy := GetIfNone | GetIfFalsy.

(* the kinds whose descriptors use the base class __get__ (stored value, else the implied value) *)
Definition base_get (k : kind) : bool :=
  match k with KAttr | KCurTs | KText | KSub | KSubNonEmpty | KAny => true | _ => false end.

(* fz v: Python's truth value of the stored object is False (atoms are canonical TEXTS, so this is supplied by the
   harness per value: False, 0, 0.0, Decimal(0), '' ...) *)
Definition public_get (g : get_policy) (fz : val -> bool) (p : prop) (implied : option val) (raw : val) : val :=
  match p_kind p with
  | KExt => match raw with VNone => VOpaque [] | _ => raw end           (* ExtensionNodeProperty.__get__ *)
  | k => if base_get k
         then match implied, raw with
              | Some i, VNone => i
              | Some i, _ => match g with GetIfNone => raw | GetIfFalsy => if fz raw then i else raw end
              | None, _ => raw
              end
         else raw                                                       (* list kinds: the stored list *)
  end.

Fixpoint public_all (g : get_policy) (fz : val -> bool) (ps : list prop) (impls : list (option val)) (raws : list val)
  : list val :=
  match ps, impls, raws with
  | p :: ps', i :: impls', r :: raws' => public_get g fz p i r :: public_all g fz ps' impls' raws'
  | _, _, _ => []
  end.

Definition get_impl : get_policy := GetIfNone.

(* stream `get`: descriptor, implied value, truth value of the stored object, stored value *)
Definition run_get (x : prop * option val * bool * val) : val :=
  let '(p, implied, falsy, raw) := x in public_get get_impl (fun _ => falsy) p implied raw.
