(* XmlStruct -- executable model of the declarative XML mapping of sdc11073
   (src/sdc11073/xml_types/xml_structure.py: the property descriptors' update_xml_value / get_py_value_from_node;
    xml_types/basetypes.py XMLTypeBase.as_etree_node / from_node; mdib/containerbase.py mk_node / update_from_node).
   Definitions only (proofs: XmlStruct/Proofs.v; the class table: XmlStruct/Gen_Schema.v, generated).

   XML is modelled after parsing (the normal form lxml produces when the written bytes are read again):
     tree  = Node tag attributes text children;   a text / attribute value is a list of atoms:
             one atom for a scalar (its canonical text - converter exactness is C18's business),
             one atom per word for the space separated list kinds; the empty string is "no text" ([None]).
   The 48 descriptor classes collapse to the 12 behavioural KINDS below. *)
From Coq Require Import List ZArith NArith Bool.
Import ListNotations.

Definition name := N.
Definition txt := list Z.
Inductive tree := Node (tag : name) (attrs : list (name * txt)) (text : option txt) (kids : list tree).

Definition t_tag (t : tree) := let (g, _, _, _) := t in g.
Definition t_attrs (t : tree) := let (_, a, _, _) := t in a.
Definition t_text (t : tree) := let (_, _, x, _) := t in x.
Definition t_kids (t : tree) := let (_, _, _, k) := t in k.

Definition XSI : name := 0%N.          (* the xsi:type attribute *)
Definition EMPTY : Z := 0%Z.           (* the atom of the empty string *)

(* python values *)
Inductive val :=
| VNone                                 (* None *)
| VAtom (a : Z)                         (* scalar *)
| VWords (l : list Z)                   (* list of scalars *)
| VList (l : list val)                  (* list of structured values *)
| VStruct (cid : N) (fs : list val)     (* data type / container instance of class cid (xsi:type = actual class) *)
| VOpaque (ts : list tree)              (* ExtensionLocalValue / list of lxml elements *)
| VDflt.                                (* (a copy of) the declared class default of the property *)

(* ---------------------------------------------------------------- tree primitives, one slot at a time *)
Fixpoint get_assoc (n : name) (l : list (name * txt)) : option txt :=
  match l with
  | [] => None
  | (m, v) :: r => if N.eqb m n then Some v else get_assoc n r
  end.
Fixpoint del_assoc (n : name) (l : list (name * txt)) : list (name * txt) :=
  match l with
  | [] => []
  | (m, v) :: r => if N.eqb m n then del_assoc n r else (m, v) :: del_assoc n r
  end.
Fixpoint set_assoc (n : name) (x : txt) (l : list (name * txt)) : list (name * txt) :=
  match l with
  | [] => [(n, x)]
  | (m, v) :: r => if N.eqb m n then (m, x) :: r else (m, v) :: set_assoc n x r
  end.

Definition get_attr (n : name) (t : tree) : option txt := get_assoc n (t_attrs t).
Definition set_attr (n : name) (x : txt) (t : tree) : tree :=
  Node (t_tag t) (set_assoc n x (t_attrs t)) (t_text t) (t_kids t).
Definition del_attr (n : name) (t : tree) : tree :=
  Node (t_tag t) (del_assoc n (t_attrs t)) (t_text t) (t_kids t).
Definition set_text (x : option txt) (t : tree) : tree := Node (t_tag t) (t_attrs t) x (t_kids t).
Definition set_kids (k : list tree) (t : tree) : tree := Node (t_tag t) (t_attrs t) (t_text t) k.

Definition is_named (n : name) (k : tree) : bool := N.eqb (t_tag k) n.
Definition kids_named (n : name) (t : tree) : list tree := filter (is_named n) (t_kids t).
Definition find_kid (n : name) (t : tree) : option tree := hd_error (kids_named n t).
Definition add_kid (k : tree) (t : tree) : tree := set_kids (t_kids t ++ [k]) t.
Definition del_all (n : name) (t : tree) : tree := set_kids (filter (fun k => negb (is_named n k)) (t_kids t)) t.
Fixpoint del_first_l (n : name) (l : list tree) : list tree :=
  match l with
  | [] => []
  | k :: r => if is_named n k then r else k :: del_first_l n r
  end.
Definition del_first (n : name) (t : tree) : tree := set_kids (del_first_l n (t_kids t)) t.
(* node.find(n) or etree.SubElement(node, n), then modify it *)
Fixpoint upd_first_l (n : name) (f : tree -> tree) (l : list tree) : list tree :=
  match l with
  | [] => [f (Node n [] None [])]
  | k :: r => if is_named n k then f k :: r else k :: upd_first_l n f r
  end.
Definition upd_or_add (n : name) (f : tree -> tree) (t : tree) : tree := set_kids (upd_first_l n f (t_kids t)) t.

Definition atom_txt (a : Z) : option txt := if Z.eqb a EMPTY then None else Some [a].
Definition words_txt (l : list Z) : option txt := match l with [] => None | _ => Some l end.

(* ---------------------------------------------------------------- property declarations *)
Inductive kind :=
| KAttr           (* scalar attribute: String/AnyURI/Handle/.../Enum/Timestamp/Decimal/Duration/Integer/Boolean/QName *)
| KCurTs          (* CurrentTimestampAttributeProperty: written with the current time, excluded from equality *)
| KAttrList       (* space separated attribute list *)
| KText           (* text of the node itself or of one sub-element: NodeTextProperty family, QName text, date of birth *)
| KTextList       (* word list in one element: NodeTextListProperty *)
| KQNameList      (* NodeTextQNameListProperty (wsd Types) *)
| KElemTextList   (* one sub-element per string: SubElementTextListProperty family *)
| KSub            (* SubElementProperty / ContainerProperty: one structured sub-element, xsi:type aware *)
| KSubList        (* SubElementListProperty / ContainerListProperty *)
| KSubNonEmpty    (* SubElementWithSubElementListProperty: written only if not empty *)
| KExt            (* ExtensionNodeProperty *)
| KAny            (* AnyEtreeNodeProperty *)
| KAnyList.       (* AnyEtreeNodeListProperty *)

(* what get_py_value_from_node makes of an element that is present but has no text *)
Inductive conv := CStr | CNum | CEnum | CQName | CDob | COther.

Record prop := mkProp {
  p_kind : kind;
  p_name : option name;     (* None: the node itself (text / content) *)
  p_conv : conv;
  p_opt : bool;             (* is_optional *)
  p_hasdef : bool;          (* default_py_value is not None *)
  p_defmut : bool;          (* ... and is a mutable object *)
  p_vcls : N;               (* declared value class (struct kinds) *)
  p_minlen : bool           (* NodeTextProperty: min_length > 0 *)
}.

Record cls := mkCls { c_id : N; c_props : list prop; c_xsd : list name (* element order of the schema type; [] = unknown *) }.

Inductive slot := SAttr (n : name) | SElem (n : name) | SText | SSelf.

Definition is_attr_kind (k : kind) : bool := match k with KAttr | KCurTs | KAttrList => true | _ => false end.
Definition slot_of (p : prop) : slot :=
  match p_name p with
  | Some n => if is_attr_kind (p_kind p) then SAttr n else SElem n
  | None => match p_kind p with KText | KTextList | KQNameList => SText | _ => SSelf end
  end.

Definition slot_eqb (a b : slot) : bool :=
  match a, b with
  | SAttr x, SAttr y => N.eqb x y
  | SElem x, SElem y => N.eqb x y
  | SText, SText => true
  | SSelf, _ | _, SSelf => true        (* the node itself overlaps with everything *)
  | _, _ => false
  end.

(* ---------------------------------------------------------------- one property: write / read *)
Definition is_empty_val (v : val) : bool :=
  match v with
  | VNone | VWords [] | VList [] | VOpaque [] => true
  | _ => false
  end.

Section OneProp.
  Variable encf : val -> name -> option tree.     (* as_etree_node / mk_node of a nested value *)
  Variable decf : N -> tree -> option val.        (* value_class.from_node *)

  Definition enc_kid (p : prop) (n : name) (v : val) : option tree :=
    match v with
    | VStruct cid _ =>
        match encf v n with
        | Some k => Some (if N.eqb cid (p_vcls p) then k else set_attr XSI [Z.of_N cid] k)
        | None => None
        end
    | _ => None
    end.

  Fixpoint enc_kids (p : prop) (n : name) (vs : list val) (t : tree) : option tree :=
    match vs with
    | [] => Some t
    | v :: r => match enc_kid p n v with
                | Some k => enc_kids p n r (add_kid k t)
                | None => None
                end
    end.

  Definition dec_kid (p : prop) (k : tree) : option val :=
    let c := match get_attr XSI k with Some [z] => Z.to_N z | _ => p_vcls p end in decf c k.

  Fixpoint dec_kids (p : prop) (ks : list tree) : option (list val) :=
    match ks with
    | [] => Some []
    | k :: r => match dec_kid p k, dec_kids p r with
                | Some v, Some vs => Some (v :: vs)
                | _, _ => None
                end
    end.

  Definition struct_all_empty (v : val) : bool :=
    match v with VStruct _ fs => forallb is_empty_val fs | _ => false end.

  (* update_xml_value; None = the call raises *)
  Definition write_prop (p : prop) (v : val) (t : tree) : option tree :=
    match p_kind p, p_name p with
    | KAttr, Some n =>
        match v with
        | VNone => if p_opt p then Some (del_attr n t) else None
        | VAtom a => Some (set_attr n [a] t)
        | _ => None
        end
    | KCurTs, Some n => Some (set_attr n [1%Z] t)
    | KAttrList, Some n =>
        match v with
        | VNone => if p_opt p then Some (del_attr n t) else None
        | VWords [] => if p_opt p then Some (del_attr n t) else Some (set_attr n [] t)
        | VWords l => Some (set_attr n l t)
        | _ => None
        end
    | KText, None =>
        match v with
        | VNone => if negb (p_opt p) && p_minlen p then None else Some (set_text None t)
        | VAtom a => Some (set_text (atom_txt a) t)
        | _ => None
        end
    | KText, Some n =>
        match v with
        | VNone => if negb (p_opt p) && p_minlen p then None
                   else if p_opt p then Some (del_first n t)
                   else Some (upd_or_add n (set_text None) t)
        | VAtom a => Some (upd_or_add n (set_text (atom_txt a)) t)
        | _ => None
        end
    | (KTextList | KQNameList), None =>
        match v with
        | VNone => Some (set_text None t)
        | VWords l => Some (set_text (words_txt l) t)
        | _ => None
        end
    | (KTextList | KQNameList), Some n =>
        match v with
        | VNone => if p_opt p then Some (del_first n t) else None
        | VWords l => Some (upd_or_add n (set_text (words_txt l)) t)
        | _ => None
        end
    | KElemTextList, Some n =>
        match v with
        | VNone | VWords [] => Some t
        | VWords l => Some (fold_left (fun t a => add_kid (Node n [] (atom_txt a) []) t) l (del_all n t))
        | _ => None
        end
    | KSub, Some n =>
        match v with
        | VNone => if p_opt p then Some t else None
        | _ => match enc_kid p n v with Some k => Some (add_kid k (del_first n t)) | None => None end
        end
    | KSubList, Some n =>
        match v with
        | VNone => Some (del_all n t)
        | VList vs => enc_kids p n vs (del_all n t)
        | _ => None
        end
    | KSubNonEmpty, Some n =>
        if is_empty_val v || struct_all_empty v then Some t
        else match enc_kid p n v with Some k => Some (add_kid k (del_first n t)) | None => None end
    | KExt, Some n =>
        match v with
        | VNone | VOpaque [] => Some t
        | VOpaque ts => Some (upd_or_add n (fun k => set_kids (t_kids k ++ ts) k) t)
        | _ => None
        end
    | KAny, Some n =>
        match v with
        | VNone => if p_opt p then Some (del_first n t) else None
        | VOpaque ts => Some (upd_or_add n (fun k => set_kids (t_kids k ++ ts) k) t)
        | _ => None
        end
    | KAnyList, Some n =>
        match v with
        | VNone | VOpaque [] => if p_opt p then Some (del_first n t) else Some t
        | VOpaque ts => Some (upd_or_add n (fun k => set_kids (t_kids k ++ ts) k) t)
        | _ => None
        end
    | _, _ => None      (* ContainerProperty(None) / AnyEtreeNodeProperty(None): the node itself, not modelled *)
    end.

  Definition scalar_of_text (c : conv) (x : option txt) : option val :=
    match x with
    | Some [a] => Some (VAtom a)
    | Some _ => None
    | None => match c with
              | CStr => Some (VAtom EMPTY)
              | CNum | CQName => Some VNone
              | CEnum | CDob | COther => None
              end
    end.

  Definition absent_struct (p : prop) : val := if p_hasdef p then VDflt else VNone.

  (* get_py_value_from_node; None = the call raises *)
  Definition read_prop (p : prop) (t : tree) : option val :=
    match p_kind p, p_name p with
    | (KAttr | KCurTs), Some n =>
        match get_attr n t with
        | None => Some VNone
        | Some [a] => Some (VAtom a)
        | Some _ => None
        end
    | KAttrList, Some n => Some (VWords (match get_attr n t with Some l => l | None => [] end))
    | KText, None => scalar_of_text (p_conv p) (t_text t)
    | KText, Some n =>
        match find_kid n t with
        | None => Some (if p_hasdef p then VDflt else VNone)
        | Some k => scalar_of_text (p_conv p) (t_text k)
        end
    | KTextList, None => Some (VWords (match t_text t with Some l => l | None => [] end))
    | KTextList, Some n =>
        match find_kid n t with
        | None => Some VNone
        | Some k => Some (VWords (match t_text k with Some l => l | None => [] end))
        end
    | KQNameList, None => Some (match t_text t with Some l => VWords l | None => VNone end)
    | KQNameList, Some n =>
        match find_kid n t with
        | None => Some (VWords [])
        | Some k => Some (match t_text k with Some l => VWords l | None => VNone end)
        end
    | KElemTextList, Some n =>
        Some (VWords (map (fun k => match t_text k with Some [a] => a | _ => EMPTY end) (kids_named n t)))
    | (KSub | KSubNonEmpty), Some n =>
        match find_kid n t with
        | None => Some (absent_struct p)
        | Some k => dec_kid p k
        end
    | KSubList, Some n => option_map VList (dec_kids p (kids_named n t))
    | (KExt | KAnyList), Some n =>
        match find_kid n t with
        | None => Some (VOpaque [])
        | Some k => Some (VOpaque (t_kids k))
        end
    | KAny, Some n =>
        match find_kid n t with
        | None => Some VNone
        | Some k => Some (VOpaque (t_kids k))
        end
    | _, _ => None
    end.

  Fixpoint write_all (ps : list prop) (fs : list val) (t : tree) : option tree :=
    match ps, fs with
    | [], [] => Some t
    | p :: ps', f :: fs' => match write_prop p f t with
                            | Some t' => write_all ps' fs' t'
                            | None => None
                            end
    | _, _ => None
    end.

  (* update_from_node: the list kinds keep their initial [] when get_py_value_from_node returns None *)
  Definition update_value (p : prop) (v : val) : val :=
    match p_kind p with
    | KTextList | KQNameList => match v with VNone => VWords [] | _ => v end
    | _ => v
    end.
  Definition read_member (p : prop) (t : tree) : option val := option_map (update_value p) (read_prop p t).

  Fixpoint read_all (ps : list prop) (t : tree) : option (list val) :=
    match ps with
    | [] => Some []
    | p :: ps' => match read_member p t, read_all ps' t with
                  | Some v, Some vs => Some (v :: vs)
                  | _, _ => None
                  end
    end.
End OneProp.

(* ---------------------------------------------------------------- classes: as_etree_node / from_node *)
Section Classes.
  Variable classes : list cls.

  Fixpoint lookup_in (l : list cls) (cid : N) : option cls :=
    match l with
    | [] => None
    | c :: r => if N.eqb (c_id c) cid then Some c else lookup_in r cid
    end.
  Definition lookup := lookup_in classes.

  Fixpoint enc (fuel : nat) (v : val) (tag : name) : option tree :=
    match fuel with
    | O => None
    | S n =>
        match v with
        | VStruct cid fs =>
            match lookup cid with
            | Some c => write_all (enc n) (c_props c) fs (Node tag [] None [])
            | None => None
            end
        | _ => None
        end
    end.

  Fixpoint dec (fuel : nat) (cid : N) (t : tree) : option val :=
    match fuel with
    | O => None
    | S n =>
        match lookup cid with
        | Some c => option_map (VStruct cid) (read_all (dec n) (c_props c) t)
        | None => None
        end
    end.
End Classes.

(* ---------------------------------------------------------------- well-formed class declarations (computed) *)
Fixpoint no_clash (ss : list slot) : bool :=
  match ss with
  | [] => true
  | s :: r => negb (existsb (slot_eqb s) r) && no_clash r
  end.

Definition not_xsi (p : prop) : bool :=
  match slot_of p with SAttr n => negb (N.eqb n XSI) | _ => true end.

Definition flags_ok (p : prop) : bool :=
  implb (p_defmut p) (p_hasdef p) &&
  match p_kind p with
  | KSub | KSubNonEmpty => true
  | KText | KAttr => negb (p_defmut p)
  | _ => negb (p_hasdef p)                       (* list kinds and opaque kinds have no class default *)
  end.

Fixpoint subseq (a b : list name) : bool :=
  match a, b with
  | [], _ => true
  | _ :: _, [] => false
  | x :: ra, y :: rb => if N.eqb x y then subseq ra rb else subseq a rb
  end.

Definition elem_names (c : cls) : list name :=
  flat_map (fun p => match slot_of p with SElem n => [n] | _ => [] end) (c_props c).

(* element names unique within a class, nothing bound to the node itself, flags consistent, and - where the
   schema type is known - the elements are written in the order of the schema's sequence *)
Definition not_self (p : prop) : bool := match slot_of p with SSelf => false | _ => true end.

Definition wf_class (c : cls) : bool :=
  no_clash (map slot_of (c_props c)) &&
  forallb not_xsi (c_props c) &&
  forallb not_self (c_props c) &&
  forallb flags_ok (c_props c) &&
  match c_xsd c with [] => true | order => subseq (elem_names c) order end.

Definition uses_self_node (c : cls) : bool := negb (forallb not_self (c_props c)).

(* ---------------------------------------------------------------- correspondence helpers (stream `props`) *)
Fixpoint txt_eqb (a b : list Z) : bool :=
  match a, b with
  | [], [] => true
  | x :: ra, y :: rb => Z.eqb x y && txt_eqb ra rb
  | _, _ => false
  end.
Definition otxt_eqb (a b : option txt) : bool :=
  match a, b with None, None => true | Some x, Some y => txt_eqb x y | _, _ => false end.

Fixpoint attrs_eqb (a b : list (name * txt)) : bool :=
  match a, b with
  | [], [] => true
  | (n, x) :: ra, (m, y) :: rb => N.eqb n m && txt_eqb x y && attrs_eqb ra rb
  | _, _ => false
  end.

Fixpoint tree_eqb (a b : tree) {struct a} : bool :=
  match a, b with
  | Node ta aa xa ka, Node tb ab xb kb =>
      N.eqb ta tb && attrs_eqb aa ab && otxt_eqb xa xb &&
      (fix go (ka kb : list tree) {struct ka} : bool :=
         match ka, kb with
         | [], [] => true
         | x :: ra, y :: rb => tree_eqb x y && go ra rb
         | _, _ => false
         end) ka kb
  end.

Fixpoint trees_eqb (a b : list tree) : bool :=
  match a, b with
  | [], [] => true
  | x :: ra, y :: rb => tree_eqb x y && trees_eqb ra rb
  | _, _ => false
  end.

Fixpoint val_eqb (a b : val) {struct a} : bool :=
  match a, b with
  | VNone, VNone | VDflt, VDflt => true
  | VAtom x, VAtom y => Z.eqb x y
  | VWords x, VWords y => txt_eqb x y
  | VOpaque x, VOpaque y => trees_eqb x y
  | VStruct c x, VStruct d y =>
      N.eqb c d && (fix go (x y : list val) {struct x} : bool :=
                      match x, y with
                      | [], [] => true
                      | u :: rx, w :: ry => val_eqb u w && go rx ry
                      | _, _ => false
                      end) x y
  | VList x, VList y =>
      (fix go (x y : list val) {struct x} : bool :=
         match x, y with
         | [], [] => true
         | u :: rx, w :: ry => val_eqb u w && go rx ry
         | _, _ => false
         end) x y
  | _, _ => false
  end.

(* result of driving ONE descriptor: the tree after update_xml_value and the value get_py_value_from_node reads
   from it (None = raised); nested values are given with their own trees (the descriptor under test is not
   responsible for them): encf / decf are table lookups supplied by the case *)
Definition assoc_enc (tab : list (val * tree)) (v : val) (n : name) : option tree :=
  match find (fun e => val_eqb (fst e) v) tab with
  | Some (_, Node _ a x k) => Some (Node n a x k)
  | None => None
  end.
Definition assoc_dec (tab : list (val * tree)) (cid : N) (t : tree) : option val :=
  match find (fun e => match fst e with VStruct c _ => N.eqb c cid | _ => false end &&
                        trees_eqb (t_kids (snd e)) (t_kids t) && otxt_eqb (t_text (snd e)) (t_text t) &&
                        attrs_eqb (del_assoc XSI (t_attrs (snd e))) (del_assoc XSI (t_attrs t))) tab with
  | Some (v, _) => Some v
  | None => None
  end.

Definition run_prop (x : prop * list (val * tree) * val * tree) : option tree * option val :=
  let '(p, tab, v, t) := x in
  match write_prop (assoc_enc tab) p v t with
  | Some t' => (Some t', read_prop (assoc_dec tab) p t')
  | None => (None, read_prop (assoc_dec tab) p t)
  end.

Definition ores_eqb (a b : option tree * option val) : bool :=
  match fst a, fst b with
  | None, None => true
  | Some x, Some y => tree_eqb x y
  | _, _ => false
  end &&
  match snd a, snd b with
  | None, None => true
  | Some x, Some y => val_eqb x y
  | _, _ => false
  end.
