(* XmlStruct -- proofs about instances with a history (XmlStruct/Instance.v):
   1. with the store policy "always assign" reading into ANY populated instance is reading into a fresh instance,
      and every policy that keeps the previous value for some member that can read as None breaks that;
   3. with the get policy GetIfNone attribute access returns every stored value, whatever its truth value; GetIfFalsy
      replaces every stored falsy value that differs from the implied one;
   2. with the attach mode Copy a write changes neither the value nor any document that exists, and a second write
      yields the same document; with Move (lxml re-parents) earlier documents lose their content. *)
From Coq Require Import List ZArith NArith Bool Lia.
From SDC Require Import XmlStruct.Model XmlStruct.Proofs XmlStruct.Instance.
Import ListNotations.

(* ------------------------------------------------------------------ 1. update_from_node *)
Lemma update_value_id p v : v <> VNone -> update_value p v = v.
Proof. unfold update_value. destruct (p_kind p), v; auto; congruence. Qed.

Lemma update_never_is_read decf p old t : update_member keep_never decf p old t = read_member decf p t.
Proof.
  unfold update_member, read_member, keep_never. destruct (read_prop decf p t) as [v|]; simpl; auto.
  destruct v; simpl; auto; rewrite update_value_id; auto; discriminate.
Qed.

Lemma update_all_never decf : forall ps olds t, length olds = length ps ->
  update_all keep_never decf ps olds t = read_all decf ps t.
Proof.
  induction ps as [|p ps IH]; intros [|o olds] t L; simpl in *; try discriminate; auto.
  rewrite update_never_is_read, IH by lia. reflexivity.
Qed.

Ltac dmatch :=
  match goal with
  | |- context [match ?x with _ => _ end] =>
      lazymatch x with
      | context [match _ with _ => _ end] => fail
      | _ => destruct x; simpl; auto
      end
  end.

(* the unrepaired list policy is right on FRESH instances (why from_node never showed the problem) *)
Lemma update_lists_fresh decf p t : update_member keep_lists decf p (init_val p) t = read_member decf p t.
Proof.
  unfold update_member, read_member, keep_lists, init_val, update_value, read_prop, scalar_of_text, absent_struct,
    option_map, find_kid.
  destruct (p_kind p), (p_name p); simpl; auto; repeat dmatch.
Qed.

Lemma update_all_lists_fresh decf : forall ps t,
  update_all keep_lists decf ps (map init_val ps) t = read_all decf ps t.
Proof.
  induction ps as [|p ps IH]; intros t; simpl; auto. now rewrite update_lists_fresh, IH.
Qed.

(* a policy that keeps the previous value of a member whose reader returns None: stale value *)
Lemma keep_refuted keep decf p t : keep p = true -> read_prop decf p t = Some VNone ->
  update_member keep decf p (VAtom 1) t = Some (VAtom 1) /\ read_member decf p t <> Some (VAtom 1).
Proof.
  intros K R. unfold update_member, read_member. rewrite R, K. split; auto.
  simpl. unfold update_value. destruct (p_kind p); discriminate.
Qed.

(* the members whose reader returns None when the attribute / element is absent *)
Definition reads_none_when_absent (p : prop) : bool :=
  match p_kind p with
  | KAttr | KCurTs | KAny | KTextList => true
  | KText | KSub | KSubNonEmpty => negb (p_hasdef p)
  | _ => false
  end.

Lemma absent_reads_none decf p n t : p_name p = Some n -> free (slot_of p) t -> reads_none_when_absent p = true ->
  read_prop decf p t = Some VNone.
Proof.
  unfold slot_of, read_prop, find_kid, reads_none_when_absent, absent_struct.
  intros -> Fr. destruct (p_kind p); simpl in *; intros H; try discriminate;
    try (apply free_attr in Fr; rewrite Fr; reflexivity);
    try (apply free_elem in Fr; rewrite Fr; simpl; apply negb_true_iff in H; rewrite ?H; reflexivity);
    try (apply free_elem in Fr; rewrite Fr; reflexivity).
Qed.

Lemma keep_refuted_absent keep decf p n t : keep p = true -> p_name p = Some n -> free (slot_of p) t ->
  reads_none_when_absent p = true ->
  exists old, update_member keep decf p old t <> read_member decf p t.
Proof.
  intros K Nm Fr Rn. exists (VAtom 1).
  destruct (keep_refuted keep decf p t K (absent_reads_none decf p n t Nm Fr Rn)) as [U R]. congruence.
Qed.

(* class level *)
Lemma dec_into_never classes fuel cid olds t :
  (forall c, lookup classes cid = Some c -> length olds = length (c_props c)) ->
  dec_into keep_never classes fuel cid olds t = dec classes fuel cid t.
Proof.
  destruct fuel; simpl; auto. intros L. destruct (lookup classes cid) as [c|]; auto.
  now rewrite update_all_never by (apply L; reflexivity).
Qed.

Lemma Forall2_length' {A B} (P : A -> B -> Prop) l l' : Forall2 P l l' -> length l = length l'.
Proof. induction 1; simpl; auto. Qed.

(* write a value, read the document into ANY instance of the class: the value *)
Lemma written_into_any_instance classes (Hwf : forall c, In c classes -> wf_slots c) n cid fs tag t olds :
  valid classes n (VStruct cid fs) -> enc classes n (VStruct cid fs) tag = Some t -> length olds = length fs ->
  dec_into keep_never classes n cid olds t = Some (VStruct cid fs).
Proof.
  intros V E L. destruct (class_roundtrip classes Hwf n cid fs tag V) as (t' & E' & D).
  assert (t' = t) by congruence. subst t'. rewrite dec_into_never; auto.
  intros c Lc. destruct n; [destruct V|]. simpl in V. destruct V as (c' & Lc' & F).
  assert (c' = c) by congruence. subst c'. apply Forall2_length' in F. lia.
Qed.

(* ------------------------------------------------------------------ 2. ownership *)
Lemma body_fresh : forall bodies n, map e_body (fresh n bodies) = bodies.
Proof. induction bodies as [|b r IH]; intros n; simpl; auto. now rewrite IH. Qed.

(* Copy: the write appends one document with the content of the value; everything else is untouched *)
Lemma write_pure w :
  w_docs (step Copy w OWrite) = w_docs w ++ [fresh (w_next w) (map e_body (w_val w))] /\
  w_val (step Copy w OWrite) = w_val w /\
  render (step Copy w OWrite) = (fst (render w) ++ [snd (render w)], snd (render w)).
Proof.
  simpl. repeat split. unfold render. simpl. rewrite map_app. simpl. now rewrite body_fresh.
Qed.

Lemma second_write_identical_docs w :
  fst (render (step Copy (step Copy w OWrite) OWrite)) = fst (render w) ++ [snd (render w); snd (render w)] /\
  snd (render (step Copy (step Copy w OWrite) OWrite)) = snd (render w).
Proof.
  destruct (write_pure w) as (_ & _ & R1). destruct (write_pure (step Copy w OWrite)) as (_ & _ & R2).
  rewrite R2, R1. simpl. now rewrite <- app_assoc.
Qed.

(* Copy: no operation ever changes a document that exists (not even the identity of its elements) *)
Lemma step_copy_docs w o : exists more, w_docs (step Copy w o) = w_docs w ++ more.
Proof.
  destruct o; simpl;
    [exists []; now rewrite app_nil_r|eexists; reflexivity|exists []; now rewrite app_nil_r|eexists; reflexivity].
Qed.

Lemma exec_copy_docs : forall ops w, exists more, w_docs (exec Copy w ops) = w_docs w ++ more.
Proof.
  induction ops as [|o r IH]; intros w; simpl.
  - exists []. now rewrite app_nil_r.
  - destruct (IH (step Copy w o)) as (m2 & E2). destruct (step_copy_docs w o) as (m1 & E1).
    exists (m1 ++ m2). now rewrite E2, E1, app_assoc.
Qed.

Lemma documents_never_change ops w d : (d < length (w_docs w))%nat ->
  nth d (fst (render (exec Copy w ops))) [] = nth d (fst (render w)) [].
Proof.
  intros L. destruct (exec_copy_docs ops w) as (more & E). unfold render. simpl. rewrite E, map_app.
  apply app_nth1. now rewrite map_length.
Qed.

(* ... so a value read from the first written document after any number of further operations is the value written *)
Lemma read_back_after ops w :
  let w1 := step Copy w OWrite in
  snd (render (step Copy (exec Copy w1 ops) (ORead (length (w_docs w))))) = snd (render w).
Proof.
  intros w1. unfold render at 1. simpl.
  destruct (exec_copy_docs ops w1) as (more & E). rewrite E. subst w1. simpl.
  rewrite <- app_assoc. rewrite app_nth2 by lia. rewrite Nat.sub_diag. simpl. apply body_fresh.
Qed.

(* Move (what sub_node.extend(value) does): the second write empties the first document, and the first write of a
   value that was read from a document empties that document *)
Lemma move_refuted b :
  let w1 := exec Move world0 [ONew [b]; OWrite] in
  fst (render w1) = [[b]] /\ fst (render (step Move w1 OWrite)) = [[]; [b]].
Proof. simpl. unfold render, detach, has_id. simpl. auto. Qed.

Lemma move_source_refuted b :
  let w0 := exec Move world0 [OParse [b]] in        (* a parsed document with one extension element *)
  fst (render w0) = [[b]] /\ fst (render (exec Move w0 [ORead 0; OWrite])) = [[]; [b]].
Proof. simpl. unfold render, detach, has_id. simpl. auto. Qed.

(* ------------------------------------------------------------------ 3. attribute access *)
(* whatever is stored is what attribute access returns (the implied value never shadows a present value) *)
Lemma public_get_present fz p implied raw : raw <> VNone -> public_get GetIfNone fz p implied raw = raw.
Proof.
  intros H. unfold public_get. destruct (p_kind p); simpl; destruct raw; try congruence; destruct implied; reflexivity.
Qed.

(* nothing stored: the implied value (base class __get__) *)
Lemma public_get_absent g fz p i : base_get (p_kind p) = true -> public_get g fz p (Some i) VNone = i.
Proof. unfold public_get. destruct (p_kind p); simpl; intros H; try discriminate; reflexivity. Qed.

Lemma public_all_present fz : forall ps impls raws, length impls = length ps -> length raws = length ps ->
  Forall2 (fun raw pub => raw <> VNone -> pub = raw) raws (public_all GetIfNone fz ps impls raws).
Proof.
  induction ps as [|p ps IH]; intros [|i impls] [|r raws] Li Lr; simpl in *; try discriminate; constructor.
  - intros H. now apply public_get_present.
  - apply IH; lia.
Qed.

(* the value written, read back, seen through attribute access: every member that carries a value shows that value *)
Lemma public_roundtrip classes (Hwf : forall c, In c classes -> wf_slots c) fz n cid fs tag t c impls :
  valid classes n (VStruct cid fs) -> enc classes n (VStruct cid fs) tag = Some t -> lookup classes cid = Some c ->
  length impls = length (c_props c) ->
  exists fs', dec classes n cid t = Some (VStruct cid fs') /\
              Forall2 (fun w pub => w <> VNone -> pub = w) fs (public_all GetIfNone fz (c_props c) impls fs').
Proof.
  intros V E Lc Li. destruct (class_roundtrip classes Hwf n cid fs tag V) as (t' & E' & D).
  assert (t' = t) by congruence. subst t'. exists fs. split; auto.
  apply public_all_present; auto.
  destruct n; [destruct V|]. simpl in V. destruct V as (c' & Lc' & F).
  assert (c' = c) by congruence. subst c'. apply Forall2_length' in F. lia.
Qed.

(* `if not value`: every stored falsy value that differs from the implied value is replaced *)
Lemma get_if_falsy_refuted fz p i raw : base_get (p_kind p) = true -> raw <> VNone -> fz raw = true -> i <> raw ->
  public_get GetIfFalsy fz p (Some i) raw = i /\ public_get GetIfFalsy fz p (Some i) raw <> raw.
Proof.
  intros B H F D. assert (E : public_get GetIfFalsy fz p (Some i) raw = i).
  { unfold public_get. destruct (p_kind p); simpl in B; try discriminate; destruct raw; try congruence; now rewrite F. }
  split; auto. now rewrite E.
Qed.
