(* Invariant proofs over ALL interleavings: with the traced program shapes (commit and send inside the
   transaction lock and the MDIB lock; responses built inside one MDIB critical section) every subscriber
   queue is strictly increasing in MdibVersion and every completed response is a consistent snapshot. *)
From Coq Require Import List ZArith Bool Lia Arith.
From SDC Require Import Conc.Model.
Import ListNotations.
Open Scope Z_scope.

Definition W (th : thread) : Prop := t_prog th = writer_prog.
Definition R (th : thread) : Prop := t_prog th = reader_prog.

(* per-thread facts; they mention the global version and the subscriber queue *)
Definition wfth (ver : Z) (queue : list Z) (th : thread) : Prop :=
  (W th /\ (t_pc th <= 6)%nat /\ t_v th = -1 /\ t_c th = -1 /\
   (t_pc th = 3%nat -> t_pending th = ver /\ Forall (fun q => q < ver) queue))
  \/
  (R th /\ (t_pc th <= 4)%nat /\
   ((t_pc th <= 1)%nat -> t_v th = -1 /\ t_c th = -1) /\
   (t_pc th = 2%nat -> t_c th = ver /\ t_v th = -1) /\
   (t_pc th = 3%nat -> t_c th = ver /\ t_v th = ver) /\
   (t_pc th = 4%nat -> t_c th = t_v th)).

Record Inv (s : gstate) : Prop := {
  inv_th : forall i th, nth_error (g_threads s) i = Some th -> wfth (g_ver s) (g_queue s) th;
  inv_xtr : forall i j thi thj, i <> j -> nth_error (g_threads s) i = Some thi -> nth_error (g_threads s) j = Some thj ->
            holds_tr thi = true -> holds_tr thj = true -> False;
  inv_xmd : forall i j thi thj, i <> j -> nth_error (g_threads s) i = Some thi -> nth_error (g_threads s) j = Some thj ->
            holds_mdib thi = true -> holds_mdib thj = true -> False;
  inv_sorted : sorted_lt (g_queue s) = true;
  inv_le : Forall (fun q => q <= g_ver s) (g_queue s);
  inv_done : responses_consistent s = true
}.

(* ---------------------------------------------------------------- lists *)
Lemma nth_error_set_nth {A} (l : list A) i x j :
  nth_error (set_nth l i x) j =
  if Nat.eqb i j then (match nth_error l i with Some _ => Some x | None => None end) else nth_error l j.
Proof.
  revert i j; induction l as [|y r IH]; intros i j; cbn [set_nth].
  - destruct i, j; cbn; try reflexivity. destruct (Nat.eqb i j); reflexivity.
  - destruct i as [|i], j as [|j]; cbn [set_nth nth_error Nat.eqb]; try reflexivity. apply IH.
Qed.

Lemma sorted_lt_app_last l x : sorted_lt l = true -> Forall (fun q => q < x) l -> sorted_lt (l ++ [x]) = true.
Proof.
  induction l as [|a r IH]; intros Hs Hf; [reflexivity|].
  destruct r as [|b r']; cbn [app sorted_lt] in *.
  - inversion Hf; subst. apply andb_true_intro. split; [lia|reflexivity].
  - apply andb_prop in Hs as [H1 H2]. apply andb_true_intro. split; [assumption|].
    apply IH; [assumption|]. now inversion Hf.
Qed.

Lemma forallb_nth {A} (f : A -> bool) l i x : forallb f l = true -> nth_error l i = Some x -> f x = true.
Proof.
  intros H E. apply nth_error_In in E. rewrite forallb_forall in H. now apply H.
Qed.

(* ---------------------------------------------------------------- the general update lemma *)
Lemma inv_update s i th th' ver' queue' done' :
  Inv s -> nth_error (g_threads s) i = Some th ->
  wfth ver' queue' th' ->
  (holds_tr th' = true -> holds_tr th = true \/ tr_free s = true) ->
  (holds_mdib th' = true -> holds_mdib th = true \/ mdib_free s = true) ->
  (ver' <> g_ver s -> holds_tr th = true /\ holds_mdib th = true) ->
  (queue' <> g_queue s -> holds_tr th = true) ->
  sorted_lt queue' = true -> Forall (fun q => q <= ver') queue' ->
  forallb (fun vc => Z.eqb (fst vc) (snd vc)) done' = true ->
  Inv (mkG ver' queue' (set_nth (g_threads s) i th') done').
Proof.
  intros I Ei Hw Htr Hmd Hv Hq Hs Hl Hd.
  constructor; cbn [g_ver g_queue g_threads g_done]; try assumption.
  - (* every thread well-formed w.r.t. the new version / queue *)
    intros j thj Ej. rewrite nth_error_set_nth in Ej.
    destruct (Nat.eqb_spec i j) as [<-|Hne].
    + rewrite Ei in Ej. now injection Ej as <-.
    + pose proof (inv_th _ I j thj Ej) as Wj.
      destruct (Z.eq_dec ver' (g_ver s)) as [Ev|Nv];
        [subst ver'; destruct (list_eq_dec Z.eq_dec queue' (g_queue s)) as [->|Nq]; [exact Wj|]|].
      * (* only the queue changed: thread i holds the transaction lock, so no other writer is at pc 3 *)
        specialize (Hq Nq).
        destruct Wj as [(Wj & B & V & C & P3)|Rj]; [|right; exact Rj].
        left. split; [exact Wj|]. split; [exact B|]. split; [exact V|]. split; [exact C|].
        intros Hp. exfalso. apply (inv_xtr _ I i j th thj Hne Ei Ej Hq).
        unfold holds_tr, holds. rewrite Wj, Hp. reflexivity.
      * (* the version changed: thread i holds both locks, so no other thread is inside a critical section *)
        destruct (Hv Nv) as [Ht Hm].
        destruct Wj as [(Wj & B & V & C & P3)|(Rj & B & P01 & P2 & P3 & P4)].
        -- left. split; [exact Wj|]. split; [exact B|]. split; [exact V|]. split; [exact C|].
           intros Hp. exfalso. apply (inv_xtr _ I i j th thj Hne Ei Ej Ht).
           unfold holds_tr, holds. rewrite Wj, Hp. reflexivity.
        -- right. split; [exact Rj|]. split; [exact B|]. split; [exact P01|].
           split; [|split; [|exact P4]]; intros Hp; exfalso; apply (inv_xmd _ I i j th thj Hne Ei Ej Hm);
             unfold holds_mdib, holds; rewrite Rj, Hp; reflexivity.
  - (* exclusion on the transaction lock *)
    intros a b tha thb Hab Ea Eb Ha Hb. rewrite nth_error_set_nth in Ea, Eb.
    destruct (Nat.eqb_spec i a) as [<-|Hia], (Nat.eqb_spec i b) as [<-|Hib]; try congruence.
    + rewrite Ei in Ea. injection Ea as <-. destruct (Htr Ha) as [H0|Hf].
      * exact (inv_xtr _ I i b th thb Hab Ei Eb H0 Hb).
      * unfold tr_free in Hf. pose proof (forallb_nth _ _ _ _ Hf Eb) as X. cbn beta in X. rewrite Hb in X. discriminate.
    + rewrite Ei in Eb. injection Eb as <-. destruct (Htr Hb) as [H0|Hf].
      * exact (inv_xtr _ I a i tha th Hab Ea Ei Ha H0).
      * unfold tr_free in Hf. pose proof (forallb_nth _ _ _ _ Hf Ea) as X. cbn beta in X. rewrite Ha in X. discriminate.
    + exact (inv_xtr _ I a b tha thb Hab Ea Eb Ha Hb).
  - (* exclusion on the mdib lock *)
    intros a b tha thb Hab Ea Eb Ha Hb. rewrite nth_error_set_nth in Ea, Eb.
    destruct (Nat.eqb_spec i a) as [<-|Hia], (Nat.eqb_spec i b) as [<-|Hib]; try congruence.
    + rewrite Ei in Ea. injection Ea as <-. destruct (Hmd Ha) as [H0|Hf].
      * exact (inv_xmd _ I i b th thb Hab Ei Eb H0 Hb).
      * unfold mdib_free in Hf. pose proof (forallb_nth _ _ _ _ Hf Eb) as X. cbn beta in X. rewrite Hb in X. discriminate.
    + rewrite Ei in Eb. injection Eb as <-. destruct (Hmd Hb) as [H0|Hf].
      * exact (inv_xmd _ I a i tha th Hab Ea Ei Ha H0).
      * unfold mdib_free in Hf. pose proof (forallb_nth _ _ _ _ Hf Ea) as X. cbn beta in X. rewrite Ha in X. discriminate.
    + exact (inv_xmd _ I a b tha thb Hab Ea Eb Ha Hb).
Qed.

(* ---------------------------------------------------------------- one step *)
Ltac pcs pc := destruct pc as [|[|[|[|[|[|[|pc]]]]]]]; try lia.
Ltac leaf := first [lia | reflexivity | congruence | assumption].
Ltac wf := unfold wfth, W, R; cbn [t_prog t_pc t_v t_c t_pending advance];
           first [solve [left; repeat (split || intro); leaf] | solve [right; repeat (split || intro); leaf]].
Ltac keepL := intros _; now left.
Ltac acq := intros _; now right.
Ltac noh := cbn; discriminate.
Ltac same := intros; congruence.

Lemma step_inv s i : Inv s -> Inv (step s i).
Proof.
  intros I. unfold step. destruct (nth_error (g_threads s) i) as [th|] eqn:Ei; [|exact I].
  pose proof (inv_th _ I i th Ei) as Wth.
  destruct th as [prog pc v c pend]. unfold wfth, W, R in Wth. cbn [t_prog t_pc t_v t_c t_pending] in *.
  destruct Wth as [(-> & B & -> & -> & P3)|(-> & B & P01 & P2 & P3 & P4)].
  - (* ---- a writer ---- *)
    pcs pc; cbn [nth_error writer_prog t_prog t_pc t_v t_c t_pending Z.eqb andb].
    + (* AcqTr *)
      destruct (tr_free s) eqn:F; [|exact I].
      eapply inv_update; [exact I|exact Ei|wf|acq|noh|same|same|apply I|apply I|apply I].
    + (* AcqMdib *)
      destruct (mdib_free s) eqn:F; [|exact I].
      eapply inv_update; [exact I|exact Ei|wf|keepL|acq|same|same|apply I|apply I|apply I].
    + (* Commit *)
      assert (Hlt : Forall (fun q => q < g_ver s + 1) (g_queue s)).
      { eapply Forall_impl; [|apply (inv_le _ I)]. intros q Hq. cbn in Hq. lia. }
      eapply inv_update; [exact I|exact Ei| |keepL|keepL|intros _; split; reflexivity|same|apply I| |apply I].
      * left. unfold W. cbn. repeat split; try lia. exact Hlt.
      * eapply Forall_impl; [|exact Hlt]. intros q Hq. cbn in Hq. lia.
    + (* Send *)
      destruct (P3 eq_refl) as [-> Hlt].
      eapply inv_update; [exact I|exact Ei|wf|keepL|keepL|same|intros _; reflexivity| | |apply I].
      * apply sorted_lt_app_last; [apply I|exact Hlt].
      * apply Forall_app. split; [apply I|constructor; [lia|constructor]].
    + (* RelMdib *)
      eapply inv_update; [exact I|exact Ei|wf|keepL|noh|same|same|apply I|apply I|apply I].
    + (* RelTr *)
      eapply inv_update; [exact I|exact Ei|wf|noh|noh|same|same|apply I|apply I|apply I].
    + (* finished: start over, nothing published *)
      eapply inv_update; [exact I|exact Ei|wf|noh|noh|same|same|apply I|apply I|apply I].
  - (* ---- a reader ---- *)
    pcs pc; cbn [nth_error reader_prog t_prog t_pc t_v t_c t_pending].
    + (* AcqMdib *)
      destruct (mdib_free s) eqn:F; [|exact I]. destruct (P01 ltac:(lia)) as [-> ->].
      eapply inv_update; [exact I|exact Ei|wf|noh|acq|same|same|apply I|apply I|apply I].
    + (* ReadContent *)
      destruct (P01 ltac:(lia)) as [-> ->].
      eapply inv_update; [exact I|exact Ei|wf|noh|keepL|same|same|apply I|apply I|apply I].
    + (* ReadVersion *)
      destruct (P2 eq_refl) as [-> ->].
      eapply inv_update; [exact I|exact Ei|wf|noh|keepL|same|same|apply I|apply I|apply I].
    + (* RelMdib *)
      destruct (P3 eq_refl) as [-> ->].
      eapply inv_update; [exact I|exact Ei|wf|noh|noh|same|same|apply I|apply I|apply I].
    + (* finished: publish the response (version, content) and start over *)
      specialize (P4 eq_refl). subst c.
      eapply inv_update; [exact I|exact Ei|wf|noh|noh|same|same|apply I|apply I|].
      destruct ((v =? -1) && (v =? -1)); [apply I|].
      cbn [forallb fst snd]. rewrite Z.eqb_refl. apply I.
Qed.

Lemma init_inv progs v0 :
  Forall (fun p => p = writer_prog \/ p = reader_prog) progs -> Inv (init progs v0).
Proof.
  intros Hp.
  assert (Hnh : forall k th, nth_error (g_threads (init progs v0)) k = Some th ->
                holds_tr th = false /\ holds_mdib th = false /\ wfth v0 [] th).
  { intros k th E. cbn [init g_threads] in E. rewrite nth_error_map in E.
    destruct (nth_error progs k) as [p|] eqn:Ep; [|discriminate]. injection E as <-.
    apply nth_error_In in Ep. rewrite Forall_forall in Hp.
    destruct (Hp p Ep) as [Hpw|Hpr]; subst p; (split; [reflexivity|split; [reflexivity|]]).
    - left. unfold W. cbn. repeat (split || intro); first [lia | reflexivity | constructor].
    - right. unfold R. cbn. repeat (split || intro); first [lia | reflexivity]. }
  constructor.
  - intros k th E. exact (proj2 (proj2 (Hnh k th E))).
  - intros a b tha thb _ Ea _ Ha _. destruct (Hnh a tha Ea) as (X & _). congruence.
  - intros a b tha thb _ Ea _ Ha _. destruct (Hnh a tha Ea) as (_ & X & _). congruence.
  - reflexivity.
  - constructor.
  - reflexivity.
Qed.

Theorem run_inv sched : forall s, Inv s -> Inv (run sched s).
Proof.
  induction sched as [|i r IH]; intros s I; [exact I|]. unfold run. cbn [fold_left]. apply IH. now apply step_inv.
Qed.

Lemma act_eqb_eq a b : act_eqb a b = true -> a = b.
Proof. destruct a, b; cbn; intros H; try discriminate; reflexivity. Qed.
Lemma prog_eqb_eq p q : prog_eqb p q = true -> p = q.
Proof.
  revert q; induction p as [|a p IH]; intros [|b q]; cbn; try discriminate; [reflexivity|].
  intros H. apply andb_prop in H as [H1 H2]. f_equal; [now apply act_eqb_eq|now apply IH].
Qed.

(* all programs of a system are the traced commit program or one of the traced handler programs *)
Definition system_ok (commit : list act) (handlers : list (list act)) (progs : list (list act)) : Prop :=
  prog_eqb commit writer_prog = true /\ forallb (fun p => prog_eqb p reader_prog) handlers = true /\
  Forall (fun p => p = commit \/ In p handlers) progs.

Lemma system_ok_shapes commit handlers progs :
  system_ok commit handlers progs -> Forall (fun p => p = writer_prog \/ p = reader_prog) progs.
Proof.
  intros (Hc & Hh & Hp). apply prog_eqb_eq in Hc. rewrite forallb_forall in Hh.
  eapply Forall_impl; [|exact Hp]. intros p [->|Hi]; [now left|right].
  now apply prog_eqb_eq, Hh.
Qed.

(* C04 (order): every subscriber queue is strictly increasing in MdibVersion under EVERY schedule *)
Theorem order_all_schedules commit handlers progs v0 sched :
  system_ok commit handlers progs -> sorted_lt (g_queue (run sched (init progs v0))) = true.
Proof. intros H. apply inv_sorted, run_inv, init_inv. eapply system_ok_shapes; eassumption. Qed.

(* C07: every completed response is a consistent snapshot under EVERY schedule *)
Theorem snapshot_all_schedules commit handlers progs v0 sched :
  system_ok commit handlers progs -> responses_consistent (run sched (init progs v0)) = true.
Proof. intros H. apply inv_done, run_inv, init_inv. eapply system_ok_shapes; eassumption. Qed.

(* ... and no report version exceeds the current MdibVersion *)
Theorem queue_bounded commit handlers progs v0 sched :
  system_ok commit handlers progs ->
  Forall (fun q => q <= g_ver (run sched (init progs v0))) (g_queue (run sched (init progs v0))).
Proof. intros H. apply inv_le, run_inv, init_inv. eapply system_ok_shapes; eassumption. Qed.

(* ---------------------------------------------------------------- several commit programs (one per transaction kind)
   and several kinds of readers (Get handlers, the periodic collector) *)
Definition system_ok_all (commits readers : list (list act)) (progs : list (list act)) : Prop :=
  forallb (fun p => prog_eqb p writer_prog) commits = true /\
  forallb (fun p => prog_eqb p reader_prog) readers = true /\
  Forall (fun p => In p commits \/ In p readers) progs.

Lemma system_ok_all_shapes commits readers progs :
  system_ok_all commits readers progs -> Forall (fun p => p = writer_prog \/ p = reader_prog) progs.
Proof.
  intros (Hc & Hh & Hp). rewrite forallb_forall in Hc, Hh.
  eapply Forall_impl; [|exact Hp]. intros p [Hi|Hi]; [left|right]; now apply prog_eqb_eq; auto.
Qed.

Theorem order_all_kinds commits readers progs v0 sched :
  system_ok_all commits readers progs -> sorted_lt (g_queue (run sched (init progs v0))) = true.
Proof. intros H. apply inv_sorted, run_inv, init_inv. eapply system_ok_all_shapes; eassumption. Qed.

Theorem snapshot_all_kinds commits readers progs v0 sched :
  system_ok_all commits readers progs -> responses_consistent (run sched (init progs v0)) = true.
Proof. intros H. apply inv_done, run_inv, init_inv. eapply system_ok_all_shapes; eassumption. Qed.

Theorem queue_bounded_all_kinds commits readers progs v0 sched :
  system_ok_all commits readers progs ->
  Forall (fun q => q <= g_ver (run sched (init progs v0))) (g_queue (run sched (init progs v0))).
Proof. intros H. apply inv_le, run_inv, init_inv. eapply system_ok_all_shapes; eassumption. Qed.

Lemma forallb_app_true {A} (f : A -> bool) l1 l2 :
  forallb f l1 = true -> forallb f l2 = true -> forallb f (l1 ++ l2) = true.
Proof. intros H1 H2. rewrite forallb_app, H1, H2. reflexivity. Qed.
