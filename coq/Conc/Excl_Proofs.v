(* C07 -- what holds in EVERY reachable state under every schedule, not only for completed responses:
   mutual exclusion on both locks, and the content / version an in-flight Get handler has read so far. *)
From Coq Require Import List ZArith Bool Lia.
From SDC Require Import Conc.Model Conc.Proofs.
Import ListNotations.
Open Scope Z_scope.

Lemma reachable_inv commit handlers progs v0 sched :
  system_ok commit handlers progs -> Inv (run sched (init progs v0)).
Proof. intros H. apply run_inv, init_inv. eapply system_ok_shapes; eassumption. Qed.

(* no two threads are ever inside the MDIB lock together, nor inside the transaction lock *)
Theorem mutual_exclusion_all_schedules commit handlers progs v0 sched :
  system_ok commit handlers progs ->
  let s := run sched (init progs v0) in
  forall i j thi thj, i <> j -> nth_error (g_threads s) i = Some thi -> nth_error (g_threads s) j = Some thj ->
    (holds_mdib thi && holds_mdib thj = false) /\ (holds_tr thi && holds_tr thj = false).
Proof.
  intros H s i j thi thj Hij Ei Ej. pose proof (reachable_inv commit handlers progs v0 sched H) as I. fold s in I.
  split.
  - destruct (holds_mdib thi) eqn:A, (holds_mdib thj) eqn:B; try reflexivity.
    exfalso. exact (inv_xmd s I i j thi thj Hij Ei Ej A B).
  - destruct (holds_tr thi) eqn:A, (holds_tr thj) eqn:B; try reflexivity.
    exfalso. exact (inv_xtr s I i j thi thj Hij Ei Ej A B).
Qed.

(* a Get handler between its two reads: the content it has read IS the content of the current MdibVersion (no
   commit can slip in before the version is read), and what it finally answers with is that pair *)
Theorem reader_in_flight_all_schedules commit handlers progs v0 sched :
  system_ok commit handlers progs ->
  let s := run sched (init progs v0) in
  forall i th, nth_error (g_threads s) i = Some th -> t_prog th = reader_prog ->
    ((t_pc th <= 1)%nat -> t_c th = -1 /\ t_v th = -1) /\
    (t_pc th = 2%nat -> t_c th = g_ver s /\ t_v th = -1) /\
    (t_pc th = 3%nat -> t_c th = g_ver s /\ t_v th = g_ver s) /\
    (t_pc th = 4%nat -> t_c th = t_v th).
Proof.
  intros H s i th Ei Hr. pose proof (reachable_inv commit handlers progs v0 sched H) as I. fold s in I.
  destruct (inv_th s I i th Ei) as [(Hw & _)|(_ & _ & H1 & H2 & H3 & H4)].
  - unfold W in Hw. rewrite Hr in Hw. discriminate.
  - split; [intros Hpc; destruct (H1 Hpc); split; assumption|].
    split; [exact H2|]. split; [exact H3|exact H4].
Qed.

(* a committing thread never carries response data, and between its commit and the hand-over of the reports its
   version is the current one and newer than everything a subscriber has been given *)
Theorem writer_in_flight_all_schedules commit handlers progs v0 sched :
  system_ok commit handlers progs ->
  let s := run sched (init progs v0) in
  forall i th, nth_error (g_threads s) i = Some th -> t_prog th = writer_prog ->
    t_v th = -1 /\ t_c th = -1 /\
    (t_pc th = 3%nat -> t_pending th = g_ver s /\ Forall (fun q => q < g_ver s) (g_queue s)).
Proof.
  intros H s i th Ei Hw. pose proof (reachable_inv commit handlers progs v0 sched H) as I. fold s in I.
  destruct (inv_th s I i th Ei) as [(_ & _ & Hv & Hc & H3)|(Hr & _)].
  - split; [exact Hv|]. split; [exact Hc|exact H3].
  - unfold R in Hr. rewrite Hw in Hr. discriminate.
Qed.
