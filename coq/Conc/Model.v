(* Interleavings of lock-step programs: transaction commits (writers) and Get-request handlers (readers)
   of a provider, at lock-acquire / release granularity.  Definitions only.

   A program is the sequence of atomic actions a thread performs, as traced from the running code
   (Gen_Programs.v).  Only the outermost acquire / release of the re-entrant MDIB lock appear.
   The MDIB content is abstracted to a token that changes with every commit (= the MdibVersion of the
   commit), so "the response shows the content of the version it states" is  content = version. *)
From Coq Require Import List ZArith Bool.
Import ListNotations.
Open Scope Z_scope.

Inductive act :=
| AcqTr | RelTr            (* ProviderMdib._tr_lock (transaction lock) *)
| AcqMdib | RelMdib        (* mdib_lock, depth 0 -> 1 and 1 -> 0 *)
| Commit                   (* process_transaction: tables updated, mdib_version incremented *)
| Send                     (* the reports of the commit are handed to every subscriber's queue *)
| ReadVersion              (* the handler reads mdib_version_group for the response *)
| ReadContent.             (* the handler reads descriptors / states for the response *)

Definition act_eqb (a b : act) : bool :=
  match a, b with
  | AcqTr, AcqTr | RelTr, RelTr | AcqMdib, AcqMdib | RelMdib, RelMdib
  | Commit, Commit | Send, Send | ReadVersion, ReadVersion | ReadContent, ReadContent => true
  | _, _ => false
  end.
Fixpoint prog_eqb (p q : list act) : bool :=
  match p, q with
  | [], [] => true
  | a :: p', b :: q' => act_eqb a b && prog_eqb p' q'
  | _, _ => false
  end.

Record thread := mkThread {
  t_prog : list act;
  t_pc : nat;
  t_v : Z;          (* version read for the response (-1: none yet) *)
  t_c : Z;          (* content read for the response (-1: none yet) *)
  t_pending : Z     (* version of the own commit whose reports are not yet sent (-1: none) *)
}.

Record gstate := mkG {
  g_ver : Z;
  g_queue : list Z;           (* MdibVersions of the reports handed to a subscriber, in delivery order *)
  g_threads : list thread;
  g_done : list (Z * Z)       (* (version, content) of every completed response, most recent first *)
}.

Fixpoint set_nth {A} (l : list A) (i : nat) (x : A) : list A :=
  match l, i with
  | [], _ => []
  | _ :: r, O => x :: r
  | y :: r, S j => y :: set_nth r j x
  end.

Definition advance (th : thread) : thread := mkThread (t_prog th) (S (t_pc th)) (t_v th) (t_c th) (t_pending th).

(* a thread holds a lock iff it has acquired it more often than released it so far *)
Definition count_act (a : act) (l : list act) : nat := length (filter (act_eqb a) l).
Definition holds (acq rel : act) (th : thread) : bool :=
  Nat.ltb (count_act rel (firstn (t_pc th) (t_prog th))) (count_act acq (firstn (t_pc th) (t_prog th))).
Definition holds_tr := holds AcqTr RelTr.
Definition holds_mdib := holds AcqMdib RelMdib.
Definition tr_free (s : gstate) : bool := forallb (fun th => negb (holds_tr th)) (g_threads s).
Definition mdib_free (s : gstate) : bool := forallb (fun th => negb (holds_mdib th)) (g_threads s).

(* one step of thread i (a pick of a blocked thread or of a thread id that does not exist is a no-op, so
   EVERY list of thread ids is a schedule); a thread that has finished its program publishes its response
   and starts over: any number of transactions / requests per thread *)
Definition step (s : gstate) (i : nat) : gstate :=
  match nth_error (g_threads s) i with
  | None => s
  | Some th =>
      let upd_th th' := set_nth (g_threads s) i th' in
      match nth_error (t_prog th) (t_pc th) with
      | None =>
          mkG (g_ver s) (g_queue s) (upd_th (mkThread (t_prog th) 0 (-1) (-1) (-1)))
              (if Z.eqb (t_v th) (-1) && Z.eqb (t_c th) (-1) then g_done s else (t_v th, t_c th) :: g_done s)
      | Some a =>
          match a with
          | AcqTr => if tr_free s then mkG (g_ver s) (g_queue s) (upd_th (advance th)) (g_done s) else s
          | AcqMdib => if mdib_free s then mkG (g_ver s) (g_queue s) (upd_th (advance th)) (g_done s) else s
          | RelTr | RelMdib => mkG (g_ver s) (g_queue s) (upd_th (advance th)) (g_done s)
          | Commit => mkG (g_ver s + 1) (g_queue s)
                          (upd_th (mkThread (t_prog th) (S (t_pc th)) (t_v th) (t_c th) (g_ver s + 1))) (g_done s)
          | Send => mkG (g_ver s) (g_queue s ++ [t_pending th])
                        (upd_th (mkThread (t_prog th) (S (t_pc th)) (t_v th) (t_c th) (-1))) (g_done s)
          | ReadVersion => mkG (g_ver s) (g_queue s)
                               (upd_th (mkThread (t_prog th) (S (t_pc th)) (g_ver s) (t_c th) (t_pending th))) (g_done s)
          | ReadContent => mkG (g_ver s) (g_queue s)
                               (upd_th (mkThread (t_prog th) (S (t_pc th)) (t_v th) (g_ver s) (t_pending th))) (g_done s)
          end
      end
  end.

Definition run (sched : list nat) (s : gstate) : gstate := fold_left step sched s.

Definition init (progs : list (list act)) (v0 : Z) : gstate :=
  mkG v0 [] (map (fun p => mkThread p 0 (-1) (-1) (-1)) progs) [].

(* the two shapes the theorems are about *)
Definition writer_prog : list act := [AcqTr; AcqMdib; Commit; Send; RelMdib; RelTr].
Definition reader_prog : list act := [AcqMdib; ReadContent; ReadVersion; RelMdib].
(* a handler that reads the version after leaving the critical section *)
Definition unsafe_reader_prog : list act := [AcqMdib; ReadContent; RelMdib; ReadVersion].
(* a commit whose reports are sent after the locks were released *)
Definition unsafe_writer_prog : list act := [AcqTr; AcqMdib; Commit; RelMdib; RelTr; Send].

Fixpoint sorted_lt (l : list Z) : bool :=
  match l with
  | a :: ((b :: _) as r) => Z.ltb a b && sorted_lt r
  | _ => true
  end.
Definition responses_consistent (s : gstate) : bool := forallb (fun vc => Z.eqb (fst vc) (snd vc)) (g_done s).

(* counter-examples, found by evaluating the model: a version read after the critical section, reports
   sent after the locks were released *)
Definition unsafe_reader_witness : gstate :=
  run [1; 1; 1; 0; 0; 0; 0; 0; 0; 1; 1]%nat (init [writer_prog; unsafe_reader_prog] 0).
Definition unsafe_writer_witness : gstate :=
  run [0; 0; 0; 0; 0; 1; 1; 1; 1; 1; 1; 0]%nat (init [unsafe_writer_prog; unsafe_writer_prog] 0).

(* the periodic collector (PeriodicReportsHandler._periodic_reports_send_loop) is a reader: ReadVersion = the read of
   mdib_version that labels the PeriodicStates, ReadContent = the state copies, the completed "response" is the pair
   handed to the services.  A collector that reads the label before it takes the MDIB lock: *)
Definition early_label_prog : list act := [ReadVersion; AcqMdib; ReadContent; RelMdib].
Definition early_label_witness : gstate :=
  run [1; 0; 0; 0; 0; 0; 0; 1; 1; 1; 1]%nat (init [writer_prog; early_label_prog] 0).
