(* GENERATED on every run by harness/impl/gen_conc_programs.py: lock-step programs traced from the running
   handlers (src/sdc11073/provider/porttypes/getserviceimpl.py, contextserviceimpl.py) and from a transaction
   commit (src/sdc11073/mdib/providermdib.py _transaction_manager). *)
From Coq Require Import List.
From SDC Require Import Conc.Model.
Import ListNotations.
Definition prog_GetMdib : list act := [AcqMdib; ReadContent; ReadVersion; RelMdib].
Definition prog_GetMdState : list act := [AcqMdib; ReadContent; ReadVersion; RelMdib].
Definition prog_GetMdStateAll : list act := [AcqMdib; ReadContent; ReadVersion; RelMdib].
Definition prog_GetMdDescription : list act := [AcqMdib; ReadContent; ReadVersion; RelMdib].
Definition prog_GetMdDescriptionAll : list act := [AcqMdib; ReadContent; ReadVersion; RelMdib].
Definition prog_GetMdDescriptionGen : list act := [AcqMdib; ReadContent; ReadVersion; RelMdib].
Definition prog_GetMdStateGen : list act := [AcqMdib; ReadContent; ReadVersion; RelMdib].
Definition prog_GetContextStates : list act := [AcqMdib; ReadContent; ReadVersion; RelMdib].
Definition prog_GetContextStatesAll : list act := [AcqMdib; ReadContent; ReadVersion; RelMdib].
Definition prog_commit : list act := [AcqTr; AcqMdib; Commit; Send; RelMdib; RelTr].
Definition handler_programs : list (list act) := [prog_GetMdib; prog_GetMdState; prog_GetMdStateAll; prog_GetMdDescription; prog_GetMdDescriptionAll; prog_GetMdDescriptionGen; prog_GetMdStateGen; prog_GetContextStates; prog_GetContextStatesAll].
(* commit programs of every transaction kind and one iteration of the periodic collector per period
   (PeriodicReportsHandler._periodic_reports_send_loop; ReadVersion = the read that labels the PeriodicStates),
   traced by harness/impl/c04_trace_impl.py *)
Definition prog_commit_metric : list act := [AcqTr; AcqMdib; Commit; Send; RelMdib; RelTr].
Definition prog_commit_alert : list act := [AcqTr; AcqMdib; Commit; Send; RelMdib; RelTr].
Definition prog_commit_component : list act := [AcqTr; AcqMdib; Commit; Send; RelMdib; RelTr].
Definition prog_commit_operational : list act := [AcqTr; AcqMdib; Commit; Send; RelMdib; RelTr].
Definition prog_commit_context : list act := [AcqTr; AcqMdib; Commit; Send; RelMdib; RelTr].
Definition prog_commit_context_new : list act := [AcqTr; AcqMdib; Commit; Send; RelMdib; RelTr].
Definition prog_commit_rt_sample : list act := [AcqTr; AcqMdib; Commit; Send; RelMdib; RelTr].
Definition prog_commit_descriptor : list act := [AcqTr; AcqMdib; Commit; Send; RelMdib; RelTr].
Definition prog_commit_descriptor_create : list act := [AcqTr; AcqMdib; Commit; Send; RelMdib; RelTr].
Definition prog_commit_descriptor_delete : list act := [AcqTr; AcqMdib; Commit; Send; RelMdib; RelTr].
Definition prog_periodic_collect_500 : list act := [AcqMdib; ReadContent; ReadVersion; RelMdib].
Definition prog_periodic_collect_1500 : list act := [AcqMdib; ReadContent; ReadVersion; RelMdib].
Definition commit_programs : list (list act) := [prog_commit_metric; prog_commit_alert; prog_commit_component; prog_commit_operational; prog_commit_context; prog_commit_context_new; prog_commit_rt_sample; prog_commit_descriptor; prog_commit_descriptor_create; prog_commit_descriptor_delete].
Definition periodic_programs : list (list act) := [prog_periodic_collect_500; prog_periodic_collect_1500].
