(* GENERATED on every run by harness/impl/gen_conc_programs.py: lock-step programs traced from the running
   handlers (src/sdc11073/provider/porttypes/getserviceimpl.py, contextserviceimpl.py) and from a transaction
   commit (src/sdc11073/mdib/providermdib.py _transaction_manager). *)
From Coq Require Import List.
From SDC Require Import Conc.Model.
Import ListNotations.
Definition prog_GetMdib : list act := [AcqMdib; ReadContent; ReadVersion; RelMdib].
Definition prog_GetMdState : list act := [AcqMdib; ReadContent; ReadVersion; RelMdib].
Definition prog_GetMdStateAll : list act := [AcqMdib; ReadContent; ReadVersion; RelMdib].
Definition prog_GetMdDescription : list act := [AcqMdib; ReadContent; ReadVersion; RelMdib].
Definition prog_GetMdDescriptionAll : list act := [AcqMdib; ReadContent; ReadVersion; RelMdib].
Definition prog_GetMdDescriptionGen : list act := [AcqMdib; ReadContent; ReadVersion; RelMdib].
Definition prog_GetMdStateGen : list act := [AcqMdib; ReadContent; ReadVersion; RelMdib].
Definition prog_GetContextStates : list act := [AcqMdib; ReadContent; ReadVersion; RelMdib].
Definition prog_GetContextStatesAll : list act := [AcqMdib; ReadContent; ReadVersion; RelMdib].
Definition prog_commit : list act := [AcqTr; AcqMdib; Commit; Send; RelMdib; RelTr].
Definition handler_programs : list (list act) := [prog_GetMdib; prog_GetMdState; prog_GetMdStateAll; prog_GetMdDescription; prog_GetMdDescriptionAll; prog_GetMdDescriptionGen; prog_GetMdStateGen; prog_GetContextStates; prog_GetContextStatesAll].
