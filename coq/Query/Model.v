(* Executable model of the query services (C20):
   GetMdState / GetContextStates handle resolution (provider/porttypes/getserviceimpl.py, contextserviceimpl.py)
   and LocalizationStorage.filter_localized_texts / get_supported_languages (localizationservice.py).
   Definitions only. *)
From Coq Require Import List ZArith Bool Ascii String.
Import ListNotations.
Open Scope Z_scope.

Definition H := Z.

(* ---------------------------------------------------------------- states *)
(* a state as far as the query services care: single states are identified by their descriptor handle,
   context states by their own handle; [q_mds] = MDS the descriptor belongs to *)
Record qstate := mkQ { q_ctx : bool; q_handle : H; q_dh : H; q_mds : H }.

Definition qs_eqb (a b : qstate) : bool :=
  Bool.eqb (q_ctx a) (q_ctx b) && Z.eqb (q_handle a) (q_handle b).

Record qmdib := mkQM {
  qm_states : list qstate;        (* single states, table order *)
  qm_cstates : list qstate;       (* context states, table order *)
  qm_mds : list H                 (* handles of the MDS descriptors *)
}.

Fixpoint dedup (l : list qstate) : list qstate :=
  match l with
  | [] => []
  | x :: r => x :: filter (fun y => negb (qs_eqb x y)) (dedup r)
  end.

(* GetMdState (contextstates_in_getmdib = flag) *)
Definition resolve_state (flag : bool) (m : qmdib) (h : H) : list qstate :=
  if flag then
    match filter (fun s => Z.eqb (q_handle s) h) (qm_cstates m) with
    | c :: _ => [c]                                             (* a context state handle *)
    | [] => filter (fun s => Z.eqb (q_dh s) h) (qm_states m) ++ filter (fun s => Z.eqb (q_dh s) h) (qm_cstates m)
    end
  else filter (fun s => Z.eqb (q_dh s) h) (qm_states m).

Definition get_md_state (flag : bool) (m : qmdib) (handles : list H) : list qstate :=
  match handles with
  | [] => qm_states m ++ (if flag then qm_cstates m else [])
  | _ => dedup (flat_map (resolve_state flag m) handles)
  end.

(* GetContextStates; the result is collected in a dict keyed by state handle: first position, last value *)
Definition resolve_ctx (m : qmdib) (h : H) : list qstate :=
  match filter (fun s => Z.eqb (q_handle s) h) (qm_cstates m) with
  | c :: _ => [c]
  | [] =>
      match filter (fun s => Z.eqb (q_dh s) h) (qm_cstates m) with
      | (_ :: _) as l => l
      | [] => if existsb (Z.eqb h) (qm_mds m) then filter (fun s => Z.eqb (q_mds s) h) (qm_cstates m) else []
      end
  end.

Definition get_context_states (m : qmdib) (handles : list H) : list qstate :=
  match handles with
  | [] => qm_cstates m
  | _ => dedup (flat_map (resolve_ctx m) handles)
  end.

(* the BICEPS selection rules as predicates *)
Definition selected_state (flag : bool) (m : qmdib) (handles : list H) (s : qstate) : Prop :=
  (In s (qm_states m) \/ (flag = true /\ In s (qm_cstates m))) /\
  (handles = [] \/
   exists h, In h handles /\
     (if q_ctx s then flag = true /\ (q_handle s = h \/ (q_dh s = h /\ forall c, In c (qm_cstates m) -> q_handle c <> h))
      else q_dh s = h /\ (flag = true -> forall c, In c (qm_cstates m) -> q_handle c <> h))).

(* ---------------------------------------------------------------- localized texts *)
(* width: 0..5 for xs..xxl, None = no TextWidth; nol = number of lines of the text *)
Record ltext := mkT { x_id : Z; x_ref : Z; x_lang : Z; x_ver : option Z; x_width : option Z; x_nol : Z }.

Definition tw2i (w : option Z) : Z := match w with Some i => i | None => 999 end.

(* insertion sort, stable, ascending by key *)
Section Sort.
  Context {A : Type} (key : A -> Z).
  Fixpoint insert_by (x : A) (l : list A) : list A :=
    match l with
    | [] => [x]
    | y :: r => if Z.ltb (key x) (key y) then x :: l else y :: insert_by x r
    end.
  Definition sort_by (l : list A) : list A := fold_left (fun acc x => insert_by x acc) l [].
End Sort.

Definition last_opt {A} (l : list A) : option A := match rev l with x :: _ => Some x | [] => None end.

(* key of `candidates.sort(key=lambda obj: _tw2i(obj.TextWidth) or -1)`: 0 is falsy *)
Definition width_key (t : ltext) : Z := let i := tw2i (x_width t) in if Z.eqb i 0 then -1 else i.
Definition nol_key (t : ltext) : Z := if Z.eqb (x_nol t) 0 then -1 else x_nol t.

Definition width_filter (l : list ltext) (w : Z) : list ltext :=
  sort_by width_key (filter (fun t => Z.leb (tw2i (x_width t)) w) l).
Definition nol_filter (l : list ltext) (n : Z) : list ltext :=
  sort_by nol_key (filter (fun t => Z.leb (x_nol t) n) l).

(* storage: dict Ref -> list of texts, in insertion order of the keys *)
Definition storage := list (Z * list ltext).

Fixpoint add_group (t : ltext) (g : list ((Z * Z) * list ltext)) : list ((Z * Z) * list ltext) :=
  match g with
  | [] => [((x_ref t, x_lang t), [t])]
  | (k', v) :: g' => if Z.eqb (x_ref t) (fst k') && Z.eqb (x_lang t) (snd k') then (k', v ++ [t]) :: g'
                     else (k', v) :: add_group t g'
  end.
Fixpoint group_by_ref_lang (l : list ltext) (acc : list ((Z * Z) * list ltext)) : list ((Z * Z) * list ltext) :=
  match l with
  | [] => acc
  | t :: r => group_by_ref_lang r (add_group t acc)
  end.

Definition all_texts (st : storage) : list ltext := flat_map snd st.

Definition max_version (st : storage) : option Z :=
  fold_left (fun acc t => match x_ver t, acc with
                          | Some v, Some a => Some (Z.max v a)
                          | Some v, None => Some v
                          | None, a => a
                          end) (all_texts st) None.

Definition opt_eqb (a b : option Z) : bool :=
  match a, b with Some x, Some y => Z.eqb x y | None, None => true | _, _ => false end.

(* filter_localized_texts(refs, version, langs, widths, lines): the mode in which BOTH widths and lines are
   given is modelled by [both_pick], a section-free parameter of the function: the code sorts the candidates
   by the Python expression  obj.TextWidth * obj.n_o_l  (a string repeated n times) and takes the last *)
Definition filter_body (st : storage) (refs : list Z) (version : option Z) (langs : list Z)
           (widths : list Z) (lines : list Z) (both_key : ltext -> Z) : list ltext :=
  let handles := match refs with [] => map fst st | _ => refs end in
  let texts0 := flat_map (fun h => match find (fun e => Z.eqb (fst e) h) st with Some e => snd e | None => [] end) handles in
  let texts1 := match langs with [] => texts0 | _ => filter (fun t => existsb (Z.eqb (x_lang t)) langs) texts0 end in
  let eff := match version with Some v => Some v | None => max_version st end in
  let groups := group_by_ref_lang texts1 [] in
  let texts2 := flat_map (fun g => filter (fun t => opt_eqb (x_ver t) eff) (snd g)) groups in
  let groups2 := group_by_ref_lang texts2 [] in
  match widths, lines with
  | [], [] => texts2
  | _ :: _, _ :: _ =>
      flat_map (fun g =>
        flat_map (fun w =>
          let c1 := width_filter (snd g) w in
          flat_map (fun n =>
            match last_opt (sort_by both_key (nol_filter c1 n)) with Some t => [t] | None => [] end) lines) widths) groups2
  | _ :: _, [] =>
      flat_map (fun g => flat_map (fun w => match last_opt (width_filter (snd g) w) with Some t => [t] | None => [] end) widths) groups2
  | [], _ :: _ =>
      flat_map (fun g => flat_map (fun n => match last_opt (nol_filter (snd g) n) with Some t => [t] | None => [] end) lines) groups2
  end.

(* nothing stored: the code returns early *)
Definition filter_texts (st : storage) (refs : list Z) (version : option Z) (langs : list Z)
           (widths : list Z) (lines : list Z) (both_key : ltext -> Z) : list ltext :=
  match all_texts st with
  | [] => []
  | _ => filter_body st refs version langs widths lines both_key
  end.

(* get_supported_languages: the set of stored languages *)
Fixpoint dedup_z (l : list Z) : list Z :=
  match l with [] => [] | x :: r => x :: filter (fun y => negb (Z.eqb x y)) (dedup_z r) end.
Definition supported_languages (st : storage) : list Z := dedup_z (map x_lang (all_texts st)).

(* the constraints of C20 for one returned text *)
Definition text_ok (st : storage) (refs : list Z) (version : option Z) (langs widths lines : list Z) (t : ltext) : Prop :=
  In t (all_texts st) /\
  (refs <> [] -> In (x_ref t) refs) /\
  (langs <> [] -> In (x_lang t) langs) /\
  (match version with Some v => x_ver t = Some v | None => x_ver t = max_version st end) /\
  (widths <> [] -> exists w, In w widths /\ tw2i (x_width t) <= w) /\
  (lines <> [] -> exists n, In n lines /\ x_nol t <= n).

(* ---------------------------------------------------------------- histories on ONE storage *)
(* LocalizationStorage.add: self._localized_texts[text.Ref].append(text) on a defaultdict(list) *)
Fixpoint st_add (t : ltext) (st : storage) : storage :=
  match st with
  | [] => [(x_ref t, [t])]
  | (k, v) :: r => if Z.eqb k (x_ref t) then (k, v ++ [t]) :: r else (k, v) :: st_add t r
  end.

(* filter_localized_texts reads self._localized_texts[handle] for every requested Ref: on a defaultdict an
   unknown Ref becomes a key with an empty list *)
Definition st_touch (r : Z) (st : storage) : storage :=
  if existsb (fun e => Z.eqb (fst e) r) st then st else st ++ [(r, [])].

Inductive lop :=
| LAdd (t : ltext)                                                          (* storage.add(text) *)
| LLangs                                                                    (* GetSupportedLanguages *)
| LText (refs : list Z) (version : option Z) (langs widths lines : list Z). (* GetLocalizedText *)

Definition lstep (st : storage) (o : lop) : storage :=
  match o with
  | LAdd t => st_add t st
  | LLangs => st
  | LText refs _ _ _ _ => fold_left (fun s r => st_touch r s) refs st
  end.

Definition state_after (ops : list lop) : storage := fold_left lstep ops [].
Definition added (ops : list lop) : list ltext :=
  flat_map (fun o => match o with LAdd t => [t] | _ => [] end) ops.

(* the answers of a history: one list per query (language ids / ids of the returned texts), each computed from
   the storage as it is at that moment; nothing is remembered between two queries *)
Fixpoint run_hist (both_key : ltext -> Z) (ops : list lop) (st : storage) : list (list Z) :=
  match ops with
  | [] => []
  | o :: r =>
      match o with
      | LAdd _ => run_hist both_key r (lstep st o)
      | LLangs => supported_languages st :: run_hist both_key r (lstep st o)
      | LText refs v langs ws ls =>
          map x_id (filter_texts st refs v langs ws ls both_key) :: run_hist both_key r (lstep st o)
      end
  end.

(* what a GetLocalizedText request without TextWidth / NumberOfLines selects *)
Definition eff_version (st : storage) (version : option Z) : option Z :=
  match version with Some v => Some v | None => max_version st end.
Definition sel_ref (refs : list Z) (t : ltext) : bool :=
  match refs with [] => true | _ => existsb (Z.eqb (x_ref t)) refs end.
Definition sel_lang (langs : list Z) (t : ltext) : bool :=
  match langs with [] => true | _ => existsb (Z.eqb (x_lang t)) langs end.
Definition text_selected (st : storage) (refs : list Z) (version : option Z) (langs : list Z) (t : ltext) : bool :=
  sel_ref refs t && sel_lang langs t && opt_eqb (x_ver t) (eff_version st version).

(* well-formed storage: a dict (unique keys) whose entry for Ref r holds texts with that Ref only *)
Definition st_wf (st : storage) : Prop :=
  NoDup (map fst st) /\ forall e, In e st -> forall x, In x (snd e) -> x_ref x = fst e.
