(* Proofs about the query-service model (C20). *)
From Coq Require Import List ZArith Bool Lia.
From SDC Require Import Query.Model.
Import ListNotations.
Open Scope Z_scope.

(* ---------------------------------------------------------------- dedup *)
Lemma qs_eqb_refl x : qs_eqb x x = true.
Proof. unfold qs_eqb. now rewrite Bool.eqb_reflx, Z.eqb_refl. Qed.

Lemma qs_eqb_sym x y : qs_eqb x y = qs_eqb y x.
Proof.
  unfold qs_eqb. rewrite (Z.eqb_sym (q_handle x)). f_equal.
  destruct (q_ctx x), (q_ctx y); reflexivity.
Qed.

Lemma qs_eqb_trans x y z : qs_eqb x y = true -> qs_eqb y z = true -> qs_eqb x z = true.
Proof.
  unfold qs_eqb. intros H1 H2. apply andb_prop in H1 as [A1 B1]. apply andb_prop in H2 as [A2 B2].
  apply Bool.eqb_prop in A1, A2. apply Z.eqb_eq in B1, B2. rewrite A1, A2, B1, B2.
  now rewrite Bool.eqb_reflx, Z.eqb_refl.
Qed.

Lemma dedup_in l x : In x (dedup l) -> In x l.
Proof.
  revert x; induction l as [|y r IH]; intros x; cbn [dedup]; [tauto|].
  intros [->|Hi]; [now left|]. right. apply IH. apply filter_In in Hi. tauto.
Qed.

Lemma dedup_covers l x : In x l -> exists y, In y (dedup l) /\ qs_eqb y x = true.
Proof.
  induction l as [|z r IH]; intros Hi; [contradiction|]. cbn [dedup].
  destruct Hi as [->|Hi].
  - exists x. split; [now left|apply qs_eqb_refl].
  - destruct (IH Hi) as (y & Hy & E). destruct (qs_eqb z y) eqn:Ezy.
    + exists z. split; [now left|]. eapply qs_eqb_trans; eassumption.
    + exists y. split; [|assumption]. right. apply filter_In. split; [assumption|]. now rewrite Ezy.
Qed.

(* every key at most once *)
Fixpoint keys_distinct (l : list qstate) : Prop :=
  match l with
  | [] => True
  | x :: r => (forall y, In y r -> qs_eqb x y = false) /\ keys_distinct r
  end.

Lemma keys_distinct_filter f l : keys_distinct l -> keys_distinct (filter f l).
Proof.
  induction l as [|x r IH]; cbn [filter keys_distinct]; [tauto|]. intros [H1 H2].
  destruct (f x); cbn [keys_distinct]; [|now apply IH]. split; [|now apply IH].
  intros y Hy. apply H1. apply filter_In in Hy. tauto.
Qed.

Lemma dedup_distinct l : keys_distinct (dedup l).
Proof.
  induction l as [|x r IH]; cbn [dedup keys_distinct]; [exact I|]. split.
  - intros y Hy. apply filter_In in Hy. destruct Hy as [_ Hy]. now apply negb_true_iff in Hy.
  - now apply keys_distinct_filter.
Qed.

(* ---------------------------------------------------------------- GetMdState *)
Lemma resolve_state_sound flag m h s :
  In s (resolve_state flag m h) ->
  (In s (qm_states m) /\ q_dh s = h) \/
  (flag = true /\ In s (qm_cstates m) /\ (q_handle s = h \/ q_dh s = h)).
Proof.
  unfold resolve_state. destruct flag.
  - destruct (filter (fun s0 => q_handle s0 =? h) (qm_cstates m)) as [|c l] eqn:F.
    + rewrite in_app_iff. intros [Hi|Hi]; apply filter_In in Hi as [Hi E]; apply Z.eqb_eq in E.
      * left. tauto.
      * right. tauto.
    + intros [<-|[]]. assert (Hc : In c (filter (fun s0 => q_handle s0 =? h) (qm_cstates m))) by (rewrite F; now left).
      apply filter_In in Hc as [Hc E]. apply Z.eqb_eq in E. right. tauto.
  - intros Hi. apply filter_In in Hi as [Hi E]. apply Z.eqb_eq in E. left. tauto.
Qed.

Lemma resolve_state_unknown flag m h :
  (forall s, In s (qm_states m) -> q_dh s <> h) ->
  (forall s, In s (qm_cstates m) -> q_dh s <> h /\ q_handle s <> h) ->
  resolve_state flag m h = [].
Proof.
  intros H1 H2.
  assert (F1 : filter (fun s => q_dh s =? h) (qm_states m) = []).
  { induction (qm_states m) as [|x r IH]; [reflexivity|]. cbn [filter].
    destruct (Z.eqb_spec (q_dh x) h) as [E|_]; [exfalso; apply (H1 x (or_introl eq_refl) E)|].
    apply IH. intros s Hs. apply H1. now right. }
  assert (F2 : filter (fun s => q_dh s =? h) (qm_cstates m) = [] /\ filter (fun s => q_handle s =? h) (qm_cstates m) = []).
  { induction (qm_cstates m) as [|x r IH]; [split; reflexivity|]. cbn [filter].
    destruct (H2 x (or_introl eq_refl)) as [A B].
    destruct (Z.eqb_spec (q_dh x) h); [contradiction|]. destruct (Z.eqb_spec (q_handle x) h); [contradiction|].
    apply IH. intros s Hs. apply H2. now right. }
  destruct F2 as [F2 F3]. unfold resolve_state. destruct flag; [rewrite F3, F1, F2|rewrite F1]; reflexivity.
Qed.

Theorem get_md_state_exact flag m handles : handles <> [] ->
  let r := get_md_state flag m handles in
  keys_distinct r /\
  (forall s, In s r -> exists h, In h handles /\ In s (resolve_state flag m h)) /\
  (forall h s, In h handles -> In s (resolve_state flag m h) -> exists y, In y r /\ qs_eqb y s = true).
Proof.
  intros Hne. cbv zeta. unfold get_md_state. destruct handles as [|h0 hs]; [contradiction|].
  split; [apply dedup_distinct|]. split.
  - intros s Hs. apply dedup_in in Hs. apply in_flat_map in Hs. exact Hs.
  - intros h s Hh Hs. apply dedup_covers. apply in_flat_map. now exists h.
Qed.

Lemma get_md_state_all flag m : get_md_state flag m [] = qm_states m ++ (if flag then qm_cstates m else []).
Proof. reflexivity. Qed.

(* ---------------------------------------------------------------- GetContextStates *)
Lemma resolve_ctx_sound m h s :
  In s (resolve_ctx m h) ->
  In s (qm_cstates m) /\ (q_handle s = h \/ q_dh s = h \/ (In h (qm_mds m) /\ q_mds s = h)).
Proof.
  unfold resolve_ctx.
  destruct (filter (fun s0 => q_handle s0 =? h) (qm_cstates m)) as [|c l] eqn:F.
  - destruct (filter (fun s0 => q_dh s0 =? h) (qm_cstates m)) as [|c2 l2] eqn:F2.
    + destruct (existsb (Z.eqb h) (qm_mds m)) eqn:E; [|contradiction].
      intros Hi. apply filter_In in Hi as [Hi Em]. apply Z.eqb_eq in Em.
      apply existsb_exists in E as (x & Hx & Ex). apply Z.eqb_eq in Ex. subst x. tauto.
    + intros Hi. rewrite <- F2 in Hi. apply filter_In in Hi as [Hi E]. apply Z.eqb_eq in E. tauto.
  - intros [<-|[]]. assert (Hc : In c (filter (fun s0 => q_handle s0 =? h) (qm_cstates m))) by (rewrite F; now left).
    apply filter_In in Hc as [Hc E]. apply Z.eqb_eq in E. tauto.
Qed.

(* an MDS handle selects the context states of THAT mds only *)
Lemma resolve_ctx_mds m h s :
  (forall c, In c (qm_cstates m) -> q_handle c <> h /\ q_dh c <> h) -> In h (qm_mds m) ->
  (In s (resolve_ctx m h) <-> In s (qm_cstates m) /\ q_mds s = h).
Proof.
  intros Hn Hm. unfold resolve_ctx.
  assert (F : filter (fun s0 => q_handle s0 =? h) (qm_cstates m) = [] /\ filter (fun s0 => q_dh s0 =? h) (qm_cstates m) = []).
  { induction (qm_cstates m) as [|x r IH]; [split; reflexivity|]. cbn [filter].
    destruct (Hn x (or_introl eq_refl)) as [A B].
    destruct (Z.eqb_spec (q_handle x) h); [contradiction|]. destruct (Z.eqb_spec (q_dh x) h); [contradiction|].
    apply IH. intros c Hc. apply Hn. now right. }
  destruct F as [-> ->].
  assert (E : existsb (Z.eqb h) (qm_mds m) = true) by (apply existsb_exists; exists h; split; [assumption|apply Z.eqb_refl]).
  rewrite E. split; intros X.
  - apply filter_In in X. destruct X as [A B]. cbn beta in B. apply Z.eqb_eq in B. split; assumption.
  - destruct X as [A B]. apply filter_In. split; [exact A|]. cbn beta. now apply Z.eqb_eq.
Qed.

Theorem get_context_states_exact m handles : handles <> [] ->
  let r := get_context_states m handles in
  keys_distinct r /\
  (forall s, In s r -> exists h, In h handles /\ In s (resolve_ctx m h)) /\
  (forall h s, In h handles -> In s (resolve_ctx m h) -> exists y, In y r /\ qs_eqb y s = true).
Proof.
  intros Hne. cbv zeta. unfold get_context_states. destruct handles as [|h0 hs]; [contradiction|].
  split; [apply dedup_distinct|]. split.
  - intros s Hs. apply dedup_in in Hs. apply in_flat_map in Hs. exact Hs.
  - intros h s Hh Hs. apply dedup_covers. apply in_flat_map. now exists h.
Qed.

(* ---------------------------------------------------------------- localized texts *)
Lemma insert_by_in {A} (key : A -> Z) x l y : In y (insert_by key x l) <-> y = x \/ In y l.
Proof.
  induction l as [|z r IH]; cbn [insert_by]; [cbn; intuition congruence|].
  destruct (key x <? key z); cbn [In]; [intuition congruence|]. rewrite IH. intuition congruence.
Qed.

Lemma sort_by_in {A} (key : A -> Z) l y : In y (sort_by key l) <-> In y l.
Proof.
  unfold sort_by.
  assert (G : forall l acc, In y (fold_left (fun acc x => insert_by key x acc) l acc) <-> In y l \/ In y acc).
  { induction l0 as [|x r IH]; intros acc; cbn [fold_left]; [cbn; tauto|].
    rewrite IH, insert_by_in. cbn [In]. intuition congruence. }
  rewrite G. cbn. tauto.
Qed.

Lemma last_opt_in {A} (l : list A) x : last_opt l = Some x -> In x l.
Proof.
  unfold last_opt. destruct (rev l) as [|y r] eqn:E; [discriminate|]. intros [= <-].
  apply in_rev. rewrite E. now left.
Qed.

Lemma add_group_in x g t : In t (flat_map snd (add_group x g)) <-> t = x \/ In t (flat_map snd g).
Proof.
  induction g as [|[k' v] g' IHg]; cbn [add_group flat_map snd app In]; [intuition congruence|].
  destruct ((x_ref x =? fst k') && (x_lang x =? snd k')); cbn [flat_map snd]; rewrite !in_app_iff.
  - cbn [In]. intuition congruence.
  - rewrite IHg. tauto.
Qed.

Lemma group_in l : forall acc t,
  In t (flat_map snd (group_by_ref_lang l acc)) <-> In t l \/ In t (flat_map snd acc).
Proof.
  induction l as [|x r IH]; intros acc t; cbn [group_by_ref_lang In]; [tauto|].
  rewrite IH, add_group_in. intuition congruence.
Qed.

Lemma group_snd_in l g t : In g (group_by_ref_lang l []) -> In t (snd g) -> In t l.
Proof.
  intros Hg Ht. assert (In t (flat_map snd (group_by_ref_lang l []))) by (apply in_flat_map; now exists g).
  apply group_in in H. cbn in H. tauto.
Qed.

Lemma find_some_in st h e : find (fun e0 : Z * list ltext => fst e0 =? h) st = Some e -> In e st /\ fst e = h.
Proof. intros F. apply find_some in F as [A B]. apply Z.eqb_eq in B. tauto. Qed.

(* soundness of the text filter: every returned text satisfies every given constraint *)
Lemma filter_body_sound st refs version langs widths lines both_key t :
  (forall r e, In r refs -> In e st -> fst e = r -> forall x, In x (snd e) -> x_ref x = r) ->
  In t (filter_body st refs version langs widths lines both_key) ->
  text_ok st refs version langs widths lines t.
Proof.
  intros Hkey. unfold filter_body.
  set (handles := match refs with [] => map fst st | _ => refs end).
  set (texts0 := flat_map _ handles).
  set (texts1 := match langs with [] => texts0 | _ => _ end).
  set (eff := match version with Some v => Some v | None => max_version st end).
  set (texts2 := flat_map _ (group_by_ref_lang texts1 [])).
  (* facts about texts0 / texts1 / texts2 *)
  assert (T0 : forall x, In x texts0 -> In x (all_texts st) /\ (refs <> [] -> In (x_ref x) refs)).
  { intros x Hx. subst texts0. apply in_flat_map in Hx as (h & Hh & Hx).
    destruct (find (fun e => fst e =? h) st) as [e|] eqn:F; [|contradiction].
    apply find_some_in in F as [He Ef]. split.
    - unfold all_texts. apply in_flat_map. now exists e.
    - intros Hr. subst handles. destruct refs as [|r0 rs]; [contradiction|].
      rewrite (Hkey h e Hh He Ef x Hx). exact Hh. }
  assert (T1 : forall x, In x texts1 -> In x texts0 /\ (langs <> [] -> In (x_lang x) langs)).
  { intros x Hx. subst texts1. destruct langs as [|l0 ls]; [split; [assumption|intros C; contradiction]|].
    apply filter_In in Hx as [Hx E]. split; [assumption|]. intros _.
    apply existsb_exists in E as (y & Hy & Ey). apply Z.eqb_eq in Ey. now rewrite Ey. }
  assert (T2 : forall x, In x texts2 -> In x texts1 /\ x_ver x = eff).
  { intros x Hx. subst texts2. apply in_flat_map in Hx as (g & Hg & Hx). apply filter_In in Hx as [Hx E].
    split; [eapply group_snd_in; eassumption|].
    unfold opt_eqb in E. destruct (x_ver x), eff; try discriminate; [apply Z.eqb_eq in E; now subst|reflexivity]. }
  assert (Base : forall x, In x texts2 ->
            In x (all_texts st) /\ (refs <> [] -> In (x_ref x) refs) /\ (langs <> [] -> In (x_lang x) langs) /\
            (match version with Some v => x_ver x = Some v | None => x_ver x = max_version st end)).
  { intros x Hx. destruct (T2 x Hx) as [H1 Hv]. destruct (T1 x H1) as [H0 Hl]. destruct (T0 x H0) as [Ha Hr].
    repeat split; try assumption. subst eff. destruct version; assumption. }
  assert (G2 : forall g x, In g (group_by_ref_lang texts2 []) -> In x (snd g) -> In x texts2)
    by (intros; eapply group_snd_in; eassumption).
  unfold text_ok.
  destruct widths as [|w0 ws], lines as [|n0 ns].
  - intros Ht. destruct (Base t Ht) as (A & B & C & D). repeat split; try assumption; intros X; contradiction.
  - (* lines only *)
    intros Ht. apply in_flat_map in Ht as (g & Hg & Ht). apply in_flat_map in Ht as (n & Hn & Ht).
    destruct (last_opt (nol_filter (snd g) n)) as [t'|] eqn:L; [|contradiction]. destruct Ht as [<-|[]].
    apply last_opt_in in L. unfold nol_filter in L. apply sort_by_in in L. apply filter_In in L as [L E].
    destruct (Base t' (G2 g t' Hg L)) as (A & B & C & D).
    repeat split; try assumption; [intros X; contradiction|]. intros _. exists n. split; [assumption|lia].
  - (* widths only *)
    intros Ht. apply in_flat_map in Ht as (g & Hg & Ht). apply in_flat_map in Ht as (w & Hw & Ht).
    destruct (last_opt (width_filter (snd g) w)) as [t'|] eqn:L; [|contradiction]. destruct Ht as [<-|[]].
    apply last_opt_in in L. unfold width_filter in L. apply sort_by_in in L. apply filter_In in L as [L E].
    destruct (Base t' (G2 g t' Hg L)) as (A & B & C & D).
    repeat split; try assumption; [|intros X; contradiction]. intros _. exists w. split; [assumption|lia].
  - (* both *)
    intros Ht. apply in_flat_map in Ht as (g & Hg & Ht). apply in_flat_map in Ht as (w & Hw & Ht).
    apply in_flat_map in Ht as (n & Hn & Ht).
    destruct (last_opt (sort_by both_key (nol_filter (width_filter (snd g) w) n))) as [t'|] eqn:L; [|contradiction].
    destruct Ht as [<-|[]].
    apply last_opt_in in L. apply sort_by_in in L. unfold nol_filter in L. apply sort_by_in in L.
    apply filter_In in L as [L En]. unfold width_filter in L. apply sort_by_in in L. apply filter_In in L as [L Ew].
    destruct (Base t' (G2 g t' Hg L)) as (A & B & C & D).
    repeat split; try assumption; intros _; [exists w|exists n]; (split; [assumption|lia]).
Qed.

Theorem filter_texts_sound st refs version langs widths lines both_key t :
  (forall r e, In r refs -> In e st -> fst e = r -> forall x, In x (snd e) -> x_ref x = r) ->
  In t (filter_texts st refs version langs widths lines both_key) ->
  text_ok st refs version langs widths lines t.
Proof.
  intros Hkey. unfold filter_texts. destruct (all_texts st); [contradiction|]. now apply filter_body_sound.
Qed.

(* without any constraint all texts of the latest version are returned *)
Theorem filter_texts_unconstrained st both_key t :
  In t (all_texts st) -> x_ver t = max_version st ->
  (forall e e', In e st -> In e' st -> fst e = fst e' -> e = e') ->
  In t (filter_texts st [] None [] [] [] both_key).
Proof.
  intros Ht Hv Hu. unfold filter_texts.
  destruct (all_texts st) as [|a0 ar] eqn:Eall; [contradiction|]. rewrite <- Eall in Ht.
  unfold filter_body. apply in_flat_map.
  assert (T0 : In t (flat_map (fun h => match find (fun e => fst e =? h) st with Some e => snd e | None => [] end) (map fst st))).
  { unfold all_texts in Ht. apply in_flat_map in Ht as (e & He & Ht). apply in_flat_map. exists (fst e).
    split; [now apply in_map|].
    destruct (find (fun e0 => fst e0 =? fst e) st) as [e'|] eqn:F.
    - apply find_some_in in F as [He' Ef]. now rewrite (Hu e' e He' He Ef).
    - exfalso. eapply find_none in F; [|exact He]. cbn in F. now rewrite Z.eqb_refl in F. }
  assert (G : In t (flat_map snd (group_by_ref_lang
             (flat_map (fun h => match find (fun e => fst e =? h) st with Some e => snd e | None => [] end) (map fst st)) [])))
    by (apply group_in; now left).
  apply in_flat_map in G as (g & Hg & Hgt). exists g. split; [assumption|].
  apply filter_In. split; [assumption|]. rewrite Hv. unfold opt_eqb. destruct (max_version st); [apply Z.eqb_refl|reflexivity].
Qed.

(* get_supported_languages lists exactly the stored languages, each once *)
Lemma dedup_z_in l x : In x (dedup_z l) <-> In x l.
Proof.
  induction l as [|y r IH]; cbn [dedup_z]; [tauto|]. cbn [In]. rewrite filter_In, IH.
  destruct (Z.eqb_spec y x) as [->|Hne]; cbn; [tauto|]. intuition congruence.
Qed.
Lemma dedup_z_nodup l : NoDup (dedup_z l).
Proof.
  induction l as [|y r IH]; cbn [dedup_z]; constructor.
  - rewrite filter_In. intros [_ E]. now rewrite Z.eqb_refl in E.
  - now apply NoDup_filter.
Qed.
Theorem supported_languages_exact st :
  NoDup (supported_languages st) /\
  (forall l, In l (supported_languages st) <-> exists t, In t (all_texts st) /\ x_lang t = l).
Proof.
  split; [apply dedup_z_nodup|]. intros l. unfold supported_languages. rewrite dedup_z_in, in_map_iff.
  split; intros (t & A & B); exists t; tauto.
Qed.
