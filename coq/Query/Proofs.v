(* Proofs about the query-service model (C20). *)
From Coq Require Import List ZArith Bool Lia.
From SDC Require Import Query.Model.
Import ListNotations.
Open Scope Z_scope.

(* ---------------------------------------------------------------- dedup *)
Lemma qs_eqb_refl x : qs_eqb x x = true.
Proof. unfold qs_eqb. now rewrite Bool.eqb_reflx, Z.eqb_refl. Qed.

Lemma qs_eqb_sym x y : qs_eqb x y = qs_eqb y x.
Proof.
  unfold qs_eqb. rewrite (Z.eqb_sym (q_handle x)). f_equal.
  destruct (q_ctx x), (q_ctx y); reflexivity.
Qed.

Lemma qs_eqb_trans x y z : qs_eqb x y = true -> qs_eqb y z = true -> qs_eqb x z = true.
Proof.
  unfold qs_eqb. intros H1 H2. apply andb_prop in H1 as [A1 B1]. apply andb_prop in H2 as [A2 B2].
  apply Bool.eqb_prop in A1, A2. apply Z.eqb_eq in B1, B2. rewrite A1, A2, B1, B2.
  now rewrite Bool.eqb_reflx, Z.eqb_refl.
Qed.

Lemma dedup_in l x : In x (dedup l) -> In x l.
Proof.
  revert x; induction l as [|y r IH]; intros x; cbn [dedup]; [tauto|].
  intros [->|Hi]; [now left|]. right. apply IH. apply filter_In in Hi. tauto.
Qed.

Lemma dedup_covers l x : In x l -> exists y, In y (dedup l) /\ qs_eqb y x = true.
Proof.
  induction l as [|z r IH]; intros Hi; [contradiction|]. cbn [dedup].
  destruct Hi as [->|Hi].
  - exists x. split; [now left|apply qs_eqb_refl].
  - destruct (IH Hi) as (y & Hy & E). destruct (qs_eqb z y) eqn:Ezy.
    + exists z. split; [now left|]. eapply qs_eqb_trans; eassumption.
    + exists y. split; [|assumption]. right. apply filter_In. split; [assumption|]. now rewrite Ezy.
Qed.

(* every key at most once *)
Fixpoint keys_distinct (l : list qstate) : Prop :=
  match l with
  | [] => True
  | x :: r => (forall y, In y r -> qs_eqb x y = false) /\ keys_distinct r
  end.

Lemma keys_distinct_filter f l : keys_distinct l -> keys_distinct (filter f l).
Proof.
  induction l as [|x r IH]; cbn [filter keys_distinct]; [tauto|]. intros [H1 H2].
  destruct (f x); cbn [keys_distinct]; [|now apply IH]. split; [|now apply IH].
  intros y Hy. apply H1. apply filter_In in Hy. tauto.
Qed.

Lemma dedup_distinct l : keys_distinct (dedup l).
Proof.
  induction l as [|x r IH]; cbn [dedup keys_distinct]; [exact I|]. split.
  - intros y Hy. apply filter_In in Hy. destruct Hy as [_ Hy]. now apply negb_true_iff in Hy.
  - now apply keys_distinct_filter.
Qed.

(* ---------------------------------------------------------------- GetMdState *)
Lemma resolve_state_sound flag m h s :
  In s (resolve_state flag m h) ->
  (In s (qm_states m) /\ q_dh s = h) \/
  (flag = true /\ In s (qm_cstates m) /\ (q_handle s = h \/ q_dh s = h)).
Proof.
  unfold resolve_state. destruct flag.
  - destruct (filter (fun s0 => q_handle s0 =? h) (qm_cstates m)) as [|c l] eqn:F.
    + rewrite in_app_iff. intros [Hi|Hi]; apply filter_In in Hi as [Hi E]; apply Z.eqb_eq in E.
      * left. tauto.
      * right. tauto.
    + intros [<-|[]]. assert (Hc : In c (filter (fun s0 => q_handle s0 =? h) (qm_cstates m))) by (rewrite F; now left).
      apply filter_In in Hc as [Hc E]. apply Z.eqb_eq in E. right. tauto.
  - intros Hi. apply filter_In in Hi as [Hi E]. apply Z.eqb_eq in E. left. tauto.
Qed.

Lemma resolve_state_unknown flag m h :
  (forall s, In s (qm_states m) -> q_dh s <> h) ->
  (forall s, In s (qm_cstates m) -> q_dh s <> h /\ q_handle s <> h) ->
  resolve_state flag m h = [].
Proof.
  intros H1 H2.
  assert (F1 : filter (fun s => q_dh s =? h) (qm_states m) = []).
  { induction (qm_states m) as [|x r IH]; [reflexivity|]. cbn [filter].
    destruct (Z.eqb_spec (q_dh x) h) as [E|_]; [exfalso; apply (H1 x (or_introl eq_refl) E)|].
    apply IH. intros s Hs. apply H1. now right. }
  assert (F2 : filter (fun s => q_dh s =? h) (qm_cstates m) = [] /\ filter (fun s => q_handle s =? h) (qm_cstates m) = []).
  { induction (qm_cstates m) as [|x r IH]; [split; reflexivity|]. cbn [filter].
    destruct (H2 x (or_introl eq_refl)) as [A B].
    destruct (Z.eqb_spec (q_dh x) h); [contradiction|]. destruct (Z.eqb_spec (q_handle x) h); [contradiction|].
    apply IH. intros s Hs. apply H2. now right. }
  destruct F2 as [F2 F3]. unfold resolve_state. destruct flag; [rewrite F3, F1, F2|rewrite F1]; reflexivity.
Qed.

Theorem get_md_state_exact flag m handles : handles <> [] ->
  let r := get_md_state flag m handles in
  keys_distinct r /\
  (forall s, In s r -> exists h, In h handles /\ In s (resolve_state flag m h)) /\
  (forall h s, In h handles -> In s (resolve_state flag m h) -> exists y, In y r /\ qs_eqb y s = true).
Proof.
  intros Hne. cbv zeta. unfold get_md_state. destruct handles as [|h0 hs]; [contradiction|].
  split; [apply dedup_distinct|]. split.
  - intros s Hs. apply dedup_in in Hs. apply in_flat_map in Hs. exact Hs.
  - intros h s Hh Hs. apply dedup_covers. apply in_flat_map. now exists h.
Qed.

Lemma get_md_state_all flag m : get_md_state flag m [] = qm_states m ++ (if flag then qm_cstates m else []).
Proof. reflexivity. Qed.

(* ---------------------------------------------------------------- GetContextStates *)
Lemma resolve_ctx_sound m h s :
  In s (resolve_ctx m h) ->
  In s (qm_cstates m) /\ (q_handle s = h \/ q_dh s = h \/ (In h (qm_mds m) /\ q_mds s = h)).
Proof.
  unfold resolve_ctx.
  destruct (filter (fun s0 => q_handle s0 =? h) (qm_cstates m)) as [|c l] eqn:F.
  - destruct (filter (fun s0 => q_dh s0 =? h) (qm_cstates m)) as [|c2 l2] eqn:F2.
    + destruct (existsb (Z.eqb h) (qm_mds m)) eqn:E; [|contradiction].
      intros Hi. apply filter_In in Hi as [Hi Em]. apply Z.eqb_eq in Em.
      apply existsb_exists in E as (x & Hx & Ex). apply Z.eqb_eq in Ex. subst x. tauto.
    + intros Hi. rewrite <- F2 in Hi. apply filter_In in Hi as [Hi E]. apply Z.eqb_eq in E. tauto.
  - intros [<-|[]]. assert (Hc : In c (filter (fun s0 => q_handle s0 =? h) (qm_cstates m))) by (rewrite F; now left).
    apply filter_In in Hc as [Hc E]. apply Z.eqb_eq in E. tauto.
Qed.

(* an MDS handle selects the context states of THAT mds only *)
Lemma resolve_ctx_mds m h s :
  (forall c, In c (qm_cstates m) -> q_handle c <> h /\ q_dh c <> h) -> In h (qm_mds m) ->
  (In s (resolve_ctx m h) <-> In s (qm_cstates m) /\ q_mds s = h).
Proof.
  intros Hn Hm. unfold resolve_ctx.
  assert (F : filter (fun s0 => q_handle s0 =? h) (qm_cstates m) = [] /\ filter (fun s0 => q_dh s0 =? h) (qm_cstates m) = []).
  { induction (qm_cstates m) as [|x r IH]; [split; reflexivity|]. cbn [filter].
    destruct (Hn x (or_introl eq_refl)) as [A B].
    destruct (Z.eqb_spec (q_handle x) h); [contradiction|]. destruct (Z.eqb_spec (q_dh x) h); [contradiction|].
    apply IH. intros c Hc. apply Hn. now right. }
  destruct F as [-> ->].
  assert (E : existsb (Z.eqb h) (qm_mds m) = true) by (apply existsb_exists; exists h; split; [assumption|apply Z.eqb_refl]).
  rewrite E. split; intros X.
  - apply filter_In in X. destruct X as [A B]. cbn beta in B. apply Z.eqb_eq in B. split; assumption.
  - destruct X as [A B]. apply filter_In. split; [exact A|]. cbn beta. now apply Z.eqb_eq.
Qed.

Theorem get_context_states_exact m handles : handles <> [] ->
  let r := get_context_states m handles in
  keys_distinct r /\
  (forall s, In s r -> exists h, In h handles /\ In s (resolve_ctx m h)) /\
  (forall h s, In h handles -> In s (resolve_ctx m h) -> exists y, In y r /\ qs_eqb y s = true).
Proof.
  intros Hne. cbv zeta. unfold get_context_states. destruct handles as [|h0 hs]; [contradiction|].
  split; [apply dedup_distinct|]. split.
  - intros s Hs. apply dedup_in in Hs. apply in_flat_map in Hs. exact Hs.
  - intros h s Hh Hs. apply dedup_covers. apply in_flat_map. now exists h.
Qed.

(* ---------------------------------------------------------------- corollaries: request shape, containment *)
(* the answer depends only on the SET of requested handles: order and repetition in the request are invisible *)
Lemma get_md_state_handle_set flag m hs1 hs2 : hs1 <> [] -> hs2 <> [] ->
  (forall h, In h hs1 -> In h hs2) ->
  forall s, In s (get_md_state flag m hs1) -> exists y, In y (get_md_state flag m hs2) /\ qs_eqb y s = true.
Proof.
  intros N1 N2 Hsub s Hs.
  destruct (get_md_state_exact flag m hs1 N1) as (_ & Hsound & _).
  destruct (get_md_state_exact flag m hs2 N2) as (_ & _ & Hcompl).
  destruct (Hsound s Hs) as (h & Hh & Hr). exact (Hcompl h s (Hsub h Hh) Hr).
Qed.

Lemma get_context_states_handle_set m hs1 hs2 : hs1 <> [] -> hs2 <> [] ->
  (forall h, In h hs1 -> In h hs2) ->
  forall s, In s (get_context_states m hs1) -> exists y, In y (get_context_states m hs2) /\ qs_eqb y s = true.
Proof.
  intros N1 N2 Hsub s Hs.
  destruct (get_context_states_exact m hs1 N1) as (_ & Hsound & _).
  destruct (get_context_states_exact m hs2 N2) as (_ & _ & Hcompl).
  destruct (Hsound s Hs) as (h & Hh & Hr). exact (Hcompl h s (Hsub h Hh) Hr).
Qed.

(* whatever is asked, nothing is returned that the MDIB does not hold; with the flag off GetMdState never
   returns a context state, and GetContextStates never returns anything but context states of the MDIB *)
Lemma get_md_state_contained flag m handles s :
  In s (get_md_state flag m handles) ->
  In s (qm_states m) \/ (flag = true /\ In s (qm_cstates m)).
Proof.
  destruct handles as [|h0 hs] eqn:E.
  - rewrite get_md_state_all. intros Hi. apply in_app_or in Hi as [Hi|Hi]; [now left|].
    destruct flag; [right; now split | contradiction].
  - rewrite <- E. assert (N : handles <> []) by (rewrite E; discriminate).
    intros Hi. destruct (get_md_state_exact flag m handles N) as (_ & Hsound & _).
    destruct (Hsound s Hi) as (h & _ & Hr). apply resolve_state_sound in Hr. tauto.
Qed.

Lemma get_context_states_contained m handles s :
  In s (get_context_states m handles) -> In s (qm_cstates m).
Proof.
  destruct handles as [|h0 hs] eqn:E.
  - cbn [get_context_states]. tauto.
  - rewrite <- E. assert (N : handles <> []) by (rewrite E; discriminate).
    intros Hi. destruct (get_context_states_exact m handles N) as (_ & Hsound & _).
    destruct (Hsound s Hi) as (h & _ & Hr). apply resolve_ctx_sound in Hr. tauto.
Qed.

(* ---------------------------------------------------------------- localized texts *)
Lemma insert_by_in {A} (key : A -> Z) x l y : In y (insert_by key x l) <-> y = x \/ In y l.
Proof.
  induction l as [|z r IH]; cbn [insert_by]; [cbn; intuition congruence|].
  destruct (key x <? key z); cbn [In]; [intuition congruence|]. rewrite IH. intuition congruence.
Qed.

Lemma sort_by_in {A} (key : A -> Z) l y : In y (sort_by key l) <-> In y l.
Proof.
  unfold sort_by.
  assert (G : forall l acc, In y (fold_left (fun acc x => insert_by key x acc) l acc) <-> In y l \/ In y acc).
  { induction l0 as [|x r IH]; intros acc; cbn [fold_left]; [cbn; tauto|].
    rewrite IH, insert_by_in. cbn [In]. intuition congruence. }
  rewrite G. cbn. tauto.
Qed.

Lemma last_opt_in {A} (l : list A) x : last_opt l = Some x -> In x l.
Proof.
  unfold last_opt. destruct (rev l) as [|y r] eqn:E; [discriminate|]. intros [= <-].
  apply in_rev. rewrite E. now left.
Qed.

Lemma add_group_in x g t : In t (flat_map snd (add_group x g)) <-> t = x \/ In t (flat_map snd g).
Proof.
  induction g as [|[k' v] g' IHg]; cbn [add_group flat_map snd app In]; [intuition congruence|].
  destruct ((x_ref x =? fst k') && (x_lang x =? snd k')); cbn [flat_map snd]; rewrite !in_app_iff.
  - cbn [In]. intuition congruence.
  - rewrite IHg. tauto.
Qed.

Lemma group_in l : forall acc t,
  In t (flat_map snd (group_by_ref_lang l acc)) <-> In t l \/ In t (flat_map snd acc).
Proof.
  induction l as [|x r IH]; intros acc t; cbn [group_by_ref_lang In]; [tauto|].
  rewrite IH, add_group_in. intuition congruence.
Qed.

Lemma group_snd_in l g t : In g (group_by_ref_lang l []) -> In t (snd g) -> In t l.
Proof.
  intros Hg Ht. assert (In t (flat_map snd (group_by_ref_lang l []))) by (apply in_flat_map; now exists g).
  apply group_in in H. cbn in H. tauto.
Qed.

Lemma find_some_in st h e : find (fun e0 : Z * list ltext => fst e0 =? h) st = Some e -> In e st /\ fst e = h.
Proof. intros F. apply find_some in F as [A B]. apply Z.eqb_eq in B. tauto. Qed.

(* soundness of the text filter: every returned text satisfies every given constraint *)
Lemma filter_body_sound st refs version langs widths lines both_key t :
  (forall r e, In r refs -> In e st -> fst e = r -> forall x, In x (snd e) -> x_ref x = r) ->
  In t (filter_body st refs version langs widths lines both_key) ->
  text_ok st refs version langs widths lines t.
Proof.
  intros Hkey. unfold filter_body.
  set (handles := match refs with [] => map fst st | _ => refs end).
  set (texts0 := flat_map _ handles).
  set (texts1 := match langs with [] => texts0 | _ => _ end).
  set (eff := match version with Some v => Some v | None => max_version st end).
  set (texts2 := flat_map _ (group_by_ref_lang texts1 [])).
  (* facts about texts0 / texts1 / texts2 *)
  assert (T0 : forall x, In x texts0 -> In x (all_texts st) /\ (refs <> [] -> In (x_ref x) refs)).
  { intros x Hx. subst texts0. apply in_flat_map in Hx as (h & Hh & Hx).
    destruct (find (fun e => fst e =? h) st) as [e|] eqn:F; [|contradiction].
    apply find_some_in in F as [He Ef]. split.
    - unfold all_texts. apply in_flat_map. now exists e.
    - intros Hr. subst handles. destruct refs as [|r0 rs]; [contradiction|].
      rewrite (Hkey h e Hh He Ef x Hx). exact Hh. }
  assert (T1 : forall x, In x texts1 -> In x texts0 /\ (langs <> [] -> In (x_lang x) langs)).
  { intros x Hx. subst texts1. destruct langs as [|l0 ls]; [split; [assumption|intros C; contradiction]|].
    apply filter_In in Hx as [Hx E]. split; [assumption|]. intros _.
    apply existsb_exists in E as (y & Hy & Ey). apply Z.eqb_eq in Ey. now rewrite Ey. }
  assert (T2 : forall x, In x texts2 -> In x texts1 /\ x_ver x = eff).
  { intros x Hx. subst texts2. apply in_flat_map in Hx as (g & Hg & Hx). apply filter_In in Hx as [Hx E].
    split; [eapply group_snd_in; eassumption|].
    unfold opt_eqb in E. destruct (x_ver x), eff; try discriminate; [apply Z.eqb_eq in E; now subst|reflexivity]. }
  assert (Base : forall x, In x texts2 ->
            In x (all_texts st) /\ (refs <> [] -> In (x_ref x) refs) /\ (langs <> [] -> In (x_lang x) langs) /\
            (match version with Some v => x_ver x = Some v | None => x_ver x = max_version st end)).
  { intros x Hx. destruct (T2 x Hx) as [H1 Hv]. destruct (T1 x H1) as [H0 Hl]. destruct (T0 x H0) as [Ha Hr].
    repeat split; try assumption. subst eff. destruct version; assumption. }
  assert (G2 : forall g x, In g (group_by_ref_lang texts2 []) -> In x (snd g) -> In x texts2)
    by (intros; eapply group_snd_in; eassumption).
  unfold text_ok.
  destruct widths as [|w0 ws], lines as [|n0 ns].
  - intros Ht. destruct (Base t Ht) as (A & B & C & D). repeat split; try assumption; intros X; contradiction.
  - (* lines only *)
    intros Ht. apply in_flat_map in Ht as (g & Hg & Ht). apply in_flat_map in Ht as (n & Hn & Ht).
    destruct (last_opt (nol_filter (snd g) n)) as [t'|] eqn:L; [|contradiction]. destruct Ht as [<-|[]].
    apply last_opt_in in L. unfold nol_filter in L. apply sort_by_in in L. apply filter_In in L as [L E].
    destruct (Base t' (G2 g t' Hg L)) as (A & B & C & D).
    repeat split; try assumption; [intros X; contradiction|]. intros _. exists n. split; [assumption|lia].
  - (* widths only *)
    intros Ht. apply in_flat_map in Ht as (g & Hg & Ht). apply in_flat_map in Ht as (w & Hw & Ht).
    destruct (last_opt (width_filter (snd g) w)) as [t'|] eqn:L; [|contradiction]. destruct Ht as [<-|[]].
    apply last_opt_in in L. unfold width_filter in L. apply sort_by_in in L. apply filter_In in L as [L E].
    destruct (Base t' (G2 g t' Hg L)) as (A & B & C & D).
    repeat split; try assumption; [|intros X; contradiction]. intros _. exists w. split; [assumption|lia].
  - (* both *)
    intros Ht. apply in_flat_map in Ht as (g & Hg & Ht). apply in_flat_map in Ht as (w & Hw & Ht).
    apply in_flat_map in Ht as (n & Hn & Ht).
    destruct (last_opt (sort_by both_key (nol_filter (width_filter (snd g) w) n))) as [t'|] eqn:L; [|contradiction].
    destruct Ht as [<-|[]].
    apply last_opt_in in L. apply sort_by_in in L. unfold nol_filter in L. apply sort_by_in in L.
    apply filter_In in L as [L En]. unfold width_filter in L. apply sort_by_in in L. apply filter_In in L as [L Ew].
    destruct (Base t' (G2 g t' Hg L)) as (A & B & C & D).
    repeat split; try assumption; intros _; [exists w|exists n]; (split; [assumption|lia]).
Qed.

Theorem filter_texts_sound st refs version langs widths lines both_key t :
  (forall r e, In r refs -> In e st -> fst e = r -> forall x, In x (snd e) -> x_ref x = r) ->
  In t (filter_texts st refs version langs widths lines both_key) ->
  text_ok st refs version langs widths lines t.
Proof.
  intros Hkey. unfold filter_texts. destruct (all_texts st); [contradiction|]. now apply filter_body_sound.
Qed.

(* without any constraint all texts of the latest version are returned *)
Theorem filter_texts_unconstrained st both_key t :
  In t (all_texts st) -> x_ver t = max_version st ->
  (forall e e', In e st -> In e' st -> fst e = fst e' -> e = e') ->
  In t (filter_texts st [] None [] [] [] both_key).
Proof.
  intros Ht Hv Hu. unfold filter_texts.
  destruct (all_texts st) as [|a0 ar] eqn:Eall; [contradiction|]. rewrite <- Eall in Ht.
  unfold filter_body. apply in_flat_map.
  assert (T0 : In t (flat_map (fun h => match find (fun e => fst e =? h) st with Some e => snd e | None => [] end) (map fst st))).
  { unfold all_texts in Ht. apply in_flat_map in Ht as (e & He & Ht). apply in_flat_map. exists (fst e).
    split; [now apply in_map|].
    destruct (find (fun e0 => fst e0 =? fst e) st) as [e'|] eqn:F.
    - apply find_some_in in F as [He' Ef]. now rewrite (Hu e' e He' He Ef).
    - exfalso. eapply find_none in F; [|exact He]. cbn in F. now rewrite Z.eqb_refl in F. }
  assert (G : In t (flat_map snd (group_by_ref_lang
             (flat_map (fun h => match find (fun e => fst e =? h) st with Some e => snd e | None => [] end) (map fst st)) [])))
    by (apply group_in; now left).
  apply in_flat_map in G as (g & Hg & Hgt). exists g. split; [assumption|].
  apply filter_In. split; [assumption|]. rewrite Hv. unfold opt_eqb. destruct (max_version st); [apply Z.eqb_refl|reflexivity].
Qed.

(* get_supported_languages lists exactly the stored languages, each once *)
Lemma dedup_z_in l x : In x (dedup_z l) <-> In x l.
Proof.
  induction l as [|y r IH]; cbn [dedup_z]; [tauto|]. cbn [In]. rewrite filter_In, IH.
  destruct (Z.eqb_spec y x) as [->|Hne]; cbn; [tauto|]. intuition congruence.
Qed.
Lemma dedup_z_nodup l : NoDup (dedup_z l).
Proof.
  induction l as [|y r IH]; cbn [dedup_z]; constructor.
  - rewrite filter_In. intros [_ E]. now rewrite Z.eqb_refl in E.
  - now apply NoDup_filter.
Qed.
Theorem supported_languages_exact st :
  NoDup (supported_languages st) /\
  (forall l, In l (supported_languages st) <-> exists t, In t (all_texts st) /\ x_lang t = l).
Proof.
  split; [apply dedup_z_nodup|]. intros l. unfold supported_languages. rewrite dedup_z_in, in_map_iff.
  split; intros (t & A & B); exists t; tauto.
Qed.

(* ---------------------------------------------------------------- histories on one storage *)
From Coq Require Import Permutation.

Lemma st_add_key_in t st k : In k (map fst (st_add t st)) <-> k = x_ref t \/ In k (map fst st).
Proof.
  induction st as [|[k' v] r IH]; cbn [st_add map fst In]; [intuition congruence|].
  destruct (Z.eqb_spec k' (x_ref t)) as [E|Hne]; cbn [map fst In].
  - subst k'. intuition congruence.
  - rewrite IH. intuition congruence.
Qed.

Lemma st_add_entry t st e : In e (st_add t st) ->
  In e st \/ (fst e = x_ref t /\ forall x, In x (snd e) -> x = t \/ exists e', In e' st /\ fst e' = fst e /\ In x (snd e')).
Proof.
  induction st as [|[k v] r IH]; cbn [st_add In].
  - intros [<-|[]]. right. cbn. split; [reflexivity|]. intros x [<-|[]]. now left.
  - destruct (Z.eqb_spec k (x_ref t)) as [E|Hne]; cbn [In].
    + intros [<-|Hi]; [|tauto]. right. cbn [fst snd]. split; [assumption|].
      intros x Hx. apply in_app_iff in Hx as [Hx|[<-|[]]]; [|now left]. right. exists (k, v). cbn. tauto.
    + intros [<-|Hi]; [tauto|]. destruct (IH Hi) as [A|[A B]]; [tauto|]. right. split; [assumption|].
      intros x Hx. destruct (B x Hx) as [->|(e' & He' & Ef & Hx')]; [now left|]. right. exists e'. tauto.
Qed.

Lemma st_add_wf t st : st_wf st -> st_wf (st_add t st).
Proof.
  intros [Hnd Hk]. split.
  - clear Hk. induction st as [|[k v] r IH]; cbn [st_add map fst]; [repeat constructor; intros []|].
    cbn [map fst] in Hnd. apply NoDup_cons_iff in Hnd as [Hn Hnd].
    destruct (Z.eqb_spec k (x_ref t)) as [E|Hne]; cbn [map fst]; apply NoDup_cons_iff.
    + tauto.
    + split; [|now apply IH]. rewrite st_add_key_in. intros [->|Hi]; [now apply Hne|contradiction].
  - intros e He x Hx. apply st_add_entry in He as [He|[Ef B]]; [now apply (Hk e He)|].
    destruct (B x Hx) as [->|(e' & He' & Ef' & Hx')]; [now rewrite Ef|]. rewrite <- Ef'. now apply (Hk e' He').
Qed.

Lemma st_add_all_texts t st : Permutation (all_texts (st_add t st)) (all_texts st ++ [t]).
Proof.
  unfold all_texts. induction st as [|[k v] r IH]; cbn [st_add flat_map snd app]; [apply Permutation_refl|].
  destruct (Z.eqb k (x_ref t)); cbn [flat_map snd].
  - rewrite <- !app_assoc. apply Permutation_app_head. apply Permutation_app_comm.
  - rewrite <- app_assoc. now apply Permutation_app_head.
Qed.

Lemma st_touch_all_texts r st : all_texts (st_touch r st) = all_texts st.
Proof.
  unfold st_touch, all_texts. destruct (existsb _ st); [reflexivity|].
  rewrite flat_map_app. cbn. now rewrite app_nil_r.
Qed.

Lemma st_touch_wf r st : st_wf st -> st_wf (st_touch r st).
Proof.
  intros [Hnd Hk]. unfold st_touch. destruct (existsb (fun e => fst e =? r) st) eqn:E; [now split|]. split.
  - rewrite map_app. cbn [map fst].
    assert (Hn : ~ In r (map fst st)).
    { intros Hi. apply in_map_iff in Hi as (e & Ef & He).
      assert (X : existsb (fun e0 => fst e0 =? r) st = true) by (apply existsb_exists; exists e; split; [assumption|now apply Z.eqb_eq]).
      congruence. }
    clear E Hk. induction st as [|e s IH]; cbn [map app]; [repeat constructor; intros []|].
    cbn [map] in Hnd, Hn. apply NoDup_cons_iff in Hnd as [Hn' Hnd]. apply NoDup_cons_iff. split.
    + rewrite in_app_iff. cbn [In]. intros [A|[A|[]]]; [contradiction|]. apply Hn. left. now symmetry.
    + apply IH; [assumption|]. intros A. apply Hn. now right.
  - intros e He x Hx. apply in_app_iff in He as [He|[<-|[]]]; [now apply (Hk e He)|contradiction].
Qed.

Lemma st_touch_all_wf refs : forall st, st_wf st -> st_wf (fold_left (fun s r => st_touch r s) refs st).
Proof. induction refs as [|r rs IH]; intros st H; cbn [fold_left]; [assumption|]. apply IH. now apply st_touch_wf. Qed.

Lemma st_touch_all_texts_all refs : forall st, all_texts (fold_left (fun s r => st_touch r s) refs st) = all_texts st.
Proof. induction refs as [|r rs IH]; intros st; cbn [fold_left]; [reflexivity|]. now rewrite IH, st_touch_all_texts. Qed.

Lemma st_wf_nil : st_wf [].
Proof. split; [constructor|intros e []]. Qed.

Lemma lstep_wf st o : st_wf st -> st_wf (lstep st o).
Proof. destruct o; cbn [lstep]; intros H; [now apply st_add_wf|assumption|now apply st_touch_all_wf]. Qed.

(* every storage a history of add / query operations can produce is well formed *)
Theorem state_after_wf ops : st_wf (state_after ops).
Proof.
  unfold state_after. assert (G : forall ops st, st_wf st -> st_wf (fold_left lstep ops st)).
  { induction ops0 as [|o r IH]; intros st H; cbn [fold_left]; [assumption|]. apply IH. now apply lstep_wf. }
  apply G. apply st_wf_nil.
Qed.

(* ... and holds exactly the texts that were added (as a multiset): queries store or drop nothing *)
Theorem state_after_holds_added ops : Permutation (all_texts (state_after ops)) (added ops).
Proof.
  unfold state_after.
  assert (G : forall ops st, Permutation (all_texts (fold_left lstep ops st)) (all_texts st ++ added ops)).
  { induction ops0 as [|o r IH]; intros st; cbn [fold_left]; [unfold added; cbn; now rewrite app_nil_r|].
    eapply Permutation_trans; [apply IH|]. unfold added. cbn [flat_map]. fold (added r).
    destruct o; cbn [lstep].
    - rewrite app_assoc. apply Permutation_app_tail. apply st_add_all_texts.
    - apply Permutation_refl.
    - rewrite st_touch_all_texts_all. apply Permutation_refl. }
  apply (G ops []).
Qed.

(* the side conditions of the filter theorems follow from well-formedness *)
Lemma wf_keys_own_refs st : st_wf st ->
  forall refs r e, In r refs -> In e st -> fst e = r -> forall x, In x (snd e) -> x_ref x = r.
Proof. intros [_ Hk] refs r e _ He <- x Hx. now apply (Hk e He). Qed.

Lemma wf_keys_unique st : st_wf st -> forall e e', In e st -> In e' st -> fst e = fst e' -> e = e'.
Proof.
  intros [Hnd _]. induction st as [|a s IH]; intros e e' He He' Ef; [contradiction|].
  cbn [map] in Hnd. apply NoDup_cons_iff in Hnd as [Hn Hnd].
  destruct He as [<-|He], He' as [<-|He']; [reflexivity| | |now apply IH].
  - exfalso. apply Hn. rewrite Ef. now apply in_map.
  - exfalso. apply Hn. rewrite <- Ef. now apply in_map.
Qed.

Theorem history_text_sound ops refs version langs widths lines both_key t :
  In t (filter_texts (state_after ops) refs version langs widths lines both_key) ->
  text_ok (state_after ops) refs version langs widths lines t.
Proof. apply filter_texts_sound. apply wf_keys_own_refs. apply state_after_wf. Qed.

(* ---- exactness without TextWidth / NumberOfLines: the answer is the selection, as a multiset *)
Lemma perm_filter {A} (p : A -> bool) l l' : Permutation l l' -> Permutation (filter p l) (filter p l').
Proof.
  induction 1; cbn [filter].
  - constructor.
  - destruct (p x); [now constructor|assumption].
  - destruct (p x), (p y); try apply Permutation_refl. apply perm_swap.
  - eapply Permutation_trans; eassumption.
Qed.

Lemma filter_filter_and {A} (p q : A -> bool) l : filter p (filter q l) = filter (fun x => q x && p x) l.
Proof.
  induction l as [|x r IH]; [reflexivity|]. cbn [filter]. destruct (q x); cbn [filter andb]; [|assumption].
  destruct (p x); now rewrite IH.
Qed.

Lemma filter_all_true {A} (p : A -> bool) l : (forall x, In x l -> p x = true) -> filter p l = l.
Proof.
  induction l as [|x r IH]; intros H; [reflexivity|]. cbn [filter]. rewrite (H x (or_introl eq_refl)).
  f_equal. apply IH. intros y Hy. apply H. now right.
Qed.

Lemma filter_all_false {A} (p : A -> bool) l : (forall x, In x l -> p x = false) -> filter p l = [].
Proof.
  induction l as [|x r IH]; intros H; [reflexivity|]. cbn [filter]. rewrite (H x (or_introl eq_refl)).
  apply IH. intros y Hy. apply H. now right.
Qed.

Lemma filter_or_disjoint {A} (p q : A -> bool) l :
  (forall x, In x l -> p x = true -> q x = true -> False) ->
  Permutation (filter (fun x => p x || q x) l) (filter p l ++ filter q l).
Proof.
  induction l as [|x r IH]; intros H; [constructor|]. cbn [filter].
  assert (IH' : Permutation (filter (fun x => p x || q x) r) (filter p r ++ filter q r))
    by (apply IH; intros y Hy; apply H; now right).
  destruct (p x) eqn:Ep, (q x) eqn:Eq; cbn [orb app].
  - exfalso. apply (H x (or_introl eq_refl) Ep Eq).
  - now constructor.
  - eapply Permutation_trans; [apply perm_skip, IH'|]. apply Permutation_middle.
  - assumption.
Qed.

Lemma flat_map_filter_snd {K} (p : ltext -> bool) (gs : list (K * list ltext)) :
  flat_map (fun g => filter p (snd g)) gs = filter p (flat_map snd gs).
Proof. induction gs as [|g r IH]; [reflexivity|]. cbn [flat_map]. now rewrite filter_app, IH. Qed.

Lemma add_group_perm x g : Permutation (flat_map snd (add_group x g)) (flat_map snd g ++ [x]).
Proof.
  induction g as [|[k' v] g' IH]; cbn [add_group flat_map snd app]; [apply Permutation_refl|].
  destruct ((x_ref x =? fst k') && (x_lang x =? snd k')); cbn [flat_map snd].
  - rewrite <- !app_assoc. apply Permutation_app_head. apply Permutation_app_comm.
  - rewrite <- app_assoc. now apply Permutation_app_head.
Qed.

Lemma group_perm l : forall acc, Permutation (flat_map snd (group_by_ref_lang l acc)) (flat_map snd acc ++ l).
Proof.
  induction l as [|x r IH]; intros acc; cbn [group_by_ref_lang]; [now rewrite app_nil_r|].
  eapply Permutation_trans; [apply IH|]. eapply Permutation_trans; [apply Permutation_app_tail, add_group_perm|].
  rewrite <- app_assoc. apply Permutation_refl.
Qed.

Definition lookup (st : storage) (h : Z) : list ltext :=
  match find (fun e => Z.eqb (fst e) h) st with Some e => snd e | None => [] end.

Lemma st_wf_tail e st : st_wf (e :: st) -> st_wf st.
Proof.
  intros [Hnd Hk]. cbn [map] in Hnd. apply NoDup_cons_iff in Hnd as [_ Hnd]. split; [assumption|].
  intros e' He'. apply Hk. now right.
Qed.

Lemma lookup_is_filter st h : st_wf st -> filter (fun t => x_ref t =? h) (all_texts st) = lookup st h.
Proof.
  unfold lookup, all_texts. induction st as [|e r IH]; intros Hwf; [reflexivity|].
  cbn [flat_map find]. rewrite filter_app. pose proof Hwf as [Hnd Hk]. cbn [map] in Hnd. apply NoDup_cons_iff in Hnd as [Hn _].
  destruct (Z.eqb_spec (fst e) h) as [E|Hne].
  - rewrite filter_all_true, filter_all_false; [now rewrite app_nil_r| |].
    + intros x Hx. apply in_flat_map in Hx as (e' & He' & Hx). apply Z.eqb_neq. intros Ex.
      apply Hn. assert (Ef : fst e' = fst e) by (rewrite <- (Hk e' (or_intror He') x Hx); congruence).
      rewrite <- Ef. now apply in_map.
    + intros x Hx. apply Z.eqb_eq. rewrite <- E. apply (Hk e (or_introl eq_refl) x Hx).
  - rewrite filter_all_false; [cbn [app]; apply IH; eapply st_wf_tail; eassumption|].
    intros x Hx. apply Z.eqb_neq. rewrite (Hk e (or_introl eq_refl) x Hx). assumption.
Qed.

Lemma lookup_perm st hs : st_wf st -> NoDup hs ->
  Permutation (flat_map (lookup st) hs) (filter (fun t => existsb (Z.eqb (x_ref t)) hs) (all_texts st)).
Proof.
  intros Hwf. induction hs as [|h r IH]; intros Hnd; cbn [flat_map existsb].
  - rewrite filter_all_false; [constructor|reflexivity].
  - apply NoDup_cons_iff in Hnd as [Hn Hnd]. apply Permutation_sym.
    eapply Permutation_trans; [apply filter_or_disjoint|].
    + intros x _ E1 E2. apply Z.eqb_eq in E1. apply existsb_exists in E2 as (y & Hy & Ey). apply Z.eqb_eq in Ey.
      apply Hn. congruence.
    + rewrite lookup_is_filter by assumption. apply Permutation_app_head. apply Permutation_sym. now apply IH.
Qed.

Lemma wf_ref_is_key st t : st_wf st -> In t (all_texts st) -> In (x_ref t) (map fst st).
Proof.
  intros [_ Hk] Ht. unfold all_texts in Ht. apply in_flat_map in Ht as (e & He & Ht).
  rewrite (Hk e He t Ht). now apply in_map.
Qed.

Theorem filter_texts_exact st refs version langs both_key :
  st_wf st -> NoDup refs ->
  Permutation (filter_texts st refs version langs [] [] both_key)
              (filter (text_selected st refs version langs) (all_texts st)).
Proof.
  intros Hwf Hnd. unfold filter_texts.
  destruct (all_texts st) as [|a0 ar] eqn:Eall; [constructor|]. rewrite <- Eall. clear a0 ar Eall.
  unfold filter_body. rewrite flat_map_filter_snd.
  fold (lookup st). fold (eff_version st version).
  set (texts0 := flat_map (lookup st) _).
  set (texts1 := match langs with [] => texts0 | _ => _ end).
  assert (P0 : Permutation texts0 (filter (sel_ref refs) (all_texts st))).
  { subst texts0. destruct refs as [|r0 rs] eqn:Er.
    - eapply Permutation_trans; [apply lookup_perm; [assumption|apply Hwf]|].
      unfold sel_ref. rewrite !filter_all_true; [apply Permutation_refl|reflexivity|].
      intros x Hx. apply existsb_exists. exists (x_ref x). split; [now apply wf_ref_is_key|apply Z.eqb_refl].
    - rewrite <- Er in *. eapply Permutation_trans; [now apply lookup_perm|].
      unfold sel_ref. rewrite Er. apply Permutation_refl. }
  assert (E1 : texts1 = filter (sel_lang langs) texts0).
  { subst texts1. unfold sel_lang. destruct langs; [now rewrite filter_all_true|reflexivity]. }
  eapply Permutation_trans; [apply perm_filter, (group_perm texts1 [])|]. cbn [flat_map app].
  rewrite E1. eapply Permutation_trans; [apply perm_filter, perm_filter, P0|].
  rewrite !filter_filter_and. unfold text_selected.
  erewrite filter_ext; [apply Permutation_refl|]. intros t. cbv beta. now rewrite andb_assoc.
Qed.

Theorem history_text_exact ops refs version langs both_key : NoDup refs ->
  Permutation (filter_texts (state_after ops) refs version langs [] [] both_key)
              (filter (text_selected (state_after ops) refs version langs) (all_texts (state_after ops))).
Proof. intros H. apply filter_texts_exact; [apply state_after_wf|assumption]. Qed.

Theorem history_languages_exact ops :
  NoDup (supported_languages (state_after ops)) /\
  forall l, In l (supported_languages (state_after ops)) <-> exists t, In t (added ops) /\ x_lang t = l.
Proof.
  destruct (supported_languages_exact (state_after ops)) as [A B]. split; [assumption|]. intros l. rewrite B.
  pose proof (state_after_holds_added ops) as P.
  split; intros (t & Ht & El); exists t; (split; [|assumption]).
  - eapply Permutation_in; eassumption.
  - eapply Permutation_in; [apply Permutation_sym|]; eassumption.
Qed.

(* ---- the answers depend on the stored multiset only (a cache, an index or the order of the keys is invisible) *)
Definition ver_step (acc : option Z) (t : ltext) : option Z :=
  match x_ver t, acc with
  | Some v, Some a => Some (Z.max v a)
  | Some v, None => Some v
  | None, a => a
  end.

Lemma ver_step_comm a x y : ver_step (ver_step a x) y = ver_step (ver_step a y) x.
Proof. unfold ver_step. destruct (x_ver x), (x_ver y), a; try reflexivity; f_equal; lia. Qed.

Lemma fold_ver_perm l l' : Permutation l l' -> forall a, fold_left ver_step l a = fold_left ver_step l' a.
Proof.
  induction 1; intros a; cbn [fold_left]; [reflexivity|apply IHPermutation|now rewrite ver_step_comm|].
  now rewrite IHPermutation1.
Qed.

Lemma max_version_perm st1 st2 : Permutation (all_texts st1) (all_texts st2) -> max_version st1 = max_version st2.
Proof. intros P. unfold max_version. apply (fold_ver_perm _ _ P). Qed.

Theorem answers_depend_on_multiset st1 st2 refs version langs bk1 bk2 :
  st_wf st1 -> st_wf st2 -> Permutation (all_texts st1) (all_texts st2) -> NoDup refs ->
  Permutation (filter_texts st1 refs version langs [] [] bk1) (filter_texts st2 refs version langs [] [] bk2) /\
  (forall l, In l (supported_languages st1) <-> In l (supported_languages st2)).
Proof.
  intros W1 W2 P Hnd. split.
  - eapply Permutation_trans; [now apply filter_texts_exact|].
    eapply Permutation_trans; [|apply Permutation_sym; now apply filter_texts_exact].
    erewrite filter_ext; [apply perm_filter, P|].
    intros t. unfold text_selected, eff_version. now rewrite (max_version_perm _ _ P).
  - intros l. destruct (supported_languages_exact st1) as [_ B1], (supported_languages_exact st2) as [_ B2].
    rewrite B1, B2. split; intros (t & Ht & El); exists t; (split; [|assumption]).
    + eapply Permutation_in; eassumption.
    + eapply Permutation_in; [apply Permutation_sym|]; eassumption.
Qed.
