(* Proofs about the provider MDIB model: atomicity of transactions, MdibVersion steps, monotone version
   counters and referential consistency under state transactions. *)
From Coq Require Import List ZArith Bool Lia.
From SDC Require Import Mdib.Model.
Import ListNotations.
Open Scope Z_scope.

(* ---------------------------------------------------------------- atomicity / version step (all kinds) *)
Lemma transaction_not_committed_noop k ab acts m :
  snd (transaction k ab acts m) <> 0 -> fst (transaction k ab acts m) = m.
Proof.
  unfold transaction. destruct (body k m empty_tx _) as [t|[| |]]; cbn; try reflexivity.
  destruct ab; cbn; [reflexivity|].
  destruct (Z.eqb k 6); [destruct (subtree_conflict m t || orphan_create m t)|]; cbn; try reflexivity;
    intros H; contradiction H; reflexivity.
Qed.

Lemma transaction_code_range k ab acts m :
  let c := snd (transaction k ab acts m) in 0 <= c <= 4.
Proof.
  unfold transaction. destruct (body k m empty_tx _) as [t|[| |]]; cbn; try lia.
  destruct ab; cbn; [lia|].
  destruct (Z.eqb k 6); [destruct (subtree_conflict m t || orphan_create m t)|]; cbn; lia.
Qed.

Lemma put_state_ver m h s : ver (put_state m h s) = ver m.
Proof. reflexivity. Qed.
Lemma put_cstate_ver m h c : ver (put_cstate m h c) = ver m.
Proof. reflexivity. Qed.

Lemma fold_put_state_ver l : forall m, ver (fold_left (fun m' e => put_state m' (fst e) (snd e)) l m) = ver m.
Proof. induction l as [|e r IH]; intros m; cbn [fold_left]; [reflexivity|]. now rewrite IH. Qed.
Lemma fold_put_cstate_ver l : forall m, ver (fold_left (fun m' e => put_cstate m' (fst e) (snd e)) l m) = ver m.
Proof. induction l as [|e r IH]; intros m; cbn [fold_left]; [reflexivity|]. now rewrite IH. Qed.

Lemma handle_state_updates_ver m t : ver (handle_state_updates m t) = ver m.
Proof. unfold handle_state_updates. now rewrite fold_put_cstate_ver, fold_put_state_ver. Qed.

Lemma commit_states_ver m t :
  ver (commit_states m t) = if (match t_s t, t_c t with [], [] => true | _, _ => false end) then ver m else ver m + 1.
Proof.
  unfold commit_states. destruct (t_s t), (t_c t); try reflexivity;
    now rewrite handle_state_updates_ver.
Qed.

Lemma commit_states_empty m t : t_s t = [] -> t_c t = [] -> commit_states m t = m.
Proof. unfold commit_states. now intros -> ->. Qed.

(* descriptor commit: the version is incremented exactly once *)
Lemma set_descr_ver m h d : ver (set_descr m h d) = ver m.
Proof. reflexivity. Qed.

Lemma rm_one_ver m h : ver (rm_one m h) = ver m.
Proof.
  unfold rm_one.
  set (m1 := set_descr m h None).
  assert (E : forall l m0, ver (fold_left (fun m' ch => match cstates m' ch with
            | Some c => if Z.eqb (c_dh c) h then put_cstate m' ch None else m' | None => m' end) l m0) = ver m0).
  { induction l as [|x r IH]; intros m0; cbn [fold_left]; [reflexivity|]. rewrite IH.
    destruct (cstates m0 x) as [c|]; [destruct (Z.eqb (c_dh c) h)|]; reflexivity. }
  rewrite E. destruct (states m1 h); reflexivity.
Qed.

Lemma fold_rm_one_ver l : forall m, ver (fold_left rm_one l m) = ver m.
Proof. induction l as [|x r IH]; intros m; cbn [fold_left]; [reflexivity|]. now rewrite IH, rm_one_ver. Qed.

Lemma bump_parent_ver m t p : ver (fst (bump_parent m t p)) = ver m.
Proof. unfold bump_parent. destruct (descrs m p); reflexivity. Qed.

Lemma process_item_ver cr up de mtb e : ver (fst (fst (process_item cr up de mtb e))) = ver (fst (fst mtb)).
Proof.
  destruct mtb as [[m t] bumped]. unfold process_item. cbn [fst].
  destruct (snd e) as [d|]; destruct (descrs m (fst e)) as [o|]; cbn [fst]; try reflexivity.
  - (* create *)
    destruct (d_parent d) as [p|]; [|reflexivity].
    destruct (memz p cr || memz p up || memz p bumped); [reflexivity|].
    pose proof (bump_parent_ver (set_descr m (fst e) (Some d)) t p) as B.
    destruct (bump_parent (set_descr m (fst e) (Some d)) t p) as [mb tb]. cbn [fst] in *. exact B.
  - (* delete *)
    destruct (d_parent o) as [p|]; [|cbn [fst]; now rewrite fold_rm_one_ver].
    destruct (memz p de || memz p up || memz p bumped); cbn [fst]; [now rewrite fold_rm_one_ver|].
    pose proof (bump_parent_ver (fold_left rm_one (subtree m (fst e)) m) t p) as B.
    destruct (bump_parent (fold_left rm_one (subtree m (fst e)) m) t p) as [mb tb]. cbn [fst] in *.
    rewrite B. now rewrite fold_rm_one_ver.
Qed.

Lemma fold_process_ver cr up de l : forall mtb,
  ver (fst (fst (fold_left (process_item cr up de) l mtb))) = ver (fst (fst mtb)).
Proof. induction l as [|e r IH]; intros mtb; cbn [fold_left]; [reflexivity|]. now rewrite IH, process_item_ver. Qed.

Lemma commit_descr_ver m t :
  ver (commit_descr m t) = match t_d t with [] => ver m | _ => ver m + 1 end.
Proof.
  unfold commit_descr. destruct (t_d t) as [|e r] eqn:E; [reflexivity|].
  match goal with |- context [fold_left ?f ?l ?a] => destruct (fold_left f l a) as [[m1 t1] b1] eqn:F end.
  rewrite handle_state_updates_ver.
  change m1 with (fst (fst (m1, t1, b1))). rewrite <- F, fold_process_ver. reflexivity.
Qed.

Lemma commit_descr_empty m t : t_d t = [] -> commit_descr m t = m.
Proof. unfold commit_descr. now intros ->. Qed.

(* Every transaction: not committed => the MDIB is untouched; committed => MdibVersion + 1 or (empty
   transaction) the MDIB is untouched. *)
Theorem version_step k ab acts m :
  let m' := fst (transaction k ab acts m) in
  let c := snd (transaction k ab acts m) in
  (c <> 0 -> m' = m) /\ (c = 0 -> ver m' = ver m + 1 \/ m' = m).
Proof.
  cbv zeta. split; [apply transaction_not_committed_noop|].
  unfold transaction. destruct (body k m empty_tx _) as [t|[| |]]; cbn; try discriminate.
  destruct ab; cbn; [discriminate|].
  destruct (Z.eqb k 6); [destruct (subtree_conflict m t || orphan_create m t)|]; cbn; try discriminate; intros _.
  - rewrite commit_descr_ver. destruct (t_d t) eqn:E; [right; now apply commit_descr_empty|now left].
  - rewrite commit_states_ver. destruct (t_s t) eqn:E1, (t_c t) eqn:E2; try (now left).
    right. now apply commit_states_empty.
Qed.

(* ---------------------------------------------------------------- association lists *)
Lemma alist_get_set {A} (l : list (H * A)) h v h' :
  alist_get (alist_set l h v) h' = if Z.eqb h' h then Some v else alist_get l h'.
Proof.
  induction l as [|[k w] r IH]; cbn [alist_set alist_get].
  - destruct (Z.eqb h' h); reflexivity.
  - destruct (Z.eqb_spec h k) as [->|Hne]; cbn [alist_get].
    + destruct (Z.eqb h' k); reflexivity.
    + destruct (Z.eqb_spec h' k) as [->|Hne2].
      * destruct (Z.eqb_spec k h); [congruence|reflexivity].
      * apply IH.
Qed.

Lemma alist_set_keys {A} (l : list (H * A)) h v :
  NoDup (map fst l) -> NoDup (map fst (alist_set l h v)) /\
  (forall k, In k (map fst (alist_set l h v)) <-> k = h \/ In k (map fst l)).
Proof.
  induction l as [|[k w] r IH]; intros Hnd; cbn [alist_set map fst].
  - split; [constructor; [intros []|constructor]|]. intros k. cbn. intuition congruence.
  - inversion Hnd as [|? ? Hk Hr]; subst. destruct (Z.eqb_spec h k) as [->|Hne]; cbn [map fst].
    + split; [assumption|]. intros k'. cbn. intuition congruence.
    + destruct (IH Hr) as [I1 I2]. split.
      * constructor; [|assumption]. rewrite I2. intros [->|Hi]; [congruence|contradiction].
      * intros k'. cbn [In]. rewrite I2. intuition congruence.
Qed.

Lemma alist_get_in {A} (l : list (H * A)) h v :
  NoDup (map fst l) -> In (h, v) l -> alist_get l h = Some v.
Proof.
  induction l as [|[k w] r IH]; intros Hnd Hi; [contradiction|].
  inversion Hnd as [|? ? Hk Hr]; subst. cbn [alist_get].
  destruct Hi as [[= -> ->]|Hi]; [now rewrite Z.eqb_refl|].
  destruct (Z.eqb_spec h k) as [->|_]; [|now apply IH].
  exfalso. apply Hk. now apply (in_map fst) in Hi.
Qed.

Lemma alist_get_some_in {A} (l : list (H * A)) h v : alist_get l h = Some v -> In (h, v) l.
Proof.
  induction l as [|[k w] r IH]; cbn [alist_get]; [discriminate|].
  destruct (Z.eqb_spec h k) as [->|_]; [intros [= ->]; now left|intros E; right; now apply IH].
Qed.

(* ---------------------------------------------------------------- state transactions *)
Definition upd_eq {A} (f : H -> option A) h v h' : upd f h v h' = if Z.eqb h h' then v else f h'.
Proof. reflexivity. Qed.

(* the effect of the commit loop on the single-state table, pointwise *)
Lemma fold_put_state_states l : forall m, NoDup (map fst l) ->
  forall h, states (fold_left (fun m' e => put_state m' (fst e) (snd e)) l m) h =
            match alist_get l h with Some s => Some s | None => states m h end.
Proof.
  induction l as [|[k s] r IH]; intros m Hnd h; cbn [fold_left alist_get]; [reflexivity|].
  inversion Hnd as [|? ? Hk Hr]; subst. rewrite (IH _ Hr). cbn [fst snd put_state states].
  destruct (alist_get r h) as [s'|] eqn:G.
  - destruct (Z.eqb_spec h k) as [->|_]; [|reflexivity].
    exfalso. apply Hk. apply alist_get_some_in in G. now apply (in_map fst) in G.
  - rewrite upd_eq. destruct (Z.eqb_spec h k) as [->|Hne]; [now rewrite Z.eqb_refl|].
    destruct (Z.eqb_spec k h); [congruence|reflexivity].
Qed.

Lemma fold_put_state_frame l : forall m,
  let m' := fold_left (fun m' e => put_state m' (fst e) (snd e)) l m in
  descrs m' = descrs m /\ cstates m' = cstates m /\ sv_d m' = sv_d m /\ sv_c m' = sv_c m /\
  ddom m' = ddom m /\ cdom m' = cdom m.
Proof.
  induction l as [|e r IH]; intros m; cbn [fold_left]; [repeat split|].
  destruct (IH (put_state m (fst e) (snd e))) as (A & B & C & D & E & F).
  cbv zeta in *. rewrite A, B, C, D, E, F. repeat split.
Qed.

Lemma put_state_states m k s h : states (put_state m k s) h = if Z.eqb k h then Some s else states m h.
Proof. reflexivity. Qed.
Lemma put_state_sv m k s h :
  sv_s (put_state m k s) h =
  match states m k with
  | Some o => if Z.eqb k h then Some (s_ver o) else sv_s m h
  | None => sv_s m h
  end.
Proof. unfold put_state. cbn [sv_s]. destruct (states m k); reflexivity. Qed.

Lemma fold_put_state_sv l : forall m, NoDup (map fst l) ->
  forall h, sv_s (fold_left (fun m' e => put_state m' (fst e) (snd e)) l m) h =
            match alist_get l h, states m h with
            | Some _, Some o => Some (s_ver o)
            | _, _ => sv_s m h
            end.
Proof.
  induction l as [|[k s] r IH]; intros m Hnd h; cbn [fold_left alist_get]; [destruct (states m h); reflexivity|].
  inversion Hnd as [|? ? Hk Hr]; subst. rewrite (IH _ Hr). cbn [fst snd].
  rewrite put_state_states, put_state_sv.
  destruct (Z.eqb_spec h k) as [->|Hne].
  - assert (G : alist_get r k = None).
    { destruct (alist_get r k) eqn:G; [|reflexivity]. exfalso. apply Hk.
      apply alist_get_some_in in G. now apply (in_map fst) in G. }
    rewrite G, Z.eqb_refl. destruct (states m k); reflexivity.
  - destruct (Z.eqb_spec k h); [congruence|].
    destruct (alist_get r h), (states m h), (states m k); reflexivity.
Qed.

(* what a state transaction's body builds: every item is the MDIB's state with StateVersion + 1 *)
Definition state_only (acts : list action) : Prop := forall a, In a acts -> exists h p, a = AState h p.

Record stx_ok (k : Z) (m : mdib) (t : tx) : Prop := {
  sx_d : t_d t = [];
  sx_c : t_c t = [];
  sx_nodup : NoDup (map fst (t_s t));
  sx_items : forall h s, In (h, s) (t_s t) ->
      exists o, states m h = Some o /\ s_ver s = s_ver o + 1 /\ s_dver s = s_dver o /\ kind_of m h = Some k
}.

Lemma st_get_ok k m t h p t' : stx_ok k m t -> st_get k m t h p = Ok t' -> stx_ok k m t'.
Proof.
  intros [Hd Hc Hn Hi]. unfold st_get. destruct (alist_has (t_s t) h) eqn:Hh; [discriminate|].
  destruct (states m h) as [o|] eqn:S; [|discriminate].
  destruct (kind_of m h) as [k'|] eqn:K; [|discriminate].
  destruct (Z.eqb_spec k k') as [<-|]; [|discriminate]. intros [= <-].
  destruct (alist_set_keys (t_s t) h (mkState (s_dver o) (s_ver o + 1) p) Hn) as [N1 N2].
  constructor; cbn [t_d t_s t_c]; try assumption.
  intros h' s' Hin. apply (alist_get_in _ _ _ N1) in Hin. rewrite alist_get_set in Hin.
  destruct (Z.eqb_spec h' h) as [->|Hne].
  - injection Hin as <-. exists o. cbn. repeat split; assumption.
  - apply Hi. now apply alist_get_some_in.
Qed.

Lemma empty_stx_ok k m : stx_ok k m empty_tx.
Proof. constructor; cbn; try reflexivity; [constructor|contradiction]. Qed.

Lemma body_state_ok k m : 0 <= k < 5 -> forall acts t t',
  state_only acts -> stx_ok k m t -> body k m t acts = Ok t' -> stx_ok k m t'.
Proof.
  intros Hk acts. induction acts as [|a r IH]; intros t t' Ho Hok; cbn [body].
  - now intros [= <-].
  - destruct (Ho a (or_introl eq_refl)) as (h & p & ->). cbn [apply_action].
    replace (k <? 5) with true by lia.
    destruct (st_get k m t h p) as [t1|e] eqn:G; [|discriminate].
    apply IH; [intros a Ha; apply Ho; now right|]. eapply st_get_ok; eassumption.
Qed.

(* effective version: the version an object has, or the one remembered for its handle *)
Definition ev_s (m : mdib) (h : H) : Z :=
  match states m h with Some s => s_ver s | None => match sv_s m h with Some v => v | None => -1 end end.

(* referential consistency of the single-state table (the third sentence of C02, for states) *)
Definition states_consistent (m : mdib) : Prop :=
  forall h s, states m h = Some s -> exists d, descrs m h = Some d /\ s_dver s = d_ver d.

(* items exist only for handles named by an action *)
Lemma body_state_named k m : 0 <= k < 5 -> forall acts t0 t1,
  state_only acts -> body k m t0 acts = Ok t1 ->
  forall h0, alist_has (t_s t1) h0 = true ->
  alist_has (t_s t0) h0 = true \/ exists p, In (AState h0 p) acts.
Proof.
  intros Hk acts. induction acts as [|a r IH]; intros t0 t1 Ho; cbn [body].
  - intros [= <-] h0 Hh. now left.
  - destruct (Ho a (or_introl eq_refl)) as (hh & pp & ->). cbn [apply_action].
    replace (k <? 5) with true by lia.
    destruct (st_get k m t0 hh pp) as [t2|] eqn:G2; [|discriminate].
    intros B h0 Hh. destruct (IH t2 t1 (fun a Ha => Ho a (or_intror Ha)) B h0 Hh) as [H2|(p & Hp)].
    + unfold st_get in G2. destruct (alist_has (t_s t0) hh); [discriminate|].
      destruct (states m hh); [|discriminate]. destruct (kind_of m hh); [|discriminate].
      destruct (k =? z); [|discriminate]. injection G2 as <-. cbn [t_s] in H2.
      unfold alist_has in H2. rewrite alist_get_set in H2.
      destruct (Z.eqb_spec h0 hh) as [->|]; [right; exists pp; now left|now left].
    + right. exists p. now right.
Qed.

Lemma commit_states_pointwise k m t : stx_ok k m t ->
  (forall h, states (commit_states m t) h =
             match alist_get (t_s t) h with Some s => Some s | None => states m h end) /\
  descrs (commit_states m t) = descrs m /\ cstates (commit_states m t) = cstates m /\
  (forall h, sv_s (commit_states m t) h =
             match alist_get (t_s t) h, states m h with Some _, Some o => Some (s_ver o) | _, _ => sv_s m h end).
Proof.
  intros [Hd Hc Hn Hi]. unfold commit_states. rewrite Hc.
  destruct (t_s t) as [|e r] eqn:E.
  - repeat split; intros; cbn; try reflexivity; try (destruct (states m h); reflexivity).
  - unfold handle_state_updates. rewrite Hc. cbn [fold_left]. rewrite <- E in *.
    destruct (fold_put_state_frame (t_s t) (bump_ver m)) as (A & B & _).
    repeat split.
    + intros h. now rewrite fold_put_state_states.
    + exact A.
    + exact B.
    + intros h. now rewrite fold_put_state_sv.
Qed.

Section StateTx.
  Variables (k : Z) (m : mdib) (acts : list action).
  Hypothesis Hk : 0 <= k < 5.
  Hypothesis Hacts : state_only acts.

  Let m' := fst (transaction k None acts m).

  (* a state transaction either leaves the MDIB untouched or commits a well-formed item list *)
  Lemma state_tx_cases :
    m' = m \/
    exists t, stx_ok k m t /\ m' = commit_states m t /\
              (forall h, alist_has (t_s t) h = true -> exists p, In (AState h p) acts).
  Proof.
    subst m'. unfold transaction.
    destruct (body k m empty_tx acts) as [t|e] eqn:B.
    - right. exists t. replace (k =? 6) with false by lia. cbn. split; [|split].
      + eapply body_state_ok; try eassumption. apply empty_stx_ok.
      + reflexivity.
      + intros h Hh. destruct (body_state_named k m Hk acts empty_tx t Hacts B h Hh) as [H0|H1]; [|exact H1].
        cbn in H0. discriminate.
    - left. destruct e; reflexivity.
  Qed.

  (* frame: a state transaction changes nothing but the states it names *)
  Theorem state_tx_frame :
    descrs m' = descrs m /\ cstates m' = cstates m /\
    (forall h, (forall p, ~ In (AState h p) acts) -> states m' h = states m h).
  Proof.
    destruct state_tx_cases as [->|(t & Hok & -> & Hnamed)]; [repeat split|].
    destruct (commit_states_pointwise k m t Hok) as (S & D & C & _). repeat split; try assumption.
    intros h Hn. rewrite S. destruct (alist_get (t_s t) h) as [s|] eqn:G; [|reflexivity].
    exfalso. destruct (Hnamed h) as (p & Hp); [unfold alist_has; now rewrite G|]. exact (Hn p Hp).
  Qed.

  (* version counters: never decrease; a state that changed has StateVersion + 1 *)
  Theorem state_tx_versions :
    (forall h, ev_s m h <= ev_s m' h) /\
    (forall h s s', states m h = Some s -> states m' h = Some s' -> s' <> s -> s_ver s' = s_ver s + 1).
  Proof.
    destruct state_tx_cases as [->|(t & Hok & -> & _)].
    - split; [intros; lia|]. intros h s s' E1 E2 Hne. rewrite E1 in E2. injection E2 as <-. contradiction.
    - destruct (commit_states_pointwise k m t Hok) as (S & _ & _ & V). split.
      + intros h. unfold ev_s. rewrite S, V.
        destruct (alist_get (t_s t) h) as [s|] eqn:G.
        * apply alist_get_some_in in G. destruct (sx_items _ _ _ Hok _ _ G) as (o & -> & E & _). lia.
        * destruct (states m h); lia.
      + intros h s s' E1 E2 Hne. rewrite S in E2.
        destruct (alist_get (t_s t) h) as [s1|] eqn:G.
        * injection E2 as <-. apply alist_get_some_in in G.
          destruct (sx_items _ _ _ Hok _ _ G) as (o & Eo & E & _). rewrite E1 in Eo. injection Eo as <-. exact E.
        * rewrite E1 in E2. injection E2 as <-. contradiction.
  Qed.

  (* referential consistency is preserved *)
  Theorem state_tx_consistent : states_consistent m -> states_consistent m'.
  Proof.
    intros Hc. destruct state_tx_cases as [->|(t & Hok & -> & _)]; [exact Hc|].
    destruct (commit_states_pointwise k m t Hok) as (S & D & _ & _).
    intros h s. rewrite S, D. destruct (alist_get (t_s t) h) as [s1|] eqn:G; [|apply Hc].
    intros [= <-]. apply alist_get_some_in in G.
    destruct (sx_items _ _ _ Hok _ _ G) as (o & Eo & _ & Ed & _).
    destruct (Hc h o Eo) as (d & Hd & Hv). exists d. split; [assumption|congruence].
  Qed.
End StateTx.

(* ---------------------------------------------------------------- histories *)
Definition txn := (Z * option nat * list action)%type.
Definition exec1 (m : mdib) (x : txn) : mdib :=
  let '(k, ab, acts) := x in fst (transaction k ab acts m).
Definition exec (m : mdib) (hist : list txn) : mdib := fold_left exec1 hist m.

(* a history of state transactions (any of the five kinds, possibly aborted, possibly with rejected calls) *)
Definition state_txn (x : txn) : Prop :=
  let '(k, ab, acts) := x in 0 <= k < 5 /\ state_only acts.

Lemma exec1_state_txn m x : state_txn x ->
  (forall h, ev_s m h <= ev_s (exec1 m x) h) /\
  (states_consistent m -> states_consistent (exec1 m x)) /\
  descrs (exec1 m x) = descrs m /\ cstates (exec1 m x) = cstates m /\
  ver m <= ver (exec1 m x) <= ver m + 1.
Proof.
  destruct x as [[k ab] acts]. intros [Hk Ho]. unfold exec1.
  destruct ab as [n|].
  - (* aborted by the application: never committed *)
    assert (E : fst (transaction k (Some n) acts m) = m).
    { apply transaction_not_committed_noop. unfold transaction.
      destruct (body k m empty_tx (firstn n acts)) as [t|[| |]]; cbn; discriminate. }
    rewrite E. repeat split; auto; lia.
  - destruct (state_tx_versions k m acts Hk Ho) as [V _].
    destruct (state_tx_frame k m acts Hk Ho) as (D & C & _).
    repeat split; auto.
    + now apply state_tx_consistent.
    + destruct (version_step k None acts m) as [N Y]. cbv zeta in *.
      destruct (Z.eq_dec (snd (transaction k None acts m)) 0) as [E|E];
        [destruct (Y E) as [-> | ->]|rewrite (N E)]; lia.
    + destruct (version_step k None acts m) as [N Y]. cbv zeta in *.
      destruct (Z.eq_dec (snd (transaction k None acts m)) 0) as [E|E];
        [destruct (Y E) as [-> | ->]|rewrite (N E)]; lia.
Qed.

Theorem state_history hist : forall m, Forall state_txn hist ->
  (forall h, ev_s m h <= ev_s (exec m hist) h) /\
  (states_consistent m -> states_consistent (exec m hist)) /\
  descrs (exec m hist) = descrs m /\ cstates (exec m hist) = cstates m /\
  ver m <= ver (exec m hist) <= ver m + Z.of_nat (length hist).
Proof.
  induction hist as [|x r IH]; intros m Hf; cbn [exec fold_left length].
  - repeat split; auto; lia.
  - inversion Hf as [|? ? Hx Hr]; subst.
    destruct (exec1_state_txn m x Hx) as (V & C & D & CS & Ve).
    destruct (IH (exec1 m x) Hr) as (V2 & C2 & D2 & CS2 & Ve2). unfold exec in *.
    repeat split.
    + intros h. specialize (V h). specialize (V2 h). lia.
    + auto.
    + congruence.
    + congruence.
    + lia.
    + rewrite Nat2Z.inj_succ. lia.
Qed.

(* every transaction of any kind, over any history: MdibVersion never decreases and grows by at most one
   per transaction; a transaction that is not committed changes nothing *)
Theorem any_history_version hist : forall m,
  ver m <= ver (exec m hist) <= ver m + Z.of_nat (length hist).
Proof.
  induction hist as [|[[k ab] acts] r IH]; intros m; cbn [exec fold_left length]; [lia|].
  specialize (IH (exec1 m (k, ab, acts))). unfold exec in *.
  assert (ver m <= ver (exec1 m (k, ab, acts)) <= ver m + 1).
  { unfold exec1. destruct (version_step k ab acts m) as [N Y]. cbv zeta in *.
    destruct (Z.eq_dec (snd (transaction k ab acts m)) 0) as [E|E];
      [destruct (Y E) as [-> | ->]|rewrite (N E)]; lia. }
  rewrite Nat2Z.inj_succ. lia.
Qed.

(* a transaction whose body raises (at any point) is never committed *)
Lemma abort_never_commits k n acts m :
  snd (transaction k (Some n) acts m) <> 0 /\ fst (transaction k (Some n) acts m) = m.
Proof.
  assert (N : snd (transaction k (Some n) acts m) <> 0).
  { unfold transaction. destruct (body k m empty_tx (firstn n acts)) as [t|[| |]]; cbn; discriminate. }
  split; [exact N|]. now apply transaction_not_committed_noop.
Qed.

(* a rejected API call abandons the transaction whatever follows *)
Lemma rejected_call_noop k m acts1 a acts2 t e :
  body k m empty_tx acts1 = Ok t -> apply_action k m t a = Rej e ->
  fst (transaction k None (acts1 ++ a :: acts2) m) = m /\ snd (transaction k None (acts1 ++ a :: acts2) m) <> 0.
Proof.
  intros B R.
  assert (G : forall l t0 t1, body k m t0 l = Ok t1 -> body k m t0 (l ++ a :: acts2) = body k m t1 (a :: acts2)).
  { induction l as [|x r IH]; intros t0 t1; cbn [body app]; [now intros [= ->]|].
    destruct (apply_action k m t0 x); [apply IH|discriminate]. }
  unfold transaction. rewrite (G _ _ _ B). cbn [body]. rewrite R. destruct e; cbn; split; (reflexivity || discriminate).
Qed.

(* ---------------------------------------------------------------- C04: what a state report carries *)
(* the report of a committed state transaction = its item list with the committed MdibVersion;
   it lists exactly the states the commit changed, each once, with the committed values *)
Theorem state_report_exact k m t : stx_ok k m t ->
  let m' := commit_states m t in
  NoDup (map fst (t_s t)) /\
  (forall h s, In (h, s) (t_s t) -> states m' h = Some s /\ states m h <> Some s) /\
  (forall h, states m' h <> states m h -> exists s, In (h, s) (t_s t)) /\
  (t_s t <> [] -> ver m' = ver m + 1).
Proof.
  intros Hok. cbv zeta. destruct (commit_states_pointwise k m t Hok) as (S & _ & _ & _).
  split; [apply (sx_nodup _ _ _ Hok)|]. split; [|split].
  - intros h s Hi. rewrite S, (alist_get_in _ _ _ (sx_nodup _ _ _ Hok) Hi). split; [reflexivity|].
    destruct (sx_items _ _ _ Hok h s Hi) as (o & -> & E & _). intros [= ->]. lia.
  - intros h Hne. rewrite S in Hne. destruct (alist_get (t_s t) h) as [s|] eqn:G; [|contradiction].
    exists s. now apply alist_get_some_in.
  - intros Hne. rewrite commit_states_ver. destruct (t_s t); [contradiction|reflexivity].
Qed.
